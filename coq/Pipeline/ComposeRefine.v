(** C01: the pipeline's topic interface is satisfied by the REAL composed GoChannel model
    (GoChannel/Compose.v: the registry x one send protocol per subscription, with teardowns, Close,
    persistent replay and every synchronisation of pubsub.go explicit).  As long as subscription x
    is not cancelled and the Pub/Sub is not closed (the labels [x_alive]), every step of the composed
    GoChannel - whatever the other subscriptions, publishers and teardowns do - is a step of the
    abstract topic of Pipeline/TopicModel.v for x: accept (a publication got its Sender), Ack (the
    publication leaves), Nack (it stays), or nothing.  Hence: no loss before the Ack, redelivery
    after a Nack, one copy in flight. *)
From WM Require Import Base.Prelude Message.Model
     GoChannel.Reg GoChannel.RegLocks GoChannel.RegInv GoChannel.RegSend.
From WM Require GoChannel.Compose.
From WM Require Import GoChannel.Sub GoChannel.SubProofs GoChannel.SubInvX GoChannel.SubLive
     GoChannel.SubSpawn Pipeline.TopicModel Pipeline.TopicRefine.

Module C := Compose.

Definition x_alive (x : subid) (l : C.clabel) : bool :=
  match l with C.CReg bl => b_label_ok x bl | C.CSub _ _ => true end.

Definition gabs (x : subid) (c : C.cstate) : list Reg.pubid := abs x (C.cg c, C.ci c x).

Definition glab (x : subid) (c : C.cstate) (l : C.clabel) (c' : C.cstate) : tlabel :=
  match l with
  | C.CReg _ => TAcc (pubs_of x (grown (C.cg c) (C.cg c')))
  | C.CSub y al => if Nat.eqb y x then lab x (C.cg c, C.ci c x) (CA al) (C.cg c', C.ci c' x) else TTau
  end.

Definition GInv (x : subid) (c : C.cstate) : Prop :=
  RegSend.Inv (C.cg c) /\ C.Link c /\ SInv (C.ci c x) /\ Cpl x (C.cg c) (C.ci c x).

Lemma ginv_init x pers blk fx caps fa : GInv x (C.cinit pers blk fx caps fa).
Proof.
  split; [apply inv_init|split; [apply C.link_init|split; [apply sinv_init|]]]. constructor; simpl.
  - intros p H. congruence.
  - intros t p H. discriminate.
  - intros c H. lia.
  - reflexivity.
Qed.

(** spawning Senders and starting the teardown goroutine leave the copies alone *)
Lemma spawn_run_copies ps : forall s, copies (srun s (spawns ps)) = copies s /\ next (srun s (spawns ps)) = next s.
Proof.
  induction ps as [|p ps IH]; intros s; simpl; [now split|].
  destruct (Sub.thr s p); try apply IH. destruct (IH (set_thr s p (SWant p))) as [H1 H2].
  rewrite H1, H2. now split.
Qed.

(** the labels a registry step sends to instance x, when x is neither cancelled nor torn down *)
Lemma own_sync_shape x g bl : b_label_ok x bl = true ->
  (exists ps, C.own x (C.sync g bl) = spawns ps) \/ C.own x (C.sync g bl) = [LTdSpawn].
Proof.
  intros Hok. destruct bl as [t k ms|t|y k|y|p|t|y|y]; simpl; try (left; exists []; reflexivity).
  - destruct (Reg.thr g t) as [| | | | |k [|p rem]| | | | | | | | | |]; try (left; exists []; reflexivity).
    left. eexists. apply C.own_snap.
  - destruct (sb g y); try (left; exists []; reflexivity).
    + unfold C.own. simpl. destruct (Nat.eqb y x); [now right|left; exists []; reflexivity].
    + left. rewrite C.own_replay. destruct (Nat.eqb y x); [eexists; reflexivity|exists []; reflexivity].
  - simpl in Hok. destruct (Reg.td g y); try (left; exists []; reflexivity).
    unfold C.own. simpl. rewrite (Nat.eqb_sym y x) in Hok. rewrite Nat.eqb_sym.
    destruct (Nat.eqb x y); [discriminate|left; exists []; reflexivity].
Qed.

Lemma cpl_of_link x c a' : C.Link c -> C.ci c x = a' ->
  forall p, Sub.thr a' p <> Sub.SNone -> In (p, x) (senders (C.cg c)).
Proof.
  intros L <- p H. apply scnt_pos_In. destruct (scnt p x (senders (C.cg c))) eqn:E; [|lia].
  exfalso. apply H. now apply (C.k_none c L).
Qed.

(** every step of the composed GoChannel that keeps x alive is the abstract topic step [glab] *)
Theorem compose_refines_step x c l c' : GInv x c -> x_alive x l = true -> C.cstep c l = Some c' ->
  GInv x c' /\ tstep (gabs x c) (glab x c l c') = Some (gabs x c').
Proof.
  intros (Ig & L & Ia & K) Hok E.
  assert (Ig' : RegSend.Inv (C.cg c')) by exact (C.cstep_inv c l c' Ig E).
  assert (L' : C.Link c') by exact (C.link_step c l c' Ig L E).
  destruct l as [bl|y al]; simpl in E.
  - (* a registry step, with its synchronised Sub labels *)
    destruct (C.guard c bl); [|discriminate].
    destruct (gstep (C.cg c) bl) as [g'|] eqn:Eg; [|discriminate]. injection E as <-. simpl in *.
    set (a := C.ci c x) in *.
    assert (Ea' : C.apply_sync (C.ci c) (C.sync (C.cg c) bl) x = srun a (C.own x (C.sync (C.cg c) bl)))
      by apply C.apply_sync_proj.
    set (a' := C.apply_sync (C.ci c) (C.sync (C.cg c) bl) x) in *.
    assert (Ia' : SInv a') by (rewrite Ea'; now apply srun_inv).
    assert (Hsame : copies a' = copies a /\ next a' = next a
                    /\ woken (Sub.td a') = false
                    /\ (forall t p, pub_of (Sub.thr a' t) = Some p -> p = t)).
    { rewrite Ea'. destruct (own_sync_shape x (C.cg c) bl Hok) as [[ps ->]| ->].
      - destruct (spawn_run_copies ps a) as [H1 H2]. split; [exact H1|split; [exact H2|split]].
        + rewrite spawn_run_td. apply (k_td _ _ _ K).
        + intros t p Hp. destruct (Sub.thr a t) eqn:Et.
          * destruct (in_dec Nat.eq_dec t ps) as [Hin|Hnin].
            -- rewrite (spawn_run_new ps a t Et Hin) in Hp. simpl in Hp. congruence.
            -- rewrite (spawn_run_other ps a t (or_intror Hnin)), Et in Hp. discriminate.
          * rewrite spawn_run_other in Hp by (left; congruence). now apply (k_pub _ _ _ K t).
          * rewrite spawn_run_other in Hp by (left; congruence). now apply (k_pub _ _ _ K t).
          * rewrite spawn_run_other in Hp by (left; congruence). now apply (k_pub _ _ _ K t).
          * rewrite spawn_run_other in Hp by (left; congruence). now apply (k_pub _ _ _ K t).
          * rewrite spawn_run_other in Hp by (left; congruence). now apply (k_pub _ _ _ K t).
          * rewrite spawn_run_other in Hp by (left; congruence). now apply (k_pub _ _ _ K t).
      - simpl. pose proof (k_td _ _ _ K) as Hw. fold a in Hw.
        destruct (Sub.td a) eqn:Etd; simpl; try discriminate Hw;
          (split; [reflexivity|split; [reflexivity|split; [simpl; rewrite ?Etd; reflexivity|]]]);
          simpl; apply (k_pub _ _ _ K). }
    destruct Hsame as (Hc & Hn & Hw & Hp).
    pose proof (grown_spec (C.cg c) bl g' Eg) as Egrow.
    destruct (accept_abs x (C.cg c) a g' a' (grown (C.cg c) g') Ia K Ig' Egrow Hc Hn) as [_ Ht].
    split; [|exact Ht].
    split; [exact Ig'|split; [exact L'|split; [exact Ia'|]]]. constructor.
    + now apply (cpl_of_link x _ a' L').
    + exact Hp.
    + intros cc Hcc. simpl in *. fold a'. fold a' in Hcc. rewrite Hc. apply (k_copy _ _ _ K). rewrite Hn in Hcc. exact Hcc.
    + exact Hw.
  - (* a step of one send-protocol instance *)
    destruct (C.free_sub al) eqn:Hf; [|discriminate].
    destruct (sstep (C.ci c y) al) as [s'|] eqn:Es; [|discriminate]. injection E as <-. simpl in *.
    unfold gabs, glab. simpl. destruct (Nat.eq_dec y x) as [->|Hne].
    + rewrite Nat.eqb_refl, upd_same.
      assert (Hal : a_label_ok al = true).
      { destruct al; try reflexivity; try discriminate Hf.
        exfalso. simpl in Es. pose proof (k_td _ _ _ K) as Hw.
        destruct (Sub.td (C.ci c x)); try discriminate Es; discriminate Hw. }
      split.
      * split; [exact Ig|split; [exact L'|]]. simpl. rewrite upd_same.
        split; [eapply sstep_inv; eassumption|]. eapply cpl_a_step; eassumption.
      * now apply refine_a_step.
    + replace (Nat.eqb y x) with false by (symmetry; now apply Nat.eqb_neq).
      rewrite upd_other by congruence. split; [|reflexivity].
      split; [exact Ig|split; [exact L'|]]. simpl. rewrite upd_other by congruence. now split.
Qed.

(** runs: abstract trace and replay *)
Fixpoint grun_alive (x : subid) (c : C.cstate) (ls : list C.clabel) : C.cstate :=
  match ls with
  | [] => c
  | l :: ls' => if x_alive x l then
                  match C.cstep c l with Some c' => grun_alive x c' ls' | None => grun_alive x c ls' end
                else grun_alive x c ls'
  end.
Fixpoint gtrace (x : subid) (c : C.cstate) (ls : list C.clabel) : list tlabel :=
  match ls with
  | [] => []
  | l :: ls' => if x_alive x l then
                  match C.cstep c l with
                  | Some c' => glab x c l c' :: gtrace x c' ls'
                  | None => gtrace x c ls'
                  end
                else gtrace x c ls'
  end.

Theorem compose_refines_run x ls : forall c, GInv x c ->
  GInv x (grun_alive x c ls) /\ treplay (gabs x c) (gtrace x c ls) = Some (gabs x (grun_alive x c ls)).
Proof.
  induction ls as [|l ls IH]; intros c HI; simpl; [split; [exact HI|reflexivity]|].
  destruct (x_alive x l) eqn:Hok; [|now apply IH].
  destruct (C.cstep c l) as [c'|] eqn:E; [|now apply IH].
  destruct (compose_refines_step x c l c' HI Hok E) as [HI' Ht]. simpl. rewrite Ht. now apply IH.
Qed.

Corollary compose_topic_refines x pers blk fx caps fa ls :
  let c0 := C.cinit pers blk fx caps fa in
  treplay [] (gtrace x c0 ls) = Some (gabs x (grun_alive x c0 ls)).
Proof. intros c0. now destruct (compose_refines_run x ls c0 (ginv_init x pers blk fx caps fa)). Qed.

(** * the interface the pipeline theorems assume, as properties of the composed GoChannel *)

(** no loss before the Ack: a pending publication stays pending across every step except the
    consumer's Ack of one of its copies *)
Lemma tstep_keeps pend l pend' p : tstep pend l = Some pend' -> In p pend ->
  In p pend' \/ l = TAck p.
Proof.
  intros H Hin. destruct l as [ps|q|q|]; simpl in H.
  - destruct (nodupb ps && disjointb ps pend); [|discriminate]. injection H as <-.
    left. apply in_or_app. now right.
  - destruct (mem q pend); [|discriminate]. injection H as <-.
    destruct (Nat.eq_dec p q) as [->|Hne]; [now right|left].
    apply filter_In. split; [exact Hin|]. apply negb_true_iff. now apply Nat.eqb_neq.
  - destruct (mem q pend); [|discriminate]. injection H as <-. now left.
  - injection H as <-. now left.
Qed.

Theorem compose_no_loss_before_ack x c l c' p : GInv x c -> x_alive x l = true ->
  C.cstep c l = Some c' -> In p (gabs x c) ->
  In p (gabs x c')
  \/ exists cc, l = C.CSub x (LAck cc) /\ c_st (copies (C.ci c x) cc) = Unsettled
                /\ c_pub (copies (C.ci c x) cc) = p.
Proof.
  intros HI Hok E Hin. destruct (compose_refines_step x c l c' HI Hok E) as [_ Ht].
  destruct (tstep_keeps _ _ _ p Ht Hin) as [H|H]; [now left|right].
  destruct l as [bl|y al]; simpl in H; [discriminate|].
  destruct (Nat.eqb y x) eqn:Ey; [|discriminate]. apply Nat.eqb_eq in Ey. subst y.
  destruct al; simpl in H; try discriminate.
  - destruct (c_st (copies (C.ci c x) c0)) eqn:Est; try discriminate. injection H as H.
    exists c0. now repeat split.
  - destruct (c_st (copies (C.ci c x) c0)); discriminate.
Qed.

(** redelivery after a Nack: the Sender that waits on a Nacked copy can take its next two steps
    in the composed system, and then offers a FRESH, unsettled copy of the same publication *)
Theorem compose_redelivers_after_nack x c t p cc : GInv x c ->
  Sub.thr (C.ci c x) t = SWait p cc -> c_st (copies (C.ci c x) cc) = Nacked ->
  exists c1, C.cstep c (C.CSub x (LSeeNacked t)) = Some c1
    /\ exists c2, C.cstep c1 (C.CSub x (LStep t)) = Some c2
       /\ Sub.thr (C.ci c2 x) t = SSend p (next (C.ci c x))
       /\ c_pub (copies (C.ci c2 x) (next (C.ci c x))) = p
       /\ c_st (copies (C.ci c2 x) (next (C.ci c x))) = Unsettled.
Proof.
  intros (_ & _ & Ia & K) Et Hn.
  destruct (redelivery_after_nack _ _ _ _ Ia Et Hn) as (s1 & E1 & Eh & Hnext).
  assert (Hcl : closedf s1 = false /\ fixed s1 && closing s1 = false /\ next s1 = next (C.ci c x)).
  { simpl in E1. rewrite Et, Hn in E1. injection E1 as <-. simpl.
    pose proof (k_td _ _ _ K) as Hw.
    destruct (v_closed _ Ia) as [Hc1 _]. rewrite Hc1, (v_closing _ Ia).
    destruct (Sub.td (C.ci c x)); try discriminate Hw; simpl; rewrite ?andb_false_r; auto. }
  destruct Hcl as (H1 & H2 & H3). destruct (Hnext H1 H2) as (s2 & E2 & G1 & G2 & G3).
  exists (C.CS (C.cg c) (upd (C.ci c) x s1) (C.csnap c)).
  split; [unfold C.cstep; change (C.free_sub (LSeeNacked t)) with true; cbv iota; now rewrite E1|].
  exists (C.CS (C.cg c) (upd (upd (C.ci c) x s1) x s2) (C.csnap c)).
  split; [unfold C.cstep; change (C.free_sub (LStep t)) with true; cbv iota; cbn [C.ci C.cg C.csnap];
          now rewrite upd_same, E2|].
  cbn [C.ci]. rewrite upd_same, <- H3. now repeat split.
Qed.

(** one copy in flight *)
Theorem compose_one_in_flight x c : GInv x c -> length (outstanding (C.ci c x)) <= 1.
Proof. intros (Ig & _ & Ia & K). apply (topic_one_in_flight x (C.cg c, C.ci c x)). split; [exact Ig|split; [exact Ia|exact K]]. Qed.
