(** C01: every run of the CLOSED product (only the topics' own Sender / hand-over / receive steps
    and Router steps) under an eventually-clean fault script is finite. *)
From Coq Require Import Permutation Wellfounded.
From WM Require Import Base.Prelude Message.Model Handler.RouterHandle Handler.RouterProofs
     GoChannel.Reg GoChannel.RegLocks GoChannel.RegSend
     GoChannel.Sub GoChannel.SubProofs GoChannel.SubInvX GoChannel.SubLive GoChannel.SubMeasure
     Pipeline.TopicModel Pipeline.TopicRefine Pipeline.Model Pipeline.Proofs Pipeline.Final
     Pipeline.ProductModel Pipeline.ProductProofs Pipeline.ProductTerm.

Lemma spawn_all_sx ps : forall a a', SX a -> spawn_all a ps = Some a' -> SX a'.
Proof.
  induction ps as [|p ps IH]; intros a a' X E; simpl in E; [now injection E as <-|].
  destruct (spawn_all a ps) as [a1|] eqn:E1; [|discriminate].
  apply (sx_step a1 (LSpawn p p) a'); [eapply IH; eassumption|exact E].
Qed.

Lemma pub_all_sx x bls : forall st st' acc, SX (snd st) -> pub_all x st bls = Some (st', acc) -> SX (snd st').
Proof.
  induction bls as [|bl r IH]; intros st st' acc X E; simpl in E; [now injection E as <- _|].
  destruct (cstep x st (CB bl)) as [st1|] eqn:E1; [|discriminate].
  destruct (pub_all x st1 r) as [[st2 acc2]|] eqn:E2; [|discriminate]. injection E as <- _.
  eapply IH; [|exact E2]. destruct st as [g a]. simpl in E1.
  destruct (b_label_ok x bl); [|discriminate]. destruct (gstep g bl) as [g'|]; [|discriminate].
  destruct (spawn_all a (pubs_of x (grown g g'))) as [a'|] eqn:Es; [|discriminate]. injection E1 as <-.
  simpl. eapply spawn_all_sx; eassumption.
Qed.

Section Closed.
  Context {M : Type}.
  Variable hf : nat -> M -> list M.
  Variable eqbM : M -> M -> bool.
  Hypothesis eqbM_spec : forall a b, eqbM a b = true <-> a = b.
  Variables (x : subid) (k : nat) (sc : script) (srcs : list M).
  Hypothesis k_pos : 0 < k.
  Notation xstate := (xstate M).
  Notation xstep := (xstep hf x k sc srcs).

  Definition XXInv (xs : xstate) : Prop := forall t, t < k -> XInv (snd (xtop xs t)).

  (** a Router step keeps the send-loop invariants of every topic *)
  Lemma handle_xxinv xs t c bls xs' : (forall u, u < k -> CInv x (xtop xs u)) -> XXInv xs ->
    xstep xs (XHandle t c bls) = Some xs' -> XXInv xs'.
  Proof.
    intros HC HX E. simpl in E.
    destruct (Nat.ltb t k) eqn:Ht; [|discriminate]. apply Nat.ltb_lt in Ht.
    destruct (xtop xs t) as [g a] eqn:Et.
    destruct (c_recv (copies a c) && _); [|discriminate].
    destruct (rt_handle _ _) as [w tr].
    destruct (sstep a _) as [a'|] eqn:Es; [|discriminate].
    assert (Xa : SX a) by (pose proof (HC t Ht) as (_ & Ia & _); pose proof (HX t Ht) as Hx;
                           rewrite Et in *; now split).
    assert (Xa' : XInv a') by (apply (sx_step _ _ _ Xa Es)).
    change (match k with 0 => false | S m' => Nat.eqb t m' end) with (Nat.eqb (S t) k) in E.
    destruct (Nat.eqb (S t) k) eqn:Ek.
    - destruct bls; [|discriminate]. injection E as <-. intros u Hu. simpl.
      destruct (Nat.eq_dec u t) as [->|Hne]; [now rewrite upd_same|]. rewrite upd_other by exact Hne. now apply HX.
    - apply Nat.eqb_neq in Ek.
      destruct (pub_all x (xtop xs (S t)) bls) as [[st1 acc]|] eqn:Ep; [|discriminate].
      destruct (Nat.eqb (length acc) _); [|discriminate]. injection E as <-. intros u Hu. simpl.
      destruct (Nat.eq_dec u (S t)) as [->|Hne1].
      + rewrite upd_same. apply (pub_all_sx x bls _ _ _) in Ep; [apply Ep|].
        pose proof (HC (S t) Hu) as (_ & Ia & _). split; [exact Ia|now apply HX].
      + rewrite upd_other by exact Hne1.
        destruct (Nat.eq_dec u t) as [->|Hne]; [now rewrite upd_same|]. rewrite upd_other by exact Hne. now apply HX.
  Qed.

  (** the closed product: in-between steps of the topics and Router steps, nothing else *)
  Definition closed_label (l : xlabel) : bool := between l || is_handle l.
  Definition csucc (b a : xstate) : Prop := exists l, closed_label l = true /\ xstep a l = Some b.

  Lemma binv_of xs st : XR x k srcs xs st -> XXInv xs -> BInv x k xs.
  Proof. intros R HX t Ht. split; [apply (r_inv _ _ _ _ _ R t Ht)|now apply HX]. Qed.

  Theorem closed_product_acc st : Acc (psucc hf eqbM rt_handle k sc) st ->
    forall xs, XR x k srcs xs st -> XXInv xs -> Acc csucc xs.
  Proof.
    induction 1 as [st _ IHo]. intros xs.
    induction xs as [xs IHi] using (well_founded_induction (wf_inverse_image _ _ _ (nux x k) lt_wf)).
    intros R HX. constructor. intros b (l & Hl & E).
    destruct (xsim_step hf eqbM eqbM_spec x k sc srcs k_pos xs st l b R E) as (st' & Hm & R').
    unfold closed_label in Hl. apply orb_true_iff in Hl as [Hb|Hh].
    - (* an in-between step: same abstract state, smaller nux *)
      destruct (between_step_decreases hf x k sc srcs xs l b (binv_of xs st R HX) Hb E) as [Hn HB'].
      destruct l as [t cl|bls|t c bls]; try discriminate Hb. subst st'.
      apply IHi; [exact Hn|exact R'|]. intros u Hu. apply (HB' u Hu).
    - (* a Router step: one abstract step *)
      destruct l as [t cl|bls|t c bls]; try discriminate Hh. destruct Hm as [pl Hp].
      apply (IHo st'); [exists pl; exact Hp|exact R'|].
      eapply handle_xxinv; [|exact HX|exact E]. intros u Hu. apply (r_inv _ _ _ _ _ R u Hu).
  Qed.

  (** every run of the closed product under an eventually-clean fault script is finite *)
  Theorem closed_product_terminates_partial : eventually_clean k sc ->
    forall xs st, XR x k srcs xs st -> XXInv xs -> Acc csucc xs.
  Proof.
    intros [B HB] xs st R HX. eapply closed_product_acc; [|exact R|exact HX].
    eapply (acc_all hf eqbM rt_handle eqbM_spec (@rth_final M) (@rth_publishes M) k sc B HB).
  Qed.
End Closed.
