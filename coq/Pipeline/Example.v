(** C01: a concrete run (used by the Example in Props/C01.v). *)
From WM Require Import Base.Prelude Message.Model Handler.RouterHandle Pipeline.Model Corr.C01.

Definition ex_fans := [[2]; [1]].
Definition ex_script := [[FPub 1 false]; [FNone; FPanic]].
Definition ex_sched : list (plabel cm) :=
  [(0, (7%N, [])); (1, (7%N, [0%N])); (0, (7%N, [])); (1, (7%N, [0%N])); (1, (7%N, [0%N]));
   (1, (7%N, [1%N])); (0, (8%N, [])); (1, (8%N, [1%N])); (1, (8%N, [0%N]))].

Lemma c01_witness :
  let st := prun (chf ex_fans) cm_eqb rt_handle 2 (sc_of ex_script) (pinit [(7%N, []); (8%N, [])]) ex_sched in
  topic st 2 = [(7, [0; 0]); (7, [0; 0]); (7, [1; 0]); (8, [1; 0]); (8, [0; 0])]%N
  /\ quiescentb 2 st = true
  /\ map (fun d => (d_stage d, d_call d, d_final d)) (dlog st)
     = [(0, 0, Nacked); (1, 0, Acked); (0, 1, Acked); (1, 1, Nacked); (1, 2, Acked); (1, 3, Acked);
        (0, 2, Acked); (1, 4, Acked); (1, 5, Acked)]
  /\ dup_budget (chf ex_fans) 2 (dlog st) = 1
  /\ length (expected_sink (chf ex_fans) 2 [(7%N, []); (8%N, [])]) = 4.
Proof. vm_compute. repeat split; reflexivity. Qed.
