(** C01: the steps BETWEEN two Router steps of the product are bounded.  For the send loop of one
    topic (Layer A) the measure of GoChannel/SubMeasure.v decreases on every Sender / hand-over
    step and is untouched by the consumer's receive; with the buffer length added, every "inner"
    step (a Sender step, a hand-over, a receive from the buffer) strictly decreases
    [nu T a = 2 * measure T a + |buf a|].  Lifted to the product: every closed in-between step
    [XInt t (CA l)] decreases the sum over the topics. *)
From WM Require Import Base.Prelude Message.Model Handler.RouterHandle
     GoChannel.Reg GoChannel.RegLocks GoChannel.RegSend
     GoChannel.Sub GoChannel.SubProofs GoChannel.SubInvX GoChannel.SubLive GoChannel.SubMeasure
     Pipeline.TopicModel Pipeline.TopicRefine Pipeline.Model Pipeline.Proofs Pipeline.ProductModel.

Definition inner (l : label) : bool :=
  match l with
  | LStep _ | LSendBuf _ | LHandoff _ | LSeeClosing _ | LSeeAcked _ | LSeeNacked _ | LRecv => true
  | _ => false
  end.

Definition nu (T : list tid) (a : sstate) : nat := 2 * measure T a + length (buf a).

Lemma inner_buf a l a' : inner l = true -> sstep a l = Some a' ->
  match l with
  | LRecv => S (length (buf a')) = length (buf a)
  | _ => length (buf a') <= S (length (buf a))
  end.
Proof.
  intros Hi E. destruct l as [t p|  | | |t|t|t|t|t|t| |c|c]; try discriminate Hi; simpl in E;
    sstep_cases E; simpl; rewrite ?app_length; simpl;
    repeat match goal with H : buf _ = _ |- _ => rewrite H end; simpl; lia.
Qed.

Theorem inner_step_decreases T a l a' : SX a -> covers T a -> inner l = true ->
  sstep a l = Some a' -> nu T a' < nu T a /\ SX a' /\ covers T a'.
Proof.
  intros X Hc Hi E. pose proof (inner_buf a l a' Hi E) as Hb.
  assert (X' : SX a') by (eapply sx_step; eassumption).
  destruct l as [t p|  | | |t|t|t|t|t|t| |c|c]; try discriminate Hi.
  all: try (match type of E with sstep _ ?l = _ =>
              destruct (moving_step_decreases T a l a' X Hc eq_refl E) as (Hm & _ & Hc') end;
            split; [unfold nu; lia|split; [exact X'|exact Hc']]).
  (* LRecv *)
  pose proof (recv_ack_measure T a LRecv a' (or_introl eq_refl) E) as Hm.
  split; [unfold nu; lia|split; [exact X'|]].
  intros y Hy. apply Hc. destruct (sstep_started a LRecv a' y E Hy) as [H|[p H]]; [exact H|discriminate].
Qed.

(** the number of steps a label list takes *)
Fixpoint scount (a : sstate) (ls : list label) : nat :=
  match ls with
  | [] => 0
  | l :: ls' => match sstep a l with Some a' => S (scount a' ls') | None => scount a ls' end
  end.

Theorem inner_run_bounded T ls : Forall (fun l => inner l = true) ls ->
  forall a, SX a -> covers T a -> scount a ls <= nu T a.
Proof.
  induction 1 as [|l ls Hl _ IH]; intros a X Hc; simpl; [lia|].
  destruct (sstep a l) as [a'|] eqn:E; [|now apply IH].
  destruct (inner_step_decreases T a l a' X Hc Hl E) as (Hn & X' & Hc'). specialize (IH a' X' Hc'). lia.
Qed.

(** * lifted to the product *)
Section Between.
  Context {M : Type}.
  Variable hf : nat -> M -> list M.
  Variable x : subid.
  Variable k : nat.
  Variable sc : script.
  Variable srcs : list M.
  Notation xstate := (xstate M).
  Notation xstep := (xstep hf x k sc srcs).

  (** the Sender threads of topic t are the publications that have a Sender for x *)
  Definition Tt (xs : xstate) (t : nat) : list tid := pubs_of x (senders (fst (xtop xs t))).
  Definition nux (xs : xstate) : nat :=
    list_sum (map (fun t => nu (Tt xs t) (snd (xtop xs t))) (seq 0 k)).
  Definition BInv (xs : xstate) : Prop :=
    forall t, t < k -> CInv x (xtop xs t) /\ XInv (snd (xtop xs t)).

  (** a closed in-between step: a Sender step, a hand-over or a receive at some topic *)
  Definition between (l : xlabel) : bool :=
    match l with XInt _ (CA al) => inner al | _ => false end.

  Theorem between_step_decreases xs l xs' : BInv xs -> between l = true ->
    xstep xs l = Some xs' -> nux xs' < nux xs /\ BInv xs'.
  Proof.
    intros HB Hl E. destruct l as [t [bl|al]|bls|t c bls]; try discriminate Hl. simpl in Hl, E.
    destruct (Nat.ltb t k) eqn:Ht; [|discriminate]. apply Nat.ltb_lt in Ht.
    destruct (HB t Ht) as [HI HX]. destruct (xtop xs t) as [g a] eqn:Et. simpl in *.
    destruct (a_label_ok al) eqn:Hok; [|discriminate].
    destruct (sstep a al) as [a'|] eqn:Es; [|discriminate].
    destruct (is_quiet_lab _); [|discriminate]. injection E as <-.
    assert (Ecs : cstep x (g, a) (CA al) = Some (g, a')) by (simpl; now rewrite Hok, Es).
    destruct (crefine_step x (g, a) _ _ HI Ecs) as [HI' _].
    destruct HI as (Ig & Ia & K).
    assert (Hc : covers (pubs_of x (senders g)) a).
    { intros p Hp. apply in_pubs_of. now apply (k_thr _ _ _ K). }
    destruct (inner_step_decreases _ a al a' (conj Ia HX) Hc Hl Es) as (Hn & [_ HX'] & _).
    split.
    - unfold nux.
      pose proof (sum_change (fun u => nu (Tt xs u) (snd (xtop xs u)))
                             (fun u => nu (Tt (set_top xs t (g, a')) u) (snd (xtop (set_top xs t (g, a')) u)))
                             t (seq 0 k) (seq_NoDup _ _) ltac:(apply in_seq; lia)) as HS.
      cbv beta in HS. unfold Tt in HS. simpl in HS. rewrite upd_same, Et in HS. simpl in HS.
      assert (Hoth : forall u, u <> t ->
                nu (pubs_of x (senders (fst (upd (xtop xs) t (g, a') u)))) (snd (upd (xtop xs) t (g, a') u))
                = nu (pubs_of x (senders (fst (xtop xs u)))) (snd (xtop xs u))).
      { intros u Hu. now rewrite upd_other. }
      specialize (HS Hoth). unfold Tt. simpl. lia.
    - intros u Hu. simpl. destruct (Nat.eq_dec u t) as [->|Hne].
      + rewrite upd_same. simpl. now split.
      + rewrite upd_other by exact Hne. now apply HB.
  Qed.

  (** hence: however the closed in-between steps are scheduled, at most [nux xs] of them are taken
      before the next Router step (or source publish) *)
  Fixpoint xcount (xs : xstate) (ls : list xlabel) : nat :=
    match ls with
    | [] => 0
    | l :: ls' => match xstep xs l with Some xs' => S (xcount xs' ls') | None => xcount xs ls' end
    end.

  Theorem between_run_bounded ls : Forall (fun l => between l = true) ls ->
    forall xs, BInv xs -> xcount xs ls <= nux xs.
  Proof.
    induction 1 as [|l ls Hl _ IH]; intros xs HB; simpl; [lia|].
    destruct (xstep xs l) as [xs'|] eqn:E; [|now apply IH].
    destruct (between_step_decreases xs l xs' HB Hl E) as [Hn HB']. specialize (IH xs' HB'). lia.
  Qed.
End Between.
