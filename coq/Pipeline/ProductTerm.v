(** C01: the steps BETWEEN two Router steps of the product are bounded.  For the send loop of one
    topic (Layer A) the measure of GoChannel/SubMeasure.v decreases on every Sender / hand-over
    step and is untouched by the consumer's receive; with the buffer length added, every "inner"
    step (a Sender step, a hand-over, a receive from the buffer) strictly decreases
    [nu T a = 2 * measure T a + |buf a|].  Lifted to the product: every closed in-between step
    [XInt t (CA l)] decreases the sum over the topics. *)
From WM Require Import Base.Prelude Message.Model Handler.RouterHandle
     GoChannel.Reg GoChannel.RegLocks GoChannel.RegSend
     GoChannel.Sub GoChannel.SubProofs GoChannel.SubInvX GoChannel.SubLive GoChannel.SubMeasure
     Pipeline.TopicModel Pipeline.TopicRefine Pipeline.Model Pipeline.Proofs Pipeline.ProductModel.

Definition inner (l : label) : bool :=
  match l with
  | LStep _ | LSendBuf _ | LHandoff _ | LSeeClosing _ | LSeeAcked _ | LSeeNacked _ | LRecv => true
  | _ => false
  end.

Definition nu (T : list tid) (a : sstate) : nat := 2 * measure T a + length (buf a).

Lemma inner_buf a l a' : inner l = true -> sstep a l = Some a' ->
  match l with
  | LRecv => S (length (buf a')) = length (buf a)
  | _ => length (buf a') <= S (length (buf a))
  end.
Proof.
  intros Hi E. destruct l as [t p|  | | |t|t|t|t|t|t| |c|c]; try discriminate Hi; simpl in E;
    sstep_cases E; simpl; rewrite ?app_length; simpl;
    repeat match goal with H : buf _ = _ |- _ => rewrite H end; simpl; lia.
Qed.

Theorem inner_step_decreases T a l a' : SX a -> covers T a -> inner l = true ->
  sstep a l = Some a' -> nu T a' < nu T a /\ SX a' /\ covers T a'.
Proof.
  intros X Hc Hi E. pose proof (inner_buf a l a' Hi E) as Hb.
  assert (X' : SX a') by (eapply sx_step; eassumption).
  destruct l as [t p|  | | |t|t|t|t|t|t| |c|c]; try discriminate Hi.
  all: try (match type of E with sstep _ ?l = _ =>
              destruct (moving_step_decreases T a l a' X Hc eq_refl E) as (Hm & _ & Hc') end;
            split; [unfold nu; lia|split; [exact X'|exact Hc']]).
  (* LRecv *)
  pose proof (recv_ack_measure T a LRecv a' (or_introl eq_refl) E) as Hm.
  split; [unfold nu; lia|split; [exact X'|]].
  intros y Hy. apply Hc. destruct (sstep_started a LRecv a' y E Hy) as [H|[p H]]; [exact H|discriminate].
Qed.

(** the number of steps a label list takes *)
Fixpoint scount (a : sstate) (ls : list label) : nat :=
  match ls with
  | [] => 0
  | l :: ls' => match sstep a l with Some a' => S (scount a' ls') | None => scount a ls' end
  end.

Theorem inner_run_bounded T ls : Forall (fun l => inner l = true) ls ->
  forall a, SX a -> covers T a -> scount a ls <= nu T a.
Proof.
  induction 1 as [|l ls Hl _ IH]; intros a X Hc; simpl; [lia|].
  destruct (sstep a l) as [a'|] eqn:E; [|now apply IH].
  destruct (inner_step_decreases T a l a' X Hc Hl E) as (Hn & X' & Hc'). specialize (IH a' X' Hc'). lia.
Qed.
