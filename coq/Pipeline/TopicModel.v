(** C01, link to the GoChannel layers: the composition of Layer B (GoChannel/Reg.v, the
    registry: Publish / Subscribe / teardown / Close over all topics) with Layer A
    (GoChannel/Sub.v, the send loop of ONE subscription x), and the abstract topic of
    Pipeline/Model.v as a transition system over publication ids.

    Composition: whenever a Layer-B step spawns Senders for subscription x (the snapshot step of
    Publish, or the persistent replay), Layer A starts one Sender thread per new (p, x); the
    thread id is the publication id (legitimate because Layer B never spawns two Senders for one
    pair - [RegSend.sender_unique] - which is exactly what [TopicRefine.spawn_enabled] needs).
    "Always registered": the composed system has no cancel of x, no teardown of x, no Close.
    No proofs here. *)
From WM Require Import Base.Prelude Message.Model GoChannel.Reg GoChannel.Sub.

Definition for_sub (x : subid) (q : Reg.pubid * subid) : bool := Nat.eqb (snd q) x.
(** publications that have a Sender for subscription x, most recent first *)
Definition pubs_of (x : subid) (l : list (Reg.pubid * subid)) : list Reg.pubid :=
  map fst (filter (for_sub x) l).
(** the Senders a Layer-B step added ([senders] only grows, at the front) *)
Definition grown (g g' : gstate) : list (Reg.pubid * subid) :=
  firstn (length (senders g') - length (senders g)) (senders g').

Fixpoint spawn_all (a : sstate) (ps : list Reg.pubid) : option sstate :=
  match ps with
  | [] => Some a
  | p :: ps' => match spawn_all a ps' with Some a1 => sstep a1 (LSpawn p p) | None => None end
  end.

Inductive clabel := CB (l : glabel) | CA (l : label).

Definition b_label_ok (x : subid) (l : glabel) : bool :=
  match l with
  | GClose _ => false
  | GCancel y | GD y => negb (Nat.eqb y x)
  | _ => true
  end.
Definition a_label_ok (l : label) : bool :=
  match l with LSpawn _ _ | LTdSpawn | LTdWake | LTdStep => false | _ => true end.

Definition cstate := (gstate * sstate)%type.

Definition cstep (x : subid) (st : cstate) (l : clabel) : option cstate :=
  let '(g, a) := st in
  match l with
  | CB bl =>
      if b_label_ok x bl then
        match gstep g bl with
        | Some g' => match spawn_all a (pubs_of x (grown g g')) with
                     | Some a' => Some (g', a')
                     | None => None          (* a second Sender for the same (p, x): never happens *)
                     end
        | None => None
        end
      else None
  | CA al => if a_label_ok al then match sstep a al with Some a' => Some (g, a') | None => None end
             else None
  end.

Fixpoint crun (x : subid) (st : cstate) (ls : list clabel) : cstate :=
  match ls with
  | [] => st
  | l :: ls' => match cstep x st l with Some st' => crun x st' ls' | None => crun x st ls' end
  end.

Definition cinit (pers blk fx : bool) (cap0 : nat) (sfx : bool) : cstate :=
  (ginit pers blk fx, sinit cap0 sfx).

(** ** the abstract topic of Pipeline/Model.v, over publication ids *)
Inductive tlabel :=
| TAcc (ps : list Reg.pubid)     (* the topic accepted these publications *)
| TAck (p : Reg.pubid)           (* an attempt of pending publication p ended in an Ack: p leaves *)
| TNack (p : Reg.pubid)          (* an attempt of pending publication p ended in a Nack: p stays *)
| TTau.

Definition tstep (pend : list Reg.pubid) (l : tlabel) : option (list Reg.pubid) :=
  match l with
  | TAcc ps => if nodupb ps && disjointb ps pend then Some (ps ++ pend) else None
  | TAck p => if mem p pend then Some (filter (fun q => negb (Nat.eqb q p)) pend) else None
  | TNack p => if mem p pend then Some pend else None
  | TTau => Some pend
  end.

(** publication p has an Acked copy *)
Definition acked_in (a : sstate) (p : Reg.pubid) : bool :=
  existsb (fun c => Nat.eqb (c_pub (copies a c)) p
                    && match c_st (copies a c) with Acked => true | _ => false end)
          (seq 0 (next a)).

(** abstraction: the pending publications of subscription x *)
Definition abs (x : subid) (st : cstate) : list Reg.pubid :=
  filter (fun p => negb (acked_in (snd st) p)) (pubs_of x (senders (fst st))).

(** the abstract label of a concrete step *)
Definition lab (x : subid) (st : cstate) (l : clabel) (st' : cstate) : tlabel :=
  match l with
  | CB _ => TAcc (pubs_of x (grown (fst st) (fst st')))
  | CA (LAck c) => match c_st (copies (snd st) c) with
                   | Unsettled => TAck (c_pub (copies (snd st) c)) | _ => TTau end
  | CA (LNack c) => match c_st (copies (snd st) c) with
                    | Unsettled => TNack (c_pub (copies (snd st) c)) | _ => TTau end
  | CA _ => TTau
  end.
