(** C01: proofs about Pipeline/ImmModel.v ("redelivery is immediate"). *)
From Coq Require Import Wellfounded.
From WM Require Import Base.Prelude Message.Model Handler.RouterHandle Handler.RouterProofs
     Pipeline.Model Pipeline.Proofs Pipeline.Final Pipeline.ImmModel.

Section ImmProofs.
  Context {M : Type}.
  Variable hf : nat -> M -> list M.
  Variable eqbM : M -> M -> bool.
  Hypothesis eqbM_spec : forall x y, eqbM x y = true <-> x = y.

  Notation pstep := (pstep hf eqbM rt_handle).
  Notation prun := (prun hf eqbM rt_handle).
  Notation pstep_imm := (pstep_imm hf eqbM rt_handle).
  Notation prun_imm := (prun_imm hf eqbM rt_handle).

  (** the guarded step is a step: every guarded run is a run, so every C01 theorem holds of it *)
  Lemma pstep_imm_pstep k sc st l st' : pstep_imm k sc st l = Some st' -> pstep k sc st l = Some st'.
  Proof.
    unfold ImmModel.pstep_imm. destruct (holds_lock st (fst l)); [|auto].
    destruct (eqbM (snd l) m); [auto|discriminate].
  Qed.

  Lemma prun_imm_prun k sc ls : forall st,
    prun_imm k sc st ls = prun k sc st (taken_imm hf eqbM rt_handle k sc st ls).
  Proof.
    induction ls as [|l ls IH]; intros st; simpl; [reflexivity|].
    destruct (pstep_imm k sc st l) as [st'|] eqn:E; [|apply IH].
    simpl. rewrite (pstep_imm_pstep _ _ _ _ _ E). apply IH.
  Qed.

  Lemma held_after_snoc dl : forall (h : nat -> option M) d,
    held_after h (dl ++ [d]) = held_next (held_after h dl) d.
  Proof. induction dl as [|x dl IH]; intros h d; simpl; [reflexivity|apply IH]. Qed.

  Lemma imm_walk_snoc dl : forall (h : nat -> option M) d,
    imm_walk eqbM h (dl ++ [d]) = imm_walk eqbM h dl && imm_check eqbM (held_after h dl) d.
  Proof.
    induction dl as [|x dl IH]; intros h d; simpl; [now rewrite andb_true_r|].
    rewrite IH. now rewrite andb_assoc.
  Qed.

  (** the monitor holds of every guarded run *)
  Lemma imm_step k sc st l st' : immediate_ok eqbM (dlog st) = true ->
    pstep_imm k sc st l = Some st' -> immediate_ok eqbM (dlog st') = true.
  Proof.
    intros HI E. destruct l as [s m].
    pose proof (pstep_imm_pstep _ _ _ _ _ E) as Ep.
    destruct (pending_until_acked hf eqbM eqbM_spec k sc st s m st' Ep) as (d & Ed & Hs & Hm & _).
    unfold immediate_ok in *. rewrite Ed, imm_walk_snoc, HI. simpl.
    unfold imm_check. rewrite Hs, Hm.
    unfold ImmModel.pstep_imm in E. simpl in E. unfold holds_lock in E.
    destruct (held_after no_lock (dlog st) s) as [m'|]; [|reflexivity].
    destruct (eqbM m m'); [reflexivity|discriminate].
  Qed.

  Theorem immediate_run k sc srcs ls :
    immediate_ok eqbM (dlog (prun_imm k sc (pinit srcs) ls)) = true.
  Proof.
    assert (H : forall ls st, immediate_ok eqbM (dlog st) = true ->
                              immediate_ok eqbM (dlog (prun_imm k sc st ls)) = true).
    { clear ls. induction ls as [|l ls IH]; intros st HI; simpl; [exact HI|].
      destruct (pstep_imm k sc st l) as [st'|] eqn:E; [|now apply IH].
      apply IH. eapply imm_step; eassumption. }
    apply H. reflexivity.
  Qed.

  (** the message whose Sender holds the lock is still pending: the guard never blocks the stage *)
  Lemma held_unfollowed dl : forall s m, held_after no_lock dl s = Some m ->
    exists d, In d (unfollowed eqbM dl) /\ d_stage d = s /\ d_msg d = m.
  Proof.
    induction dl as [|dn dl IH] using rev_ind; intros s m H; [discriminate|].
    rewrite held_after_snoc in H. unfold held_next, upd in H.
    rewrite (unfollowed_snoc eqbM dl dn).
    destruct (Nat.eqb s (d_stage dn)) eqn:Es.
    - apply Nat.eqb_eq in Es. destruct (is_acked (d_final dn)); [discriminate|].
      injection H as <-. exists dn. split; [apply in_or_app; right; now left|now split].
    - destruct (IH s m H) as (d & Hin & Hs & Hm). exists d. split; [|now split].
      apply in_or_app. left. apply filter_In. split; [exact Hin|].
      unfold same_pub. rewrite Hs, Es. reflexivity.
  Qed.

  Lemma pending_stage k (st : pstate M) : quiescentb k st = false ->
    exists t m, t < k /\ In m (topic st t).
  Proof.
    unfold quiescentb. intros H.
    assert (Hex : exists t, In t (seq 0 k) /\ topic st t <> []).
    { induction (seq 0 k) as [|t l IH]; simpl in H; [discriminate|].
      destruct (topic st t) eqn:E.
      - destruct (IH H) as (t' & Ht' & Hn). exists t'. split; [now right|exact Hn].
      - exists t. split; [now left|]. rewrite E. discriminate. }
    destruct Hex as (t & Ht & Hn). apply in_seq in Ht.
    destruct (topic st t) as [|m l] eqn:E; [congruence|].
    exists t, m. split; [lia|]. rewrite E. now left.
  Qed.

  Definition psucc_imm k sc (a b : pstate M) : Prop := exists l, pstep_imm k sc b l = Some a.

  (** at least once also under the guard: still every run is finite, and while anything is
      pending a guarded step is enabled (the held message is pending - [redelivered_until_acked]) *)
  Theorem at_least_once_imm k sc srcs ls : eventually_clean k sc ->
    let st := prun_imm k sc (pinit srcs) ls in
    Acc (psucc_imm k sc) st
    /\ (quiescentb k st = false -> exists l, pstep_imm k sc st l <> None)
    /\ (quiescentb k st = true ->
          (forall y, In y (expected_sink hf k srcs) -> In y (topic st k))
          /\ sink_complete hf eqbM k srcs (topic st k) = true).
  Proof.
    intros Hc st. unfold st. rewrite prun_imm_prun.
    set (ls' := taken_imm hf eqbM rt_handle k sc (pinit srcs) ls).
    destruct (at_least_once hf eqbM eqbM_spec k sc srcs ls' Hc) as (HA & Hprog & _ & Hdone & _).
    split; [|split].
    - eapply Acc_incl; [|exact HA]. intros a b [l Hl]. exists l. now apply pstep_imm_pstep.
    - intros Hq.
      pose proof (redelivered_until_acked hf eqbM eqbM_spec k sc srcs ls') as [HR _].
      set (s0 := Model.prun hf eqbM rt_handle k sc (pinit srcs) ls') in *.
      destruct (pending_stage k s0 Hq) as (t & m0 & Ht & Hm0).
      destruct (holds_lock s0 t) as [m'|] eqn:Eh.
      + destruct (held_unfollowed _ _ _ Eh) as (d & Hin & Hs & Hm).
        pose proof (HR d Hin) as Hp. rewrite Hs, Hm in Hp.
        exists (t, m'). unfold ImmModel.pstep_imm. simpl. rewrite Eh.
        replace (eqbM m' m') with true by (symmetry; now apply eqbM_spec).
        now apply (pstep_enabled hf eqbM rt_handle eqbM_spec).
      + exists (t, m0). unfold ImmModel.pstep_imm. simpl. rewrite Eh.
        now apply (pstep_enabled hf eqbM rt_handle eqbM_spec).
    - exact Hdone.
  Qed.
End ImmProofs.

(** the model trace the correspondence check compares the implementation with - a strict replay
    ([preplay_imm]) of the observed schedule on the guarded model, under ANY script (in particular
    the context-aware script [sc_ctx cl sc] built from the observed context oracle) - passes every
    monitor that judges the implementation *)
Section Replayed.
  Context {M : Type}.
  Variable hf : nat -> M -> list M.
  Variable eqbM : M -> M -> bool.
  Hypothesis eqbM_spec : forall x y, eqbM x y = true <-> x = y.

  Lemma preplay_imm_prun_imm k sc : forall ls st st',
    preplay_imm hf eqbM rt_handle k sc st ls = Some st' -> prun_imm hf eqbM rt_handle k sc st ls = st'.
  Proof.
    induction ls as [|l ls IH]; simpl; intros st st' H; [congruence|].
    destruct (pstep_imm hf eqbM rt_handle k sc st l); [now apply IH|discriminate].
  Qed.

  Theorem replayed_model_accepted k sc srcs ls st :
    preplay_imm hf eqbM rt_handle k sc (pinit srcs) ls = Some st ->
    log_ok hf eqbM (dlog st) = true
    /\ sink_sound hf eqbM k srcs (topic st k) = true
    /\ immediate_ok eqbM (dlog st) = true
    /\ (quiescentb k st = true -> sink_complete hf eqbM k srcs (topic st k) = true
                                  /\ redelivery_ok eqbM (dlog st) = true).
  Proof.
    intros H. apply preplay_imm_prun_imm in H. subst st.
    split; [|split; [|split]].
    - rewrite prun_imm_prun. apply (model_accepted hf eqbM eqbM_spec).
    - rewrite prun_imm_prun. apply (model_accepted hf eqbM eqbM_spec).
    - apply (immediate_run hf eqbM eqbM_spec).
    - rewrite prun_imm_prun. intros Hq.
      destruct (model_accepted hf eqbM eqbM_spec k sc srcs
                  (taken_imm hf eqbM rt_handle k sc (pinit srcs) ls)) as (_ & _ & H3 & H4).
      split; [now apply H3|now apply H4].
  Qed.
End Replayed.
