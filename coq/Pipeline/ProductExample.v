(** C01: a concrete run of the product (used by an Example in Props/C01.v): one stage, fan-out 2,
    the subscription of the stage is registered in the GoChannel's registry, the source message is
    published (registry steps of Publish), its Sender hands a copy to the Router, the handler
    fails (script), the Router Nacks, the Sender makes a fresh copy, the Router Acks after both
    outputs reached the final topic. *)
From WM Require Import Base.Prelude Message.Model Handler.RouterHandle GoChannel.Reg GoChannel.Sub
     Pipeline.TopicModel Pipeline.Model Pipeline.ProductModel Corr.C01.

Definition px_subscribe : list xlabel := map (fun l => XInt 0 (CB l)) ([GSubscribe 0 5] ++ repeat (GS_ 0) 9).
Definition px_publish (t p : nat) : list glabel := GPublish t 5 [p] :: repeat (GT t) 7.
Definition px_ls : list xlabel :=
  px_subscribe ++ [XSrc (px_publish 1 7)]
  ++ map (fun l => XInt 0 (CA l)) [LStep 7; LStep 7; LHandoff 7] ++ [XHandle 0 0 []]
  ++ map (fun l => XInt 0 (CA l)) [LSeeNacked 7; LStep 7; LHandoff 7] ++ [XHandle 0 1 []].
Definition px_run :=
  xrun (chf [[2]]) 0 1 (sc_of [[FErr]]) [(3%N, [])]
       (xinit (fun _ => cinit false false true 0 true) (0%N, [])) px_ls.

Lemma product_witness :
  xsink px_run = [(3%N, [0%N]); (3%N, [1%N])]
  /\ map (fun d => (d_call d, d_final d)) (xlog px_run) = [(0, Nacked); (1, Acked)]
  /\ abs 0 (xtop px_run 0) = [] /\ xnsrc px_run = 1.
Proof. vm_compute. repeat split; reflexivity. Qed.
