(** C01, link to the GoChannel layers (proofs): the composed system of Pipeline/TopicModel.v
    refines the abstract topic step for step. *)
From WM Require Import Base.Prelude Message.Model
     GoChannel.Reg GoChannel.RegLocks GoChannel.RegInv GoChannel.RegSend
     GoChannel.Sub GoChannel.SubProofs GoChannel.SubInvX GoChannel.SubLive Pipeline.TopicModel.

(** * Layer A: what a step does to the copies *)
Definition AckedP (a : sstate) (q : Reg.pubid) : Prop :=
  exists c, c < next a /\ c_pub (copies a c) = q /\ c_st (copies a c) = Acked.

Lemma acked_in_spec a q : acked_in a q = true <-> AckedP a q.
Proof.
  unfold acked_in, AckedP. rewrite existsb_exists. split.
  - intros (c & Hc & H). apply in_seq in Hc. apply andb_true_iff in H as [H1 H2].
    apply Nat.eqb_eq in H1. exists c. split; [lia|split; [exact H1|]].
    destruct (c_st (copies a c)); try discriminate; reflexivity.
  - intros (c & Hc & H1 & H2). exists c. split; [apply in_seq; lia|].
    rewrite H1, Nat.eqb_refl, H2. reflexivity.
Qed.

Definition pub_of (p : spc) : option Sub.pubid :=
  match p with
  | Sub.SNone => None
  | SWant p | SHead p | SSend p _ | SWait p _ | SExit p | Sub.SDone p => Some p
  end.

(** the coupling between the two layers *)
Record Cpl (x : subid) (g : gstate) (a : sstate) : Prop := {
  k_thr : forall p, Sub.thr a p <> Sub.SNone -> In (p, x) (senders g);
  k_pub : forall t p, pub_of (Sub.thr a t) = Some p -> p = t;
  k_copy : forall c, c < next a -> c_pub (copies a c) = c_thr (copies a c);
  k_td : Sub.td a = TNone
}.

Ltac scases E a' :=
  repeat match type of E with
         | context [match ?x with _ => _ end] => destruct x eqn:?; try discriminate
         | context [if ?x then _ else _] => destruct x eqn:?; try discriminate
         end; injection E as E; subst a'.

Ltac upd_cases :=
  repeat match goal with
         | |- context [upd _ ?k _ ?k'] => unfold upd at 1; destruct (Nat.eqb k' k) eqn:?
         | H : context [upd _ ?k _ ?k'] |- _ => unfold upd in H at 1; destruct (Nat.eqb k' k) eqn:?
         end.

(** a consumer / sender step of Layer A keeps the coupling *)
Lemma cpl_a_step x g a l a' : SInv a -> Cpl x g a -> a_label_ok l = true ->
  sstep a l = Some a' -> Cpl x g a'.
Proof.
  intros I [K1 K2 K3 K4] Hok E. constructor.
  - intros p Hp. destruct (sstep_started a l a' p E Hp) as [H|[q ->]]; [now apply K1|discriminate].
  - intros t p Hp.
    destruct l as [t0 p0|  | | |t0|t0|t0|t0|t0|t0| |c|c]; try discriminate Hok; simpl in E;
      scases E a'; simpl in Hp; try (now apply K2);
      (destruct (Nat.eq_dec t t0) as [->|ny];
       [rewrite upd_same in Hp; simpl in Hp; inversion Hp; subst;
        match goal with H : Sub.thr a t0 = _ |- _ => apply (K2 t0); rewrite H; reflexivity end
       |rewrite upd_other in Hp by exact ny; now apply K2]).
  - intros c Hc.
    destruct l as [t0 p0|  | | |t0|t0|t0|t0|t0|t0| |c0|c0]; try discriminate Hok; simpl in E;
      scases E a'; simpl in *; try (now apply K3);
      try (destruct (Nat.eq_dec c c0) as [->|ny];
           [rewrite upd_same; simpl; apply K3; try assumption;
            first [eapply recv_lt; eassumption | idtac]
           |rewrite upd_other by exact ny; now apply K3]).
    destruct (Nat.eq_dec c (next a)) as [->|ny].
    + rewrite upd_same. simpl. apply (K2 t0). now rewrite Heqs.
    + rewrite upd_other by exact ny. apply K3. lia.
  - destruct l as [t0 p0|  | | |t0|t0|t0|t0|t0|t0| |c|c]; try discriminate Hok; simpl in E;
      scases E a'; simpl; exact K4.
Qed.

(** what a Layer-A step does to the settlement of copy c *)
Definition st_after (l : label) (c : cid) (w : settle) : settle :=
  match l with
  | LAck c0 => if Nat.eqb c0 c then match w with Unsettled => Acked | _ => w end else w
  | LNack c0 => if Nat.eqb c0 c then match w with Unsettled => Nacked | _ => w end else w
  | _ => w
  end.

Lemma copy_step a l a' : sstep a l = Some a' ->
  next a <= next a'
  /\ (forall c, c < next a -> c_pub (copies a' c) = c_pub (copies a c)
                              /\ c_st (copies a' c) = st_after l c (c_st (copies a c)))
  /\ (forall c, next a <= c -> c < next a' -> c_st (copies a' c) = Unsettled).
Proof.
  intros E.
  destruct l as [t0 p0|  | | |t0|t0|t0|t0|t0|t0| |c0|c0]; simpl in E; scases E a'; simpl;
    (split; [lia|split; [|intros cc H1 H2; try lia]]).
  all: try (intros cc Hc; split; reflexivity).
  all: try (intros cc Hc; destruct (Nat.eq_dec cc c0) as [->|ny];
            [rewrite ?upd_same, ?Nat.eqb_refl; simpl;
             repeat match goal with H : c_st _ = _ |- _ => rewrite H end; split; reflexivity
            |rewrite ?upd_other by exact ny;
             replace (Nat.eqb c0 cc) with false by (symmetry; apply Nat.eqb_neq; congruence);
             split; reflexivity]).
  all: try (intros cc Hc;
            match goal with
            | |- context [upd _ ?k _ cc] =>
                destruct (Nat.eq_dec cc k) as [->|ny];
                [rewrite !upd_same; simpl; split; reflexivity
                |rewrite !upd_other by exact ny; split; reflexivity]
            end).
  all: try (assert (cc = next a) by lia; subst cc; rewrite upd_same; reflexivity).
  all: try (intros cc Hc; rewrite !upd_other by lia; split; reflexivity).
Qed.

Definition acks_now (a : sstate) (l : label) (p : Reg.pubid) : bool :=
  match l with
  | LAck c => match c_st (copies a c) with Unsettled => Nat.eqb (c_pub (copies a c)) p | _ => false end
  | _ => false
  end.

Lemma st_after_acked l c : st_after l c Acked = Acked.
Proof. destruct l; simpl; try reflexivity; destruct (Nat.eqb _ _); reflexivity. Qed.

Lemma acked_in_step a l a' p : SInv a -> sstep a l = Some a' ->
  acked_in a' p = acked_in a p || acks_now a l p.
Proof.
  intros I E. destruct (copy_step a l a' E) as (Hn & Hold & Hnew).
  apply Bool.eq_iff_eq_true. rewrite orb_true_iff, !acked_in_spec. split.
  - intros (c1 & H1 & H2 & H3).
    destruct (Nat.lt_ge_cases c1 (next a)) as [Hlt|Hge]; [|rewrite (Hnew c1 Hge H1) in H3; discriminate].
    destruct (Hold c1 Hlt) as [Hp Hs]. rewrite Hp in H2. rewrite Hs in H3.
    destruct l as [t0 p0|  | | |t0|t0|t0|t0|t0|t0| |c0|c0]; simpl in H3;
      try (left; exists c1; now repeat split).
    + destruct (Nat.eqb c0 c1) eqn:E01; [|left; exists c1; now repeat split].
      apply Nat.eqb_eq in E01. subst c0.
      destruct (c_st (copies a c1)) eqn:Est; try discriminate.
      * right. simpl. rewrite Est, H2. apply Nat.eqb_refl.
      * left. exists c1. now repeat split.
    + destruct (Nat.eqb c0 c1) eqn:E01; [|left; exists c1; now repeat split].
      destruct (c_st (copies a c1)) eqn:Est; try discriminate. left. exists c1. now repeat split.
  - intros [(c1 & H1 & H2 & H3)|H].
    + destruct (Hold c1 H1) as [Hp Hs]. exists c1. split; [lia|]. split; [congruence|].
      rewrite Hs, H3. apply st_after_acked.
    + destruct l as [t0 p0|  | | |t0|t0|t0|t0|t0|t0| |c0|c0]; simpl in H; try discriminate.
      destruct (c_st (copies a c0)) eqn:Est; try discriminate. apply Nat.eqb_eq in H.
      assert (Hlt : c0 < next a).
      { simpl in E. destruct (c_recv (copies a c0)) eqn:Er; [|discriminate]. now apply recv_lt. }
      destruct (Hold c0 Hlt) as [Hp Hs]. exists c0. split; [lia|]. split; [congruence|].
      rewrite Hs, Est. simpl. now rewrite Nat.eqb_refl.
Qed.

(** * lists *)
Lemma in_pubs_of x p l : In p (pubs_of x l) <-> In (p, x) l.
Proof.
  unfold pubs_of. rewrite in_map_iff. split.
  - intros ([q y] & E & H). apply filter_In in H as [H1 H2]. unfold for_sub in H2. simpl in *.
    apply Nat.eqb_eq in H2. now subst.
  - intros H. exists (p, x). split; [reflexivity|]. apply filter_In. split; [exact H|].
    unfold for_sub. simpl. apply Nat.eqb_refl.
Qed.

Lemma filter_filter_or {A} (f g : A -> bool) l :
  filter (fun p => negb (f p || g p)) l = filter (fun p => negb (g p)) (filter (fun p => negb (f p)) l).
Proof.
  induction l as [|y l IH]; simpl; [reflexivity|].
  destruct (f y); simpl; [exact IH|]. destruct (g y); simpl; [exact IH|]. now rewrite IH.
Qed.

(** * the invariant of the composed system *)
Definition CInv (x : subid) (st : cstate) : Prop :=
  RegSend.Inv (fst st) /\ SInv (snd st) /\ Cpl x (fst st) (snd st).

(** every unsettled copy is a copy of a pending publication *)
Lemma unsettled_pending x g a c : SInv a -> Cpl x g a -> c < next a ->
  c_st (copies a c) = Unsettled -> In (c_pub (copies a c)) (abs x (g, a)).
Proof.
  intros I K Hc Hu. unfold abs. simpl. apply filter_In. split.
  - apply in_pubs_of. apply (k_thr _ _ _ K). rewrite (k_copy _ _ _ K c Hc).
    pose proof (v_cur _ I c Hc) as H. intros E. now rewrite E in H.
  - apply negb_true_iff. destruct (acked_in a (c_pub (copies a c))) eqn:Ea; [|reflexivity]. exfalso.
    apply acked_in_spec in Ea as (c' & H1 & H2 & H3).
    assert (Et : c_thr (copies a c') = c_thr (copies a c)).
    { rewrite <- (k_copy _ _ _ K c' H1), <- (k_copy _ _ _ K c Hc). exact H2. }
    destruct (Nat.lt_trichotomy c' c) as [Hlt|[->|Hgt]].
    + pose proof (v_dup _ I c' c Hlt Hc Et). congruence.
    + congruence.
    + pose proof (v_dup _ I c c' Hgt H1 (eq_sym Et)). congruence.
Qed.

(** a consumer / Sender step of Layer A is the abstract step [lab] says (Ack: the publication
    leaves; Nack: it stays; everything else: nothing changes) *)
Lemma refine_a_step x g a l a' : SInv a -> Cpl x g a -> a_label_ok l = true ->
  sstep a l = Some a' ->
  tstep (abs x (g, a)) (lab x (g, a) (CA l) (g, a')) = Some (abs x (g, a')).
Proof.
  intros I K Hok E.
  assert (Habs : abs x (g, a') = filter (fun p => negb (acks_now a l p)) (abs x (g, a))).
  { unfold abs. simpl. rewrite <- filter_filter_or. apply filter_ext. intros p.
    now rewrite (acked_in_step a l a' p I E). }
  assert (Hsame : (forall p, acks_now a l p = false) -> abs x (g, a') = abs x (g, a)).
  { intros H. rewrite Habs. clear Habs. induction (abs x (g, a)) as [|y ys IH]; simpl; [reflexivity|].
    rewrite H. simpl. now rewrite IH. }
  destruct l as [t0 p0|  | | |t0|t0|t0|t0|t0|t0| |c0|c0]; try discriminate Hok; simpl lab;
    try (simpl; rewrite Hsame by (intros; reflexivity); reflexivity).
  - (* LAck *)
    assert (Hlt : c0 < next a).
    { simpl in E. destruct (c_recv (copies a c0)) eqn:Er; [|discriminate]. now apply recv_lt. }
    destruct (c_st (copies a c0)) eqn:Est.
    + simpl. pose proof (unsettled_pending x g a c0 I K Hlt Est) as Hin.
      apply mem_In in Hin. rewrite Hin. f_equal. rewrite Habs. apply filter_ext. intros p.
      simpl. rewrite Est. now rewrite Nat.eqb_sym.
    + simpl. rewrite Hsame; [reflexivity|]. intros p. simpl. now rewrite Est.
    + simpl. rewrite Hsame; [reflexivity|]. intros p. simpl. now rewrite Est.
  - (* LNack *)
    assert (Hlt : c0 < next a).
    { simpl in E. destruct (c_recv (copies a c0)) eqn:Er; [|discriminate]. now apply recv_lt. }
    rewrite Hsame by (intros; reflexivity).
    destruct (c_st (copies a c0)) eqn:Est; simpl; try reflexivity.
    pose proof (unsettled_pending x g a c0 I K Hlt Est) as Hin. apply mem_In in Hin. now rewrite Hin.
Qed.
