(** C01, link to the GoChannel layers (proofs): the composed system of Pipeline/TopicModel.v
    refines the abstract topic step for step. *)
From WM Require Import Base.Prelude Message.Model
     GoChannel.Reg GoChannel.RegLocks GoChannel.RegInv GoChannel.RegSend
     GoChannel.Sub GoChannel.SubProofs GoChannel.SubInvX GoChannel.SubLive Pipeline.TopicModel.

(** * Layer A: what a step does to the copies *)
Definition AckedP (a : sstate) (q : Reg.pubid) : Prop :=
  exists c, c < next a /\ c_pub (copies a c) = q /\ c_st (copies a c) = Acked.

Lemma acked_in_spec a q : acked_in a q = true <-> AckedP a q.
Proof.
  unfold acked_in, AckedP. rewrite existsb_exists. split.
  - intros (c & Hc & H). apply in_seq in Hc. apply andb_true_iff in H as [H1 H2].
    apply Nat.eqb_eq in H1. exists c. split; [lia|split; [exact H1|]].
    destruct (c_st (copies a c)); try discriminate; reflexivity.
  - intros (c & Hc & H1 & H2). exists c. split; [apply in_seq; lia|].
    rewrite H1, Nat.eqb_refl, H2. reflexivity.
Qed.

Definition pub_of (p : spc) : option Sub.pubid :=
  match p with
  | Sub.SNone => None
  | SWant p | SHead p | SSend p _ | SWait p _ | SExit p | Sub.SDone p => Some p
  end.

(** the coupling between the two layers *)
Record Cpl (x : subid) (g : gstate) (a : sstate) : Prop := {
  k_thr : forall p, Sub.thr a p <> Sub.SNone -> In (p, x) (senders g);
  k_pub : forall t p, pub_of (Sub.thr a t) = Some p -> p = t;
  k_copy : forall c, c < next a -> c_pub (copies a c) = c_thr (copies a c);
  k_td : woken (Sub.td a) = false     (* the teardown of x has not been woken: TNone or TIdle *)
}.

Ltac scases E a' :=
  repeat match type of E with
         | context [match ?x with _ => _ end] => destruct x eqn:?; try discriminate
         | context [if ?x then _ else _] => destruct x eqn:?; try discriminate
         end; injection E as E; subst a'.

Ltac upd_cases :=
  repeat match goal with
         | |- context [upd _ ?k _ ?k'] => unfold upd at 1; destruct (Nat.eqb k' k) eqn:?
         | H : context [upd _ ?k _ ?k'] |- _ => unfold upd in H at 1; destruct (Nat.eqb k' k) eqn:?
         end.

(** a consumer / sender step of Layer A keeps the coupling *)
Lemma cpl_a_step x g a l a' : SInv a -> Cpl x g a -> a_label_ok l = true ->
  sstep a l = Some a' -> Cpl x g a'.
Proof.
  intros I [K1 K2 K3 K4] Hok E. constructor.
  - intros p Hp. destruct (sstep_started a l a' p E Hp) as [H|[q ->]]; [now apply K1|discriminate].
  - intros t p Hp.
    destruct l as [t0 p0|  | | |t0|t0|t0|t0|t0|t0| |c|c]; try discriminate Hok; simpl in E;
      scases E a'; simpl in Hp; try (now apply K2);
      (destruct (Nat.eq_dec t t0) as [->|ny];
       [rewrite upd_same in Hp; simpl in Hp; inversion Hp; subst;
        match goal with H : Sub.thr a t0 = _ |- _ => apply (K2 t0); rewrite H; reflexivity end
       |rewrite upd_other in Hp by exact ny; now apply K2]).
  - intros c Hc.
    destruct l as [t0 p0|  | | |t0|t0|t0|t0|t0|t0| |c0|c0]; try discriminate Hok; simpl in E;
      scases E a'; simpl in *; try (now apply K3);
      try (destruct (Nat.eq_dec c c0) as [->|ny];
           [rewrite upd_same; simpl; apply K3; try assumption;
            first [eapply recv_lt; eassumption | idtac]
           |rewrite upd_other by exact ny; now apply K3]).
    destruct (Nat.eq_dec c (next a)) as [->|ny].
    + rewrite upd_same. simpl. apply (K2 t0). now rewrite Heqs.
    + rewrite upd_other by exact ny. apply K3. lia.
  - destruct l as [t0 p0|  | | |t0|t0|t0|t0|t0|t0| |c|c]; try discriminate Hok; simpl in E;
      scases E a'; simpl; exact K4.
Qed.

(** what a Layer-A step does to the settlement of copy c *)
Definition st_after (l : label) (c : cid) (w : settle) : settle :=
  match l with
  | LAck c0 => if Nat.eqb c0 c then match w with Unsettled => Acked | _ => w end else w
  | LNack c0 => if Nat.eqb c0 c then match w with Unsettled => Nacked | _ => w end else w
  | _ => w
  end.

Lemma copy_step a l a' : sstep a l = Some a' ->
  next a <= next a'
  /\ (forall c, c < next a -> c_pub (copies a' c) = c_pub (copies a c)
                              /\ c_st (copies a' c) = st_after l c (c_st (copies a c)))
  /\ (forall c, next a <= c -> c < next a' -> c_st (copies a' c) = Unsettled).
Proof.
  intros E.
  destruct l as [t0 p0|  | | |t0|t0|t0|t0|t0|t0| |c0|c0]; simpl in E; scases E a'; simpl;
    (split; [lia|split; [|intros cc H1 H2; try lia]]).
  all: try (intros cc Hc; split; reflexivity).
  all: try (intros cc Hc; destruct (Nat.eq_dec cc c0) as [->|ny];
            [rewrite ?upd_same, ?Nat.eqb_refl; simpl;
             repeat match goal with H : c_st _ = _ |- _ => rewrite H end; split; reflexivity
            |rewrite ?upd_other by exact ny;
             replace (Nat.eqb c0 cc) with false by (symmetry; apply Nat.eqb_neq; congruence);
             split; reflexivity]).
  all: try (intros cc Hc;
            match goal with
            | |- context [upd _ ?k _ cc] =>
                destruct (Nat.eq_dec cc k) as [->|ny];
                [rewrite !upd_same; simpl; split; reflexivity
                |rewrite !upd_other by exact ny; split; reflexivity]
            end).
  all: try (assert (cc = next a) by lia; subst cc; rewrite upd_same; reflexivity).
  all: try (intros cc Hc; rewrite !upd_other by lia; split; reflexivity).
Qed.

Definition acks_now (a : sstate) (l : label) (p : Reg.pubid) : bool :=
  match l with
  | LAck c => match c_st (copies a c) with Unsettled => Nat.eqb (c_pub (copies a c)) p | _ => false end
  | _ => false
  end.

Lemma st_after_acked l c : st_after l c Acked = Acked.
Proof. destruct l; simpl; try reflexivity; destruct (Nat.eqb _ _); reflexivity. Qed.

Lemma acked_in_step a l a' p : SInv a -> sstep a l = Some a' ->
  acked_in a' p = acked_in a p || acks_now a l p.
Proof.
  intros I E. destruct (copy_step a l a' E) as (Hn & Hold & Hnew).
  apply Bool.eq_iff_eq_true. rewrite orb_true_iff, !acked_in_spec. split.
  - intros (c1 & H1 & H2 & H3).
    destruct (Nat.lt_ge_cases c1 (next a)) as [Hlt|Hge]; [|rewrite (Hnew c1 Hge H1) in H3; discriminate].
    destruct (Hold c1 Hlt) as [Hp Hs]. rewrite Hp in H2. rewrite Hs in H3.
    destruct l as [t0 p0|  | | |t0|t0|t0|t0|t0|t0| |c0|c0]; simpl in H3;
      try (left; exists c1; now repeat split).
    + destruct (Nat.eqb c0 c1) eqn:E01; [|left; exists c1; now repeat split].
      apply Nat.eqb_eq in E01. subst c0.
      destruct (c_st (copies a c1)) eqn:Est; try discriminate.
      * right. simpl. rewrite Est, H2. apply Nat.eqb_refl.
      * left. exists c1. now repeat split.
    + destruct (Nat.eqb c0 c1) eqn:E01; [|left; exists c1; now repeat split].
      destruct (c_st (copies a c1)) eqn:Est; try discriminate. left. exists c1. now repeat split.
  - intros [(c1 & H1 & H2 & H3)|H].
    + destruct (Hold c1 H1) as [Hp Hs]. exists c1. split; [lia|]. split; [congruence|].
      rewrite Hs, H3. apply st_after_acked.
    + destruct l as [t0 p0|  | | |t0|t0|t0|t0|t0|t0| |c0|c0]; simpl in H; try discriminate.
      destruct (c_st (copies a c0)) eqn:Est; try discriminate. apply Nat.eqb_eq in H.
      assert (Hlt : c0 < next a).
      { simpl in E. destruct (c_recv (copies a c0)) eqn:Er; [|discriminate]. now apply recv_lt. }
      destruct (Hold c0 Hlt) as [Hp Hs]. exists c0. split; [lia|]. split; [congruence|].
      rewrite Hs, Est. simpl. now rewrite Nat.eqb_refl.
Qed.

(** * lists *)
Lemma in_pubs_of x p l : In p (pubs_of x l) <-> In (p, x) l.
Proof.
  unfold pubs_of. rewrite in_map_iff. split.
  - intros ([q y] & E & H). apply filter_In in H as [H1 H2]. unfold for_sub in H2. simpl in *.
    apply Nat.eqb_eq in H2. now subst.
  - intros H. exists (p, x). split; [reflexivity|]. apply filter_In. split; [exact H|].
    unfold for_sub. simpl. apply Nat.eqb_refl.
Qed.

Lemma filter_filter_or {A} (f g : A -> bool) l :
  filter (fun p => negb (f p || g p)) l = filter (fun p => negb (g p)) (filter (fun p => negb (f p)) l).
Proof.
  induction l as [|y l IH]; simpl; [reflexivity|].
  destruct (f y); simpl; [exact IH|]. destruct (g y); simpl; [exact IH|]. now rewrite IH.
Qed.

(** * the invariant of the composed system *)
Definition CInv (x : subid) (st : cstate) : Prop :=
  RegSend.Inv (fst st) /\ SInv (snd st) /\ Cpl x (fst st) (snd st).

(** every unsettled copy is a copy of a pending publication *)
Lemma unsettled_pending x g a c : SInv a -> Cpl x g a -> c < next a ->
  c_st (copies a c) = Unsettled -> In (c_pub (copies a c)) (abs x (g, a)).
Proof.
  intros I K Hc Hu. unfold abs. simpl. apply filter_In. split.
  - apply in_pubs_of. apply (k_thr _ _ _ K). rewrite (k_copy _ _ _ K c Hc).
    pose proof (v_cur _ I c Hc) as H. intros E. now rewrite E in H.
  - apply negb_true_iff. destruct (acked_in a (c_pub (copies a c))) eqn:Ea; [|reflexivity]. exfalso.
    apply acked_in_spec in Ea as (c' & H1 & H2 & H3).
    assert (Et : c_thr (copies a c') = c_thr (copies a c)).
    { rewrite <- (k_copy _ _ _ K c' H1), <- (k_copy _ _ _ K c Hc). exact H2. }
    destruct (Nat.lt_trichotomy c' c) as [Hlt|[->|Hgt]].
    + pose proof (v_dup _ I c' c Hlt Hc Et). congruence.
    + congruence.
    + pose proof (v_dup _ I c c' Hgt H1 (eq_sym Et)). congruence.
Qed.

(** a consumer / Sender step of Layer A is the abstract step [lab] says (Ack: the publication
    leaves; Nack: it stays; everything else: nothing changes) *)
Lemma refine_a_step x g a l a' : SInv a -> Cpl x g a -> a_label_ok l = true ->
  sstep a l = Some a' ->
  tstep (abs x (g, a)) (lab x (g, a) (CA l) (g, a')) = Some (abs x (g, a')).
Proof.
  intros I K Hok E.
  assert (Habs : abs x (g, a') = filter (fun p => negb (acks_now a l p)) (abs x (g, a))).
  { unfold abs. simpl. rewrite <- filter_filter_or. apply filter_ext. intros p.
    now rewrite (acked_in_step a l a' p I E). }
  assert (Hsame : (forall p, acks_now a l p = false) -> abs x (g, a') = abs x (g, a)).
  { intros H. rewrite Habs. clear Habs. induction (abs x (g, a)) as [|y ys IH]; simpl; [reflexivity|].
    rewrite H. simpl. now rewrite IH. }
  destruct l as [t0 p0|  | | |t0|t0|t0|t0|t0|t0| |c0|c0]; try discriminate Hok; simpl lab;
    try (simpl; rewrite Hsame by (intros; reflexivity); reflexivity).
  - (* LAck *)
    assert (Hlt : c0 < next a).
    { simpl in E. destruct (c_recv (copies a c0)) eqn:Er; [|discriminate]. now apply recv_lt. }
    destruct (c_st (copies a c0)) eqn:Est.
    + simpl. pose proof (unsettled_pending x g a c0 I K Hlt Est) as Hin.
      apply mem_In in Hin. rewrite Hin. f_equal. rewrite Habs. apply filter_ext. intros p.
      simpl. rewrite Est. now rewrite Nat.eqb_sym.
    + simpl. rewrite Hsame; [reflexivity|]. intros p. simpl. now rewrite Est.
    + simpl. rewrite Hsame; [reflexivity|]. intros p. simpl. now rewrite Est.
  - (* LNack *)
    assert (Hlt : c0 < next a).
    { simpl in E. destruct (c_recv (copies a c0)) eqn:Er; [|discriminate]. now apply recv_lt. }
    rewrite Hsame by (intros; reflexivity).
    destruct (c_st (copies a c0)) eqn:Est; simpl; try reflexivity.
    pose proof (unsettled_pending x g a c0 I K Hlt Est) as Hin. apply mem_In in Hin. now rewrite Hin.
Qed.

(** * Layer B: a registry step spawns Senders; Layer A starts them *)
Lemma nodupb_of_cnt l : (forall p, cnt p l <= 1) -> nodupb l = true.
Proof.
  induction l as [|y l IH]; intros H; simpl; [reflexivity|]. apply andb_true_iff. split.
  - apply negb_true_iff. apply mem_false. intros Hin. apply cnt_pos_In in Hin.
    specialize (H y). simpl in H. rewrite Nat.eqb_refl in H. lia.
  - apply IH. intros p. specialize (H p). simpl in H. lia.
Qed.
Lemma disjointb_of a b : (forall p, In p a -> ~ In p b) -> disjointb a b = true.
Proof.
  intros H. unfold disjointb. apply forallb_forall. intros p Hp. apply negb_true_iff.
  apply mem_false. now apply H.
Qed.

Lemma cnt_pubs_of x p l : cnt p (pubs_of x l) = scnt p x l.
Proof.
  unfold pubs_of, scnt. induction l as [|[q y] l IH]; simpl; [reflexivity|].
  unfold for_sub at 1. simpl. destruct (Nat.eqb y x) eqn:Ey; simpl.
  - rewrite (Nat.eqb_sym q p). destruct (Nat.eqb p q); simpl; now rewrite IH.
  - rewrite andb_false_r. exact IH.
Qed.

Lemma pubs_of_app x a b : pubs_of x (a ++ b) = pubs_of x a ++ pubs_of x b.
Proof. unfold pubs_of. now rewrite filter_app, map_app. Qed.

Lemma grown_spec g l g' : gstep g l = Some g' -> senders g' = grown g g' ++ senders g.
Proof.
  intros H. destruct (senders_grow_step g l g' H) as [new E]. unfold grown. rewrite E at 2 3.
  rewrite app_length, Nat.add_sub, firstn_app, Nat.sub_diag, firstn_all. simpl.
  now rewrite app_nil_r.
Qed.

Lemma spawn_all_ok a ps : SInv a -> NoDup ps -> (forall p, In p ps -> Sub.thr a p = Sub.SNone) ->
  exists a', spawn_all a ps = Some a' /\ SInv a'
    /\ copies a' = copies a /\ next a' = next a /\ Sub.td a' = Sub.td a
    /\ (forall t, Sub.thr a' t = if mem t ps then SWant t else Sub.thr a t).
Proof.
  intros I. induction ps as [|p ps IH]; intros Hnd Hnone.
  - exists a. simpl. split; [reflexivity|]. split; [exact I|]. repeat split; reflexivity.
  - inversion Hnd as [|? ? Hnotin Hnd']; subst.
    destruct (IH Hnd' (fun q Hq => Hnone q (or_intror Hq))) as (a1 & E1 & I1 & Hc & Hn & Htd & Hthr).
    assert (Hp : Sub.thr a1 p = Sub.SNone).
    { rewrite Hthr. apply mem_false in Hnotin. rewrite Hnotin. apply Hnone. now left. }
    simpl spawn_all. rewrite E1. exists (set_thr a1 p (SWant p)). split; [simpl; now rewrite Hp|]. split.
    + apply (sstep_inv a1 (LSpawn p p)); [exact I1|]. simpl. now rewrite Hp.
    + simpl. repeat split; auto. intros t. unfold upd.
      destruct (Nat.eqb t p) eqn:Et.
      * apply Nat.eqb_eq in Et. subst. reflexivity.
      * apply Hthr.
Qed.

(** the Senders a registry step adds for x are new and pairwise distinct: this is
    [RegSend.sender_unique] (invariant [s_unique]) at work *)
Lemma new_senders_fresh x g g' new : RegSend.Inv g' -> senders g' = new ++ senders g ->
  NoDup (pubs_of x new) /\ forall p, In p (pubs_of x new) -> ~ In (p, x) (senders g).
Proof.
  intros (_ & _ & I2) E. split.
  - apply cnt_le1_NoDup. intros p. rewrite cnt_pubs_of.
    pose proof (s_unique _ I2 p x) as H. rewrite E, scnt_app in H. lia.
  - intros p Hp Hin. apply cnt_pos_In in Hp. rewrite cnt_pubs_of in Hp.
    apply scnt_pos_In in Hin. pose proof (s_unique _ I2 p x) as H. rewrite E, scnt_app in H. lia.
Qed.

Lemma acked_in_ext a a' p : copies a' = copies a -> next a' = next a -> acked_in a' p = acked_in a p.
Proof. unfold acked_in. now intros -> ->. Qed.

(** the abstract accept, for ANY way the Sender threads of the new pairs get started: if the
    registry's Senders grew by [new] and the instance kept its copies, the pending publications
    grow by exactly the new publications of x *)
Lemma accept_abs x g a g' a' new : SInv a -> Cpl x g a -> RegSend.Inv g' ->
  senders g' = new ++ senders g -> copies a' = copies a -> next a' = next a ->
  abs x (g', a') = pubs_of x new ++ abs x (g, a)
  /\ tstep (abs x (g, a)) (TAcc (pubs_of x new)) = Some (abs x (g', a')).
Proof.
  intros Ia K Ig' E Hc Hn.
  destruct (new_senders_fresh x g g' new Ig' E) as [Hnd Hfresh].
  assert (Hnone : forall p, In p (pubs_of x new) -> Sub.thr a p = Sub.SNone).
  { intros p Hp. destruct (Sub.thr a p) eqn:Et; try reflexivity; exfalso;
      apply (Hfresh p Hp); apply (k_thr _ _ _ K); rewrite Et; discriminate. }
  assert (Hnotacked : forall p, In p (pubs_of x new) -> acked_in a p = false).
  { intros p Hp. destruct (acked_in a p) eqn:Ea; [|reflexivity]. exfalso.
    apply acked_in_spec in Ea as (c & H1 & H2 & _).
    pose proof (v_cur _ Ia c H1) as Hcur. rewrite <- (k_copy _ _ _ K c H1), H2, (Hnone p Hp) in Hcur.
    exact Hcur. }
  assert (Habs : abs x (g', a') = pubs_of x new ++ abs x (g, a)).
  { unfold abs. simpl. rewrite E, pubs_of_app, filter_app. f_equal.
    - clear -Hnotacked Hc Hn. induction (pubs_of x new) as [|y ys IH]; simpl; [reflexivity|].
      rewrite (acked_in_ext a a' y Hc Hn), (Hnotacked y (or_introl eq_refl)). simpl.
      f_equal. apply IH. intros p Hp. apply Hnotacked. now right.
    - apply filter_ext. intros p. now rewrite (acked_in_ext a a' p Hc Hn). }
  split; [exact Habs|]. simpl. rewrite Habs.
  replace (nodupb (pubs_of x new)) with true
    by (symmetry; apply nodupb_of_cnt; now apply cnt_le1_NoDup).
  replace (disjointb (pubs_of x new) (abs x (g, a))) with true; [reflexivity|].
  symmetry. apply disjointb_of. intros p Hp Hin. unfold abs in Hin. simpl in Hin.
  apply filter_In in Hin as [Hin _]. apply in_pubs_of in Hin. now apply (Hfresh p Hp).
Qed.

(** a registry step (not Close, not the cancel / teardown of x): the spawns are enabled, the
    invariant is kept, and abstractly the topic accepts exactly the publications that got a Sender *)
Lemma refine_b_step x g a l g' : CInv x (g, a) -> gstep g l = Some g' ->
  exists a', spawn_all a (pubs_of x (grown g g')) = Some a'
    /\ CInv x (g', a')
    /\ tstep (abs x (g, a)) (TAcc (pubs_of x (grown g g'))) = Some (abs x (g', a')).
Proof.
  intros (Ig & Ia & K) H. simpl in *.
  assert (Ig' : RegSend.Inv g') by (eapply inv_step; eassumption).
  pose proof (grown_spec g l g' H) as E. set (new := grown g g') in *.
  destruct (new_senders_fresh x g g' new Ig' E) as [Hnd Hfresh].
  assert (Hnone : forall p, In p (pubs_of x new) -> Sub.thr a p = Sub.SNone).
  { intros p Hp. destruct (Sub.thr a p) eqn:Et; try reflexivity; exfalso;
      apply (Hfresh p Hp); apply (k_thr _ _ _ K); rewrite Et; discriminate. }
  destruct (spawn_all_ok a (pubs_of x new) Ia Hnd Hnone) as (a' & E1 & Ia' & Hc & Hn & Htd & Hthr).
  exists a'. split; [exact E1|]. split.
  - split; [exact Ig'|split; [exact Ia'|]]. simpl. constructor.
    + intros p Hp. rewrite Hthr in Hp. rewrite E. apply in_or_app.
      destruct (mem p (pubs_of x new)) eqn:Em.
      * left. apply mem_In in Em. now apply in_pubs_of.
      * right. now apply (k_thr _ _ _ K).
    + intros t p Hp. rewrite Hthr in Hp. destruct (mem t (pubs_of x new)).
      * simpl in Hp. congruence.
      * now apply (k_pub _ _ _ K).
    + intros c Hc'. rewrite Hc. apply (k_copy _ _ _ K). lia.
    + rewrite Htd. apply (k_td _ _ _ K).
  - (* the abstract step *)
    assert (Hnotacked : forall p, In p (pubs_of x new) -> acked_in a p = false).
    { intros p Hp. destruct (acked_in a p) eqn:Ea; [|reflexivity]. exfalso.
      apply acked_in_spec in Ea as (c & H1 & H2 & _).
      pose proof (v_cur _ Ia c H1) as Hcur. rewrite <- (k_copy _ _ _ K c H1), H2, (Hnone p Hp) in Hcur.
      exact Hcur. }
    assert (Habs : abs x (g', a') = pubs_of x new ++ abs x (g, a)).
    { unfold abs. simpl. rewrite E, pubs_of_app, filter_app. f_equal.
      - clear -Hnotacked Hc Hn. induction (pubs_of x new) as [|y ys IH]; simpl; [reflexivity|].
        rewrite (acked_in_ext a a' y Hc Hn), (Hnotacked y (or_introl eq_refl)). simpl.
        f_equal. apply IH. intros p Hp. apply Hnotacked. now right.
      - apply filter_ext. intros p. now rewrite (acked_in_ext a a' p Hc Hn). }
    simpl. rewrite Habs.
    replace (nodupb (pubs_of x new)) with true
      by (symmetry; apply nodupb_of_cnt; now apply cnt_le1_NoDup).
    replace (disjointb (pubs_of x new) (abs x (g, a))) with true; [reflexivity|].
    symmetry. apply disjointb_of. intros p Hp Hin. unfold abs in Hin. simpl in Hin.
    apply filter_In in Hin as [Hin _]. apply in_pubs_of in Hin. now apply (Hfresh p Hp).
Qed.

(** * the refinement *)
Lemma cinv_init x pers blk fx cap0 sfx : CInv x (cinit pers blk fx cap0 sfx).
Proof.
  split; [apply inv_init|split; [apply sinv_init|]]. constructor; simpl.
  - intros p H. congruence.
  - intros t p H. discriminate.
  - intros c H. lia.
  - reflexivity.
Qed.

(** every step of the composed system is the abstract topic step [lab] names *)
Theorem crefine_step x st l st' : CInv x st -> cstep x st l = Some st' ->
  CInv x st' /\ tstep (abs x st) (lab x st l st') = Some (abs x st').
Proof.
  intros HI E. destruct st as [g a]. destruct l as [bl|al]; simpl in E.
  - destruct (b_label_ok x bl); [|discriminate].
    destruct (gstep g bl) as [g'|] eqn:Eg; [|discriminate].
    destruct (refine_b_step x g a bl g' HI Eg) as (a' & E1 & HI' & Ht).
    rewrite E1 in E. injection E as <-. split; [exact HI'|]. exact Ht.
  - destruct (a_label_ok al) eqn:Hok; [|discriminate].
    destruct (sstep a al) as [a'|] eqn:Ea; [|discriminate]. injection E as <-.
    destruct HI as (Ig & Ia & K). simpl in *. split.
    + split; [exact Ig|split; [eapply sstep_inv; eassumption|]]. simpl.
      eapply cpl_a_step; eassumption.
    + now apply refine_a_step.
Qed.

(** the composition never blocks the registry: the Sender threads of a registry step can always
    be started (no pair (p, x) ever gets a second Sender) *)
Theorem spawn_enabled x st bl g' : CInv x st -> b_label_ok x bl = true ->
  gstep (fst st) bl = Some g' -> cstep x st (CB bl) <> None.
Proof.
  intros HI Hok Eg. destruct st as [g a]. simpl in *. rewrite Hok, Eg.
  destruct (refine_b_step x g a bl g' HI Eg) as (a' & E1 & _). rewrite E1. discriminate.
Qed.

(** runs: the abstract trace of a composed run, and its replay on the abstract topic *)
Fixpoint ctrace (x : subid) (st : cstate) (ls : list clabel) : list tlabel :=
  match ls with
  | [] => []
  | l :: ls' => match cstep x st l with
                | Some st' => lab x st l st' :: ctrace x st' ls'
                | None => ctrace x st ls'
                end
  end.
Fixpoint treplay (pend : list Reg.pubid) (tl : list tlabel) : option (list Reg.pubid) :=
  match tl with
  | [] => Some pend
  | l :: tl' => match tstep pend l with Some pend' => treplay pend' tl' | None => None end
  end.

Theorem crefine_run x ls : forall st, CInv x st ->
  CInv x (crun x st ls) /\ treplay (abs x st) (ctrace x st ls) = Some (abs x (crun x st ls)).
Proof.
  induction ls as [|l ls IH]; intros st HI; simpl; [split; [exact HI|reflexivity]|].
  destruct (cstep x st l) as [st'|] eqn:E; [|now apply IH].
  destruct (crefine_step x st l st' HI E) as [HI' Ht]. simpl. rewrite Ht. now apply IH.
Qed.

Corollary topic_refines x pers blk fx cap0 sfx ls :
  let st0 := cinit pers blk fx cap0 sfx in
  treplay [] (ctrace x st0 ls) = Some (abs x (crun x st0 ls)).
Proof. intros st0. now destruct (crefine_run x ls st0 (cinv_init x pers blk fx cap0 sfx)). Qed.

(** one copy in flight per subscription: the attempts of a stage are sequential *)
Theorem topic_one_in_flight x st : CInv x st -> length (outstanding (snd st)) <= 1.
Proof.
  intros (_ & I & K). unfold outstanding. apply filter_all_equal; [apply seq_NoDup|].
  intros c1 c2 _ _ H1 H2. apply outstanding_b_Out in H1. apply outstanding_b_Out in H2.
  apply (v_one _ I); try assumption. right. rewrite (v_closing _ I). pose proof (k_td _ _ _ K) as Hw.
  destruct (Sub.td (snd st)); try reflexivity; discriminate Hw.
Qed.

(** ** what the abstract accept corresponds to in Publish: the snapshot step of a publication to
    a topic where x is registered gives x exactly this one publication; where x is not
    registered, nothing *)
Lemma pubs_of_pairs x p l : pubs_of x (map (fun y => (p, y)) l) = repeat p (cnt x l).
Proof.
  unfold pubs_of. induction l as [|y l IH]; simpl; [reflexivity|].
  unfold for_sub at 1. simpl. rewrite (Nat.eqb_sym y x). destruct (Nat.eqb x y); simpl; now rewrite IH.
Qed.

Theorem accept_on_publish x g t k p rem g' : RegSend.Inv g ->
  Reg.thr g t = PSend k (p :: rem) -> gstep g (GT t) = Some g' ->
  pubs_of x (grown g g') = if mem x (subs g k) then [p] else [].
Proof.
  intros (I0 & I1 & I2) E H. pose proof (grown_spec g (GT t) g' H) as Eg.
  assert (Es : senders g' = map (fun y => (p, y)) (subs g k) ++ senders g).
  { simpl in H. rewrite E in H. destruct (subs g k); injection H as <-; reflexivity. }
  rewrite Es in Eg. apply app_inv_tail in Eg. rewrite <- Eg, pubs_of_pairs.
  pose proof (cnt_subs_le1 g x k I1) as Hle.
  destruct (mem x (subs g k)) eqn:Em.
  - apply mem_cnt in Em. replace (cnt x (subs g k)) with 1 by lia. reflexivity.
  - apply mem_false, cnt_zero_notin in Em. now rewrite Em.
Qed.

(** ** from publication ids to the message lists of Pipeline/Model.v: under ANY labelling of the
    publications with messages, the abstract Ack is [remove_first] of the message (the Pipeline
    model's step) and the abstract accept is appending the messages - up to the order of the
    list, which the Pipeline model never looks at (its steps and theorems are about membership
    and counts) *)
From Coq Require Import Permutation.
From WM Require Import Pipeline.Model.

Section Labelling.
  Context {M : Type}.
  Variable eqbM : M -> M -> bool.
  Hypothesis eqbM_spec : forall a b, eqbM a b = true <-> a = b.
  Variable f : Reg.pubid -> M.

  Let ne (p q : nat) : bool := negb (Nat.eqb q p).

  Lemma filter_ne_notin p l : ~ In p l -> filter (ne p) l = l.
  Proof.
    induction l as [|y l IH]; intros H; simpl; [reflexivity|]. unfold ne at 1.
    destruct (Nat.eqb y p) eqn:E; simpl.
    - apply Nat.eqb_eq in E. subst. exfalso. apply H. now left.
    - f_equal. apply IH. intros Hin. apply H. now right.
  Qed.

  Lemma perm_extract p l : NoDup l -> In p l ->
    Permutation (map f l) (f p :: map f (filter (ne p) l)).
  Proof.
    induction l as [|z l IH]; intros Hnd Hin; [destruct Hin|].
    inversion Hnd as [|? ? Hz Hnd']; subst. simpl. unfold ne at 1.
    destruct (Nat.eqb z p) eqn:E; simpl.
    - apply Nat.eqb_eq in E. subst z. now rewrite filter_ne_notin.
    - apply Nat.eqb_neq in E. destruct Hin as [->|Hin]; [congruence|].
      eapply perm_trans; [apply perm_skip, IH; assumption|apply perm_swap].
  Qed.

  Theorem topic_list_ack p pend : NoDup pend -> In p pend ->
    exists rest, remove_first eqbM (f p) (map f pend) = Some rest
                 /\ Permutation rest (map f (filter (ne p) pend)).
  Proof.
    induction pend as [|y l IH]; intros Hnd Hin; [destruct Hin|].
    inversion Hnd as [|? ? Hy Hnd']; subst. simpl. unfold ne at 1.
    destruct (eqbM (f p) (f y)) eqn:Ef.
    - apply eqbM_spec in Ef. exists (map f l). split; [reflexivity|].
      destruct (Nat.eqb y p) eqn:E; simpl.
      + apply Nat.eqb_eq in E. subst y. now rewrite filter_ne_notin.
      + apply Nat.eqb_neq in E. destruct Hin as [->|Hin]; [congruence|].
        rewrite <- Ef. now apply perm_extract.
    - assert (Hne : y <> p).
      { intros ->. assert (eqbM (f p) (f p) = true) by now apply eqbM_spec. congruence. }
      destruct Hin as [->|Hin]; [congruence|].
      destruct (IH Hnd' Hin) as (rest & E1 & P1). rewrite E1. exists (f y :: rest).
      split; [reflexivity|]. apply Nat.eqb_neq in Hne. rewrite Hne. simpl. now apply perm_skip.
  Qed.

  Theorem topic_list_accept ps pend :
    Permutation (map f (ps ++ pend)) (map f pend ++ map f ps).
  Proof. rewrite map_app. apply Permutation_app_comm. Qed.
End Labelling.

Lemma abs_nodup x st : CInv x st -> NoDup (abs x st).
Proof.
  intros ((_ & _ & I2) & _). unfold abs. apply NoDup_filter. apply cnt_le1_NoDup. intros p.
  rewrite cnt_pubs_of. apply (s_unique _ I2).
Qed.
