(** Counting the indices below [n] that satisfy a boolean predicate (WaitGroup counters). No axioms. *)
From WM Require Import Base.Prelude.

Fixpoint cnt (f : nat -> bool) (n : nat) : nat :=
  match n with O => O | S n' => cnt f n' + (if f n' then 1 else 0) end.

Lemma cnt_ext f g n : (forall h, h < n -> f h = g h) -> cnt f n = cnt g n.
Proof.
  induction n as [|n IH]; intros H; simpl; [reflexivity|].
  rewrite IH by (intros; apply H; lia). rewrite (H n) by lia. reflexivity.
Qed.

Lemma cnt_flip f g n h : h < n -> f h = true -> g h = false ->
  (forall h', h' <> h -> g h' = f h') -> cnt f n = S (cnt g n).
Proof.
  induction n as [|n IH]; intros Hlt Hf Hg Ho; [lia|]. simpl.
  destruct (Nat.eq_dec h n) as [->|Hne].
  - rewrite Hf, Hg. rewrite (cnt_ext g f n) by (intros; apply Ho; lia). lia.
  - rewrite (Ho n) by congruence. rewrite IH by (auto; lia). lia.
Qed.

Lemma cnt_zero f n : cnt f n = 0 <-> (forall h, h < n -> f h = false).
Proof.
  induction n as [|n IH]; simpl; split; intros H.
  - intros; lia.
  - reflexivity.
  - intros h Hh. destruct (f n) eqn:E; [lia|].
    destruct (Nat.eq_dec h n) as [->|]; [exact E|]. apply IH; lia.
  - rewrite (proj2 IH) by (intros; apply H; lia). rewrite H by lia. reflexivity.
Qed.

Lemma cnt_pos f n h : h < n -> f h = true -> 0 < cnt f n.
Proof.
  intros Hh Hf. destruct (cnt f n) eqn:E; [|lia].
  rewrite cnt_zero in E. rewrite E in Hf by exact Hh. discriminate.
Qed.

Lemma forallb_seq_false f n : forallb f (seq 0 n) = false -> exists h, h < n /\ f h = false.
Proof.
  intros H. destruct (forallb f (seq 0 n)) eqn:E; [discriminate|].
  clear H. assert (~ forall x, In x (seq 0 n) -> f x = true) as Hn.
  { intros Hall. apply forallb_forall in Hall. congruence. }
  induction n as [|n IH].
  - exfalso. apply Hn. intros x [].
  - destruct (f n) eqn:En.
    + destruct IH as (h & Hh & Hf).
      * destruct (forallb f (seq 0 n)) eqn:E2; [|reflexivity].
        exfalso. apply Hn. intros x Hx. apply in_seq in Hx.
        destruct (Nat.eq_dec x n) as [->|]; [exact En|].
        rewrite forallb_forall in E2. apply E2. apply in_seq. lia.
      * intros Hall. apply Hn. intros x Hx. apply in_seq in Hx.
        destruct (Nat.eq_dec x n) as [->|]; [exact En|]. apply Hall. apply in_seq. lia.
      * exists h. split; [lia|exact Hf].
    + exists n. split; [lia|exact En].
Qed.

Lemma forallb_seq f n : forallb f (seq 0 n) = true <-> (forall h, h < n -> f h = true).
Proof.
  rewrite forallb_forall. split; intros H h Hh.
  - apply H. apply in_seq. lia.
  - apply in_seq in Hh. apply H. lia.
Qed.

Lemma cnt_sub f g n : (forall h, h < n -> g h = true -> f h = true) ->
  cnt (fun h => f h && negb (g h)) n = cnt f n - cnt g n /\ cnt g n <= cnt f n.
Proof.
  induction n as [|n IH]; intros H; simpl; [split; lia|].
  destruct IH as [A B]; [intros; apply H; auto; lia|].
  destruct (g n) eqn:G.
  - rewrite (H n) by (auto; lia). simpl. split; lia.
  - destruct (f n); simpl; split; lia.
Qed.
