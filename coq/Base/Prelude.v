(** Shared definitions: thread maps with pointwise update, small list helpers.
    No axioms.  Used by every concurrent model. *)
From Coq Require Export List Arith Bool Lia ZArith NArith.
Export ListNotations.

Definition tid := nat.

Section Upd.
  Context {A : Type}.
  Definition upd (f : nat -> A) (k : nat) (v : A) : nat -> A :=
    fun k' => if Nat.eqb k' k then v else f k'.
  Lemma upd_same f k v : upd f k v k = v.
  Proof. unfold upd. now rewrite Nat.eqb_refl. Qed.
  Lemma upd_other f k v k' : k' <> k -> upd f k v k' = f k'.
  Proof. unfold upd. intros H. apply Nat.eqb_neq in H. now rewrite H. Qed.
End Upd.

Ltac updt t t' :=
  destruct (Nat.eq_dec t' t) as [->|?];
  [rewrite ?upd_same in * | rewrite ?upd_other in * by assumption].

(** [nth_error]-based lookups used by scripts ("the k-th call uses the k-th entry,
    the last one repeats"). *)
Fixpoint nth_last {A} (d : A) (l : list A) (k : nat) : A :=
  match l, k with
  | [], _ => d
  | [x], _ => x
  | x :: _, O => x
  | _ :: l', S k' => nth_last d l' k'
  end.

Definition option_eqb {A} (eqb : A -> A -> bool) (a b : option A) : bool :=
  match a, b with
  | Some x, Some y => eqb x y
  | None, None => true
  | _, _ => false
  end.

Fixpoint list_eqb {A} (eqb : A -> A -> bool) (a b : list A) : bool :=
  match a, b with
  | [], [] => true
  | x :: a', y :: b' => eqb x y && list_eqb eqb a' b'
  | _, _ => false
  end.

Lemma list_eqb_spec {A} (eqb : A -> A -> bool) :
  (forall x y, eqb x y = true <-> x = y) ->
  forall a b, list_eqb eqb a b = true <-> a = b.
Proof.
  intros Heq a. induction a as [|x a IH]; intros [|y b]; simpl; split; intros H;
    try reflexivity; try discriminate.
  - apply andb_true_iff in H as [H1 H2]. apply Heq in H1. apply IH in H2. now subst.
  - inversion H; subst. apply andb_true_iff. split; [now apply Heq | now apply IH].
Qed.

(** positions (0-based) of [true] in a boolean list: used by the correspondence
    comparators to name the cases that differ. *)
Fixpoint positions_from (n : nat) (l : list bool) : list nat :=
  match l with
  | [] => []
  | b :: l' => (if b then [n] else []) ++ positions_from (S n) l'
  end.
Definition positions := positions_from 0.
