(** Counting the indices below a bound whose entry in a total map satisfies a boolean test:
    the link between a [sync.WaitGroup] counter and the program counters of the goroutines it
    stands for.  No axioms. *)
From WM Require Import Base.Prelude.

Section Cnt.
  Context {A : Type}.
  Variable P : A -> bool.

  Fixpoint cnt (f : nat -> A) (n : nat) : nat :=
    match n with
    | O => O
    | S n' => (if P (f n') then 1 else 0) + cnt f n'
    end.

  Lemma cnt_upd_out f n k v : n <= k -> cnt (upd f k v) n = cnt f n.
  Proof.
    induction n as [|n IH]; intros Hk; simpl; [reflexivity|].
    rewrite upd_other by lia. rewrite IH by lia. reflexivity.
  Qed.

  Lemma cnt_upd_in f n k v : k < n ->
    cnt (upd f k v) n + (if P (f k) then 1 else 0) = cnt f n + (if P v then 1 else 0).
  Proof.
    induction n as [|n IH]; intros Hk; [lia|]. simpl.
    destruct (Nat.eq_dec k n) as [->|Hne].
    - rewrite upd_same. rewrite cnt_upd_out by lia. lia.
    - rewrite upd_other by lia. assert (k < n) as Hlt by lia. specialize (IH Hlt). lia.
  Qed.

  Lemma cnt_upd_same f n k v : P (f k) = P v -> cnt (upd f k v) n = cnt f n.
  Proof.
    intros He. destruct (Nat.lt_ge_cases k n) as [Hlt|Hge].
    - pose proof (cnt_upd_in f n k v Hlt) as H. rewrite He in H. lia.
    - apply cnt_upd_out; assumption.
  Qed.

  Lemma cnt_upd_inc f n k v : k < n -> P (f k) = false -> P v = true -> cnt (upd f k v) n = S (cnt f n).
  Proof. intros Hlt H1 H2. pose proof (cnt_upd_in f n k v Hlt) as H. rewrite H1, H2 in H. lia. Qed.

  Lemma cnt_upd_dec f n k v : k < n -> P (f k) = true -> P v = false -> S (cnt (upd f k v) n) = cnt f n.
  Proof. intros Hlt H1 H2. pose proof (cnt_upd_in f n k v Hlt) as H. rewrite H1, H2 in H. lia. Qed.

  Lemma cnt_pos f n k : k < n -> P (f k) = true -> 0 < cnt f n.
  Proof.
    induction n as [|n IH]; intros Hk Hp; [lia|]. simpl.
    destruct (Nat.eq_dec k n) as [->|Hne]; [rewrite Hp; lia|].
    assert (k < n) as Hlt by lia. specialize (IH Hlt Hp). lia.
  Qed.

  Lemma cnt_zero f n k : cnt f n = 0 -> k < n -> P (f k) = false.
  Proof.
    intros Hz Hk. destruct (P (f k)) eqn:E; [|reflexivity].
    pose proof (cnt_pos f n k Hk E). lia.
  Qed.

  Lemma cnt_S_false f n : P (f n) = false -> cnt f (S n) = cnt f n.
  Proof. intros H. simpl. rewrite H. reflexivity. Qed.

  Lemma cnt_ext f g n : (forall k, k < n -> f k = g k) -> cnt f n = cnt g n.
  Proof.
    induction n as [|n IH]; intros H; simpl; [reflexivity|].
    rewrite H by lia. rewrite IH; [reflexivity|]. intros k Hk. apply H. lia.
  Qed.
End Cnt.
