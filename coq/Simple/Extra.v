(** C19 — three more middlewares of message/router/middleware, as transformers of the same handlers:
      duplicator.go  Duplicator  (whole function),
      randomfail.go  RandomFail, RandomPanic, shouldFail  (whole file; the draw
                     [rand.Float32() <= probability] is an oracle: [hit]).
    They are not "simple" (Duplicator calls the handler twice, the other two may not call it), so a
    chain is [pre ++ X :: post] with [pre], [post] chains of simple middlewares.  No proofs here. *)
From WM Require Import Base.Prelude Simple.Model Simple.Monitor.

Inductive xmw :=
| XDup
| XRandFail (hit : bool)        (* hit = shouldFail(errorProbability) of this invocation *)
| XRandPanic (hit : bool).

Definition T_RFAIL : N := 10.     (* "random fail occurred" *)
Definition T_RPANIC : N := 11.    (* "random panic occurred" *)

Definition x_sem (x : xmw) (h : handler) : handler := fun w =>
  match x with
  | XDup =>
      let '(w1, r1) := h w in
      match r1 with
      | Ret o1 =>
          let '(w2, r2) := h w1 in
          match r2 with
          | Ret o2 => (w2, Ret (o1 ++ o2))           (* append(first, second...) *)
          | Fail _ e => (w2, Fail [] e)              (* return nil, secondErr *)
          | Panic p => (w2, Panic p)
          end
      | Fail _ e => (w1, Fail [] e)                  (* return nil, firstErr *)
      | Panic p => (w1, Panic p)
      end
  | XRandFail hit => if hit then (w, Fail [] (EBase T_RFAIL)) else h w
  | XRandPanic hit => if hit then (w, Panic (PStr T_RPANIC)) else h w
  end.

Definition xstack (v : variant) (pre : list mw) (x : xmw) (post : list mw) (s : script) : handler :=
  stack v pre (x_sem x (stack v post (scripted s))).

(** the property as an acceptor of one observed invocation of [pre ++ X :: post] around a script:
    0 the handler is called as often as X alone calls the handler that carries post's documented
    effects (twice / once / not at all); 1 consecutive call numbers; 2 error / panic value = that
    run's through [eff pre]; 3 as many produced messages as that run returns (both calls' outputs on
    success, none with an error); 4 the message context afterwards is the context before *)
Definition bare_x (x : xmw) (post : list mw) (s : script) (w0 : world) : world * outcome :=
  x_sem x (scripted (map_res (effo post) s)) (W (w_msg w0) (w_calls w0) []).
Definition clauses_x (pre : list mw) (x : xmw) (post : list mw) (s : script) (w0 : world)
           (tr : list event) (r : outcome) (v : vstate) : list bool :=
  let '(wb, rb) := bare_x x post s w0 in
  [ Nat.eqb (ncalls tr) (w_calls wb - w_calls w0);
    call_indices_from (w_calls w0) tr;
    K_eqb (rkind r) (eff pre (rkind rb));
    Nat.eqb (length (outs_of r)) (length (outs_of rb));
    Bool.eqb (v_same v) (v_same (view (w_msg w0)))
    && Bool.eqb (v_done v) (ctx_done (w_msg wb))
    && optZ_eqb (v_deadline v) (v_deadline (view (w_msg w0))) ].
Definition x_accept pre x post s w0 tr r v : bool := all_true (clauses_x pre x post s w0 tr r v).
