(** C19 — the timing acceptors of Corr/C19.v ([thr_violates], [thr_count_violates], [dl_violates])
    never reject what the clock models do. *)
From WM Require Import Base.Prelude Simple.Throttle Simple.ThrottleProofs Simple.Deadline Simple.DeadlineProofs
  Simple.Model Simple.Monitor Corr.C19.
Local Open Scope Z_scope.

Theorem thr_model_accepted : forall p slack, 0 < p -> 0 <= slack -> forall arr t0,
  thr_violates (Thr p slack (throttle_run p (new_ticker t0 p) t0 arr)) = false.
Proof.
  intros p slack Hp Hs arr t0. unfold thr_violates. simpl.
  rewrite (spaced_slack_mono p 0 slack _ Hs); auto.
  apply throttle_spaced; simpl; auto; lia.
Qed.

Lemma run_ge_prev : forall p, 0 < p -> forall arr tk prev x, t_buf tk = false ->
  In x (throttle_run p tk prev arr) -> prev <= x.
Proof.
  intros p Hp. induction arr as [|a arr IH]; intros tk prev x Hb Hin; simpl in Hin; [contradiction|].
  pose proof (recv_spec p tk (Z.max a prev) Hp Hb) as R.
  destruct (recv p tk (Z.max a prev)) as [tk' s]. destruct R as (R1 & R2 & _).
  destruct Hin as [<-|Hin]; [lia|]. specialize (IH tk' s x R2 Hin). lia.
Qed.
(** n starts between the creation of the ticker and the last start: n-2 periods fit *)
Theorem thr_count_model_accepted : forall p, 0 < p -> forall arr t0,
  let starts := throttle_run p (new_ticker t0 p) t0 arr in
  thr_count_violates p (Z.of_nat (length starts)) t0 (last starts t0) = false.
Proof.
  intros p Hp arr t0 starts. unfold thr_count_violates.
  apply Bool.negb_false_iff. apply Z.leb_le.
  assert (SP: spaced p 0 starts = true) by (apply throttle_spaced; simpl; auto; lia).
  assert (G: forall x, In x starts -> t0 <= x) by (intros x Hx; apply (run_ge_prev p Hp arr (new_ticker t0 p) t0 x); auto).
  destruct starts as [|x r] eqn:E; [cbn [length last]; change (Z.of_nat 0) with 0; lia|].
  destruct r as [|y r'] eqn:E2.
  - cbn [length last]. change (Z.of_nat 1) with 1. specialize (G x (or_introl eq_refl)). lia.
  - (* first start x, last start: at distance length-1 *)
    assert (L: nth_error (x :: y :: r') (0 + Datatypes.S (length r')) = Some (last (x :: y :: r') t0)).
    { clear. simpl. revert y. induction r' as [|z r' IH]; intros y; simpl; auto; try apply (IH z). }
    pose proof (spaced_meaning p 0 (x :: y :: r') SP 0%nat (length r') x _ eq_refl L) as M.
    specialize (G x (or_introl eq_refl)).
    change (length (x :: y :: r')) with (Datatypes.S (Datatypes.S (length r'))).
    rewrite !Nat2Z.inj_succ. lia.
Qed.

Lemma attempts_length : forall c dmin, timeouts c <> [] -> (forall d, In d (timeouts c) -> dmin <= d) ->
  forall n t0 lats lates waits, length (attempts n t0 c lats lates waits) = n.
Proof.
  intros c dmin Hc Hd. induction n as [|n IH]; intros; simpl; auto.
  destruct (deadline_lower_bound t0 c (hd [] lats) (hd 0 lates) dmin Hd) as [_ E].
  destruct (E Hc) as [e ->]. simpl. now rewrite IH.
Qed.
(** n blocking attempts under a chain with at least one Timeout, all >= dmin: accepted *)
Theorem dl_model_accepted : forall c dmin slack, timeouts c <> [] -> (forall d, In d (timeouts c) -> dmin <= d) ->
  0 <= slack -> forall n lats lates waits,
  dl_violates (DL dmin slack (attempts n 0 c lats lates waits) n) = false.
Proof.
  intros c dmin slack Hc Hd Hs n lats lates waits. unfold dl_violates. simpl.
  rewrite (attempts_length c dmin Hc Hd), Nat.eqb_refl.
  assert (B: block_ok 0 dmin slack (attempts n 0 c lats lates waits) = true).
  { pose proof (attempts_block_ok dmin c Hd n 0 lats lates waits) as B0.
    revert B0. generalize (attempts n 0 c lats lates waits). generalize 0 at 1 3.
    intros prev l. revert prev. induction l as [|e l IH]; intros prev H; simpl in *; auto.
    apply andb_true_iff in H as [H1 H2]. apply andb_true_iff. split; auto.
    apply Z.leb_le in H1. apply Z.leb_le. lia. }
  now rewrite B.
Qed.
