(** C19 — Throttle with the state of the message context as an input.  throttle.go receives from
    the ticker and nothing else ([watch = false]): the context of the message plays no part.
    [watch = true] is the variant in which the wait is a select that also watches
    msg.Context().Done() and calls the handler either way; it is kept only to show that the rate
    theorem is sensitive to exactly that.  No proofs here. *)
From WM Require Import Base.Prelude Simple.Throttle.
Local Open Scope Z_scope.

Inductive cstate :=
| CAlive                        (* never done during the run *)
| CDoneAt (t : Z).              (* done from time t on (cancelled / deadline), possibly before the arrival *)
Record req := Req { r_arr : Z; r_ctx : cstate }.

Definition recv_ctx (watch : bool) (p : Z) (tk : ticker) (t : Z) (c : cstate) : ticker * Z :=
  match watch, c with
  | true, CDoneAt d =>
      let '(tk', s) := recv p tk t in
      if d <=? s then (advance p tk (Z.max t d), Z.max t d)     (* ctx.Done() first: no tick consumed *)
      else (tk', s)
  | _, _ => recv p tk t
  end.

Fixpoint throttle_run_ctx (watch : bool) (p : Z) (tk : ticker) (prev : Z) (reqs : list req) : list Z :=
  match reqs with
  | [] => []
  | q :: r => let '(tk', s) := recv_ctx watch p tk (Z.max (r_arr q) prev) (r_ctx q) in
              s :: throttle_run_ctx watch p tk' s r
  end.
