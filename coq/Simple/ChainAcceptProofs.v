(** C19 — the acceptor that checks/c19.py evaluates on a whole case (every invocation of a chain on
    the same message, each judged from the message as it was observed before it: Corr/C19.v
    [accept_invs], [c19_violates]) accepts every run of the repaired model. *)
From WM Require Import Base.Prelude Simple.Model Simple.Monitor Simple.Proofs Simple.ComposeProofs
  Simple.AcceptProofs Corr.C19.

(** every handler built from a script by any chain appends to the trace and counts its calls *)
Definition tally (h : handler) : Prop :=
  forall w, exists t, w_trace (fst (h w)) = w_trace w ++ t /\ w_calls (fst (h w)) = (w_calls w + ncalls t)%nat.

Lemma tally_scripted : forall s, tally (scripted s).
Proof.
  intros s w. unfold scripted. simpl. eexists. split; [reflexivity|]. unfold ncalls. simpl. lia.
Qed.
Lemma tally_retry_loop : forall h, tally h -> forall n num depth w outs e,
  exists t, w_trace (fst (retry_loop h n num depth w outs e)) = w_trace w ++ t
            /\ w_calls (fst (retry_loop h n num depth w outs e)) = (w_calls w + ncalls t)%nat.
Proof.
  intros h Hh. induction n as [|n IH]; intros; cbn [retry_loop].
  - exists []. rewrite app_nil_r. split; auto; unfold ncalls; simpl; lia.
  - destruct (done_upto depth (w_msg w)); cbn [fst].
    + exists []. rewrite app_nil_r. split; auto; unfold ncalls; simpl; lia.
    + destruct (Hh w) as [t [A B]]. destruct (h w) as [w1 r]. cbn [fst] in *.
      destruct r; cbn [fst]; try (exists t; split; assumption).
      destruct (IH (num + 1)%Z depth (emit w1 (ERetryHook num)) outs0 e0) as [t2 [A2 B2]].
      rewrite A2, B2. unfold emit. cbn [w_trace w_calls]. rewrite A, B.
      exists (t ++ [ERetryHook num] ++ t2). split; [now rewrite !app_assoc|].
      rewrite !ncalls_app. change (ncalls [ERetryHook num]) with 0%nat. lia.
Qed.
Lemma tally_mw : forall v m h, tally h -> tally (mw_sem v m h).
Proof.
  intros v m h Hh w. destruct m; cbn [mw_sem].
  - destruct (Hh (set_msg w (set_ctx (w_msg w) (Layer d false :: m_ctx (w_msg w))))) as [t [A B]].
    destruct (h _) as [w2 r]. simpl in *. eauto.
  - destruct (Hh w) as [t [A B]]. destruct (h w) as [w1 r]. destruct r; simpl in *; eauto.
  - destruct (Hh w) as [t [A B]]. destruct (h w) as [w1 r]. destruct r; simpl in *; eauto.
  - destruct (Hh w) as [t [A B]]. destruct (h w) as [w1 r]. destruct r; simpl in *; eauto.
    destruct (in_texts _ _); simpl; eauto.
  - destruct (Hh (set_msg w (set_settle (w_msg w) (ack_settle (m_settle (w_msg w)))))) as [t [A B]]. simpl in *. eauto.
  - apply Hh.
  - apply Hh.
  - destruct (Hh w) as [t [A B]]. destruct (h w) as [w1 r]. destruct r; simpl in *; eauto.
  - destruct (Hh w) as [t [A B]]. destruct (h w) as [w1 r]. cbn [fst] in *.
    destruct r; cbn [fst]; eauto.
    destruct (tally_retry_loop h Hh (retry_iters maxr) 1%Z (length (m_ctx (w_msg w1))) w1 outs e) as [t2 [A2 B2]].
    rewrite A2, B2, A, B. exists (t ++ t2). split; [now rewrite app_assoc|]. rewrite ncalls_app. lia.
Qed.
Lemma tally_stack : forall v mws h, tally h -> tally (stack v mws h).
Proof. induction mws; simpl; auto using tally_mw. Qed.

Lemma accept_ext : forall mws s a w tr r v, w_msg a = w_msg w -> w_calls a = w_calls w ->
  accept mws s a tr r v = accept mws s w tr r v.
Proof. intros mws s [am ac at_] [wm wc wt] tr r v. simpl. intros -> ->. reflexivity. Qed.
Lemma unview_view : forall m, m_ctx m = [] -> unview (view m) = m.
Proof.
  intros [mt c b st dl]. simpl. intros ->. unfold view, unview, ctx_done. simpl.
  rewrite orb_false_r. destruct dl; reflexivity.
Qed.

Lemma chain_accepted_gen : forall mws s n w a,
  m_ctx (w_msg w) = [] -> w_msg a = w_msg w -> w_calls a = w_calls w ->
  accept_invs mws s a (model_invs (stack repaired mws (scripted s)) n w) = true.
Proof.
  intros mws s. induction n as [|n IH]; intros w a Hc Hm Hk; [reflexivity|].
  cbn [model_invs].
  pose proof (model_accepted mws s w) as MA. unfold observe in MA.
  pose proof (stack_ctx mws _ (scripted_ctx s) (W (w_msg w) (w_calls w) [])) as CX.
  destruct (tally_stack repaired mws _ (tally_scripted s) (W (w_msg w) (w_calls w) [])) as [t [TA TB]].
  destruct (stack repaired mws (scripted s) (W (w_msg w) (w_calls w) [])) as [w1 r]. simpl in CX, TA, TB.
  cbn [accept_invs i_trace i_res i_after]. apply andb_true_iff. split.
  - rewrite (accept_ext mws s a w) by auto. exact MA.
  - apply IH.
    + congruence.
    + simpl. apply unview_view. congruence.
    + simpl. rewrite TA, TB, Hk. reflexivity.
Qed.

(** the whole-case acceptor never rejects what the repaired model does: every chain (any length and
    order, Retry anywhere), every script, every starting message (on its original context), every
    number of invocations *)
Theorem chain_model_accepted : forall mws s m0 n, m_ctx m0 = [] ->
  accept_invs mws s (init_world m0) (model_invs (stack repaired mws (scripted s)) n (init_world m0)) = true.
Proof. intros. apply chain_accepted_gen; auto. Qed.
Corollary case_model_accepted : forall c, m_ctx (k_init c) = [] ->
  c19_violates (C19 (k_mws c) (k_script c) (k_init c) (c19_model repaired c)) = false.
Proof.
  intros c H. unfold c19_violates, c19_model. simpl. now rewrite chain_model_accepted.
Qed.
