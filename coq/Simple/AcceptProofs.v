(** C19 — the repaired model passes the acceptor that judges implementation traces
    (Simple/Monitor.v [accept]), for every chain and every script.
    A chain of simple middlewares = entry effects ([entry_msg]) + the handler + exit fold ([exit_all]). *)
From WM Require Import Base.Prelude Simple.Model Simple.Monitor Simple.Proofs Simple.ComposeProofs.

(** ** entry effects: every Timeout pushes a layer, InstantAck acks *)
Fixpoint entry_msg (mws : list mw) (m : mstate) : mstate :=
  match mws with
  | [] => m
  | MTimeout d :: r => entry_msg r (set_ctx m (Layer d false :: m_ctx m))
  | MInstantAck :: r => entry_msg r (set_settle m (ack_settle (m_settle m)))
  | _ :: r => entry_msg r m
  end.

(** ** exit effects on (metadata of the consumed message, result) *)
Definition corr_res (id : mval) (o : outcome) : outcome :=
  match o with
  | Ret outs => Ret (map (corr_out id) outs)
  | Fail outs e => Fail (map (corr_out id) outs) e
  | Panic p => Panic p
  end.
Definition exit1 (m : mw) (mt : meta) (o : outcome) : meta * outcome :=
  match m with
  | MCorrelation => (mt, corr_res (mget K_CORR mt) o)
  | MRecoverer => (mt, effo1 MRecoverer o)
  | MIgnore l => (mt, effo1 (MIgnore l) o)
  | MDelay c => (match o with Fail _ _ => apply_delay repaired c mt | _ => mt end, o)
  | _ => (mt, o)
  end.
Fixpoint exit_all (mws : list mw) (mt : meta) (o : outcome) : meta * outcome :=
  match mws with
  | [] => (mt, o)
  | m :: r => let '(mt', o') := exit_all r mt o in exit1 m mt' o'
  end.

Lemma stack_char : forall mws, forallb is_simple mws = true -> forall (h : handler) w,
  let X := h (set_msg w (entry_msg mws (w_msg w))) in
  let Y := stack repaired mws h w in
  let E := exit_all mws (m_meta (w_msg (fst X))) (snd X) in
  snd Y = snd E /\ m_meta (w_msg (fst Y)) = fst E
  /\ m_base_done (w_msg (fst Y)) = m_base_done (w_msg (fst X))
  /\ m_settle (w_msg (fst Y)) = m_settle (w_msg (fst X))
  /\ w_calls (fst Y) = w_calls (fst X) /\ w_trace (fst Y) = w_trace (fst X).
Proof.
  induction mws as [|m mws IH]; intros Hs h w.
  - destruct w as [mm c t]. simpl. repeat split.
  - simpl in Hs. apply andb_true_iff in Hs as [Hm Hs]. specialize (IH Hs h).
    destruct m; try discriminate; cbn [stack mw_sem entry_msg exit_all]; cbv zeta.
    + (* Timeout *)
      specialize (IH (set_msg w (set_ctx (w_msg w) (Layer d false :: m_ctx (w_msg w))))).
      cbv zeta in IH. simpl in IH. simpl.
      destruct (stack repaired mws h _) as [w2 r2]. simpl in *.
      destruct (h _) as [wx rx]. simpl in *.
      destruct (exit_all mws (m_meta (w_msg wx)) rx) as [mt o]. simpl in *. exact IH.
    + specialize (IH w). cbv zeta in IH.
      destruct (stack repaired mws h w) as [w2 r2]. destruct (h _) as [wx rx]. simpl in *.
      destruct (exit_all mws (m_meta (w_msg wx)) rx) as [mt o]. simpl in *.
      destruct IH as (I1 & I2 & I3 & I4 & I5 & I6). subst r2. unfold corr_apply. rewrite I2.
      destruct o; simpl; repeat split; auto.
    + specialize (IH w). cbv zeta in IH.
      destruct (stack repaired mws h w) as [w2 r2]. destruct (h _) as [wx rx]. simpl in *.
      destruct (exit_all mws (m_meta (w_msg wx)) rx) as [mt o]. simpl in *.
      destruct IH as (I1 & I2 & I3 & I4 & I5 & I6). subst r2.
      destruct o; simpl; repeat split; auto.
    + specialize (IH w). cbv zeta in IH.
      destruct (stack repaired mws h w) as [w2 r2]. destruct (h _) as [wx rx]. simpl in *.
      destruct (exit_all mws (m_meta (w_msg wx)) rx) as [mt o]. simpl in *.
      destruct IH as (I1 & I2 & I3 & I4 & I5 & I6). subst r2.
      destruct o; simpl; try (repeat split; auto; fail).
      destruct (in_texts _ _); simpl; repeat split; auto.
    + (* InstantAck *)
      specialize (IH (set_msg w (set_settle (w_msg w) (ack_settle (m_settle (w_msg w)))))).
      cbv zeta in IH. simpl in IH. simpl.
      destruct (stack repaired mws h _) as [w2 r2]. simpl in *.
      destruct (h _) as [wx rx]. simpl in *.
      destruct (exit_all mws (m_meta (w_msg wx)) rx) as [mt o]. simpl in *. exact IH.
    + specialize (IH w). cbv zeta in IH.
      destruct (stack repaired mws h w) as [w2 r2]. destruct (h _) as [wx rx]. simpl in *.
      destruct (exit_all mws (m_meta (w_msg wx)) rx) as [mt o]. simpl in *. exact IH.
    + specialize (IH w). cbv zeta in IH.
      destruct (stack repaired mws h w) as [w2 r2]. destruct (h _) as [wx rx]. simpl in *.
      destruct (exit_all mws (m_meta (w_msg wx)) rx) as [mt o]. simpl in *. exact IH.
    + specialize (IH w). cbv zeta in IH.
      destruct (stack repaired mws h w) as [w2 r2]. destruct (h _) as [wx rx]. simpl in *.
      destruct (exit_all mws (m_meta (w_msg wx)) rx) as [mt o]. simpl in *.
      destruct IH as (I1 & I2 & I3 & I4 & I5 & I6). subst r2.
      destruct o; simpl; repeat split; auto. now rewrite I2.
Qed.

(** ** facts about the entry effects *)
Lemma entry_meta : forall mws m, m_meta (entry_msg mws m) = m_meta m.
Proof. induction mws as [|x mws IH]; intros m; simpl; auto. destruct x; rewrite ?IH; reflexivity. Qed.
Lemma entry_base : forall mws m, m_base_done (entry_msg mws m) = m_base_done m.
Proof. induction mws as [|x mws IH]; intros m; simpl; auto. destruct x; rewrite ?IH; reflexivity. Qed.
Lemma entry_bdl : forall mws m, m_base_dl (entry_msg mws m) = m_base_dl m.
Proof. induction mws as [|x mws IH]; intros m; simpl; auto. destruct x; rewrite ?IH; reflexivity. Qed.
Lemma entry_ctx : forall mws m, m_ctx (entry_msg mws m) = push_layers mws (m_ctx m).
Proof. induction mws as [|x mws IH]; intros m; simpl; auto. destruct x; rewrite ?IH; reflexivity. Qed.
Lemma ack_settle_idem : forall s, ack_settle (ack_settle s) = ack_settle s.
Proof. destruct s; reflexivity. Qed.
Lemma entry_settle : forall mws m,
  m_settle (entry_msg mws m) = if has_ack mws then ack_settle (m_settle m) else m_settle m.
Proof.
  induction mws as [|x mws IH]; intros m; simpl; auto.
  destruct x; simpl; rewrite IH; simpl; auto.
  rewrite ack_settle_idem. destruct (has_ack mws); reflexivity.
Qed.
Lemma push_layers_alive : forall mws ctx, existsb l_cancelled (push_layers mws ctx) = existsb l_cancelled ctx.
Proof. induction mws as [|x mws IH]; intros ctx; simpl; auto. destruct x; rewrite ?IH; reflexivity. Qed.
Lemma entry_app : forall a b m, entry_msg (a ++ b) m = entry_msg b (entry_msg a m).
Proof. induction a as [|x a IH]; intros b m; simpl; auto. destruct x; rewrite ?IH; reflexivity. Qed.

Lemma err_pval_eqb_refl : (forall e, err_eqb e e = true) /\ (forall v, pval_eqb v v = true).
Proof.
  assert (F: forall e, err_eqb e e = true).
  { fix IH 1. intros e. destruct e as [t|t e|t e|v]; simpl.
    - apply N.eqb_refl.
    - rewrite N.eqb_refl. simpl. apply IH.
    - rewrite N.eqb_refl. simpl. apply IH.
    - destruct v as [s|e|]; simpl; [apply N.eqb_refl | apply IH | reflexivity]. }
  split; auto. intros v. destruct v; simpl; auto. apply N.eqb_refl.
Qed.
Lemma K_eqb_refl : forall k, K_eqb k k = true.
Proof. destruct k; simpl; auto; apply err_pval_eqb_refl. Qed.
Lemma settle_eqb_refl : forall s, settle_eqb s s = true.
Proof. destruct s; reflexivity. Qed.
Lemma optZ_eqb_refl : forall o, optZ_eqb o o = true.
Proof. destruct o; simpl; auto. apply Z.eqb_refl. Qed.

(** [seen_ok] of what the handler sees under the chain *)
Lemma seen_ok_entry : forall mws m, seen_ok mws m (view (entry_msg mws m)) = true.
Proof.
  intros mws m. unfold seen_ok, view, ctx_done. simpl.
  rewrite entry_meta, entry_ctx, entry_base, entry_settle, entry_bdl, push_layers_alive.
  rewrite meta_equiv_refl, !Bool.eqb_reflx, optZ_eqb_refl, settle_eqb_refl. reflexivity.
Qed.

(** ** facts about the exit fold *)
Lemma rkind_exit1 : forall m mt o, rkind (snd (exit1 m mt o)) = eff1 m (rkind o).
Proof.
  intros m mt o. destruct m; simpl; try (destruct o; reflexivity).
  destruct o; simpl; auto. destruct (in_texts _ _); reflexivity.
Qed.
Lemma rkind_exit : forall mws mt o, rkind (snd (exit_all mws mt o)) = eff mws (rkind o).
Proof.
  induction mws as [|m mws IH]; intros mt o; simpl; auto.
  specialize (IH mt o). destruct (exit_all mws mt o) as [mt' o']. simpl in IH.
  rewrite rkind_exit1. now rewrite IH.
Qed.
Lemma meta_exit : forall mws mt o, fst (exit_all mws mt o) = exp_meta mws (rkind o) mt.
Proof.
  induction mws as [|m mws IH]; intros mt o; simpl; auto.
  pose proof (rkind_exit mws mt o) as RK. specialize (IH mt o).
  destruct (exit_all mws mt o) as [mt' o']. simpl in *. subst mt'. rewrite <- RK.
  destruct m; simpl; auto. destruct o'; reflexivity.
Qed.
Lemma corr_key_not_delay : K_CORR <> K_DFOR /\ K_CORR <> K_DUNTIL.
Proof. unfold K_CORR, K_DFOR, K_DUNTIL. split; discriminate. Qed.
Lemma corr_exp_meta : forall mws k mt, mget K_CORR (exp_meta mws k mt) = mget K_CORR mt.
Proof.
  induction mws as [|m mws IH]; intros k mt; simpl; auto.
  destruct m; auto. destruct (eff mws k); auto.
  rewrite apply_delay_others; auto; apply corr_key_not_delay.
Qed.

Lemma mset_mset : forall k v v' m, mset k v (mset k v' m) = mset k v m.
Proof.
  intros k v v' m. induction m as [|[k2 v2] m IH]; simpl.
  - now rewrite N.eqb_refl.
  - destruct (N.eqb k k2) eqn:E; simpl; rewrite ?N.eqb_refl, ?E; auto. now rewrite IH.
Qed.
Lemma set_corr_idem : forall id mt, set_corr id (set_corr id mt) = set_corr id mt.
Proof.
  intros id mt. destruct (is_empty (mget K_CORR mt)) eqn:E.
  - assert (S: set_corr id mt = mset K_CORR id mt) by (unfold set_corr; now rewrite E).
    rewrite S. unfold set_corr. rewrite mget_mset_same. destruct (is_empty id); auto. apply mset_mset.
  - rewrite (set_corr_kept id mt E). apply set_corr_kept; auto.
Qed.
Lemma corr_out_idem : forall id o, corr_out id (corr_out id o) = corr_out id o.
Proof. intros id [|m]; simpl; auto. now rewrite set_corr_idem. Qed.
Lemma map_corr_idem : forall id l, map (corr_out id) (map (corr_out id) l) = map (corr_out id) l.
Proof. intros. rewrite map_map. apply map_ext. apply corr_out_idem. Qed.

(** the outputs that leave the chain: the handler's, with the correlation id filled in iff a
    CorrelationID is in the chain *)
Lemma outs_exit : forall mws mt o,
  outs_of (snd (exit_all mws mt o)) =
  if has_corr mws then map (corr_out (mget K_CORR mt)) (outs_of o) else outs_of o.
Proof.
  induction mws as [|m mws IH]; intros mt o; simpl; auto.
  specialize (IH mt o). pose proof (meta_exit mws mt o) as ME.
  destruct (exit_all mws mt o) as [mt' o']. simpl in *.
  assert (CK: mget K_CORR mt' = mget K_CORR mt) by (subst mt'; apply corr_exp_meta).
  destruct m; simpl; auto;
    try (destruct o'; simpl in *; auto; try (destruct (in_texts _ _); simpl; auto); fail).
  (* CorrelationID *) rewrite CK.
  replace (outs_of (corr_res (mget K_CORR mt) o')) with (map (corr_out (mget K_CORR mt)) (outs_of o'))
    by (destruct o'; reflexivity).
  rewrite IH. destruct (has_corr mws); auto. apply map_corr_idem.
Qed.

(** ** what the pre-actions of the handler do depends field by field on the message *)
Lemma actions_meta_dep : forall l m m', m_meta m = m_meta m' ->
  m_meta (fold_left do_action l m) = m_meta (fold_left do_action l m').
Proof.
  induction l as [|a l IH]; intros m m' H; simpl; auto. apply IH. destruct a; simpl; auto. now rewrite H.
Qed.
Lemma actions_settle_dep : forall l m m', m_settle m = m_settle m' ->
  m_settle (fold_left do_action l m) = m_settle (fold_left do_action l m').
Proof.
  induction l as [|a l IH]; intros m m' H; simpl; auto. apply IH. destruct a; simpl; auto; now rewrite H.
Qed.

(** ** chains of simple middlewares pass [accept_simple] *)
Lemma bool3 : forall a b c : bool, (a || b) || c = (a || c) || b.
Proof. destruct a, b, c; reflexivity. Qed.

Theorem simple_accepted : forall mws s w0, forallb is_simple mws = true ->
  let '(tr, r, v) := observe (stack repaired mws (scripted s)) w0 in
  accept_simple mws s w0 tr r v = true.
Proof.
  intros mws s w0 Hs. unfold observe.
  set (w := W (w_msg w0) (w_calls w0) []).
  pose proof (stack_char mws Hs (scripted s) w) as CH. cbv zeta in CH.
  pose proof (stack_ctx mws _ (scripted_ctx s) w) as CX.
  pose proof (stack_bdl repaired mws _ (scripted_bdl s) w) as CD.
  destruct (stack repaired mws (scripted s) w) as [w1 r]. simpl in CH, CX, CD.
  set (c := nth_last default_call s (w_calls w0)) in *.
  set (m0 := w_msg w0) in *.
  set (me := entry_msg mws m0) in *.
  set (mx := fold_left do_action (c_pre c) me) in *.
  destruct CH as (C1 & C2 & C3 & C4 & C5 & C6).
  set (m1 := fold_left do_action (c_pre c)
               (if has_ack mws then set_settle m0 (ack_settle (m_settle m0)) else m0)).
  assert (M: m_meta mx = m_meta m1).
  { apply actions_meta_dep. unfold me. rewrite entry_meta. destruct (has_ack mws); reflexivity. }
  assert (S: m_settle mx = m_settle m1).
  { apply actions_settle_dep. unfold me. rewrite entry_settle. destruct (has_ack mws); reflexivity. }
  unfold accept_simple, clauses_simple, all_true. fold c. fold m0. fold m1.
  cbn [forallb]. rewrite C6. cbn [app].
  rewrite Nat.eqb_refl. unfold me. rewrite seen_ok_entry. fold me.
  (* kind *)
  rewrite C1, rkind_exit, K_eqb_refl.
  (* outputs *)
  rewrite outs_exit, M.
  assert (O: outs_ok (has_corr mws) (mget K_CORR (m_meta m1))
               (if has_corr mws then map (corr_out (mget K_CORR (m_meta m1))) (outs_of (c_res c)) else outs_of (c_res c))
               (outs_of (c_res c)) = true).
  { destruct (has_corr mws); [apply outs_ok_corr | apply outs_ok_same]. }
  rewrite O.
  (* context restored *)
  assert (X: ctx_restored m0 (cancels c) (view (w_msg w1)) = true).
  { unfold ctx_restored, view, ctx_done. simpl. rewrite CX, CD, C3. unfold mx. rewrite actions_base.
    unfold me. rewrite entry_base. fold m0.
    rewrite !Bool.eqb_reflx, optZ_eqb_refl. simpl.
    rewrite bool3. change (cancels c) with (existsb is_cancel (c_pre c)).
    rewrite Bool.eqb_reflx. reflexivity. }
  rewrite X.
  (* settlement, metadata *)
  simpl v_settle. rewrite C4, S, settle_eqb_refl.
  simpl v_meta. rewrite C2, meta_exit, M, meta_equiv_refl. reflexivity.
Qed.

(** ** Retry anywhere in the chain: simulation that also relates the traces *)
Inductive shape := SCall (k : nat) | SHook (n : Z).
Definition shape_of (e : event) : shape := match e with ECall k _ => SCall k | ERetryHook n => SHook n end.
Definition shapes (tr : list event) : list shape := map shape_of tr.
Definition ec (w : world) : bool := existsb l_cancelled (m_ctx (w_msg w)).

Definition R2 (w w' : world) : Prop :=
  w_calls w = w_calls w' /\ m_base_done (w_msg w) = m_base_done (w_msg w')
  /\ shapes (w_trace w) = shapes (w_trace w').
Definition sim2 (G G' : handler) : Prop :=
  forall w w', R2 w w' -> R2 (fst (G w)) (fst (G' w')) /\ rkind (snd (G w)) = rkind (snd (G' w')).

Lemma sim2_inner : forall inner s, forallb is_simple inner = true ->
  sim2 (stack repaired inner (scripted s)) (scripted (map_res (effo inner) s)).
Proof.
  intros inner s Hs w w' (Hc & Hb & Ht).
  pose proof (stack_char inner Hs (scripted s) w) as CH. cbv zeta in CH.
  rewrite scripted_map_res.
  destruct (stack repaired inner (scripted s) w) as [w1 r]. simpl in CH.
  destruct CH as (C1 & C2 & C3 & C4 & C5 & C6). simpl.
  unfold R2. simpl. rewrite C5, C3, C6, C1, rkind_exit, rkind_effo.
  rewrite !actions_base, entry_base. simpl. rewrite Hc, Hb.
  unfold shapes in *. rewrite !map_app, Ht. simpl. auto.
Qed.

Lemma existsb_rev : forall {A} (f : A -> bool) l, existsb f (rev l) = existsb f l.
Proof.
  intros A f l. induction l as [|x l IH]; simpl; auto.
  rewrite existsb_app, IH. simpl. rewrite orb_false_r. apply orb_comm.
Qed.
Lemma done_upto_full : forall m, done_upto (length (m_ctx m)) m = ctx_done m.
Proof.
  intros m. unfold done_upto, ctx_done. rewrite <- rev_length, firstn_all, existsb_rev. reflexivity.
Qed.

Lemma retry_loop_sim2 : forall H H', sim2 H H' -> ctx_preserving H -> ctx_preserving H' ->
  forall n num w w' depth depth' outs outs' e,
  R2 w w' -> ec w = ec w' ->
  depth = length (m_ctx (w_msg w)) -> depth' = length (m_ctx (w_msg w')) ->
  R2 (fst (retry_loop H n num depth w outs e)) (fst (retry_loop H' n num depth' w' outs' e))
  /\ rkind (snd (retry_loop H n num depth w outs e)) = rkind (snd (retry_loop H' n num depth' w' outs' e)).
Proof.
  intros H H' Hsim C C'. induction n as [|n IH]; intros num w w' depth depth' outs outs' e HR He Hd Hd'; simpl; auto.
  assert (D: done_upto depth (w_msg w) = done_upto depth' (w_msg w')).
  { subst depth depth'. rewrite !done_upto_full. unfold ctx_done. destruct HR as (_ & Hb & _).
    rewrite Hb. unfold ec in He. now rewrite He. }
  rewrite D. destruct (done_upto depth' (w_msg w')); simpl; auto.
  destruct (Hsim w w' HR) as [HR1 HK]. pose proof (C w) as P. pose proof (C' w') as P'.
  destruct (H w) as [w1 r]. destruct (H' w') as [w1' r']. simpl in *.
  destruct r as [o|o e1|p], r' as [o'|o' e1'|p']; simpl in HK; try discriminate; simpl; auto.
  inversion HK; subst e1'. apply IH.
  - destruct HR1 as (A & B & T). unfold R2, emit. simpl. repeat split; auto.
    unfold shapes in *. rewrite !map_app, T. reflexivity.
  - unfold ec, emit in *. simpl. now rewrite P, P'.
  - simpl. now rewrite P.
  - simpl. now rewrite P'.
Qed.

Lemma retry_sim2 : forall maxr H H', sim2 H H' -> ctx_preserving H -> ctx_preserving H' ->
  forall w w', R2 w w' -> ec w = ec w' ->
  R2 (fst (mw_sem repaired (MRetry maxr) H w)) (fst (mw_sem repaired (MRetry maxr) H' w'))
  /\ rkind (snd (mw_sem repaired (MRetry maxr) H w)) = rkind (snd (mw_sem repaired (MRetry maxr) H' w')).
Proof.
  intros maxr H H' Hsim C C' w w' HR He. cbn [mw_sem].
  destruct (Hsim w w' HR) as [HR1 HK]. pose proof (C w) as P. pose proof (C' w') as P'.
  destruct (H w) as [w1 r]. destruct (H' w') as [w1' r']. simpl in *.
  destruct r as [o|o e1|p], r' as [o'|o' e1'|p']; simpl in HK; try discriminate; simpl; auto.
  inversion HK; subst e1'.
  apply (retry_loop_sim2 H H' Hsim C C'); auto.
  unfold ec. now rewrite P, P'.
Qed.

Lemma stack_app : forall v a b h, stack v (a ++ b) h = stack v a (stack v b h).
Proof. induction a as [|x a IH]; intros; simpl; auto. now rewrite IH. Qed.

(** [outer (Retry (inner h))] against the bare Retry around the handler carrying inner's effects:
    same trace shape (attempts, their numbers, hook calls), same base-context state, and the result
    kind is [eff outer] of the bare one.  The layers pushed by the Timeouts of [outer] are alive
    while Retry runs, which is what its loop reads. *)
Lemma middle_sim : forall outer maxr inner s w,
  forallb is_simple outer = true -> forallb is_simple inner = true ->
  let Y := stack repaired (outer ++ MRetry maxr :: inner) (scripted s) w in
  let B := mw_sem repaired (MRetry maxr) (scripted (map_res (effo inner) s)) w in
  w_calls (fst Y) = w_calls (fst B)
  /\ m_base_done (w_msg (fst Y)) = m_base_done (w_msg (fst B))
  /\ shapes (w_trace (fst Y)) = shapes (w_trace (fst B))
  /\ rkind (snd Y) = eff outer (rkind (snd B))
  /\ w_trace (fst Y) = w_trace (fst (mw_sem repaired (MRetry maxr) (stack repaired inner (scripted s))
                                       (set_msg w (entry_msg outer (w_msg w))))).
Proof.
  intros outer maxr inner s w Ho Hi. cbv zeta.
  rewrite stack_app. cbn [stack].
  set (G := mw_sem repaired (MRetry maxr) (stack repaired inner (scripted s))).
  pose proof (stack_char outer Ho G w) as CH. cbv zeta in CH.
  set (we := set_msg w (entry_msg outer (w_msg w))) in *.
  assert (HR: R2 we w).
  { unfold R2, we. simpl. rewrite entry_base. auto. }
  assert (He: ec we = ec w).
  { unfold ec, we. simpl. rewrite entry_ctx. apply push_layers_alive. }
  destruct (retry_sim2 maxr _ _ (sim2_inner inner s Hi)
              (stack_ctx inner _ (scripted_ctx s)) (scripted_ctx _) we w HR He) as [(A & B & T) K].
  fold G in A, B, T, K.
  destruct (stack repaired outer G w) as [w1 r]. simpl in CH.
  destruct CH as (C1 & C2 & C3 & C4 & C5 & C6). simpl.
  rewrite C5, C3, C6, C1, rkind_exit. rewrite K. repeat split; auto.
Qed.

(** item: Retry in the MIDDLE of a chain makes the attempts of the bare Retry *)
Theorem composes_with_retry_middle : forall outer maxr inner s w,
  forallb is_simple outer = true -> forallb is_simple inner = true ->
  let Y := stack repaired (outer ++ MRetry maxr :: inner) (scripted s) w in
  let B := mw_sem repaired (MRetry maxr) (scripted (map_res (effo inner) s)) w in
  w_calls (fst Y) = w_calls (fst B) /\ rkind (snd Y) = eff outer (rkind (snd B)).
Proof.
  intros. destruct (middle_sim outer maxr inner s w H H0) as (A & _ & _ & K & _). split; auto.
Qed.
Corollary composes_with_retry_middle_same : forall outer maxr inner s w,
  forallb is_simple outer = true -> forallb is_simple inner = true ->
  forallb (fun m => negb (changes_result m)) inner = true ->
  w_calls (fst (stack repaired (outer ++ MRetry maxr :: inner) (scripted s) w))
  = w_calls (fst (mw_sem repaired (MRetry maxr) (scripted s) w)).
Proof.
  intros. destruct (composes_with_retry_middle outer maxr inner s w H H0) as [A _]. rewrite A.
  now rewrite (map_res_id _ s (effo_id inner H1)).
Qed.

(** ** the retry clauses of the acceptor only read the trace shape *)
Definition s_ncalls (l : list shape) : nat := length (filter (fun x => match x with SCall _ => true | _ => false end) l).
Definition s_hooks (l : list shape) : list Z := flat_map (fun x => match x with SHook n => [n] | _ => [] end) l.
Fixpoint s_indices (k : nat) (l : list shape) : bool :=
  match l with
  | [] => true
  | SCall j :: l' => Nat.eqb j k && s_indices (S k) l'
  | _ :: l' => s_indices k l'
  end.
Lemma ncalls_shapes : forall tr, ncalls tr = s_ncalls (shapes tr).
Proof. induction tr as [|[k v|n] tr IH]; simpl; auto. unfold ncalls, s_ncalls in *. simpl. now rewrite IH. Qed.
Lemma hooks_shapes : forall tr, hooks tr = s_hooks (shapes tr).
Proof. induction tr as [|[k v|n] tr IH]; simpl; auto. unfold hooks, s_hooks in *. simpl. now rewrite IH. Qed.
Lemma indices_shapes : forall tr k, call_indices_from k tr = s_indices k (shapes tr).
Proof. induction tr as [|[j v|n] tr IH]; intros k; simpl; auto. now rewrite IH. Qed.

(** the bare run numbers its calls consecutively and counts them *)
Definition counted (k0 : nat) (w : world) : Prop :=
  w_calls w = (k0 + ncalls (w_trace w))%nat /\ call_indices_from k0 (w_trace w) = true.
Lemma ncalls_app : forall a b, ncalls (a ++ b) = (ncalls a + ncalls b)%nat.
Proof. intros. unfold ncalls. now rewrite filter_app, app_length. Qed.
Lemma indices_app_call : forall tr k0 v,
  call_indices_from k0 tr = true -> call_indices_from k0 (tr ++ [ECall (k0 + ncalls tr) v]) = true.
Proof.
  induction tr as [|[j x|n] tr IH]; intros k0 v H; simpl in *.
  - rewrite Nat.add_0_r, Nat.eqb_refl. reflexivity.
  - apply andb_true_iff in H as [H1 H2]. rewrite H1. simpl.
    replace (k0 + ncalls (ECall j x :: tr))%nat with (S k0 + ncalls tr)%nat by (unfold ncalls; simpl; lia).
    now apply IH.
  - replace (ncalls (ERetryHook n :: tr)) with (ncalls tr) by reflexivity. now apply IH.
Qed.
Lemma indices_app_hook : forall tr k0 n,
  call_indices_from k0 tr = true -> call_indices_from k0 (tr ++ [ERetryHook n]) = true.
Proof.
  induction tr as [|[j x|m] tr IH]; intros k0 n H; simpl in *; auto.
  apply andb_true_iff in H as [H1 H2]. rewrite H1. simpl. now apply IH.
Qed.
Lemma counted_scripted : forall k0 s w, counted k0 w -> counted k0 (fst (scripted s w)).
Proof.
  intros k0 s w [A B]. unfold counted, scripted. simpl. rewrite ncalls_app. split.
  - unfold ncalls at 2. simpl. lia.
  - rewrite A. now apply indices_app_call.
Qed.
Lemma counted_retry_loop : forall k0 s n num depth w outs e, counted k0 w ->
  counted k0 (fst (retry_loop (scripted s) n num depth w outs e)).
Proof.
  intros k0 s. induction n as [|n IH]; intros num depth w outs e Hc; cbn [retry_loop]; auto.
  destruct (done_upto depth (w_msg w)); cbn [fst]; auto.
  pose proof (counted_scripted k0 s w Hc) as P. destruct (scripted s w) as [w1 r]. cbn [fst] in P.
  destruct r; cbn [fst]; auto. apply IH. destruct P as [A B]. unfold counted, emit. cbn [w_calls w_trace].
  rewrite ncalls_app. split; [unfold ncalls at 2; simpl; lia | now apply indices_app_hook].
Qed.
Lemma counted_bare : forall maxr s w, w_trace w = [] ->
  counted (w_calls w) (fst (mw_sem repaired (MRetry maxr) (scripted s) w)).
Proof.
  intros maxr s w Ht. cbn [mw_sem].
  assert (C0: counted (w_calls w) w) by (unfold counted; rewrite Ht; simpl; split; auto; unfold ncalls; simpl; lia).
  pose proof (counted_scripted _ s w C0) as P. destruct (scripted s w) as [w1 r]. simpl in P.
  destruct r; simpl; auto. now apply counted_retry_loop.
Qed.

(** the first event of a Retry run is the first attempt *)
Definition extends (h : handler) : Prop := forall w, exists t, w_trace (fst (h w)) = w_trace w ++ t.
Lemma retry_loop_extends : forall h, extends h -> forall n num depth w outs e,
  exists t, w_trace (fst (retry_loop h n num depth w outs e)) = w_trace w ++ t.
Proof.
  intros h Hh. induction n as [|n IH]; intros; simpl.
  - exists []. now rewrite app_nil_r.
  - destruct (done_upto depth (w_msg w)); simpl; [exists []; now rewrite app_nil_r|].
    destruct (Hh w) as [t Ht]. destruct (h w) as [w1 r]. simpl in Ht.
    destruct r; simpl; try (exists t; exact Ht).
    destruct (IH (num + 1)%Z depth (emit w1 (ERetryHook num)) outs0 e0) as [t2 H2].
    rewrite H2. unfold emit. simpl. rewrite Ht. exists (t ++ [ERetryHook num] ++ t2). now rewrite !app_assoc.
Qed.
Lemma retry_first_seen : forall maxr inner s w, forallb is_simple inner = true -> w_trace w = [] ->
  first_seen (w_trace (fst (mw_sem repaired (MRetry maxr) (stack repaired inner (scripted s)) w)))
  = Some (view (entry_msg inner (w_msg w))).
Proof.
  intros maxr inner s w Hi Ht. cbn [mw_sem].
  assert (E: extends (stack repaired inner (scripted s))).
  { intros x. pose proof (stack_char inner Hi (scripted s) x) as CH. cbv zeta in CH.
    destruct CH as (_ & _ & _ & _ & _ & C6). rewrite C6. simpl. eauto. }
  pose proof (stack_char inner Hi (scripted s) w) as CH. cbv zeta in CH.
  destruct CH as (_ & _ & _ & _ & _ & C6). simpl in C6. rewrite Ht in C6. simpl in C6.
  destruct (stack repaired inner (scripted s) w) as [w1 r]. simpl in C6.
  destruct r; simpl; try (rewrite C6; reflexivity).
  destruct (retry_loop_extends _ E (retry_iters maxr) 1%Z (length (m_ctx (w_msg w1))) w1 outs e) as [t Hx].
  rewrite Hx, C6. reflexivity.
Qed.

(** ** chains with one Retry pass [accept_retry] *)
Theorem retry_accepted : forall outer maxr inner s w0,
  forallb is_simple outer = true -> forallb is_simple inner = true ->
  let '(tr, r, v) := observe (stack repaired (outer ++ MRetry maxr :: inner) (scripted s)) w0 in
  accept_retry outer maxr inner s w0 tr r v = true.
Proof.
  intros outer maxr inner s w0 Ho Hi. unfold observe, accept_retry, clauses_retry, bare_retry.
  set (w := W (w_msg w0) (w_calls w0) []).
  destruct (middle_sim outer maxr inner s w Ho Hi) as (A & B & T & K & TR).
  pose proof (stack_ctx (outer ++ MRetry maxr :: inner) _ (scripted_ctx s) w) as CX.
  pose proof (stack_bdl repaired (outer ++ MRetry maxr :: inner) _ (scripted_bdl s) w) as CD.
  pose proof (counted_bare maxr (map_res (effo inner) s) w eq_refl) as [N1 N2].
  pose proof (mw_ctx (MRetry maxr) _ (scripted_ctx (map_res (effo inner) s)) w) as CB.
  pose proof (retry_first_seen maxr inner s (set_msg w (entry_msg outer (w_msg w))) Hi eq_refl) as FS.
  rewrite <- TR in FS. clear TR.
  destruct (stack repaired (outer ++ MRetry maxr :: inner) (scripted s) w) as [w1 r].
  destruct (mw_sem repaired (MRetry maxr) (scripted (map_res (effo inner) s)) w) as [wb rb].
  simpl in *. unfold all_true. cbn [forallb].
  rewrite ncalls_shapes, T, <- ncalls_shapes.
  assert (E0: Nat.eqb (ncalls (w_trace wb)) (w_calls wb - w_calls w0) = true) by (apply Nat.eqb_eq; lia).
  rewrite E0.
  rewrite indices_shapes, T, <- indices_shapes, N2.
  rewrite (hooks_shapes (w_trace w1)), T, <- hooks_shapes.
  assert (E2: list_eqb Z.eqb (hooks (w_trace wb)) (hooks (w_trace wb)) = true)
    by (apply list_eqb_spec; auto; intros; apply Z.eqb_eq).
  rewrite E2, K, K_eqb_refl, FS.
  rewrite <- entry_app, seen_ok_entry.
  unfold view, ctx_done. simpl. rewrite CX, CD, B, CB.
  rewrite !Bool.eqb_reflx, optZ_eqb_refl. reflexivity.
Qed.

(** ** the theorem: every chain, every script, every starting message *)
Lemma split_retry_none : forall mws o, split_retry mws = (o, None) -> forallb is_simple mws = true.
Proof.
  induction mws as [|m mws IH]; intros o H; simpl in *; auto.
  destruct m; try discriminate; destruct (split_retry mws) as [o' [x|]]; try discriminate; simpl; eauto.
Qed.
Lemma split_retry_some : forall mws o r i, split_retry mws = (o, Some (r, i)) ->
  mws = o ++ MRetry r :: i /\ forallb is_simple o = true.
Proof.
  induction mws as [|m mws IH]; intros o r i H; simpl in *; [discriminate|].
  destruct m; try (destruct (split_retry mws) as [o' [[r' i']|]]; try discriminate;
                   inversion H; subst; destruct (IH _ _ _ eq_refl) as [E F]; subst mws; simpl; auto; fail).
  inversion H; subst. auto.
Qed.

Theorem model_accepted : forall mws s w0,
  let '(tr, r, v) := observe (stack repaired mws (scripted s)) w0 in
  accept mws s w0 tr r v = true.
Proof.
  intros mws s w0. unfold accept.
  destruct (split_retry mws) as [outer [[maxr inner]|]] eqn:E.
  - destruct (forallb is_simple inner) eqn:Hi.
    + destruct (split_retry_some _ _ _ _ E) as [-> Ho]. now apply retry_accepted.
    + destruct (observe _ _) as [[tr r] v]. reflexivity.
  - apply simple_accepted. eapply split_retry_none; eauto.
Qed.

(** ** a message that arrives with a deadline already on its context *)
Theorem arriving_deadline : forall mws s w, forallb is_simple mws = true ->
  let seen := view (entry_msg mws (w_msg w)) in
  w_trace (fst (stack repaired mws (scripted s) w)) = w_trace w ++ [ECall (w_calls w) seen]
  /\ v_deadline seen = dl_min (m_base_dl (w_msg w)) (min_deadline (push_layers mws (m_ctx (w_msg w))))
  /\ (forall b, m_base_dl (w_msg w) = Some b -> exists d, v_deadline seen = Some d /\ (d <= b)%Z)
  /\ m_base_dl (w_msg (fst (stack repaired mws (scripted s) w))) = m_base_dl (w_msg w)
  /\ v_deadline (view (w_msg (fst (stack repaired mws (scripted s) w)))) = v_deadline (view (w_msg w)).
Proof.
  intros mws s w Hs. cbv zeta.
  pose proof (stack_char mws Hs (scripted s) w) as CH. cbv zeta in CH.
  destruct CH as (_ & _ & _ & _ & _ & C6). simpl in C6.
  pose proof (stack_bdl repaired mws _ (scripted_bdl s) w) as CD.
  pose proof (stack_ctx mws _ (scripted_ctx s) w) as CX.
  repeat split; auto.
  - unfold view. simpl. now rewrite entry_bdl, entry_ctx.
  - intros b Hb. unfold view. simpl. rewrite entry_bdl, entry_ctx, Hb.
    destruct (min_deadline _) as [x|]; simpl; eexists; split; eauto; lia.
  - unfold view. simpl. now rewrite CD, CX.
Qed.
