(** C19 — the effect ends with the call; composition with Retry. *)
From WM Require Import Base.Prelude Simple.Model Simple.Monitor Simple.Proofs.

(** ** the message context after the call is the context before *)
Definition ctx_preserving (h : handler) : Prop := forall w, m_ctx (w_msg (fst (h w))) = m_ctx (w_msg w).

Lemma actions_ctx : forall l m, m_ctx (fold_left do_action l m) = m_ctx m.
Proof. induction l as [|a l IH]; intros m; simpl; auto. rewrite IH. destruct a; reflexivity. Qed.
Definition is_cancel (a : action) : bool := match a with ACancel => true | _ => false end.
Lemma actions_base : forall l m, m_base_done (fold_left do_action l m) = m_base_done m || existsb is_cancel l.
Proof.
  induction l as [|a l IH]; intros m; simpl.
  - now rewrite orb_false_r.
  - rewrite IH. destruct a; simpl; auto. now rewrite orb_true_r.
Qed.
Lemma scripted_ctx : forall s, ctx_preserving (scripted s).
Proof. intros s w. unfold scripted. simpl. apply actions_ctx. Qed.

Lemma retry_loop_ctx : forall h, ctx_preserving h -> forall n num depth w outs e,
  m_ctx (w_msg (fst (retry_loop h n num depth w outs e))) = m_ctx (w_msg w).
Proof.
  intros h Hh. induction n as [|n IH]; intros; simpl; auto.
  destruct (done_upto depth (w_msg w)); simpl; auto.
  pose proof (Hh w) as P. destruct (h w) as [w1 r]. simpl in P. destruct r; simpl; auto.
  rewrite IH. simpl. exact P.
Qed.

(** every middleware of the repaired code, Retry included *)
Lemma mw_ctx : forall m h, ctx_preserving h -> ctx_preserving (mw_sem repaired m h).
Proof.
  intros m h Hh w. destruct m; simpl.
  - destruct (h _) as [w2 r]. reflexivity.
  - pose proof (Hh w) as P. destruct (h w) as [w1 r]. destruct r; simpl in *; auto.
  - pose proof (Hh w) as P. destruct (h w) as [w1 r]. destruct r; simpl in *; auto.
  - pose proof (Hh w) as P. destruct (h w) as [w1 r]. destruct r; simpl in *; auto.
    destruct (in_texts _ _); auto.
  - rewrite Hh. reflexivity.
  - apply Hh.
  - apply Hh.
  - pose proof (Hh w) as P. destruct (h w) as [w1 r]. destruct r; simpl in *; auto.
  - pose proof (Hh w) as P. destruct (h w) as [w1 r]. destruct r; simpl in *; auto.
    rewrite retry_loop_ctx by auto. exact P.
Qed.
Theorem stack_ctx : forall mws h, ctx_preserving h -> ctx_preserving (stack repaired mws h).
Proof. induction mws; simpl; auto using mw_ctx. Qed.

(** ... and, when the handler itself does not cancel it, exactly as alive as before *)
Definition base_preserving (h : handler) : Prop := forall w, m_base_done (w_msg (fst (h w))) = m_base_done (w_msg w).
Lemma retry_loop_base : forall h, base_preserving h -> forall n num depth w outs e,
  m_base_done (w_msg (fst (retry_loop h n num depth w outs e))) = m_base_done (w_msg w).
Proof.
  intros h Hh. induction n as [|n IH]; intros; simpl; auto.
  destruct (done_upto depth (w_msg w)); simpl; auto.
  pose proof (Hh w) as P. destruct (h w) as [w1 r]. simpl in P. destruct r; simpl; auto.
  rewrite IH. simpl. exact P.
Qed.
Lemma mw_base : forall v m h, base_preserving h -> base_preserving (mw_sem v m h).
Proof.
  intros v m h Hh w. destruct m; simpl.
  - pose proof (Hh (set_msg w (set_ctx (w_msg w) (Layer d false :: m_ctx (w_msg w))))) as P.
    destruct (h _) as [w2 r]. simpl in *. exact P.
  - pose proof (Hh w) as P. destruct (h w) as [w1 r]. destruct r; simpl in *; auto.
  - pose proof (Hh w) as P. destruct (h w) as [w1 r]. destruct r; simpl in *; auto.
  - pose proof (Hh w) as P. destruct (h w) as [w1 r]. destruct r; simpl in *; auto.
    destruct (in_texts _ _); auto.
  - rewrite Hh. reflexivity.
  - apply Hh.
  - apply Hh.
  - pose proof (Hh w) as P. destruct (h w) as [w1 r]. destruct r; simpl in *; auto.
  - pose proof (Hh w) as P. destruct (h w) as [w1 r]. destruct r; simpl in *; auto.
    rewrite retry_loop_base by auto. exact P.
Qed.
Lemma stack_base : forall v mws h, base_preserving h -> base_preserving (stack v mws h).
Proof. induction mws; simpl; auto using mw_base. Qed.
Definition never_cancels (s : script) : Prop := forall c, In c (default_call :: s) -> existsb is_cancel (c_pre c) = false.
Lemma nth_last_in : forall {A} (d : A) l k, In (nth_last d l k) (d :: l).
Proof.
  intros A d l. induction l as [|x l IH]; intros k; simpl; auto.
  destruct l as [|y l].
  - auto.
  - destruct k; [simpl; auto|]. specialize (IH k). simpl in IH. simpl. destruct IH; auto.
Qed.
Lemma scripted_base : forall s, never_cancels s -> base_preserving (scripted s).
Proof.
  intros s Hs w. unfold scripted. simpl. rewrite actions_base. rewrite Hs; [apply orb_false_r|].
  apply nth_last_in.
Qed.
(** a deadline the message arrived with is nobody's to change *)
Definition bdl_preserving (h : handler) : Prop := forall w, m_base_dl (w_msg (fst (h w))) = m_base_dl (w_msg w).
Lemma actions_bdl : forall l m, m_base_dl (fold_left do_action l m) = m_base_dl m.
Proof. induction l as [|a l IH]; intros m; simpl; auto. rewrite IH. destruct a; reflexivity. Qed.
Lemma scripted_bdl : forall s, bdl_preserving (scripted s).
Proof. intros s w. unfold scripted. simpl. apply actions_bdl. Qed.
Lemma retry_loop_bdl : forall h, bdl_preserving h -> forall n num depth w outs e,
  m_base_dl (w_msg (fst (retry_loop h n num depth w outs e))) = m_base_dl (w_msg w).
Proof.
  intros h Hh. induction n as [|n IH]; intros; simpl; auto.
  destruct (done_upto depth (w_msg w)); simpl; auto.
  pose proof (Hh w) as P. destruct (h w) as [w1 r]. simpl in P. destruct r; simpl; auto.
  rewrite IH. simpl. exact P.
Qed.
Lemma mw_bdl : forall v m h, bdl_preserving h -> bdl_preserving (mw_sem v m h).
Proof.
  intros v m h Hh w. destruct m; simpl.
  - pose proof (Hh (set_msg w (set_ctx (w_msg w) (Layer d false :: m_ctx (w_msg w))))) as P.
    destruct (h _) as [w2 r]. simpl in *. exact P.
  - pose proof (Hh w) as P. destruct (h w) as [w1 r]. destruct r; simpl in *; auto.
  - pose proof (Hh w) as P. destruct (h w) as [w1 r]. destruct r; simpl in *; auto.
  - pose proof (Hh w) as P. destruct (h w) as [w1 r]. destruct r; simpl in *; auto.
    destruct (in_texts _ _); auto.
  - rewrite Hh. reflexivity.
  - apply Hh.
  - apply Hh.
  - pose proof (Hh w) as P. destruct (h w) as [w1 r]. destruct r; simpl in *; auto.
  - pose proof (Hh w) as P. destruct (h w) as [w1 r]. destruct r; simpl in *; auto.
    rewrite retry_loop_bdl by auto. exact P.
Qed.
Lemma stack_bdl : forall v mws h, bdl_preserving h -> bdl_preserving (stack v mws h).
Proof. induction mws; simpl; auto using mw_bdl. Qed.

Theorem effect_ends_with_call : forall mws s w,
  let w' := fst (stack repaired mws (scripted s) w) in
  m_ctx (w_msg w') = m_ctx (w_msg w)
  /\ (never_cancels s -> ctx_done (w_msg w') = ctx_done (w_msg w)
                         /\ v_same (view (w_msg w')) = v_same (view (w_msg w))
                         /\ v_deadline (view (w_msg w')) = v_deadline (view (w_msg w))).
Proof.
  intros mws s w w'. pose proof (stack_ctx mws _ (scripted_ctx s) w) as C. fold w' in C. split; auto.
  intros Hs. pose proof (stack_base repaired mws _ (scripted_base s Hs) w) as B. fold w' in B.
  pose proof (stack_bdl repaired mws _ (scripted_bdl s) w) as D. fold w' in D.
  unfold ctx_done, view. simpl. rewrite C, B, D. auto.
Qed.
(** the pinned Timeout (D3) leaves the cancelled timeout context in the message *)
Lemma effect_ends_with_call_refuted : exists mws s w,
  never_cancels s /\ ctx_done (w_msg w) = false
  /\ ctx_done (w_msg (fst (stack pinned mws (scripted s) w))) = true
  /\ m_ctx (w_msg (fst (stack pinned mws (scripted s) w))) <> m_ctx (w_msg w).
Proof.
  exists [MTimeout 5], [Call [] (Ret [])], (init_world (MSt [] [] false Unsettled None)).
  split; [|vm_compute; repeat split; congruence].
  intros c [<-|[<-|[]]]; reflexivity.
Qed.

(** ** composition with Retry *)
(** the scripted handler only looks at the call counter; Retry's loop at the context *)
Definition R (w w' : world) : Prop :=
  w_calls w = w_calls w' /\ m_base_done (w_msg w) = m_base_done (w_msg w').
Definition sim (G G' : handler) : Prop :=
  forall w w', R w w' -> R (fst (G w)) (fst (G' w')) /\ rkind (snd (G w)) = rkind (snd (G' w')).

Lemma sim_scripted : forall s, sim (scripted s) (scripted s).
Proof.
  intros s w w' [Hc Hb]. unfold scripted, R. simpl. rewrite !actions_base. simpl.
  rewrite Hc, Hb. auto.
Qed.

(** a chain of simple middlewares calls the handler once and turns its result into [eff] of it *)
Lemma stack_sim : forall v mws, forallb is_simple mws = true -> forall G G', sim G G' ->
  forall w w', R w w' ->
  R (fst (stack v mws G w)) (fst (G' w')) /\ rkind (snd (stack v mws G w)) = eff mws (rkind (snd (G' w'))).
Proof.
  intros v. induction mws as [|m mws IH]; intros Hs G G' HG w w' HR.
  - simpl. apply HG; auto.
  - simpl in Hs. apply andb_true_iff in Hs as [Hm Hs]. specialize (IH Hs G G' HG).
    change (eff (m :: mws) (rkind (snd (G' w')))) with (eff1 m (eff mws (rkind (snd (G' w'))))).
    destruct m; try discriminate; cbn [stack mw_sem].
    + (* Timeout *)
      assert (HR': R (set_msg w (set_ctx (w_msg w) (Layer d false :: m_ctx (w_msg w)))) w') by (destruct HR; split; auto).
      specialize (IH _ _ HR'). destruct (stack v mws G _) as [w2 r2]. simpl in *.
      destruct IH as [[I1 I2] I3]. repeat split; auto; try (rewrite I3; destruct (eff mws _); reflexivity).
    + specialize (IH _ _ HR). destruct (stack v mws G w) as [w2 r2]. simpl in *. destruct IH as [I1 I3].
      destruct r2; simpl in *; split; auto; rewrite <- I3; reflexivity.
    + specialize (IH _ _ HR). destruct (stack v mws G w) as [w2 r2]. simpl in *. destruct IH as [I1 I3].
      destruct r2; simpl in *; split; auto; rewrite <- I3; reflexivity.
    + specialize (IH _ _ HR). destruct (stack v mws G w) as [w2 r2]. simpl in *. destruct IH as [I1 I3].
      destruct r2; simpl in *; try (split; auto; rewrite <- I3; reflexivity).
      rewrite <- I3. simpl. destruct (in_texts _ _); simpl; auto.
    + assert (HR': R (set_msg w (set_settle (w_msg w) (ack_settle (m_settle (w_msg w))))) w') by (destruct HR; split; auto).
      specialize (IH _ _ HR'). destruct IH as [I1 I3]. split; auto; try (rewrite I3; destruct (eff mws _); reflexivity).
    + specialize (IH _ _ HR). destruct IH as [I1 I3]. split; auto; try (rewrite I3; destruct (eff mws _); reflexivity).
    + specialize (IH _ _ HR). destruct IH as [I1 I3]. split; auto; try (rewrite I3; destruct (eff mws _); reflexivity).
    + specialize (IH _ _ HR). destruct (stack v mws G w) as [w2 r2]. simpl in *. destruct IH as [I1 I3].
      destruct r2; simpl in *; split; auto; try (rewrite <- I3; reflexivity).
Qed.

Theorem chain_result : forall v mws, forallb is_simple mws = true -> forall s w,
  w_calls (fst (stack v mws (scripted s) w)) = w_calls (fst (scripted s w))
  /\ rkind (snd (stack v mws (scripted s) w)) = eff mws (rkind (snd (scripted s w))).
Proof.
  intros v mws Hs s w.
  destruct (stack_sim v mws Hs _ _ (sim_scripted s) w w (conj eq_refl eq_refl)) as [[A _] B]. auto.
Qed.

Lemma effo_ret : forall mws l, effo mws (Ret l) = Ret l.
Proof. induction mws as [|m mws IH]; intros; simpl; auto. rewrite IH. destruct m; reflexivity. Qed.
Lemma rkind_effo1 : forall m o, rkind (effo1 m o) = eff1 m (rkind o).
Proof. intros m o. destruct m, o; simpl; auto. destruct (in_texts _ _); auto. Qed.
Lemma rkind_effo : forall mws o, rkind (effo mws o) = eff mws (rkind o).
Proof. induction mws as [|m mws IH]; intros; simpl; auto. now rewrite rkind_effo1, IH. Qed.

Lemma nth_last_map : forall {A B} (g : A -> B) d l k, nth_last (g d) (map g l) k = g (nth_last d l k).
Proof.
  intros A B g d l. induction l as [|x l IH]; intros k; simpl; auto.
  destruct l as [|y l]; simpl; auto. destruct k; auto. apply (IH k).
Qed.
Lemma nth_last_map_fix : forall {A} (g : A -> A) d l k, g d = d -> nth_last d (map g l) k = g (nth_last d l k).
Proof. intros A g d l k H. rewrite <- H at 1. apply nth_last_map. Qed.
Lemma scripted_map_res : forall mws s w,
  scripted (map_res (effo mws) s) w = (fst (scripted s w), effo mws (snd (scripted s w))).
Proof.
  intros mws s w. unfold scripted, map_res.
  rewrite nth_last_map_fix by (unfold default_call; simpl; now rewrite effo_ret).
  reflexivity.
Qed.
Lemma sim_inner : forall v mws s, forallb is_simple mws = true ->
  sim (stack v mws (scripted s)) (scripted (map_res (effo mws) s)).
Proof.
  intros v mws s Hs w w' HR. rewrite scripted_map_res. simpl. rewrite rkind_effo.
  apply (stack_sim v mws Hs _ _ (sim_scripted s)); auto.
Qed.

Lemma retry_loop_sim : forall H H', sim H H' -> ctx_preserving H -> ctx_preserving H' ->
  forall n num depth w w' outs outs' e, R w w' -> m_ctx (w_msg w) = m_ctx (w_msg w') ->
  R (fst (retry_loop H n num depth w outs e)) (fst (retry_loop H' n num depth w' outs' e))
  /\ rkind (snd (retry_loop H n num depth w outs e)) = rkind (snd (retry_loop H' n num depth w' outs' e)).
Proof.
  intros H H' Hsim C C'. induction n as [|n IH]; intros num depth w w' outs outs' e HR Hc; simpl; auto.
  assert (D: done_upto depth (w_msg w) = done_upto depth (w_msg w')).
  { unfold done_upto. destruct HR as [_ Hb]. now rewrite Hb, Hc. }
  rewrite D. destruct (done_upto depth (w_msg w')); simpl; auto.
  destruct (Hsim w w' HR) as [HR1 HK]. pose proof (C w) as P. pose proof (C' w') as P'.
  destruct (H w) as [w1 r]. destruct (H' w') as [w1' r']. simpl in *.
  destruct r, r'; simpl in *; try discriminate; auto.
  inversion HK; subst. apply IH.
  - destruct HR1. split; auto.
  - simpl. congruence.
Qed.

(** Retry around a chain of simple middlewares around a scripted handler makes exactly the attempts
    (and returns the kind of result) that the bare Retry makes around the handler whose results carry
    the documented effects of the chain *)
Theorem composes_with_retry : forall maxr inner s w, forallb is_simple inner = true ->
  let a := mw_sem repaired (MRetry maxr) (stack repaired inner (scripted s)) w in
  let b := mw_sem repaired (MRetry maxr) (scripted (map_res (effo inner) s)) w in
  w_calls (fst a) = w_calls (fst b) /\ rkind (snd a) = rkind (snd b).
Proof.
  intros maxr inner s w Hs. cbv zeta. cbn [mw_sem].
  assert (HR: R w w) by (split; auto).
  destruct (sim_inner repaired inner s Hs w w HR) as [HR1 HK].
  pose proof (stack_ctx inner _ (scripted_ctx s)) as C. pose proof (scripted_ctx (map_res (effo inner) s)) as C'.
  pose proof (C w) as P. pose proof (C' w) as P'.
  destruct (stack repaired inner (scripted s) w) as [w1 r]. destruct (scripted (map_res (effo inner) s) w) as [w1' r'].
  simpl in *. destruct r as [o|o e|p], r' as [o'|o' e'|p']; simpl in HK; try discriminate.
  - simpl. destruct HR1; split; auto.
  - inversion HK; subst e'. simpl. rewrite P, P'.
    assert (Hc: m_ctx (w_msg w1) = m_ctx (w_msg w1')) by congruence.
    destruct (retry_loop_sim _ _ (sim_inner repaired inner s Hs) C C' (retry_iters maxr) 1%Z
                (length (m_ctx (w_msg w))) w1 w1' o o' e HR1 Hc) as [[Q1 _] Q2].
    split; auto.
  - simpl. destruct HR1; split; auto.
Qed.
(** chains without Recoverer / IgnoreErrors: literally the same handler *)
Definition changes_result (m : mw) : bool := match m with MRecoverer | MIgnore _ => true | _ => false end.
Lemma effo_id : forall mws, forallb (fun m => negb (changes_result m)) mws = true -> forall o, effo mws o = o.
Proof.
  induction mws as [|m mws IH]; intros H o; simpl; auto. simpl in H. apply andb_true_iff in H as [H1 H2].
  rewrite IH by auto. destruct m; simpl in *; try discriminate; destruct o; reflexivity.
Qed.
Lemma map_res_id : forall f s, (forall o, f o = o) -> map_res f s = s.
Proof. intros f s Hf. unfold map_res. induction s as [|[p r] s IH]; simpl; auto. now rewrite Hf, IH. Qed.
Corollary composes_with_retry_same : forall maxr inner s w, forallb is_simple inner = true ->
  forallb (fun m => negb (changes_result m)) inner = true ->
  w_calls (fst (mw_sem repaired (MRetry maxr) (stack repaired inner (scripted s)) w))
  = w_calls (fst (mw_sem repaired (MRetry maxr) (scripted s) w)).
Proof.
  intros. destruct (composes_with_retry maxr inner s w H) as [A _]. rewrite A.
  now rewrite (map_res_id _ s (effo_id inner H0)).
Qed.
(** pinned Timeout (D3): Retry{MaxRetries: 3} around Timeout around an always-failing handler calls
    it once; the bare Retry calls it four times *)
Lemma composes_with_retry_refuted : exists maxr inner s w, forallb is_simple inner = true
  /\ w_calls (fst (mw_sem pinned (MRetry maxr) (stack pinned inner (scripted s)) w)) = 1%nat
  /\ w_calls (fst (mw_sem pinned (MRetry maxr) (scripted (map_res (effo inner) s)) w)) = 4%nat.
Proof.
  exists 3%Z, [MTimeout 5], [Call [] (Fail [] (EBase 7))], (init_world (MSt [] [] false Unsettled None)).
  vm_compute. auto.
Qed.
