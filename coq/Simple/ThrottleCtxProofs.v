(** C19 — the rate holds whatever the contexts of the messages are. *)
From WM Require Import Base.Prelude Simple.Throttle Simple.ThrottleProofs Simple.ThrottleCtx.
Local Open Scope Z_scope.

Lemma run_ctx_ignores_context : forall p reqs tk prev,
  throttle_run_ctx false p tk prev reqs = throttle_run p tk prev (map r_arr reqs).
Proof.
  intros p. induction reqs as [|q reqs IH]; intros tk prev; simpl; auto.
  destruct (recv p tk (Z.max (r_arr q) prev)) as [tk' s]. now rewrite IH.
Qed.

Theorem throttle_spaced_any_context : forall p, 0 < p -> forall reqs tk prev,
  t_buf tk = false -> prev < t_next tk ->
  spaced p 0 (throttle_run_ctx false p tk prev reqs) = true.
Proof. intros. rewrite run_ctx_ignores_context. now apply throttle_spaced. Qed.

(** a wait that gives up when the context ends: three messages with ended contexts start together *)
Lemma ctx_watching_wait_breaks_rate : exists p reqs, 0 < p /\
  throttle_run_ctx true p (new_ticker 0 p) 0 reqs = [0; 0; 0]
  /\ spaced p 0 (throttle_run_ctx true p (new_ticker 0 p) 0 reqs) = false
  /\ spaced p 0 (throttle_run_ctx false p (new_ticker 0 p) 0 reqs) = true.
Proof.
  exists 10, [Req 0 (CDoneAt 0); Req 0 (CDoneAt (-5)); Req 0 (CDoneAt 0)]. vm_compute. repeat split; reflexivity.
Qed.
