(** C19 — Throttle: starts through one ticker are spaced by the period (clock model). *)
From WM Require Import Base.Prelude Simple.Throttle.
Local Open Scope Z_scope.

Lemma advance_spec : forall p tk t, 0 < p ->
  let tk' := advance p tk t in
  (t_next tk <= t -> t_buf tk' = true /\ t < t_next tk' /\ t_next tk' <= t + p /\ t_next tk + p <= t_next tk')
  /\ (t < t_next tk -> tk' = tk).
Proof.
  intros p tk t Hp. unfold advance. destruct (Z.leb_spec (t_next tk) t); simpl; split; intros; try lia; auto.
  pose proof (Z.div_mod (t - t_next tk) p ltac:(lia)).
  pose proof (Z.mod_pos_bound (t - t_next tk) p Hp).
  assert (0 <= (t - t_next tk) / p) by (apply Z.div_pos; lia).
  repeat split; nia.
Qed.

(** after a receive at time [t >= prev]: the start is >= t, the ticker is empty, its next tick is
    strictly after the start and at least one period after the previous next tick *)
Lemma recv_spec : forall p tk t, 0 < p -> t_buf tk = false ->
  let '(tk', s) := recv p tk t in
  t <= s /\ t_buf tk' = false /\ s < t_next tk' /\ t_next tk + p <= t_next tk' /\ (t < t_next tk -> s = t_next tk)
  /\ (t_next tk <= t -> s = t).
Proof.
  intros p tk t Hp Hb. unfold recv.
  destruct (advance_spec p tk t Hp) as [A B].
  destruct (Z.le_gt_cases (t_next tk) t) as [Hle|Hgt].
  - destruct (A Hle) as (A1 & A2 & A3 & A4). rewrite A1. simpl. repeat split; try lia.
  - rewrite (B Hgt), Hb. simpl. repeat split; try lia.
Qed.

(** every start of a run is at or after the ticker's next tick, the k-th later one k periods later *)
Lemma run_lower : forall p, 0 < p -> forall arr tk prev, t_buf tk = false -> prev < t_next tk ->
  forall k x, nth_error (throttle_run p tk prev arr) k = Some x -> t_next tk + Z.of_nat k * p <= x.
Proof.
  intros p Hp. induction arr as [|a arr IH]; intros tk prev Hb Hlt k x Hn.
  - destruct k; discriminate.
  - simpl in Hn. pose proof (recv_spec p tk (Z.max a prev) Hp Hb) as R.
    destruct (recv p tk (Z.max a prev)) as [tk' s]. destruct R as (R1 & R2 & R3 & R4 & R5 & R6).
    destruct k as [|k]; simpl in Hn.
    + inversion Hn; subst x. destruct (Z.le_gt_cases (t_next tk) (Z.max a prev)); [rewrite R6 by lia | rewrite R5 by lia]; lia.
    + specialize (IH tk' s R2 R3 k x Hn). lia.
Qed.

Lemma spaced_from_lower : forall p x l j,
  (forall k y, nth_error l k = Some y -> x + (j + Z.of_nat k) * p <= y) -> spaced_from p 0 x j l = true.
Proof.
  intros p x l. induction l as [|y l IH]; intros j H; simpl; auto.
  apply andb_true_iff. split.
  - apply Z.leb_le. specialize (H 0%nat y eq_refl). simpl in H. lia.
  - apply IH. intros k z Hk. specialize (H (S k) z Hk). lia.
Qed.

Theorem throttle_spaced : forall p, 0 < p -> forall arr tk prev, t_buf tk = false -> prev < t_next tk ->
  spaced p 0 (throttle_run p tk prev arr) = true.
Proof.
  intros p Hp. induction arr as [|a arr IH]; intros tk prev Hb Hlt; simpl; auto.
  pose proof (recv_spec p tk (Z.max a prev) Hp Hb) as R.
  destruct (recv p tk (Z.max a prev)) as [tk' s]. destruct R as (R1 & R2 & R3 & R4 & _).
  simpl. apply andb_true_iff. split; [|now apply IH].
  apply spaced_from_lower. intros k y Hk.
  pose proof (run_lower p Hp arr tk' s R2 R3 k y Hk). lia.
Qed.

(** what [spaced] means: two starts with k starts between them are >= k periods apart (minus slack) *)
Lemma spaced_from_nth : forall p slack x l j, spaced_from p slack x j l = true ->
  forall k y, nth_error l k = Some y -> (j + Z.of_nat k) * p <= y - x + slack.
Proof.
  intros p slack x l. induction l as [|z l IH]; intros j H k y Hk.
  - destruct k; discriminate.
  - simpl in H. apply andb_true_iff in H as [H1 H2]. destruct k as [|k]; simpl in Hk.
    + inversion Hk; subst. apply Z.leb_le in H1. simpl. lia.
    + specialize (IH _ H2 k y Hk). lia.
Qed.
Theorem spaced_meaning : forall p slack l, spaced p slack l = true ->
  forall i k x y, nth_error l i = Some x -> nth_error l (i + S k) = Some y -> Z.of_nat k * p <= y - x + slack.
Proof.
  intros p slack l. induction l as [|z l IH]; intros H i k x y Hi Hj.
  - destruct i; discriminate.
  - simpl in H. apply andb_true_iff in H as [H1 H2]. destruct i as [|i]; simpl in *.
    + inversion Hi; subst. pose proof (spaced_from_nth _ _ _ _ _ H1 k y Hj). lia.
    + eapply IH; eauto.
Qed.
(** n+2 starts inside a window of length L: n periods fit into L *)
Corollary throttle_window : forall p, 0 < p -> forall arr t0 n x y,
  let starts := throttle_run p (new_ticker t0 p) t0 arr in
  nth_error starts 0 = Some x -> nth_error starts (S n) = Some y -> Z.of_nat n * p <= y - x.
Proof.
  intros p Hp arr t0 n x y starts Hx Hy.
  assert (S: spaced p 0 starts = true) by (apply throttle_spaced; simpl; auto; lia).
  pose proof (spaced_meaning p 0 starts S 0%nat n x y Hx Hy). lia.
Qed.
Lemma spaced_slack_mono : forall p s s' l, s <= s' -> spaced p s l = true -> spaced p s' l = true.
Proof.
  intros p s s' l Hs. assert (F: forall x l j, spaced_from p s x j l = true -> spaced_from p s' x j l = true).
  { intros x l0. induction l0; intros j H; simpl in *; auto. apply andb_true_iff in H as [H1 H2].
    apply andb_true_iff. split; auto. apply Z.leb_le in H1. apply Z.leb_le. lia. }
  induction l; simpl; auto. intros H. apply andb_true_iff in H as [H1 H2]. apply andb_true_iff. auto.
Qed.
