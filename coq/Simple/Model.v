(** C19 — model of the "simple" middlewares of message/router/middleware:
      timeout.go (Timeout), correlation.go (CorrelationID, SetCorrelationID, MessageCorrelationID),
      recoverer.go (Recoverer), ignore_errors.go (IgnoreErrors.Middleware), instant_ack.go,
      throttle.go (Middleware; the ticker is in Simple/Throttle.v), circuit_breaker.go (closed
      gobreaker: Execute = call + re-panic), delay_on_error.go (Middleware, applyDelay) and, for
      the composition clause only, the attempt loop of retry.go (Retry.Middleware, l.41-98).

    Shape (DESIGN 3.2): the handler is a *script* (k-th call uses the k-th entry, the last one
    repeats); a middleware is a transformer of handlers over an explicit world (message
    metadata, message context, settlement, call counter, trace of what the handler saw).
    Both behaviours of the two repaired defects are kept behind [variant] flags:
      fix_timeout = false : Timeout leaves the cancelled timeout context in the message (D3)
      fix_delay   = false : applyDelay multiplies by time.Duration(Multiplier) (truncated, D2).
    Executable; no proofs in this file. *)
From WM Require Import Base.Prelude.
From WM Require Message.Model.
Module MM := WM.Message.Model.
Notation settle := MM.settle.
Notation Unsettled := MM.Unsettled.
Notation Acked := MM.Acked.
Notation Nacked := MM.Nacked.

(** ** errors and panic values (DESIGN 3.1); [t] = the interned text of [Error()] of that node *)
Inductive pval :=
| PStr (s : N)                 (* panic("...") *)
| PErr (e : err)               (* panic(err) *)
| PNil                         (* panic(nil): recover() yields a non-nil *runtime.PanicNilError *)
with err :=
| EBase (t : N)                (* errors.New *)
| EWrapCause (t : N) (e : err) (* pkg/errors.Wrap(e, ..): Cause() looks through it *)
| EWrapStd (t : N) (e : err)   (* fmt.Errorf("..: %w", e): Cause() stops here *)
| ERecovered (v : pval).       (* errors.WithStack(RecoveredPanicError{V: v, Stacktrace}) *)

Fixpoint err_eqb (a b : err) : bool :=
  match a, b with
  | EBase t, EBase u => N.eqb t u
  | EWrapCause t e, EWrapCause u f => N.eqb t u && err_eqb e f
  | EWrapStd t e, EWrapStd u f => N.eqb t u && err_eqb e f
  | ERecovered v, ERecovered w => pval_eqb v w
  | _, _ => false
  end
with pval_eqb (a b : pval) : bool :=
  match a, b with
  | PStr s, PStr t => N.eqb s t
  | PErr e, PErr f => err_eqb e f
  | PNil, PNil => true
  | _, _ => false
  end.

(** text of [errors.Cause(e).Error()]; [None] for a recovered panic (the text contains the
    stack trace and can equal no configured text) *)
Fixpoint cause_text (e : err) : option N :=
  match e with
  | EBase t => Some t
  | EWrapCause _ e' => cause_text e'
  | EWrapStd t _ => Some t
  | ERecovered _ => None
  end.

(** ** metadata: typed values (the delay keys are canonicalised by the harness) *)
Inductive mval :=
| MStr (s : N)                 (* any string; 0 = "" = absent *)
| MDur (d : Z)                 (* a string time.ParseDuration accepts, in ns *)
| MUntil (lo hi : Z).           (* RFC3339 time = (time of the call) + d for some lo <= d <= hi: the model
                                  writes [MUntil d d]; an observed value is whole seconds and was set at an
                                  unknown moment of the invocation, so it is an interval; equal = overlapping *)
Definition meta := list (N * mval).

Definition mval_eqb (a b : mval) : bool :=
  match a, b with
  | MStr s, MStr t => N.eqb s t
  | MDur d, MDur e => Z.eqb d e
  | MUntil l1 h1, MUntil l2 h2 => (Z.eqb l1 l2 && Z.eqb h1 h2) || (Z.leb l1 h2 && Z.leb l2 h1)
  | _, _ => false
  end.

Fixpoint mget (k : N) (m : meta) : mval :=
  match m with
  | [] => MStr 0
  | (k', v) :: m' => if N.eqb k k' then v else mget k m'
  end.
Fixpoint mset (k : N) (v : mval) (m : meta) : meta :=
  match m with
  | [] => [(k, v)]
  | (k', v') :: m' => if N.eqb k k' then (k, v) :: m' else (k', v') :: mset k v m'
  end.
(** same content (a key holding "" and a missing key are not distinguished: Metadata.Get) *)
Definition meta_equiv (a b : meta) : bool :=
  forallb (fun kv => mval_eqb (mget (fst kv) a) (mget (fst kv) b)) (a ++ b).

Definition K_CORR : N := 1.     (* "correlation_id" *)
Definition K_DFOR : N := 2.     (* "_watermill_delayed_for" *)
Definition K_DUNTIL : N := 3.   (* "_watermill_delayed_until" *)

Definition is_empty (v : mval) : bool := match v with MStr 0 => true | _ => false end.

(** ** produced messages, handler outcomes, scripts *)
Record omsg := OM { o_id : N; o_uuid : N; o_payload : N; o_meta : meta }.
Inductive out :=
| OSelf                         (* the consumed message object itself *)
| OMsg (m : omsg).              (* a fresh object *)

Inductive outcome :=
| Ret (outs : list out)                (* (outs, nil) *)
| Fail (outs : list out) (e : err)     (* (outs, e), e != nil *)
| Panic (v : pval).

Inductive action := AAck | ANack | ASetMeta (k : N) (v : mval) | ACancel (* cancel the base context *).
Record call := Call { c_pre : list action; c_res : outcome }.
Definition script := list call.
Definition default_call : call := Call [] (Ret []).

(** ** the consumed message as the middlewares see it *)
(** one context.WithTimeout layer put on the message by a Timeout middleware *)
Record layer := Layer { l_timeout : Z; l_cancelled : bool }.
Record mstate := MSt {
  m_meta : meta;
  m_ctx : list layer;            (* head = msg.Context(); [] = the context the message came with *)
  m_base_done : bool;            (* that base context is cancelled *)
  m_settle : settle;
  m_base_dl : option Z }.        (* a deadline the message arrived with (on its base context), if any *)

(** what can be observed of a message through its API *)
Record vstate := VSt {
  v_meta : meta;
  v_same : bool;                 (* msg.Context() is the object it was at the start *)
  v_done : bool;                 (* msg.Context().Err() != nil *)
  v_deadline : option Z;         (* msg.Context().Deadline() *)
  v_settle : settle }.

Fixpoint min_deadline (l : list layer) : option Z :=
  match l with
  | [] => None
  | x :: l' => match min_deadline l' with
               | None => Some (l_timeout x)
               | Some d => Some (Z.min (l_timeout x) d)
               end
  end.
Definition ctx_done (m : mstate) : bool := m_base_done m || existsb l_cancelled (m_ctx m).
(** the earlier of two optional deadlines *)
Definition dl_min (a b : option Z) : option Z :=
  match a, b with
  | Some x, Some y => Some (Z.min x y)
  | Some x, None => Some x
  | None, b => b
  end.
Definition view (m : mstate) : vstate :=
  VSt (m_meta m) (match m_ctx m with [] => true | _ => false end) (ctx_done m)
      (dl_min (m_base_dl m) (min_deadline (m_ctx m))) (m_settle m).
Definition unview (v : vstate) : mstate := MSt (v_meta v) [] (v_done v) (v_settle v) (v_deadline v).

Inductive event :=
| ECall (k : nat) (v : vstate)   (* k-th handler call (0-based) and what it saw on entry *)
| ERetryHook (n : Z).            (* Retry.OnRetryHook(retryNum, _) *)

Record world := W { w_msg : mstate; w_calls : nat; w_trace : list event }.
Definition handler := world -> world * outcome.

Definition set_msg (w : world) (m : mstate) : world := W m (w_calls w) (w_trace w).
Definition set_ctx (m : mstate) (c : list layer) : mstate := MSt (m_meta m) c (m_base_done m) (m_settle m) (m_base_dl m).
Definition set_meta (m : mstate) (mt : meta) : mstate := MSt mt (m_ctx m) (m_base_done m) (m_settle m) (m_base_dl m).
Definition set_settle (m : mstate) (s : settle) : mstate := MSt (m_meta m) (m_ctx m) (m_base_done m) s (m_base_dl m).
Definition emit (w : world) (e : event) : world := W (w_msg w) (w_calls w) (w_trace w ++ [e]).

(** message.Ack / Nack: first settlement wins (message/message.go, property C03) *)
Definition ack_settle (s : settle) : settle := match s with Unsettled => Acked | x => x end.
Definition nack_settle (s : settle) : settle := match s with Unsettled => Nacked | x => x end.

Definition do_action (m : mstate) (a : action) : mstate :=
  match a with
  | AAck => set_settle m (ack_settle (m_settle m))
  | ANack => set_settle m (nack_settle (m_settle m))
  | ASetMeta k v => set_meta m (mset k v (m_meta m))
  | ACancel => MSt (m_meta m) (m_ctx m) true (m_settle m) (m_base_dl m)
  end.

(** the scripted handler *)
Definition scripted (s : script) : handler := fun w =>
  let c := nth_last default_call s (w_calls w) in
  let w1 := W (w_msg w) (S (w_calls w)) (w_trace w ++ [ECall (w_calls w) (view (w_msg w))]) in
  (set_msg w1 (fold_left do_action (c_pre c) (w_msg w1)), c_res c).

(** ** the middlewares *)
Record variant := Variant { fix_timeout : bool; fix_delay : bool }.
Definition pinned : variant := Variant false false.
Definition repaired : variant := Variant true true.

(** DelayOnError{InitialInterval, MaxInterval, Multiplier = num/den} *)
Record dcfg := DCfg { d_init : Z; d_max : Z; d_num : Z; d_den : Z }.

Inductive mw :=
| MTimeout (d : Z)
| MCorrelation
| MRecoverer
| MIgnore (l : list N)           (* texts of the listed errors *)
| MInstantAck
| MThrottle
| MBreaker                       (* gobreaker in the closed state *)
| MDelay (c : dcfg)
| MRetry (maxr : Z).             (* Retry{MaxRetries}; waits > 0, MaxElapsedTime = 0 *)

(** cancel() of the layer that was pushed when the stack had [n] elements *)
Fixpoint cancel_nth (n : nat) (l : list layer) : list layer :=
  match l, n with
  | [], _ => []
  | x :: l', O => Layer (l_timeout x) true :: l'
  | x :: l', S n' => x :: cancel_nth n' l'
  end.
Definition cancel_from_bottom (n : nat) (l : list layer) : list layer := rev (cancel_nth n (rev l)).

(** SetCorrelationID(id, msg) on a metadata map *)
Definition set_corr (id : mval) (mt : meta) : meta :=
  if is_empty (mget K_CORR mt) then mset K_CORR id mt else mt.
Definition corr_out (id : mval) (o : out) : out :=
  match o with
  | OSelf => OSelf
  | OMsg m => OMsg (OM (o_id m) (o_uuid m) (o_payload m) (set_corr id (o_meta m)))
  end.
(** the loop of CorrelationID over the produced messages.  When the consumed message itself is
    among them, SetCorrelationID(id, self) with id = self's own id either returns early or stores
    "" under the key, which Metadata.Get does not distinguish from a missing key (the harness
    canonicalises): no change to the consumed message. *)
Definition corr_apply (w : world) (outs : list out) : list out :=
  map (corr_out (mget K_CORR (m_meta (w_msg w)))) outs.

Definition in_texts (t : option N) (l : list N) : bool :=
  match t with Some x => existsb (N.eqb x) l | None => false end.

(** applyDelay, delay_on_error.go l.34-47 *)
Definition next_delay (v : variant) (c : dcfg) (cur : mval) : Z :=
  match cur with
  | MDur d =>
      let d' := if fix_delay v then Z.quot (d * d_num c)%Z (d_den c)     (* float64 product, truncated *)
                else (d * Z.quot (d_num c) (d_den c))%Z in                    (* d * time.Duration(Multiplier) *)
      if Z.gtb d' (d_max c) then d_max c else d'
  | _ => d_init c
  end.
Definition apply_delay (v : variant) (c : dcfg) (mt : meta) : meta :=
  let d := next_delay v c (mget K_DFOR mt) in
  mset K_DFOR (MDur d) (mset K_DUNTIL (MUntil d d) mt).

(** retry.go l.63-95: [n] = iterations left, [depth] = size of the context stack the loop's
    ctx was taken from (ctx := msg.Context() after the first failure) *)
Definition done_upto (depth : nat) (m : mstate) : bool :=
  m_base_done m || existsb l_cancelled (firstn depth (rev (m_ctx m))).
Fixpoint retry_loop (h : handler) (n : nat) (num : Z) (depth : nat) (w : world)
         (outs : list out) (e : err) : world * outcome :=
  match n with
  | O => (w, Fail [] e)                                           (* return nil, err *)
  | S n' =>
      if done_upto depth (w_msg w) then (w, Fail outs e)          (* case <-ctx.Done() *)
      else
        let '(w1, r) := h w in                                    (* after time.After(wait) *)
        match r with
        | Fail outs' e' => retry_loop h n' (num + 1)%Z depth (emit w1 (ERetryHook num)) outs' e'
        | _ => (w1, r)
        end
  end.
Definition retry_iters (maxr : Z) : nat := Z.to_nat (Z.max 1 maxr).

Definition mw_sem (v : variant) (m : mw) (h : handler) : handler := fun w =>
  match m with
  | MTimeout d =>
      let saved := m_ctx (w_msg w) in
      let '(w2, r) := h (set_msg w (set_ctx (w_msg w) (Layer d false :: saved))) in
      let c2 := if fix_timeout v then saved
                else cancel_from_bottom (length saved) (m_ctx (w_msg w2)) in
      (set_msg w2 (set_ctx (w_msg w2) c2), r)
  | MCorrelation =>
      let '(w1, r) := h w in
      match r with
      | Ret outs => (w1, Ret (corr_apply w1 outs))
      | Fail outs e => (w1, Fail (corr_apply w1 outs) e)
      | Panic p => (w1, Panic p)
      end
  | MRecoverer =>
      let '(w1, r) := h w in
      match r with
      | Panic p => (w1, Fail [] (ERecovered p))
      | _ => (w1, r)
      end
  | MIgnore l =>
      let '(w1, r) := h w in
      match r with
      | Fail outs e => if in_texts (cause_text e) l then (w1, Ret outs) else (w1, r)
      | _ => (w1, r)
      end
  | MInstantAck => h (set_msg w (set_settle (w_msg w) (ack_settle (m_settle (w_msg w)))))
  | MThrottle => h w
  | MBreaker => h w
  | MDelay c =>
      let '(w1, r) := h w in
      match r with
      | Fail _ _ => (set_msg w1 (set_meta (w_msg w1) (apply_delay v c (m_meta (w_msg w1)))), r)
      | _ => (w1, r)
      end
  | MRetry maxr =>
      let '(w1, r) := h w in
      match r with
      | Fail outs e => retry_loop h (retry_iters maxr) 1%Z (length (m_ctx (w_msg w1))) w1 outs e
      | _ => (w1, r)
      end
  end.

(** first in the list = outermost *)
Fixpoint stack (v : variant) (mws : list mw) (h : handler) : handler :=
  match mws with
  | [] => h
  | m :: r => mw_sem v m (stack v r h)
  end.

Definition is_simple (m : mw) : bool := match m with MRetry _ => false | _ => true end.

(** [n] successive invocations of the chain on the same message object (redeliveries);
    returns what each invocation returned and the message right after it *)
Fixpoint run_calls (h : handler) (n : nat) (w : world) : world * list (outcome * vstate) :=
  match n with
  | O => (w, [])
  | S n' =>
      let '(w1, r) := h w in
      let '(w2, l) := run_calls h n' w1 in
      (w2, (r, view (w_msg w1)) :: l)
  end.
Definition init_world (m : mstate) : world := W m 0 [].
