(** C19 + C02 — Recoverer and InstantAck in front of the Router's handleMessage. *)
From WM Require Import Base.Prelude Simple.Model Simple.Monitor Simple.Proofs Simple.ComposeProofs
  Simple.AcceptProofs Simple.InRouter.
From WM Require Message.Model Handler.RouterHandle Handler.RouterProofs.
Module RP := WM.Handler.RouterProofs.

(** a handler that panics without having settled the message, under Recoverer: the Router gets an
    error (its own recover is not needed), so by C02 it Nacks and publishes nothing *)
Theorem recoverer_router_nacks : forall pk pb v (h : handler) w p,
  m_settle (w_msg w) = Unsettled -> snd (h w) = Panic p -> m_settle (w_msg (fst (h w))) = Unsettled ->
  chain_in_router (mw_sem v MRecoverer h) w = RH.CR RH.PreNone (RH.Fail [])
  /\ MM.st (fst (RH.handle pk pb (chain_in_router (mw_sem v MRecoverer h) w))) = Nacked
  /\ RH.publishes (snd (RH.handle pk pb (chain_in_router (mw_sem v MRecoverer h) w))) = [].
Proof.
  intros pk pb v h w p Hu Hp Hs.
  assert (E: chain_in_router (mw_sem v MRecoverer h) w = RH.CR RH.PreNone (RH.Fail [])).
  { unfold chain_in_router. simpl. destruct (h w) as [w1 r]. simpl in *. subst r. simpl. now rewrite Hu, Hs. }
  rewrite E. repeat split.
Qed.

Lemma actions_settle_acked : forall l m, m_settle m = Acked -> m_settle (fold_left do_action l m) = Acked.
Proof.
  induction l as [|a l IH]; intros m H; simpl; auto. apply IH. destruct a; simpl; auto; now rewrite H.
Qed.

(** InstantAck anywhere in front of a chain of simple middlewares: the message is acked before the
    handler runs, so whatever the handler does afterwards (error, panic, own Nack, outputs the
    publisher rejects) the message the Router handled ends Acked *)
Theorem instant_ack_router_acks : forall pk pb outer inner s w,
  forallb is_simple outer = true -> forallb is_simple inner = true -> m_settle (w_msg w) = Unsettled ->
  MM.st (fst (RH.handle pk pb (chain_in_router (stack repaired (outer ++ MInstantAck :: inner) (scripted s)) w))) = Acked.
Proof.
  intros pk pb outer inner s w Ho Hi Hu.
  assert (Hs: forallb is_simple (outer ++ MInstantAck :: inner) = true)
    by (rewrite forallb_app; simpl; now rewrite Ho, Hi).
  pose proof (stack_char _ Hs (scripted s) w) as CH. cbv zeta in CH.
  destruct CH as (_ & _ & _ & C4 & _ & _).
  unfold chain_in_router.
  destruct (stack repaired (outer ++ MInstantAck :: inner) (scripted s) w) as [w1 r]. simpl in C4.
  assert (A: m_settle (w_msg w1) = Acked).
  { rewrite C4. apply actions_settle_acked. rewrite entry_settle, Hu.
    assert (HA: has_ack (outer ++ MInstantAck :: inner) = true).
    { unfold has_ack. rewrite existsb_app. simpl. apply orb_true_r. }
    now rewrite HA. }
  rewrite Hu, A. simpl. rewrite RP.handle_final. reflexivity.
Qed.
