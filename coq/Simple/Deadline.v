(** C19 — clock model of "a deadline visible during the call": a handler that blocks on
    [<-msg.Context().Done()] under a chain containing Timeout middlewares (timeout.go l.15-21:
    context.WithTimeout(msg.Context(), d) on entry).  Time is an oracle: before the body of each
    middleware an arbitrary delay >= 0 passes ([lat]), and the timer behind a deadline fires an
    arbitrary [late >= 0] after it, never before (context / time.AfterFunc as documented).
    Under Retry every attempt enters the chain afresh (the repaired Timeout restored the context),
    after a wait >= 0.  No proofs here. *)
From WM Require Import Base.Prelude.
Local Open Scope Z_scope.

(** chain from the outermost to the innermost middleware: [Some d] = Timeout d, [None] = another one *)
Definition tchain := list (option Z).
Definition timeouts (c : tchain) : list Z := flat_map (fun m => match m with Some d => [d] | None => [] end) c.

(** entering the chain at time [t]: returns the time the handler starts and the deadlines on its context *)
Fixpoint enter (t : Z) (c : tchain) (lat : list Z) (dls : list Z) : Z * list Z :=
  match c with
  | [] => (t, dls)
  | m :: r => let t' := t + Z.max 0 (hd 0 lat) in
              enter t' r (tl lat) (match m with Some d => (t' + d) :: dls | None => dls end)
  end.
(** Deadline() of a context under several WithTimeout: the earliest *)
Fixpoint earliest (dls : list Z) : option Z :=
  match dls with
  | [] => None
  | x :: r => match earliest r with None => Some x | Some y => Some (Z.min x y) end
  end.
(** the handler blocks on Done() from [t] on; [None] = no deadline, blocks for ever *)
Definition block (t : Z) (dls : list Z) (late : Z) : option Z :=
  match earliest dls with Some D => Some (Z.max t (D + Z.max 0 late)) | None => None end.
Definition attempt (t0 : Z) (c : tchain) (lat : list Z) (late : Z) : option Z :=
  let '(t, dls) := enter t0 c lat [] in block t dls late.

(** times at which the handler of attempt 1..n observes Done() *)
Fixpoint attempts (n : nat) (t0 : Z) (c : tchain) (lats : list (list Z)) (lates waits : list Z) : list Z :=
  match n with
  | O => []
  | S n' => match attempt t0 c (hd [] lats) (hd 0 lates) with
            | None => []
            | Some e => e :: attempts n' (e + Z.max 0 (hd 0 waits)) c (tl lats) (tl lates) (tl waits)
            end
  end.

(** the property, as a predicate on observed times: the first Done() no earlier than [dmin] after the
    chain was called, each later one no earlier than [dmin] after the previous one *)
Fixpoint block_ok (prev dmin slack : Z) (dones : list Z) : bool :=
  match dones with
  | [] => true
  | e :: r => (prev + dmin <=? e + slack) && block_ok e dmin slack r
  end.
