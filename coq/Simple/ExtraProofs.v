(** C19 — Duplicator, RandomFail, RandomPanic: frames, composition with chains of simple
    middlewares, and the acceptor of Simple/Extra.v accepts every run of the model. *)
From WM Require Import Base.Prelude Simple.Model Simple.Monitor Simple.Proofs Simple.ComposeProofs
  Simple.AcceptProofs Corr.C19 Simple.ChainAcceptProofs Simple.Extra Corr.C19x.

(** ** frames *)
Lemma random_frame : forall h w,
  x_sem (XRandFail false) h w = h w /\ x_sem (XRandPanic false) h w = h w
  /\ x_sem (XRandFail true) h w = (w, Fail [] (EBase T_RFAIL))
  /\ x_sem (XRandPanic true) h w = (w, Panic (PStr T_RPANIC)).
Proof. intros. repeat split. Qed.

(** Duplicator around a scripted handler: a second call iff the first succeeded; both outputs in
    order on success, otherwise the error (or panic) of the call that failed and no outputs *)
Lemma duplicator_twice : forall s w,
  let c1 := nth_last default_call s (w_calls w) in
  let c2 := nth_last default_call s (S (w_calls w)) in
  let r := x_sem XDup (scripted s) w in
  match c_res c1 with
  | Ret o1 => w_calls (fst r) = S (S (w_calls w))
              /\ snd r = match c_res c2 with Ret o2 => Ret (o1 ++ o2) | Fail _ e => Fail [] e | Panic p => Panic p end
  | Fail _ e => w_calls (fst r) = S (w_calls w) /\ snd r = Fail [] e
  | Panic p => w_calls (fst r) = S (w_calls w) /\ snd r = Panic p
  end.
Proof.
  intros s w. cbv zeta. unfold x_sem, scripted. simpl.
  destruct (c_res (nth_last default_call s (w_calls w))); simpl; auto.
  destruct (c_res (nth_last default_call s (S (w_calls w)))); simpl; auto.
Qed.
(** for ANY handler: never more than two calls' worth of effects, and a panic is not swallowed *)
Lemma duplicator_result : forall (h : handler) w,
  match snd (h w) with
  | Ret o1 => match snd (h (fst (h w))) with
              | Ret o2 => x_sem XDup h w = (fst (h (fst (h w))), Ret (o1 ++ o2))
              | Fail _ e => x_sem XDup h w = (fst (h (fst (h w))), Fail [] e)
              | Panic p => x_sem XDup h w = (fst (h (fst (h w))), Panic p)
              end
  | Fail _ e => x_sem XDup h w = (fst (h w), Fail [] e)
  | Panic p => x_sem XDup h w = (fst (h w), Panic p)
  end.
Proof.
  intros h w. simpl. destruct (h w) as [w1 r1]. simpl. destruct r1; auto.
  destruct (h w1) as [w2 r2]. simpl. destruct r2; auto.
Qed.

(** ** they keep what chains rely on *)
Lemma x_ctx : forall x h, ctx_preserving h -> ctx_preserving (x_sem x h).
Proof.
  intros x h Hh w. destruct x as [|[|]|[|]]; simpl; auto.
  pose proof (Hh w) as P. destruct (h w) as [w1 r1]. simpl in P. destruct r1; simpl; auto.
  pose proof (Hh w1) as P2. destruct (h w1) as [w2 r2]. simpl in P2. destruct r2; simpl; congruence.
Qed.
Lemma x_bdl : forall x h, bdl_preserving h -> bdl_preserving (x_sem x h).
Proof.
  intros x h Hh w. destruct x as [|[|]|[|]]; simpl; auto.
  pose proof (Hh w) as P. destruct (h w) as [w1 r1]. simpl in P. destruct r1; simpl; auto.
  pose proof (Hh w1) as P2. destruct (h w1) as [w2 r2]. simpl in P2. destruct r2; simpl; congruence.
Qed.
Lemma x_tally : forall x h, tally h -> tally (x_sem x h).
Proof.
  intros x h Hh w. destruct x as [|[|]|[|]]; simpl; auto;
    try (exists []; rewrite app_nil_r; split; auto; unfold ncalls; simpl; lia).
  destruct (Hh w) as [t [A B]]. destruct (h w) as [w1 r1]. simpl in *. destruct r1; simpl; eauto.
  destruct (Hh w1) as [t2 [A2 B2]]. destruct (h w1) as [w2 r2]. simpl in *.
  assert (exists t3, w_trace w2 = w_trace w ++ t3 /\ w_calls w2 = (w_calls w + ncalls t3)%nat).
  { exists (t ++ t2). rewrite A2, B2, A, B, ncalls_app. split; [now rewrite app_assoc | lia]. }
  destruct r2; simpl; auto.
Qed.
Lemma x_sim2 : forall x G G', sim2 G G' -> sim2 (x_sem x G) (x_sem x G').
Proof.
  intros x G G' HG w w' HR. destruct x as [|[|]|[|]]; simpl; auto.
  destruct (HG w w' HR) as [HR1 K1]. destruct (G w) as [w1 r1]. destruct (G' w') as [w1' r1']. simpl in *.
  destruct r1, r1'; simpl in K1; try discriminate; simpl; auto.
  destruct (HG w1 w1' HR1) as [HR2 K2]. destruct (G w1) as [w2 r2]. destruct (G' w1') as [w2' r2']. simpl in *.
  destruct r2, r2'; simpl in K2; try discriminate; simpl; auto.
Qed.
Lemma x_counted : forall x k0 s w, counted k0 w -> counted k0 (fst (x_sem x (scripted s) w)).
Proof.
  intros x k0 s w Hc. destruct x as [|[|]|[|]]; cbn [x_sem fst]; auto using counted_scripted.
  pose proof (counted_scripted k0 s w Hc) as P. destruct (scripted s w) as [w1 r1]. cbn [fst] in P.
  destruct r1; cbn [fst]; auto.
  pose proof (counted_scripted k0 s w1 P) as P2. destruct (scripted s w1) as [w2 r2]. cbn [fst] in P2.
  destruct r2; cbn [fst]; auto.
Qed.

(** the number of produced messages travels through chains of simple middlewares unchanged *)
Lemma len_exit : forall mws mt o, length (outs_of (snd (exit_all mws mt o))) = length (outs_of o).
Proof. intros. rewrite outs_exit. destruct (has_corr mws); auto. apply map_length. Qed.
Lemma outs_effo : forall mws o, outs_of (effo mws o) = outs_of o.
Proof.
  induction mws as [|m mws IH]; intros o; simpl; auto. rewrite <- (IH o).
  destruct m; simpl; auto; destruct (effo mws o); simpl; auto. destruct (in_texts _ _); reflexivity.
Qed.
Definition lsim (G G' : handler) : Prop :=
  forall w w', R2 w w' -> length (outs_of (snd (G w))) = length (outs_of (snd (G' w'))).
Lemma lsim_inner : forall post s, forallb is_simple post = true ->
  lsim (stack repaired post (scripted s)) (scripted (map_res (effo post) s)).
Proof.
  intros post s Hq w w' (Hc & _ & _).
  pose proof (stack_char post Hq (scripted s) w) as CH. cbv zeta in CH. destruct CH as (C1 & _).
  rewrite C1, len_exit, scripted_map_res. simpl. rewrite outs_effo, Hc. reflexivity.
Qed.
Lemma x_lsim : forall x G G', sim2 G G' -> lsim G G' -> lsim (x_sem x G) (x_sem x G').
Proof.
  intros x G G' HG HL w w' HR. destruct x as [|[|]|[|]]; simpl; auto.
  destruct (HG w w' HR) as [HR1 K1]. pose proof (HL w w' HR) as L1.
  destruct (G w) as [w1 r1]. destruct (G' w') as [w1' r1']. simpl in *.
  destruct r1, r1'; simpl in K1; try discriminate; simpl; auto.
  destruct (HG w1 w1' HR1) as [HR2 K2]. pose proof (HL w1 w1' HR1) as L2.
  destruct (G w1) as [w2 r2]. destruct (G' w1') as [w2' r2']. simpl in *.
  destruct r2, r2'; simpl in K2; try discriminate; simpl; auto.
  simpl in *. rewrite !app_length. lia.
Qed.

(** ** [pre (X (post h))] against X alone around the handler carrying post's effects *)
Lemma x_middle : forall pre x post s w,
  forallb is_simple pre = true -> forallb is_simple post = true ->
  let Y := xstack repaired pre x post s w in
  let B := x_sem x (scripted (map_res (effo post) s)) w in
  w_calls (fst Y) = w_calls (fst B)
  /\ m_base_done (w_msg (fst Y)) = m_base_done (w_msg (fst B))
  /\ shapes (w_trace (fst Y)) = shapes (w_trace (fst B))
  /\ rkind (snd Y) = eff pre (rkind (snd B))
  /\ length (outs_of (snd Y)) = length (outs_of (snd B)).
Proof.
  intros pre x post s w Hp Hq. cbv zeta. unfold xstack.
  set (G := x_sem x (stack repaired post (scripted s))).
  pose proof (stack_char pre Hp G w) as CH. cbv zeta in CH.
  set (we := set_msg w (entry_msg pre (w_msg w))) in *.
  assert (HR: R2 we w) by (unfold R2, we; simpl; rewrite entry_base; auto).
  destruct (x_sim2 x _ _ (sim2_inner post s Hq) we w HR) as [(A & B & T) K]. fold G in A, B, T, K.
  pose proof (x_lsim x _ _ (sim2_inner post s Hq) (lsim_inner post s Hq) we w HR) as L. fold G in L.
  destruct (stack repaired pre G w) as [w1 r]. simpl in CH.
  destruct CH as (C1 & C2 & C3 & C4 & C5 & C6). simpl.
  rewrite C5, C3, C6, C1, rkind_exit, len_exit, K. auto.
Qed.

Theorem x_chain_result : forall pre x post s w,
  forallb is_simple pre = true -> forallb is_simple post = true ->
  w_calls (fst (xstack repaired pre x post s w)) = w_calls (fst (x_sem x (scripted (map_res (effo post) s)) w))
  /\ rkind (snd (xstack repaired pre x post s w)) = eff pre (rkind (snd (x_sem x (scripted (map_res (effo post) s)) w)))
  /\ m_ctx (w_msg (fst (xstack repaired pre x post s w))) = m_ctx (w_msg w).
Proof.
  intros pre x post s w Hp Hq. destruct (x_middle pre x post s w Hp Hq) as (A & _ & _ & K & _). repeat split; auto.
  unfold xstack. apply (stack_ctx pre). apply x_ctx. apply stack_ctx. apply scripted_ctx.
Qed.

(** ** the acceptor accepts the model: one invocation, then whole cases *)
Theorem x_accepted : forall pre x post s w0,
  forallb is_simple pre = true -> forallb is_simple post = true ->
  let '(tr, r, v) := observe (xstack repaired pre x post s) w0 in
  x_accept pre x post s w0 tr r v = true.
Proof.
  intros pre x post s w0 Hp Hq. unfold observe, x_accept, clauses_x, bare_x.
  set (w := W (w_msg w0) (w_calls w0) []).
  destruct (x_middle pre x post s w Hp Hq) as (A & B & T & K & L).
  assert (CX: m_ctx (w_msg (fst (xstack repaired pre x post s w))) = m_ctx (w_msg w)).
  { unfold xstack. apply (stack_ctx pre). apply x_ctx. apply stack_ctx. apply scripted_ctx. }
  assert (CD: m_base_dl (w_msg (fst (xstack repaired pre x post s w))) = m_base_dl (w_msg w)).
  { unfold xstack. apply (stack_bdl repaired pre). apply x_bdl. apply stack_bdl. apply scripted_bdl. }
  assert (C0: counted (w_calls w) w) by (unfold counted, w; simpl; split; auto; unfold ncalls; simpl; lia).
  pose proof (x_counted x (w_calls w) (map_res (effo post) s) w C0) as [N1 N2].
  pose proof (x_ctx x _ (scripted_ctx (map_res (effo post) s)) w) as CB.
  destruct (xstack repaired pre x post s w) as [w1 r].
  destruct (x_sem x (scripted (map_res (effo post) s)) w) as [wb rb].
  simpl in *. unfold all_true. cbn [forallb].
  rewrite ncalls_shapes, T, <- ncalls_shapes.
  assert (E0: Nat.eqb (ncalls (w_trace wb)) (w_calls wb - w_calls w0) = true) by (apply Nat.eqb_eq; lia).
  rewrite E0, indices_shapes, T, <- indices_shapes, N2, K, K_eqb_refl, L, Nat.eqb_refl.
  unfold view, ctx_done. simpl. rewrite CX, CD, B, CB.
  rewrite !Bool.eqb_reflx, optZ_eqb_refl. reflexivity.
Qed.

Lemma x_accept_ext : forall pre x post s a w tr r v, w_msg a = w_msg w -> w_calls a = w_calls w ->
  x_accept pre x post s a tr r v = x_accept pre x post s w tr r v.
Proof. intros pre x post s [am ac at_] [wm wc wt] tr r v. simpl. intros -> ->. reflexivity. Qed.

Lemma x_chain_accepted_gen : forall pre post s, forallb is_simple pre = true -> forallb is_simple post = true ->
  forall xs w a, m_ctx (w_msg w) = [] -> w_msg a = w_msg w -> w_calls a = w_calls w ->
  x_accept_invs pre post s xs a (model_xinvs repaired pre post s xs w) = true.
Proof.
  intros pre post s Hp Hq. induction xs as [|x xs IH]; intros w a Hc Hm Hk; [reflexivity|].
  cbn [model_xinvs].
  pose proof (x_accepted pre x post s w Hp Hq) as MA. unfold observe in MA.
  set (w' := W (w_msg w) (w_calls w) []) in *.
  assert (CX: m_ctx (w_msg (fst (xstack repaired pre x post s w'))) = m_ctx (w_msg w')).
  { unfold xstack. apply (stack_ctx pre). apply x_ctx. apply stack_ctx. apply scripted_ctx. }
  assert (TL: tally (xstack repaired pre x post s)).
  { unfold xstack. apply tally_stack. apply x_tally. apply tally_stack. apply tally_scripted. }
  destruct (TL w') as [t [TA TB]].
  destruct (xstack repaired pre x post s w') as [w1 r]. simpl in CX, TA, TB.
  cbn [x_accept_invs i_trace i_res i_after]. apply andb_true_iff. split.
  - rewrite (x_accept_ext pre x post s a w) by auto. exact MA.
  - apply IH.
    + congruence.
    + simpl. apply unview_view. congruence.
    + simpl. rewrite TA, TB, Hk. reflexivity.
Qed.
Theorem x_case_model_accepted : forall c,
  forallb is_simple (x_pre c) = true -> forallb is_simple (x_post c) = true -> m_ctx (x_init c) = [] ->
  x_violates (XC (x_pre c) (x_xs c) (x_post c) (x_script c) (x_init c) (x_model repaired c)) = false.
Proof.
  intros c Hp Hq Hc. unfold x_violates, x_model. simpl.
  rewrite x_chain_accepted_gen; auto.
Qed.
