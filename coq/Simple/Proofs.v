(** C19 — proofs about Simple/Model.v and Simple/Monitor.v. *)
From WM Require Import Base.Prelude Simple.Model Simple.Monitor.

Lemma recoverer_never_escapes : forall v (h : handler) w,
  match snd (h w) with
  | Panic p => snd (mw_sem v MRecoverer h w) = Fail [] (ERecovered p)
  | r => snd (mw_sem v MRecoverer h w) = r
  end /\ (forall p, snd (mw_sem v MRecoverer h w) <> Panic p).
Proof.
  intros v h w. simpl. destruct (h w) as [w1 r]. destruct r; simpl; split; congruence.
Qed.
