(** C19 — proofs about Simple/Model.v and Simple/Monitor.v. *)
From WM Require Import Base.Prelude Simple.Model Simple.Monitor.

(** ** metadata maps *)
Lemma mget_mset_same : forall k v m, mget k (mset k v m) = v.
Proof.
  intros k v m. induction m as [|[k' v'] m IH]; simpl.
  - now rewrite N.eqb_refl.
  - destruct (N.eqb k k') eqn:E; simpl; rewrite ?N.eqb_refl, ?E; auto.
Qed.
Lemma mget_mset_other : forall k k' v m, k' <> k -> mget k' (mset k v m) = mget k' m.
Proof.
  intros k k' v m Hne. induction m as [|[k2 v2] m IH]; simpl.
  - destruct (N.eqb k' k) eqn:E; auto. apply N.eqb_eq in E. congruence.
  - destruct (N.eqb k k2) eqn:E; simpl.
    + apply N.eqb_eq in E. subst k2.
      destruct (N.eqb k' k) eqn:E2; auto. apply N.eqb_eq in E2. congruence.
    + destruct (N.eqb k' k2); auto.
Qed.
Lemma mval_eqb_refl : forall v, mval_eqb v v = true.
Proof.
  destruct v; simpl; try apply N.eqb_refl; try apply Z.eqb_refl.
  rewrite !Z.eqb_refl. reflexivity.
Qed.
Lemma meta_equiv_refl : forall m, meta_equiv m m = true.
Proof. intros m. unfold meta_equiv. apply forallb_forall. intros x _. apply mval_eqb_refl. Qed.

(** ** frame lemmas, one per middleware; [h] is ANY inner handler (hence any inner chain) *)
Definition with_deadline (d : Z) (w : world) : world :=
  set_msg w (set_ctx (w_msg w) (Layer d false :: m_ctx (w_msg w))).
Definition acked (w : world) : world := set_msg w (set_settle (w_msg w) (ack_settle (m_settle (w_msg w)))).

Lemma timeout_frame : forall d (h : handler) w,
  let r := mw_sem repaired (MTimeout d) h w in
  let i := h (with_deadline d w) in
  snd r = snd i
  /\ m_ctx (w_msg (fst r)) = m_ctx (w_msg w)
  /\ m_meta (w_msg (fst r)) = m_meta (w_msg (fst i))
  /\ m_base_done (w_msg (fst r)) = m_base_done (w_msg (fst i))
  /\ m_settle (w_msg (fst r)) = m_settle (w_msg (fst i))
  /\ w_calls (fst r) = w_calls (fst i) /\ w_trace (fst r) = w_trace (fst i).
Proof.
  intros d h w. unfold with_deadline. simpl. destruct (h _) as [w2 r2]. simpl. repeat split.
Qed.
Lemma timeout_deadline_visible : forall d w,
  (exists dl, v_deadline (view (w_msg (with_deadline d w))) = Some dl /\ (dl <= d)%Z)
  /\ v_done (view (w_msg (with_deadline d w))) = v_done (view (w_msg w))
  /\ v_meta (view (w_msg (with_deadline d w))) = v_meta (view (w_msg w))
  /\ v_settle (view (w_msg (with_deadline d w))) = v_settle (view (w_msg w)).
Proof.
  intros d w. unfold with_deadline, view, ctx_done. simpl. repeat split.
  destruct (m_base_dl (w_msg w)) as [b|], (min_deadline (m_ctx (w_msg w))) as [x|]; simpl; eexists; split; eauto; lia.
Qed.

Lemma set_corr_others : forall id mt k, k <> K_CORR -> mget k (set_corr id mt) = mget k mt.
Proof. intros. unfold set_corr. destruct (is_empty _); auto. now apply mget_mset_other. Qed.
Lemma set_corr_filled : forall id mt, is_empty (mget K_CORR mt) = true -> mget K_CORR (set_corr id mt) = id.
Proof. intros. unfold set_corr. rewrite H. apply mget_mset_same. Qed.
Lemma set_corr_kept : forall id mt, is_empty (mget K_CORR mt) = false -> set_corr id mt = mt.
Proof. intros. unfold set_corr. now rewrite H. Qed.

Lemma others_equal_set_corr : forall id mt, others_equal (set_corr id mt) mt = true.
Proof.
  intros. unfold others_equal. apply forallb_forall. intros [k v] _. simpl.
  destruct (N.eqb k K_CORR) eqn:E; simpl; auto.
  apply N.eqb_neq in E. rewrite set_corr_others by auto. apply mval_eqb_refl.
Qed.
Lemma others_equal_refl : forall mt, others_equal mt mt = true.
Proof.
  intros. unfold others_equal. apply forallb_forall. intros [k v] _. simpl.
  rewrite mval_eqb_refl. apply orb_true_r.
Qed.
Lemma out_ok_corr : forall id o, out_ok true id (corr_out id o) o = true.
Proof.
  intros id [|m]; simpl; auto. rewrite !N.eqb_refl, others_equal_set_corr. simpl.
  destruct (is_empty (mget K_CORR (o_meta m))) eqn:E.
  - rewrite set_corr_filled by auto. apply mval_eqb_refl.
  - rewrite set_corr_kept by auto. apply mval_eqb_refl.
Qed.
Lemma outs_ok_corr : forall id outs, outs_ok true id (map (corr_out id) outs) outs = true.
Proof. induction outs; simpl; auto. now rewrite out_ok_corr. Qed.
Lemma out_ok_same : forall id o, out_ok false id o o = true.
Proof.
  intros id [|m]; simpl; auto. rewrite !N.eqb_refl, others_equal_refl. simpl.
  destruct (is_empty (mget K_CORR (o_meta m))) eqn:E; auto. apply mval_eqb_refl.
Qed.
Lemma outs_ok_same : forall id outs, outs_ok false id outs outs = true.
Proof. induction outs; simpl; auto. now rewrite out_ok_same. Qed.

Lemma correlation_frame : forall v (h : handler) w,
  let r := mw_sem v MCorrelation h w in
  fst r = fst (h w)
  /\ rkind (snd r) = rkind (snd (h w))
  /\ outs_of (snd r) = map (corr_out (mget K_CORR (m_meta (w_msg (fst (h w)))))) (outs_of (snd (h w)))
  /\ outs_ok true (mget K_CORR (m_meta (w_msg (fst (h w))))) (outs_of (snd r)) (outs_of (snd (h w))) = true.
Proof.
  intros v h w. simpl. destruct (h w) as [w1 r]. destruct r; simpl; unfold corr_apply;
    repeat split; auto using outs_ok_corr.
Qed.
(** copied to the outputs that lack one, never overwritten, nothing else touched *)
Lemma correlation_per_output : forall id (m : omsg),
  match corr_out id (OMsg m) with
  | OMsg m' =>
      o_id m' = o_id m /\ o_uuid m' = o_uuid m /\ o_payload m' = o_payload m
      /\ (forall k, k <> K_CORR -> mget k (o_meta m') = mget k (o_meta m))
      /\ (is_empty (mget K_CORR (o_meta m)) = false -> o_meta m' = o_meta m)
      /\ (is_empty (mget K_CORR (o_meta m)) = true -> mget K_CORR (o_meta m') = id)
  | OSelf => False
  end /\ corr_out id OSelf = OSelf.
Proof.
  intros id m. simpl. repeat split.
  - intros. now apply set_corr_others.
  - apply set_corr_kept.
  - apply set_corr_filled.
Qed.

Lemma recoverer_never_escapes : forall v (h : handler) w,
  fst (mw_sem v MRecoverer h w) = fst (h w)
  /\ match snd (h w) with
     | Panic p => snd (mw_sem v MRecoverer h w) = Fail [] (ERecovered p)
     | r => snd (mw_sem v MRecoverer h w) = r
     end
  /\ (forall p, snd (mw_sem v MRecoverer h w) <> Panic p).
Proof.
  intros v h w. simpl. destruct (h w) as [w1 r]. destruct r; simpl; repeat split; congruence.
Qed.

Lemma ignore_errors_frame : forall v l (h : handler) w,
  fst (mw_sem v (MIgnore l) h w) = fst (h w)
  /\ match snd (h w) with
     | Fail outs e => snd (mw_sem v (MIgnore l) h w) =
                      if in_texts (cause_text e) l then Ret outs else Fail outs e
     | r => snd (mw_sem v (MIgnore l) h w) = r
     end.
Proof.
  intros v l h w. simpl. destruct (h w) as [w1 r]. destruct r; simpl; auto.
  destruct (in_texts _ _); auto.
Qed.
(** the comparison is with the text of pkg/errors.Cause: looks through Wrap, not through %w *)
Lemma ignore_errors_cause : forall t u e,
  cause_text (EWrapCause t e) = cause_text e /\ cause_text (EWrapStd u e) = Some u
  /\ (forall v l, in_texts (cause_text (ERecovered v)) l = false).
Proof. intros. repeat split. Qed.

Lemma instant_ack_frame : forall v (h : handler) w,
  mw_sem v MInstantAck h w = h (acked w)
  /\ m_settle (w_msg (acked w)) <> Unsettled
  /\ (m_settle (w_msg w) = Unsettled -> m_settle (w_msg (acked w)) = Acked)
  /\ (m_settle (w_msg w) <> Unsettled -> m_settle (w_msg (acked w)) = m_settle (w_msg w))
  /\ m_meta (w_msg (acked w)) = m_meta (w_msg w) /\ m_ctx (w_msg (acked w)) = m_ctx (w_msg w)
  /\ m_base_done (w_msg (acked w)) = m_base_done (w_msg w).
Proof.
  intros v h w. unfold acked. simpl. destruct (m_settle (w_msg w)); simpl; repeat split; congruence.
Qed.

Lemma throttle_breaker_transparent : forall v (h : handler) w,
  mw_sem v MThrottle h w = h w /\ mw_sem v MBreaker h w = h w.
Proof. intros. split; reflexivity. Qed.

Lemma apply_delay_others : forall v c mt k, k <> K_DFOR -> k <> K_DUNTIL ->
  mget k (apply_delay v c mt) = mget k mt.
Proof. intros. unfold apply_delay. rewrite !mget_mset_other; auto. Qed.
Lemma apply_delay_for : forall v c mt,
  mget K_DFOR (apply_delay v c mt) = MDur (next_delay v c (mget K_DFOR mt))
  /\ mget K_DUNTIL (apply_delay v c mt) = (let d := next_delay v c (mget K_DFOR mt) in MUntil d d).
Proof.
  intros. unfold apply_delay. split.
  - apply mget_mset_same.
  - rewrite mget_mset_other by (unfold K_DFOR, K_DUNTIL; lia). apply mget_mset_same.
Qed.

Lemma delay_frame : forall v c (h : handler) w,
  let r := mw_sem v (MDelay c) h w in
  snd r = snd (h w)
  /\ match snd (h w) with
     | Fail _ _ =>
         mget K_DFOR (m_meta (w_msg (fst r))) = MDur (next_delay v c (mget K_DFOR (m_meta (w_msg (fst (h w))))))
         /\ mget K_DUNTIL (m_meta (w_msg (fst r))) = (let d := next_delay v c (mget K_DFOR (m_meta (w_msg (fst (h w))))) in MUntil d d)
         /\ (forall k, k <> K_DFOR -> k <> K_DUNTIL ->
             mget k (m_meta (w_msg (fst r))) = mget k (m_meta (w_msg (fst (h w)))))
         /\ m_ctx (w_msg (fst r)) = m_ctx (w_msg (fst (h w)))
         /\ m_base_done (w_msg (fst r)) = m_base_done (w_msg (fst (h w)))
         /\ m_settle (w_msg (fst r)) = m_settle (w_msg (fst (h w)))
         /\ w_calls (fst r) = w_calls (fst (h w)) /\ w_trace (fst r) = w_trace (fst (h w))
     | _ => fst r = fst (h w)                         (* successes (and panics) untouched *)
     end.
Proof.
  intros v c h w. simpl. destruct (h w) as [w1 r]. destruct r; simpl; split; auto.
  destruct (apply_delay_for v c (m_meta (w_msg w1))) as [A B].
  repeat split; auto. intros. now apply apply_delay_others.
Qed.
