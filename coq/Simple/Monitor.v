(** C19 — the property as an executable acceptor of ONE observed invocation of a middleware
    chain around a scripted handler.  The clauses compare what was observed with the *bare*
    handler script, allowing exactly the documented effects.  The theorems of Simple/Proofs.v
    are about these functions; checks/c19.py evaluates the same functions on what the real
    middlewares did.  No proofs here. *)
From WM Require Import Base.Prelude Simple.Model.

(** result of a call without its produced messages: success / the error / the panic value *)
Inductive K := KRet | KFail (e : err) | KPanic (v : pval).
Definition rkind (o : outcome) : K :=
  match o with Ret _ => KRet | Fail _ e => KFail e | Panic v => KPanic v end.
Definition K_eqb (a b : K) : bool :=
  match a, b with
  | KRet, KRet => true
  | KFail e, KFail f => err_eqb e f
  | KPanic v, KPanic w => pval_eqb v w
  | _, _ => false
  end.
Definition outs_of (o : outcome) : list out :=
  match o with Ret l => l | Fail l _ => l | Panic _ => [] end.

(** the documented effect of one middleware on the result: Recoverer turns a panic into an error
    carrying the value, IgnoreErrors turns a listed error into success, nothing else changes *)
Definition eff1 (m : mw) (k : K) : K :=
  match m, k with
  | MRecoverer, KPanic v => KFail (ERecovered v)
  | MIgnore l, KFail e => if in_texts (cause_text e) l then KRet else KFail e
  | _, _ => k
  end.
Definition eff (mws : list mw) (k : K) : K := fold_right eff1 k mws.

(** the same on outcomes with their outputs (used to transform a script) *)
Definition effo1 (m : mw) (o : outcome) : outcome :=
  match m, o with
  | MRecoverer, Panic v => Fail [] (ERecovered v)
  | MIgnore l, Fail outs e => if in_texts (cause_text e) l then Ret outs else o
  | _, _ => o
  end.
Definition effo (mws : list mw) (o : outcome) : outcome := fold_right effo1 o mws.
Definition map_res (f : outcome -> outcome) (s : script) : script :=
  map (fun c => Call (c_pre c) (f (c_res c))) s.

Definition has_corr (mws : list mw) : bool := existsb (fun m => match m with MCorrelation => true | _ => false end) mws.
Definition has_ack (mws : list mw) : bool := existsb (fun m => match m with MInstantAck => true | _ => false end) mws.
(** the context stack the handler sees: every Timeout around it has pushed one layer, outermost first *)
Fixpoint push_layers (mws : list mw) (ctx : list layer) : list layer :=
  match mws with
  | [] => ctx
  | MTimeout d :: r => push_layers r (Layer d false :: ctx)
  | _ :: r => push_layers r ctx
  end.

(** delay metadata: a DelayOnError acts iff what arrives from below it is an error *)
Fixpoint exp_meta (mws : list mw) (k0 : K) (mt0 : meta) : meta :=
  match mws with
  | [] => mt0
  | m :: r =>
      let mt := exp_meta r k0 mt0 in
      match m with
      | MDelay c => match eff r k0 with KFail _ => apply_delay repaired c mt | _ => mt end
      | _ => mt
      end
  end.

(** ** clauses *)
Definition others_equal (a b : meta) : bool :=
  forallb (fun kv => N.eqb (fst kv) K_CORR || mval_eqb (mget (fst kv) a) (mget (fst kv) b)) (a ++ b).
(** [a] observed, [b] what the handler produced *)
Definition out_ok (hc : bool) (id : mval) (a b : out) : bool :=
  match a, b with
  | OSelf, OSelf => true
  | OMsg a, OMsg b =>
      N.eqb (o_id a) (o_id b) && N.eqb (o_uuid a) (o_uuid b) && N.eqb (o_payload a) (o_payload b)
      && others_equal (o_meta a) (o_meta b)
      && (let ca := mget K_CORR (o_meta a) in let cb := mget K_CORR (o_meta b) in
          if is_empty cb then (if hc then mval_eqb ca id else is_empty ca)   (* copied to those that lack one *)
          else mval_eqb ca cb)                                               (* never overwritten *)
  | _, _ => false
  end.
Fixpoint outs_ok (hc : bool) (id : mval) (a b : list out) : bool :=
  match a, b with
  | [], [] => true
  | x :: a', y :: b' => out_ok hc id x y && outs_ok hc id a' b'
  | _, _ => false
  end.

Definition settle_eqb (a b : settle) : bool :=
  match a, b with Unsettled, Unsettled | Acked, Acked | Nacked, Nacked => true | _, _ => false end.
Definition optZ_eqb := option_eqb Z.eqb.

(** what the handler must see on entry: the message as it was, plus a deadline for every
    Timeout around it, plus the Ack of InstantAck *)
Definition seen_ok (mws : list mw) (m0 : mstate) (v : vstate) : bool :=
  meta_equiv (v_meta v) (m_meta m0)
  && Bool.eqb (v_same v) (match push_layers mws (m_ctx m0) with [] => true | _ => false end)
  && Bool.eqb (v_done v) (ctx_done m0)                 (* the deadline has not passed: alive unless it came dead *)
  && optZ_eqb (v_deadline v) (dl_min (m_base_dl m0) (min_deadline (push_layers mws (m_ctx m0))))
  && settle_eqb (v_settle v) (if has_ack mws then ack_settle (m_settle m0) else m_settle m0).

(** "the effect ends with the call": the message context afterwards is the context before *)
Definition ctx_restored (m0 : mstate) (cancelled_by_handler : bool) (v : vstate) : bool :=
  Bool.eqb (v_same v) (v_same (view m0))
  && Bool.eqb (v_done v) (ctx_done m0 || cancelled_by_handler)
  && optZ_eqb (v_deadline v) (v_deadline (view m0)).

Definition cancels (c : call) : bool := existsb (fun a => match a with ACancel => true | _ => false end) (c_pre c).

(** chain of simple middlewares, one handler call.  The clauses, in order:
    0 the handler is called exactly once; 1 it sees the message as it was plus deadline / Ack;
    2 error identity / panic value unchanged but for Recoverer / IgnoreErrors; 3 outputs unchanged
    but for the correlation id; 4 the message context afterwards is the context before;
    5 settlement; 6 metadata unchanged but for the delay schedule *)
Definition dummy_seen : vstate := VSt [] false false None Unsettled.
Definition clauses_simple (mws : list mw) (s : script) (w0 : world)
           (tr : list event) (r : outcome) (v : vstate) : list bool :=
  let c := nth_last default_call s (w_calls w0) in
  let m0 := w_msg w0 in
  let m1 := fold_left do_action (c_pre c)
                      (if has_ack mws then set_settle m0 (ack_settle (m_settle m0)) else m0) in
  [ match tr with [ECall k _] => Nat.eqb k (w_calls w0) | _ => false end;
    match tr with ECall _ seen :: _ => seen_ok mws m0 seen | _ => false end;
    K_eqb (rkind r) (eff mws (rkind (c_res c)));
    outs_ok (has_corr mws) (mget K_CORR (m_meta m1)) (outs_of r) (outs_of (c_res c));
    ctx_restored m0 (cancels c) v;
    settle_eqb (v_settle v) (m_settle m1);
    meta_equiv (v_meta v) (exp_meta mws (rkind (c_res c)) (m_meta m1)) ].
Definition all_true (l : list bool) : bool := forallb (fun b => b) l.
Definition accept_simple mws s w0 tr r v : bool := all_true (clauses_simple mws s w0 tr r v).

(** chain [outer ++ MRetry maxr :: inner], outer and inner simple *)
Fixpoint split_retry (mws : list mw) : list mw * option (Z * list mw) :=
  match mws with
  | [] => ([], None)
  | MRetry r :: rest => ([], Some (r, rest))
  | m :: rest => let '(o, x) := split_retry rest in (m :: o, x)
  end.

Definition ncalls (tr : list event) : nat :=
  length (filter (fun e => match e with ECall _ _ => true | _ => false end) tr).
Definition hooks (tr : list event) : list Z :=
  flat_map (fun e => match e with ERetryHook n => [n] | _ => [] end) tr.
Fixpoint call_indices_from (k : nat) (tr : list event) : bool :=
  match tr with
  | [] => true
  | ECall j _ :: tr' => Nat.eqb j k && call_indices_from (S k) tr'
  | _ :: tr' => call_indices_from k tr'
  end.
Definition first_seen (tr : list event) : option vstate :=
  match tr with ECall _ v :: _ => Some v | _ => None end.

(** the bare Retry around the handler whose results carry the documented effects of [inner] *)
Definition bare_retry (maxr : Z) (inner : list mw) (s : script) (w0 : world) : world * outcome :=
  mw_sem repaired (MRetry maxr) (scripted (map_res (effo inner) s)) (W (w_msg w0) (w_calls w0) []).

(** clauses: 0 as many attempts as the bare Retry makes on the same handler; 1 consecutive call
    numbers; 2 the same OnRetryHook sequence; 3 result kind; 4 first attempt sees deadline / Ack;
    5 the message context afterwards is the context before *)
Definition clauses_retry (outer : list mw) (maxr : Z) (inner : list mw) (s : script) (w0 : world)
           (tr : list event) (r : outcome) (v : vstate) : list bool :=
  let '(wb, rb) := bare_retry maxr inner s w0 in
  [ Nat.eqb (ncalls tr) (w_calls wb - w_calls w0);
    call_indices_from (w_calls w0) tr;
    list_eqb Z.eqb (hooks tr) (hooks (w_trace wb));
    K_eqb (rkind r) (eff outer (rkind rb));
    match first_seen tr with Some seen => seen_ok (outer ++ inner) (w_msg w0) seen | None => false end;
    Bool.eqb (v_same v) (v_same (view (w_msg w0)))
    && Bool.eqb (v_done v) (ctx_done (w_msg wb))
    && optZ_eqb (v_deadline v) (v_deadline (view (w_msg w0))) ].
Definition accept_retry outer maxr inner s w0 tr r v : bool :=
  all_true (clauses_retry outer maxr inner s w0 tr r v).

(** (retry?, clause results) *)
Definition clauses (mws : list mw) (s : script) (w0 : world)
           (tr : list event) (r : outcome) (v : vstate) : bool * list bool :=
  match split_retry mws with
  | (_, None) => (false, clauses_simple mws s w0 tr r v)
  | (outer, Some (maxr, inner)) =>
      if forallb is_simple inner then (true, clauses_retry outer maxr inner s w0 tr r v)
      else (true, [])
  end.
Definition accept (mws : list mw) (s : script) (w0 : world)
           (tr : list event) (r : outcome) (v : vstate) : bool :=
  match split_retry mws with
  | (_, None) => accept_simple mws s w0 tr r v
  | (outer, Some (maxr, inner)) =>
      if forallb is_simple inner then accept_retry outer maxr inner s w0 tr r v
      else true                                                          (* two Retries: not judged *)
  end.

(** what the model does, in the shape the acceptor takes *)
Definition observe (h : handler) (w0 : world) : list event * outcome * vstate :=
  let '(w1, r) := h (W (w_msg w0) (w_calls w0) []) in (w_trace w1, r, view (w_msg w1)).

(** ** DelayOnError alone: the documented schedule *)
(** delay after the j-th consecutive failure (j >= 1), as the middleware computes it *)
Fixpoint sched (v : variant) (c : dcfg) (j : nat) : Z :=
  match j with
  | O => 0
  | S O => d_init c
  | S j' => next_delay v c (MDur (sched v c j'))
  end.
