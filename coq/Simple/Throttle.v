(** C19 — clock model of middleware.Throttle (throttle.go): one time.Ticker of period
    [p = duration / count] shared by every call; each call receives one tick before it starts the
    handler.  time.Ticker as documented: ticks are due at t0+p, t0+2p, ...; the channel holds at
    most one undelivered tick, further ticks are dropped.  No proofs here. *)
From WM Require Import Base.Prelude.
Local Open Scope Z_scope.

Record ticker := Ticker { t_next : Z (* time of the next tick not yet produced *); t_buf : bool }.
Definition new_ticker (t0 p : Z) : ticker := Ticker (t0 + p) false.
(** NewThrottle(count, duration): period = duration / time.Duration(count) *)
Definition period (count duration : Z) : Z := Z.quot duration count.

(** let time pass until [t]: every tick due by then is produced, one is kept *)
Definition advance (p : Z) (tk : ticker) (t : Z) : ticker :=
  if t_next tk <=? t then Ticker (t_next tk + p * ((t - t_next tk) / p + 1)) true else tk.
(** a goroutine reaches [<-ticker.C] at time [t]; returns the time it gets its tick *)
Definition recv (p : Z) (tk : ticker) (t : Z) : ticker * Z :=
  let tk1 := advance p tk t in
  if t_buf tk1 then (Ticker (t_next tk1) false, t)
  else (Ticker (t_next tk1 + p) false, t_next tk1).

(** calls in the order in which they get their tick; [arr] = when each reached the receive *)
Fixpoint throttle_run (p : Z) (tk : ticker) (prev : Z) (arr : list Z) : list Z :=
  match arr with
  | [] => []
  | a :: r => let '(tk', s) := recv p tk (Z.max a prev) in s :: throttle_run p tk' s r
  end.

(** "no faster than the configured rate": any two starts that have k starts between them are at
    least k periods apart (so n starts in a window of length L imply (n-2)*p <= L);
    [slack] is 0 in the theorem and positive when judging wall-clock observations *)
Fixpoint spaced_from (p slack x k : Z) (l : list Z) : bool :=
  match l with
  | [] => true
  | y :: l' => (k * p <=? y - x + slack) && spaced_from p slack x (k + 1) l'
  end.
Fixpoint spaced (p slack : Z) (l : list Z) : bool :=
  match l with
  | [] => true
  | x :: l' => spaced_from p slack x 0 l' && spaced p slack l'
  end.
