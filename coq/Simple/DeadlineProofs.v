(** C19 — the handler cannot observe Done() before the shortest timeout has elapsed. *)
From WM Require Import Base.Prelude Simple.Deadline.
Local Open Scope Z_scope.

Lemma earliest_lower : forall b dls D, (forall x, In x dls -> b <= x) -> earliest dls = Some D -> b <= D.
Proof.
  intros b. induction dls as [|x r IH]; intros D H E; simpl in E; [discriminate|].
  destruct (earliest r) as [y|] eqn:Er.
  - inversion E; subst. specialize (IH y (fun z Hz => H z (or_intror Hz)) eq_refl).
    specialize (H x (or_introl eq_refl)). lia.
  - inversion E; subst. apply H. now left.
Qed.
Lemma earliest_some : forall dls, dls <> [] -> exists D, earliest dls = Some D.
Proof. destruct dls as [|x r]; [congruence|]. intros _. simpl. destruct (earliest r); eauto. Qed.

Lemma enter_lower : forall t0 dmin c t lat dls,
  t0 <= t -> (forall d, In d (timeouts c) -> dmin <= d) -> (forall x, In x dls -> t0 + dmin <= x) ->
  t <= fst (enter t c lat dls) /\ (forall x, In x (snd (enter t c lat dls)) -> t0 + dmin <= x).
Proof.
  intros t0 dmin. induction c as [|m r IH]; intros t lat dls Ht Hd Hx; simpl.
  - split; [lia | auto].
  - assert (T: t0 <= t + Z.max 0 (hd 0 lat)) by lia.
    destruct (IH (t + Z.max 0 (hd 0 lat)) (tl lat)
                 (match m with Some d => (t + Z.max 0 (hd 0 lat) + d) :: dls | None => dls end) T) as [A B].
    + intros d Hin. apply Hd. simpl. destruct m; simpl; auto.
    + destruct m as [d|]; auto. intros x [<-|Hin]; auto.
      specialize (Hd d). simpl in Hd. specialize (Hd (or_introl eq_refl)). lia.
    + split; [lia | auto].
Qed.
Lemma enter_nonempty : forall c t lat dls, (timeouts c <> [] \/ dls <> []) -> snd (enter t c lat dls) <> [].
Proof.
  induction c as [|m r IH]; intros t lat dls H; simpl.
  - destruct H; auto.
  - apply IH. destruct m as [d|]; simpl in *.
    + right. discriminate.
    + destruct H; auto.
Qed.

(** one call: Done() is observed no earlier than [dmin] after the chain was called, where [dmin]
    bounds every Timeout of the chain from below; with at least one Timeout it IS observed; and
    it is observed no earlier than the visible Deadline() *)
Theorem deadline_lower_bound : forall t0 c lat late dmin,
  (forall d, In d (timeouts c) -> dmin <= d) ->
  (forall e, attempt t0 c lat late = Some e ->
     t0 + dmin <= e /\ exists D, earliest (snd (enter t0 c lat [])) = Some D /\ D <= e /\ t0 + dmin <= D)
  /\ (timeouts c <> [] -> exists e, attempt t0 c lat late = Some e).
Proof.
  intros t0 c lat late dmin Hd. unfold attempt.
  destruct (enter_lower t0 dmin c t0 lat [] (Z.le_refl _) Hd (fun x (H : In x []) => match H with end)) as [A B].
  pose proof (enter_nonempty c t0 lat []) as NE.
  destruct (enter t0 c lat []) as [t dls]. simpl in *. unfold block. split.
  - intros e E. destruct (earliest dls) as [D|] eqn:Ed; [|discriminate]. inversion E; subst.
    pose proof (earliest_lower _ _ _ B Ed). split; [lia|]. exists D. repeat split; auto; lia.
  - intros Hne. destruct (earliest_some dls (NE (or_introl Hne))) as [D ->]. eauto.
Qed.

(** under Retry: every blocking attempt takes at least [dmin] of its own *)
Theorem attempts_block_ok : forall dmin c, (forall d, In d (timeouts c) -> dmin <= d) ->
  forall n t0 lats lates waits, block_ok t0 dmin 0 (attempts n t0 c lats lates waits) = true.
Proof.
  intros dmin c Hd. induction n as [|n IH]; intros t0 lats lates waits; simpl; auto.
  destruct (deadline_lower_bound t0 c (hd [] lats) (hd 0 lates) dmin Hd) as [L _].
  destruct (attempt t0 c (hd [] lats) (hd 0 lates)) as [e|] eqn:E; simpl; auto.
  destruct (L e eq_refl) as [L1 _]. apply andb_true_iff. split; [apply Z.leb_le; lia|].
  (* the next attempt starts at e + wait >= e: weaken its bound *)
  specialize (IH (e + Z.max 0 (hd 0 waits)) (tl lats) (tl lates) (tl waits)).
  destruct (attempts n (e + Z.max 0 (hd 0 waits)) c (tl lats) (tl lates) (tl waits)) as [|e2 r]; simpl in *; auto.
  apply andb_true_iff in IH as [I1 I2]. apply andb_true_iff. split; auto.
  apply Z.leb_le in I1. apply Z.leb_le. lia.
Qed.
(** what [block_ok] means: n observed Done()s take at least n * dmin (minus slack each) *)
Theorem block_ok_total : forall dmin slack, 0 <= slack -> forall dones prev, block_ok prev dmin slack dones = true ->
  prev + Z.of_nat (length dones) * (dmin - slack) <= last dones prev.
Proof.
  intros dmin slack Hs. induction dones as [|x r IH]; intros prev H.
  - simpl. lia.
  - cbn [block_ok] in H. apply andb_true_iff in H as [H1 H2]. apply Z.leb_le in H1.
    specialize (IH x H2). cbn [length]. rewrite Nat2Z.inj_succ.
    destruct r as [|y r'].
    + change (last [x] prev) with x. change (Z.of_nat (length (@nil Z))) with 0. lia.
    + change (last (x :: y :: r') prev) with (last (y :: r') prev).
      assert (L: last (y :: r') prev = last (y :: r') x).
      { clear. revert y. induction r' as [|z r' IH]; intros y; simpl; auto. destruct r'; auto. apply (IH z). }
      rewrite L, Z.mul_succ_l. lia.
Qed.
