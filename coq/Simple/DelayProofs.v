(** C19 — DelayOnError: the delay after the k-th consecutive failure. *)
From WM Require Import Base.Prelude Simple.Model Simple.Monitor Simple.Proofs.
Local Open Scope Z_scope.

(** the value under the delayed-for key after [j] failing calls, starting from [init] *)
Fixpoint dval (v : variant) (c : dcfg) (init : mval) (j : nat) : mval :=
  match j with
  | O => init
  | S j' => MDur (next_delay v c (dval v c init j'))
  end.
Lemma dval_first : forall v c init j,
  dval v c init (S j) = dval v c (MDur (next_delay v c init)) j.
Proof.
  intros v c init j. induction j; [reflexivity|].
  change (dval v c init (S (S j))) with (MDur (next_delay v c (dval v c init (S j)))).
  rewrite IHj. reflexivity.
Qed.

Definition is_fail (o : outcome) : bool := match o with Fail _ _ => true | _ => false end.
Definition count_fail (l : list outcome) : nat := length (filter is_fail l).

(** [n] invocations of DelayOnError around ANY handler that leaves the key alone, on the same
    message: the key holds the value after (number of failing invocations) steps; a success (or a
    panic) leaves it untouched *)
Lemma delay_run : forall v c (h : handler),
  (forall w, mget K_DFOR (m_meta (w_msg (fst (h w)))) = mget K_DFOR (m_meta (w_msg w))) ->
  forall n w,
  mget K_DFOR (m_meta (w_msg (fst (run_calls (mw_sem v (MDelay c) h) n w))))
  = dval v c (mget K_DFOR (m_meta (w_msg w))) (count_fail (map fst (snd (run_calls (mw_sem v (MDelay c) h) n w)))).
Proof.
  intros v c h Hp. induction n as [|n IH]; intros w; [reflexivity|].
  cbn [run_calls].
  pose proof (delay_frame v c h w) as F. cbv zeta in F.
  destruct (mw_sem v (MDelay c) h w) as [w1 r] eqn:E1. simpl in F. destruct F as [F1 F2].
  specialize (IH w1). destruct (run_calls (mw_sem v (MDelay c) h) n w1) as [w2 l] eqn:E2.
  simpl in *. rewrite IH. unfold count_fail. simpl.
  specialize (Hp w). rewrite <- F1 in F2. destruct r; simpl.
  - rewrite F2. now rewrite Hp.
  - destruct F2 as [F2 _]. rewrite F2, Hp. symmetry. apply (dval_first v c _ (length (filter is_fail (map fst l)))).
  - rewrite F2. now rewrite Hp.
Qed.

(** a message that carries no (parsable) delay: the k-th failure sets sched k *)
Lemma dval_sched : forall v c init j, (forall d, init <> MDur d) ->
  dval v c init (S j) = MDur (sched v c (S j)).
Proof.
  intros v c init j Hi. induction j as [|j IH].
  - simpl. destruct init; try reflexivity. exfalso. eapply Hi. reflexivity.
  - change (dval v c init (S (S j))) with (MDur (next_delay v c (dval v c init (S j)))).
    rewrite IH. reflexivity.
Qed.

Definition pw (b : Z) (k : nat) : Z := b ^ Z.of_nat k.
Lemma pw_S : forall b k, pw b (S k) = b * pw b k.
Proof. intros. unfold pw. rewrite Nat2Z.inj_succ, Z.pow_succ_r; lia. Qed.
Lemma pw_pos : forall b k, 0 < b -> 0 < pw b k.
Proof. intros. unfold pw. apply Z.pow_pos_nonneg; lia. Qed.

Lemma sched_step : forall v c j, sched v c (S (S j)) = next_delay v c (MDur (sched v c (S j))).
Proof. reflexivity. Qed.

(** closed form for the repaired code, Multiplier = num/den >= 1, whenever the products are whole
    nanoseconds (Initial = c0 * den^(j+r)): the (j+1)-th consecutive failure is delayed by
    min(Initial * (num/den)^j, Max) *)
Theorem sched_closed : forall c c0, 0 < d_den c -> d_den c <= d_num c -> 0 <= c0 -> d_init c <= d_max c ->
  forall j r, d_init c = c0 * pw (d_den c) (j + r) ->
  sched repaired c (S j) = Z.min (c0 * pw (d_den c) r * pw (d_num c) j) (d_max c).
Proof.
  intros c c0 Hden Hnum Hc0 Hmax. induction j as [|j IH]; intros r HI.
  - simpl in *. unfold pw at 2. simpl. rewrite Z.mul_1_r. rewrite <- HI. lia.
  - rewrite sched_step. rewrite (IH (S r)) by (rewrite HI; f_equal; f_equal; lia).
    rewrite !pw_S. set (A := c0 * pw (d_den c) r * pw (d_num c) j).
    assert (HA: 0 <= A).
    { unfold A. pose proof (pw_pos (d_den c) r Hden). pose proof (pw_pos (d_num c) j ltac:(lia)). nia. }
    replace (c0 * (d_den c * pw (d_den c) r) * pw (d_num c) j) with (A * d_den c) by (unfold A; ring).
    replace (c0 * pw (d_den c) r * (d_num c * pw (d_num c) j)) with (A * d_num c) by (unfold A; ring).
    assert (HM: 0 <= d_max c).
    { pose proof (pw_pos (d_den c) (S j + r) Hden). nia. }
    unfold next_delay. simpl fix_delay. cbv iota.
    destruct (Z.le_gt_cases (A * d_den c) (d_max c)) as [Hle|Hgt].
    + rewrite Z.min_l by lia.
      replace (A * d_den c * d_num c) with (A * d_num c * d_den c) by ring.
      rewrite Z.quot_mul by lia.
      destruct (Z.gtb_spec (A * d_num c) (d_max c)); lia.
    + rewrite Z.min_r by lia.
      assert (d_max c <= Z.quot (d_max c * d_num c) (d_den c)).
      { rewrite Z.quot_div_nonneg by nia. apply Z.div_le_lower_bound; nia. }
      assert (d_max c < A * d_num c) by nia.
      destruct (Z.gtb_spec (Z.quot (d_max c * d_num c) (d_den c)) (d_max c)); lia.
Qed.
Lemma sched_closed_is_power : forall c0 den num j r,
  (c0 * pw den r * pw num j) * pw den j = (c0 * pw den (j + r)) * pw num j.
Proof.
  intros. unfold pw. rewrite Nat2Z.inj_add, Z.pow_add_r by lia. ring.
Qed.

Theorem sched_closed_full : forall c c0, 0 < d_den c -> d_den c <= d_num c -> 0 <= c0 -> d_init c <= d_max c ->
  forall j r, d_init c = c0 * pw (d_den c) (j + r) ->
  sched repaired c (S j) = Z.min (c0 * pw (d_den c) r * pw (d_num c) j) (d_max c)
  /\ (c0 * pw (d_den c) r * pw (d_num c) j) * pw (d_den c) j = d_init c * pw (d_num c) j.
Proof.
  intros c c0 H1 H2 H3 H4 j r H5. split; [now apply sched_closed|].
  rewrite sched_closed_is_power. now rewrite <- H5.
Qed.

(** without the integrality assumption: never above the ideal value, never above Max, never shrinking *)
Theorem sched_bounds : forall c, 0 < d_den c -> d_den c <= d_num c -> 0 <= d_init c -> d_init c <= d_max c ->
  forall j, 0 <= sched repaired c (S j) <= d_max c
            /\ sched repaired c (S j) * pw (d_den c) j <= d_init c * pw (d_num c) j
            /\ sched repaired c (S j) <= sched repaired c (S (S j)).
Proof.
  intros c Hden Hnum Hi Hmax.
  assert (Step: forall x, 0 <= x <= d_max c ->
            let y := next_delay repaired c (MDur x) in
            x <= y <= d_max c /\ y * d_den c <= x * d_num c).
  { intros x Hx. unfold next_delay. simpl fix_delay. cbv iota.
    assert (Q: x <= Z.quot (x * d_num c) (d_den c) /\ Z.quot (x * d_num c) (d_den c) * d_den c <= x * d_num c).
    { rewrite Z.quot_div_nonneg by nia. split.
      - apply Z.div_le_lower_bound; nia.
      - rewrite Z.mul_comm. apply Z.mul_div_le. lia. }
    destruct (Z.gtb_spec (Z.quot (x * d_num c) (d_den c)) (d_max c)); nia. }
  assert (B: forall j, 0 <= sched repaired c (S j) <= d_max c
                       /\ sched repaired c (S j) * pw (d_den c) j <= d_init c * pw (d_num c) j).
  { induction j as [|j [IH1 IH2]].
    - simpl. unfold pw. simpl. lia.
    - rewrite sched_step. destruct (Step _ IH1) as [S1 S2]. split; [lia|].
      rewrite !pw_S. pose proof (pw_pos (d_den c) j Hden). pose proof (pw_pos (d_num c) j ltac:(lia)).
      nia. }
  intros j. destruct (B j) as [B1 B2]. repeat split; try lia.
  rewrite sched_step. destruct (Step _ B1). lia.
Qed.

(** the pinned code (D2): Multiplier 3/2, Initial 100, Max 1000: the second failure is delayed by
    100, not by 150 *)
Lemma sched_closed_refuted : exists c c0 j r,
  0 < d_den c /\ d_den c <= d_num c /\ 0 <= c0 /\ d_init c <= d_max c
  /\ d_init c = c0 * pw (d_den c) (j + r)
  /\ sched pinned c (S j) <> Z.min (c0 * pw (d_den c) r * pw (d_num c) j) (d_max c)
  /\ sched pinned c (S j) = d_init c.
Proof.
  exists (DCfg 100 1000 3 2), 50, 1%nat, 0%nat. vm_compute. repeat split; congruence.
Qed.
