(** C19 — what the Router (Handler/RouterHandle.v [handle] = handleMessage, property C02) sees of a
    middleware chain run on a message: the settlement the chain made itself and the result with
    the error / panic value projected away.  No proofs here. *)
From WM Require Import Base.Prelude Simple.Model.
From WM Require Handler.RouterHandle.
Module RH := WM.Handler.RouterHandle.

Definition to_router (o : outcome) : RH.outcome out :=
  match o with Ret l => RH.Ret l | Fail l _ => RH.Fail l | Panic _ => RH.Panic end.
Definition pre_of (before after : settle) : RH.presettle :=
  match before, after with
  | Unsettled, Acked => RH.PreAck
  | Unsettled, Nacked => RH.PreNack
  | _, _ => RH.PreNone
  end.
Definition chain_in_router (h : handler) (w : world) : RH.chain_result out :=
  let '(w1, r) := h w in RH.CR (pre_of (m_settle (w_msg w)) (m_settle (w_msg w1))) (to_router r).
