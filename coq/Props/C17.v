(** C17 — Relay components (Forwarder, FanIn, FanOut, Requeuer) neither lose nor invent.
    Model: Relay/Model.v — the handler of each component as a function from the consumed message
    to (its own calls on the destination, what it returns to the Router), composed with the C02
    model [handle] of handleMessage ([run]).  Quantifiers: every message (any UUID / payload /
    metadata incl. a nil map and pre-existing counters), every configuration (AckWhenCannotUnwrap,
    target topic, topic generator as an arbitrary function, delay), every destination behaviour
    (accepts / returns an error / panics) and, for the library oracles (encoding/json on the
    envelope, strconv.Atoi / Itoa), every function satisfying the stated laws.  Each message in
    flight has its own handleMessage instance (C02), so the statements are per consumed message. *)
From WM Require Import Base.Prelude Message.Model Handler.RouterHandle Relay.Model Relay.Proofs Relay.Witness.
Open Scope N_scope.

Section C17.
  Variable dec : N -> option envelope.   (* json.Unmarshal into the envelope struct *)
  Variable atoi : N -> option Z.         (* strconv.Atoi *)
  Variable itoa : Z -> N.                (* strconv.Itoa *)
  Variable rk : N.                       (* requeuer.RetriesKey *)

  (** the handler runs once; the Router settles the consumed message exactly once, as the last
      event; the destination is called at most once per consumed delivery *)
  Theorem C17_once : forall (c : comp) (i : input),
    let tr := snd (run dec atoi itoa rk c i) in
    n_calls tr = 1%nat /\ n_settles tr = 1%nat /\ (length (pubs tr) <= 1)%nat
    /\ exists pre ack, tr = pre ++ [ESettle ack] /\ n_settles pre = 0%nat.
  Proof. exact (run_shape dec atoi itoa rk). Qed.

  (** exactly one call, on the computed destination, with the relayed copy, entered while the
      consumed message is still unsettled — and no call anywhere when the message must not be
      relayed (invalid envelope; requeuer: context done during the delay, topic generation failed,
      nil metadata map).  [relayed] is the consumed message itself except for the requeuer. *)
  Theorem C17_relay_destination_exactly_once : forall (c : comp) (i : input),
    pubs (snd (run dec atoi itoa rk c i)) =
    match source_of dec c i with
    | Some (t, m) => [(t, [relayed atoi itoa rk c m], Unsettled)]
    | None => []
    end.
  Proof. exact (run_pubs dec atoi itoa rk). Qed.

  (** FanIn / FanOut: the very message consumed goes to TargetTopic / to the same topic *)
  Theorem C17_relay_preserves_fanin_fanout : forall (c : comp) (i : input),
    (exists t, c = CFanIn t) \/ c = CFanOut ->
    pubs (snd (run dec atoi itoa rk c i)) = [(rtopic_of c i, [i_msg i], Unsettled)].
  Proof. exact (passthrough_relays dec atoi itoa rk). Qed.

  (** FanOut: every subscriber of the topic gets one copy with the same UUID, payload and metadata
      (none when the internal Pub/Sub is closed) *)
  Theorem C17_fanout_copies : forall (n : nat) (closed : bool) (m : msg),
    length (fanout_deliver n closed m) = (if closed then 0%nat else n)
    /\ Forall (fun m' => uuid m' = uuid m /\ payload m' = payload m
                         /\ content (mmeta m') = content (mmeta m)) (fanout_deliver n closed m).
  Proof. exact fanout_deliver_spec. Qed.

  (** Requeuer: when and what it relays ... *)
  Theorem C17_requeuer_relays : forall (gen : msg -> option N) (delay : Z) (i : input),
    pubs (snd (run dec atoi itoa rk (CRequeuer gen delay) i)) =
    if (0 <? delay)%Z && i_ctxdone i then []
    else match gen (i_msg i), mmeta (i_msg i) with
         | Some t, Some l => [(t, [requeued atoi itoa rk (i_msg i) l], Unsettled)]
         | _, _ => []
         end.
  Proof. exact (requeue_relays dec atoi itoa rk). Qed.

  (** ... the copy has the same UUID and payload, every metadata key but the counter untouched ... *)
  Theorem C17_relay_preserves_requeuer : forall (m : msg) (l : meta),
    (uuid (requeued atoi itoa rk m l) = uuid m /\ payload (requeued atoi itoa rk m l) = payload m)
    /\ forall k, k <> rk -> meta_get k (content (mmeta (requeued atoi itoa rk m l))) = meta_get k l.
  Proof. exact (fun m l => conj (requeued_identity atoi itoa rk m l) (requeued_other_keys atoi itoa rk m l)). Qed.

  (** ... and the counter reads exactly one more, for every prior value below MaxInt64 ... *)
  Theorem C17_requeuer_counter_plus_one :
    (forall s z, atoi s = Some z -> in64 z) -> (forall z, in64 z -> atoi (itoa z) = Some z) ->
    forall (m : msg) (l : meta), (counter atoi rk (mmeta m) < max64)%Z ->
    atoi (get_str rk (mmeta (requeued atoi itoa rk m l))) = Some (counter atoi rk (mmeta m) + 1)%Z.
  Proof. exact (requeued_counter_plus_one atoi itoa rk). Qed.

  (** ... where the prior value is the parsed one when it parses, 0 when malformed or missing *)
  Theorem C17_requeuer_counter_parse : forall (mm : option meta),
    (forall v z, meta_get rk (content mm) = Some v -> atoi v = Some z -> counter atoi rk mm = z)
    /\ (forall v, meta_get rk (content mm) = Some v -> atoi v = None -> counter atoi rk mm = 0%Z)
    /\ (atoi 0 = None -> meta_get rk (content mm) = None -> counter atoi rk mm = 0%Z).
  Proof.
    exact (fun mm => conj (counter_present atoi rk mm) (conj (counter_malformed atoi rk mm) (counter_missing atoi rk mm))).
  Qed.

  (** a message whose Metadata map is nil is never requeued although the topic was computed and
      the destination would accept: Metadata.Set panics, the Router recovers and Nacks (as coded) *)
  Theorem C17_requeuer_nil_metadata_refuted : forall (gen : msg -> option N) (delay : Z) (i : input) (t : N),
    mmeta (i_msg i) = None -> gen (i_msg i) = Some t -> i_ctxdone i = false ->
    pubs (snd (run dec atoi itoa rk (CRequeuer gen delay) i)) = []
    /\ fst (run dec atoi itoa rk (CRequeuer gen delay) i) = Nacked.
  Proof. exact (requeue_nil_metadata dec atoi itoa rk). Qed.

  (** Ack iff the destination accepted the relayed copy (or: invalid envelope and
      AckWhenCannotUnwrap); Nack in every other case *)
  Theorem C17_ack_iff : forall (c : comp) (i : input),
    (fst (run dec atoi itoa rk c i) = Acked <-> should_ack dec c i = true)
    /\ (fst (run dec atoi itoa rk c i) = Nacked <-> should_ack dec c i = false).
  Proof. exact (run_ack_iff dec atoi itoa rk). Qed.

  (** acknowledged only after the destination accepted: the successful return of the publish call
      is in the trace and the Router's Ack follows it as the last event *)
  Theorem C17_ack_after_accept : forall (c : comp) (i : input),
    source_of dec c i <> None -> fst (run dec atoi itoa rk c i) = Acked ->
    accepted (snd (run dec atoi itoa rk c i)) = true
    /\ ack_after_accept (snd (run dec atoi itoa rk c i)) false = true.
  Proof. exact (run_acked_was_accepted dec atoi itoa rk). Qed.

  (** the destination fails (error or panic): Nack *)
  Theorem C17_nack_on_failure : forall (c : comp) (i : input),
    source_of dec c i <> None -> i_pb i <> PubAccept -> fst (run dec atoi itoa rk c i) = Nacked.
  Proof. exact (run_nack_on_failure dec atoi itoa rk). Qed.

  (** Forwarder: a valid envelope goes to the topic inside it, as the message inside it *)
  Theorem C17_forwarder_destination : forall (ab : bool) (i : input) (t : N) (u : msg),
    unwrap dec (i_msg i) = Some (t, u) ->
    pubs (snd (run dec atoi itoa rk (CForwarder ab) i)) = [(t, [u], Unsettled)].
  Proof. exact (forward_valid dec atoi itoa rk). Qed.

  (** Forwarder: what is not a valid envelope (does not decode, or empty destination topic) is
      never forwarded, and is Acked iff AckWhenCannotUnwrap *)
  Theorem C17_invalid_envelope_never_forwarded : forall (ab : bool) (i : input),
    unwrap dec (i_msg i) = None ->
    pubs (snd (run dec atoi itoa rk (CForwarder ab) i)) = []
    /\ fst (run dec atoi itoa rk (CForwarder ab) i) = if ab then Acked else Nacked.
  Proof. exact (forward_invalid dec atoi itoa rk). Qed.

  (** the model passes the acceptor that judges implementation traces *)
  Theorem C17_model_accepted :
    (forall s z, atoi s = Some z -> in64 z) -> (forall z, in64 z -> atoi (itoa z) = Some z) ->
    forall (c : comp) (i : input),
    (forall t m, source_of dec c i = Some (t, m) -> wf_msg m) ->
    relay_monitor dec atoi rk c i (snd (run dec atoi itoa rk c i)) (fst (run dec atoi itoa rk c i)) = true.
  Proof. exact (run_monitor dec atoi itoa rk). Qed.

  (** *** the envelope *)
  Variable enc : envelope -> N.          (* json.Marshal of the envelope struct *)
  Variable san : N -> N.                 (* what json.Marshal does to a Go string *)

  (** wrap -> unwrap restores topic and message up to JSON's treatment of strings, and exactly
      when the strings are left alone (valid UTF-8) *)
  Theorem C17_envelope_roundtrip : (forall s, san s = 0 <-> s = 0) ->
    forall (t : N) (m : msg) (p : N) (em : msg),
    codec_ok_on enc dec san (mk_env t m) -> wrap enc t m = Some p -> payload em = p ->
    unwrap dec em = Some (san t, san_msg san m)
    /\ (san t = t -> wf_msg m -> san_fixes_msg san m -> unwrap dec em = Some (t, m)).
  Proof.
    exact (fun Hz t m p em Hc Hw Hp =>
             conj (unwrap_wrap enc dec san Hz t m p em Hc Hw Hp)
                  (fun Ht Hwf Hfix => unwrap_wrap_exact enc dec san Hz t m p em Hc Ht Hwf Hfix Hw Hp)).
  Qed.

  (** forwarder.Publisher: all-or-nothing, one call on the forwarder topic, order kept; an empty
      destination topic is refused (unless there is nothing to publish) *)
  Theorem C17_publisher_decorator : forall (dflt cfg t : N) (ms : list msg),
    fpub_publish enc dflt cfg t ms =
    if (t =? 0) && negb (match ms with [] => true | _ => false end) then None
    else Some (eff_topic dflt cfg, map (fun m => enc (mk_env t m)) ms).
  Proof. exact (fpub_publish_spec enc). Qed.

  (** published through its Publisher to topic t, then consumed by the Forwarder: delivered to t,
      once, intact, acked iff the destination took it *)
  Theorem C17_forwarder_end_to_end : (forall s, san s = 0 <-> s = 0) ->
    forall (dflt cfg t : N) (ms : list msg) (ft : N) (ps : list N) (ab : bool),
    (forall m, In m ms -> codec_ok_on enc dec san (mk_env t m)) ->
    fpub_publish enc dflt cfg t ms = Some (ft, ps) ->
    ft = eff_topic dflt cfg
    /\ Forall2 (fun m p => forall src em cd pb, payload em = p ->
         let r := run dec atoi itoa rk (CForwarder ab) (Inp src em cd pb) in
         pubs (snd r) = [(san t, [san_msg san m], Unsettled)]
         /\ (fst r = Acked <-> pb = PubAccept)
         /\ (san t = t -> wf_msg m -> san_fixes_msg san m -> pubs (snd r) = [(t, [m], Unsettled)])) ms ps.
  Proof. exact (forward_end_to_end enc dec san atoi itoa rk). Qed.

  (** a string that JSON alters (not valid UTF-8) in a UUID is not restored: "UUID intact" fails
      for the Forwarder on such messages (known finding) *)
  Theorem C17_forwarder_non_utf8_refuted : (forall s, san s = 0 <-> s = 0) ->
    forall s, san s <> s -> (forall e, codec_ok_on enc dec san e) ->
    exists t m p, wrap enc t m = Some p /\ forall em, payload em = p -> unwrap dec em <> Some (t, m).
  Proof. exact (non_utf8_not_restored enc dec san). Qed.
End C17.

(** FanIn configuration: accepted configurations have sources, a target, and no loop *)
Theorem C17_fanin_config : forall (sources : list N) (target : N),
  fanin_validate sources target = true ->
  sources <> [] /\ target <> 0 /\ ~ In 0 sources /\ ~ In target sources.
Proof. exact fanin_validate_sound. Qed.

(** retries counter at MaxInt64: the copy reads MinInt64 — "raised by exactly one" fails there *)
Theorem C17_requeuer_counter_at_maxint_refuted :
  exists m l, mmeta m = Some l /\ counter w_atoi w_rk (mmeta m) = max64
              /\ w_atoi (get_str w_rk (mmeta (requeued w_atoi w_itoa w_rk m l))) = Some min64
              /\ min64 <> (max64 + 1)%Z.
Proof. exact counter_at_maxint. Qed.

Print Assumptions C17_once.
Print Assumptions C17_relay_destination_exactly_once.
Print Assumptions C17_relay_preserves_fanin_fanout.
Print Assumptions C17_fanout_copies.
Print Assumptions C17_requeuer_relays.
Print Assumptions C17_relay_preserves_requeuer.
Print Assumptions C17_requeuer_counter_plus_one.
Print Assumptions C17_requeuer_counter_parse.
Print Assumptions C17_requeuer_nil_metadata_refuted.
Print Assumptions C17_ack_iff.
Print Assumptions C17_ack_after_accept.
Print Assumptions C17_nack_on_failure.
Print Assumptions C17_forwarder_destination.
Print Assumptions C17_invalid_envelope_never_forwarded.
Print Assumptions C17_model_accepted.
Print Assumptions C17_envelope_roundtrip.
Print Assumptions C17_publisher_decorator.
Print Assumptions C17_forwarder_end_to_end.
Print Assumptions C17_forwarder_non_utf8_refuted.
Print Assumptions C17_fanin_config.
Print Assumptions C17_requeuer_counter_at_maxint_refuted.

(** the strconv laws assumed above are satisfiable *)
Example C17_strconv_laws_satisfiable :
  (forall s z, w_atoi s = Some z -> in64 z) /\ (forall z, in64 z -> w_atoi (w_itoa z) = Some z) /\ w_atoi 0 = None.
Proof. exact (conj w_atoi_range (conj w_atoi_itoa w_atoi_zero)). Qed.

(** the codec premises are satisfiable, and the end-to-end statement then computes: the message
    published to topic 3 through the Publisher arrives on topic 3, intact, and is acked *)
Example C17_codec_premises_satisfiable :
  (forall s, w_san s = 0 <-> s = 0) /\ (forall m, In m [w_msg] -> codec_ok_on w_enc w_dec w_san (mk_env 3 m)).
Proof. exact (conj w_san_zero w_codec_ok). Qed.
Example C17_witness_forwarder :
  fpub_publish w_enc 100 0 3 [w_msg] = Some (100, [5])
  /\ run w_dec w_atoi w_itoa w_rk (CForwarder false) (Inp 100 (Msg 77 5 (Some [])) false PubAccept)
     = (Acked, [ECall; EPub 3 [w_msg] Unsettled; EPubRet true; ESettle true])
  /\ run w_dec w_atoi w_itoa w_rk (CForwarder true) (Inp 100 (Msg 78 6 (Some [])) false PubAccept)
     = (Acked, [ECall; ESettle true])
  /\ run w_dec w_atoi w_itoa w_rk (CForwarder false) (Inp 100 (Msg 78 6 (Some [])) false PubAccept)
     = (Nacked, [ECall; ESettle false]).
Proof. repeat split; reflexivity. Qed.
(** requeuer: counter 41 -> 42, other keys kept, destination error -> Nack after the call *)
Example C17_witness_requeuer :
  run w_dec w_atoi w_itoa w_rk (CRequeuer (fun _ => Some 7) 0)
      (Inp 1 (Msg 2 3 (Some [(8, 8); (w_rk, w_itoa 41)])) false PubError)
  = (Nacked, [ECall; EPub 7 [Msg 2 3 (Some [(8, 8); (w_rk, w_itoa 42)])] Unsettled; EPubRet false; ESettle false]).
Proof. reflexivity. Qed.

(** * Round "proofs": redelivery, streams, the relay behind a GoChannel subscription *)
From WM Require Import Relay.Redelivery Relay.RedeliveryProofs Relay.RedeliveryWitness Relay.ToyCodec Relay.OverGoChannel.
From WM Require GoChannel.Sub GoChannel.SubProofs.

Section C17_redelivery.
  Variable dec : N -> option envelope.
  Variable atoi : N -> option Z.
  Variable itoa : Z -> N.
  Variable rk : N.

  (** [redeliver mode c src obj beh]: the source hands [obj] to component [c] again after every
      Nack, until an Ack; [beh] = (context done?, destination behaviour) per attempt; ANY length.
      A GoChannel-like source ([FreshCopy]: a fresh message.Copy() of the original per attempt)
      never sees what the handler wrote into the delivered copy: *)
  Theorem C17_redelivery_original_untouched : forall (c : comp) (src : N) (obj : msg) (beh : list attempt),
    snd (redeliver dec atoi itoa rk FreshCopy c src obj beh) = obj.
  Proof. exact (redeliver_fresh_original_untouched dec atoi itoa rk). Qed.

  (** no attempt before the last one was acked (so: nothing is relayed again after an Ack) *)
  Theorem C17_redelivery_ack_only_last : forall (md : source_mode) (c : comp) (src : N) (beh : list attempt) (obj : msg),
    Forall (fun r : settle * list ev => fst r <> Acked)
           (removelast (fst (redeliver dec atoi itoa rk md c src obj beh))).
  Proof. exact (redeliver_ack_only_last dec atoi itoa rk). Qed.

  (** over all attempts the destination accepts at most one call and at most one attempt is acked
      — never double-forwarded, for every component and every kind of source *)
  Theorem C17_redelivery_accepted_at_most_once : forall (md : source_mode) (c : comp) (src : N) (beh : list attempt) (obj : msg),
    (length (all_accepted (fst (redeliver dec atoi itoa rk md c src obj beh))) <= 1)%nat
    /\ (n_acked (fst (redeliver dec atoi itoa rk md c src obj beh)) <= 1)%nat.
  Proof. exact (redeliver_accepted_at_most_once dec atoi itoa rk). Qed.

  (** GoChannel-like source, relayable message: however often it is nacked and redelivered, either
      the destination accepted exactly the relayed copy of the ORIGINAL, once, and it was acked; or
      nothing was accepted and it was never acked (it stays with the source) — Forwarder: a nacked
      envelope is forwarded again unchanged; Requeuer: failed attempts do not add up *)
  Theorem C17_redelivery_exactly_once_or_not_acked : forall (c : comp) (src : N) (obj : msg) (beh : list attempt) (t : N) (m : msg),
    dest dec c src (gochan_copy obj) = Some (t, m) ->
    let rs := fst (redeliver dec atoi itoa rk FreshCopy c src obj beh) in
    (all_accepted rs = [(t, [relayed atoi itoa rk c m])] /\ n_acked rs = 1%nat)
    \/ (all_accepted rs = [] /\ n_acked rs = 0%nat).
  Proof. exact (redeliver_fresh_spec dec atoi itoa rk). Qed.

  (** Requeuer behind a GoChannel-like source: whatever the destination accepted carries the
      ORIGINAL's counter raised once, same UUID / payload / other keys, on the original's topic *)
  Theorem C17_requeuer_redelivery_counter :
    (forall s z, atoi s = Some z -> in64 z) -> (forall z, in64 z -> atoi (itoa z) = Some z) ->
    forall (gen : msg -> option N) (delay : Z) (src : N) (obj : msg) (beh : list attempt) (t : N) (ms : list msg),
    In (t, ms) (all_accepted (fst (redeliver dec atoi itoa rk FreshCopy (CRequeuer gen delay) src obj beh))) ->
    exists m', ms = [m'] /\ gen (gochan_copy obj) = Some t
               /\ uuid m' = uuid obj /\ payload m' = payload obj
               /\ (forall k, k <> rk -> meta_get k (content (mmeta m')) = meta_get k (content (mmeta obj)))
               /\ counter atoi rk (mmeta m') = incr64 (counter atoi rk (mmeta obj)).
  Proof. exact (redeliver_requeuer_counter dec atoi itoa rk). Qed.

  (** requeued again and again (any number of rounds, any failures inside each round): after n
      successful requeues the counter reads the original's plus n — once per successful requeue —
      as long as that is at most MaxInt64; UUID, payload and every other key as they were *)
  Theorem C17_requeuer_counter_once_per_requeue :
    (forall s z, atoi s = Some z -> in64 z) -> (forall z, in64 z -> atoi (itoa z) = Some z) ->
    forall (gen : msg -> option N) (delay : Z) (src : N) (rounds : list (list attempt)) (obj : msg),
    let '(o, n) := requeue_rounds dec atoi itoa rk gen delay src obj rounds in
    uuid o = uuid obj /\ payload o = payload obj
    /\ (forall k, k <> rk -> meta_get k (content (mmeta o)) = meta_get k (content (mmeta obj)))
    /\ ((counter atoi rk (mmeta obj) + Z.of_nat n <= max64)%Z ->
        counter atoi rk (mmeta o) = (counter atoi rk (mmeta obj) + Z.of_nat n)%Z).
  Proof. exact (requeue_rounds_counter dec atoi itoa rk). Qed.

  (** the model's redelivery history passes the acceptor that judges implementation histories *)
  Theorem C17_redelivery_model_accepted : forall (c : comp) (src : N) (obj : msg) (beh : list attempt),
    (forall s z, atoi s = Some z -> in64 z) -> (forall z, in64 z -> atoi (itoa z) = Some z) ->
    wf_msg obj -> (forall t m, dest dec c src (gochan_copy obj) = Some (t, m) -> wf_msg m) ->
    redelivery_monitor dec atoi rk c src obj beh
      (fst (redeliver dec atoi itoa rk FreshCopy c src obj beh))
      (snd (redeliver dec atoi itoa rk FreshCopy c src obj beh)) = true.
  Proof. exact (redeliver_monitor_accepted dec atoi itoa rk). Qed.

  (** FanIn / FanOut, a stream of messages from any source topics, each with its own redelivery
      history (faults at any attempt index): the destination gets exactly the messages that reached
      an accepting attempt — each once, in stream order, on the target topic, as a copy of the
      original — nothing else; also per source topic *)
  Theorem C17_stream_preserves : forall (c : comp) (items : list item),
    (exists t, c = CFanIn t) \/ c = CFanOut ->
    stream_accepted dec atoi itoa rk FreshCopy c items
    = map (fun it => (rtopic_of c (Inp (it_src it) (it_msg it) false PubAccept), [gochan_copy (it_msg it)]))
          (filter (eventually_accepted dec atoi itoa rk c) items).
  Proof. exact (stream_passthrough_preserves dec atoi itoa rk). Qed.

  Theorem C17_stream_preserves_per_source : forall (c : comp) (items : list item) (s : N),
    (exists t, c = CFanIn t) \/ c = CFanOut ->
    stream_accepted dec atoi itoa rk FreshCopy c (filter (fun it => it_src it =? s) items)
    = map (fun it => (rtopic_of c (Inp (it_src it) (it_msg it) false PubAccept), [gochan_copy (it_msg it)]))
          (filter (fun it => (it_src it =? s) && eventually_accepted dec atoi itoa rk c it) items).
  Proof. exact (stream_passthrough_per_source dec atoi itoa rk). Qed.

  (** *** the relay as the consumer of a GoChannel subscription (Layer A: GoChannel/Sub.v, every
      buffer size, any number of Senders, every schedule [ls]) *)
  Variable c : comp.
  Variable src : N.
  Variable msg_of : Sub.pubid -> msg.
  Variable beh : Sub.cid -> attempt.

  (** when a later copy of the same publication exists, every earlier copy was nacked by the relay
      and the destination accepted nothing of it: no double forwarding through redelivery *)
  Theorem C17_over_gochannel_at_most_once : forall (cap0 : nat) (fx : bool) (ls : list Sub.label),
    let s := Sub.srun (Sub.sinit cap0 fx) ls in
    relay_consumer dec atoi itoa rk c src msg_of beh s ->
    forall k1 k2 : nat, (k1 < k2)%nat -> (k2 < Sub.next s)%nat ->
    Sub.c_thr (Sub.copies s k1) = Sub.c_thr (Sub.copies s k2) ->
    Sub.c_st (Sub.copies s k1) = Nacked
    /\ accepted_pubs (handling dec atoi itoa rk c src msg_of beh s k1) = [].
  Proof. exact (at_most_once_over_gochannel dec atoi itoa rk c src msg_of beh). Qed.

  (** an acked copy of a relayable message was handed to the destination, accepted, intact *)
  Theorem C17_over_gochannel_acked_was_relayed : forall (cap0 : nat) (fx : bool) (ls : list Sub.label),
    let s := Sub.srun (Sub.sinit cap0 fx) ls in
    relay_consumer dec atoi itoa rk c src msg_of beh s ->
    forall k : nat, (k < Sub.next s)%nat -> Sub.c_st (Sub.copies s k) = Acked ->
    forall (t : N) (m : msg),
    dest dec c src (gochan_copy (msg_of (Sub.c_pub (Sub.copies s k)))) = Some (t, m) ->
    accepted_pubs (handling dec atoi itoa rk c src msg_of beh s k) = [(t, [relayed atoi itoa rk c m])].
  Proof. exact (acked_copy_was_relayed dec atoi itoa rk c src msg_of beh). Qed.
End C17_redelivery.

(** a copy the relay nacked is offered again by the subscription (unless it is closing): the
    Sender returns to the loop head and sends a fresh unsettled copy of the same publication *)
Theorem C17_over_gochannel_offered_again : forall (s : Sub.sstate) (t : tid) (p : Sub.pubid) (k : Sub.cid),
  SubProofs.SInv s -> Sub.thr s t = Sub.SWait p k -> Sub.c_st (Sub.copies s k) = Nacked ->
  exists s1, Sub.sstep s (Sub.LSeeNacked t) = Some s1 /\ Sub.thr s1 t = Sub.SHead p
  /\ (Sub.closedf s1 = false -> Sub.fixed s1 && Sub.closing s1 = false ->
      exists s2, Sub.sstep s1 (Sub.LStep t) = Some s2 /\ Sub.thr s2 t = Sub.SSend p (Sub.next s1)
                 /\ Sub.c_pub (Sub.copies s2 (Sub.next s1)) = p
                 /\ Sub.c_st (Sub.copies s2 (Sub.next s1)) = Unsettled).
Proof. exact nacked_copy_is_offered_again. Qed.

(** a subscriber that re-emits the SAME object after a Nack makes the requeuer's counter count
    attempts (41 -> 44 after two failed and one accepted attempt), not requeues (42 from a
    GoChannel-like source): "raised by exactly one" needs redelivery of the original *)
Theorem C17_requeuer_same_object_redelivery_refuted :
  all_accepted (fst (redeliver w_dec w_atoi w_itoa w_rk SameObject w_rq 1 w_41 w_fail_then_ok))
    = [(7, [Msg 2 3 (Some [(w_rk, w_itoa 44)])])]
  /\ snd (redeliver w_dec w_atoi w_itoa w_rk SameObject w_rq 1 w_41 w_fail_then_ok)
    = Msg 2 3 (Some [(w_rk, w_itoa 44)])
  /\ all_accepted (fst (redeliver w_dec w_atoi w_itoa w_rk FreshCopy w_rq 1 w_41 w_fail_then_ok))
    = [(7, [Msg 2 3 (Some [(w_rk, w_itoa 42)])])]
  /\ snd (redeliver w_dec w_atoi w_itoa w_rk FreshCopy w_rq 1 w_41 w_fail_then_ok) = w_41.
Proof. exact same_object_counts_attempts. Qed.

(** FanOut with n subscribers per topic: over a whole stream (several topics, faults at any
    attempt index) the subscribers receive n copies of every eventually-accepted message on its
    own topic, in stream order, and nothing else *)
Theorem C17_stream_fanout_copies : forall (dec : N -> option envelope) (atoi : N -> option Z) (itoa : Z -> N) (rk : N)
    (n : nat) (items : list item),
  fanout_stream_copies dec atoi itoa rk n items
  = flat_map (fun it => repeat (it_src it, gochan_copy (it_msg it)) n)
             (filter (eventually_accepted dec atoi itoa rk CFanOut) items).
Proof. exact fanout_stream_copies_spec. Qed.

Print Assumptions C17_redelivery_original_untouched.
Print Assumptions C17_redelivery_ack_only_last.
Print Assumptions C17_redelivery_accepted_at_most_once.
Print Assumptions C17_redelivery_exactly_once_or_not_acked.
Print Assumptions C17_requeuer_redelivery_counter.
Print Assumptions C17_requeuer_counter_once_per_requeue.
Print Assumptions C17_redelivery_model_accepted.
Print Assumptions C17_stream_preserves.
Print Assumptions C17_stream_preserves_per_source.
Print Assumptions C17_over_gochannel_at_most_once.
Print Assumptions C17_over_gochannel_acked_was_relayed.
Print Assumptions C17_over_gochannel_offered_again.
Print Assumptions C17_requeuer_same_object_redelivery_refuted.
Print Assumptions C17_stream_fanout_copies.

(** the GLOBAL codec law (for every envelope) is satisfiable, also with a sanitiser that alters a
    string — so the hypotheses of C17_forwarder_non_utf8_refuted hold together somewhere *)
Example C17_codec_global_law_satisfiable :
  (forall s, w_san78 s = 0 <-> s = 0) /\ w_san78 7 <> 7
  /\ (forall e, codec_ok_on toy_enc (toy_dec_san w_san78) w_san78 e)
  /\ (forall e, toy_dec (toy_enc e) = Some e).
Proof. exact (conj w_san78_zero (conj w_san78_alters (conj (toy_codec_global w_san78) toy_dec_enc))). Qed.
Example C17_non_utf8_refutation_instance :
  exists t m p, wrap toy_enc t m = Some p
                /\ forall em, payload em = p -> unwrap (toy_dec_san w_san78) em <> Some (t, m).
Proof.
  exact (C17_forwarder_non_utf8_refuted (toy_dec_san w_san78) toy_enc w_san78 w_san78_zero 7 w_san78_alters (toy_codec_global w_san78)).
Qed.
(** three rounds, the second never accepted: two successful requeues, 41 -> 43 *)
Example C17_witness_rounds :
  requeue_rounds w_dec w_atoi w_itoa w_rk (fun _ => Some 7) 0 1 w_41
    [w_fail_then_ok; [(false, PubError); (false, PubError)]; [(false, PubAccept)]]
  = (Msg 2 3 (Some [(w_rk, w_itoa 43)]), 2%nat).
Proof. exact rounds_witness. Qed.

(** * Round "proofs 2": the composed system, the real wire format *)
From WM Require Import Relay.Consumer Relay.ConsumerProofs Relay.ConsumerWitness Relay.JsonCodec Relay.JsonCodecProofs.
From WM Require Value.Json.

Section C17_composed.
  Variable dec : N -> option envelope.
  Variable atoi : N -> option Z.
  Variable itoa : Z -> N.
  Variable rk : N.
  Variable c : comp.
  Variable src : N.
  Variable msg_of : Sub.pubid -> msg.
  Variable beh : Sub.cid -> attempt.

  (** the composed system (Relay/Consumer.v): GoChannel Layer A where the ONLY way a copy is settled
      is [CHandle k] — the Router running the relay's handler once on received copy k and settling it
      with the verdict of C02's [handle].  Every composed run is a Layer A run (so every Layer A
      theorem — one in flight, no panic, teardown — holds for it) *)
  Theorem C17_composed_is_layer_a_run : forall (ls : list clabel) (cs : cstate),
    c_sub (crun dec atoi itoa rk c src msg_of beh cs ls)
    = Sub.srun (c_sub cs) (cproj dec atoi itoa rk c src msg_of beh cs ls).
  Proof. exact (crun_is_srun dec atoi itoa rk c src msg_of beh). Qed.

  (** what was a hypothesis of the over-GoChannel theorems is an invariant of the composed system *)
  Theorem C17_composed_relay_consumer : forall (cap0 : nat) (fx : bool) (ls : list clabel),
    relay_consumer dec atoi itoa rk c src msg_of beh
      (c_sub (crun dec atoi itoa rk c src msg_of beh (cinit cap0 fx) ls)).
  Proof. exact (composed_relay_consumer dec atoi itoa rk c src msg_of beh). Qed.

  (** no double forwarding through redelivery — every buffer size, any number of Senders, every
      schedule, no assumption on the consumer any more *)
  Theorem C17_composed_at_most_once : forall (cap0 : nat) (fx : bool) (ls : list clabel),
    let s := c_sub (crun dec atoi itoa rk c src msg_of beh (cinit cap0 fx) ls) in
    forall k1 k2 : nat, (k1 < k2)%nat -> (k2 < Sub.next s)%nat ->
    Sub.c_thr (Sub.copies s k1) = Sub.c_thr (Sub.copies s k2) ->
    Sub.c_st (Sub.copies s k1) = Nacked
    /\ accepted_pubs (relay_of dec atoi itoa rk c src msg_of beh s k1) = [].
  Proof. exact (composed_at_most_once dec atoi itoa rk c src msg_of beh). Qed.

  (** not lost: an acked copy of a relayable message was accepted by the destination, intact *)
  Theorem C17_composed_acked_was_relayed : forall (cap0 : nat) (fx : bool) (ls : list clabel),
    let s := c_sub (crun dec atoi itoa rk c src msg_of beh (cinit cap0 fx) ls) in
    forall k : nat, (k < Sub.next s)%nat -> Sub.c_st (Sub.copies s k) = Acked ->
    forall (t : N) (m : msg),
    dest dec c src (gochan_copy (msg_of (Sub.c_pub (Sub.copies s k)))) = Some (t, m) ->
    accepted_pubs (relay_of dec atoi itoa rk c src msg_of beh s k) = [(t, [relayed atoi itoa rk c m])].
  Proof. exact (composed_acked_was_relayed dec atoi itoa rk c src msg_of beh). Qed.

  (** the redelivery history recorded by the composed system: no copy handled twice; every entry is
      the relay's result on a fresh copy of that copy's publication and is the copy's settlement; of
      two handled copies of one Sender at most one had anything accepted by the destination *)
  Theorem C17_composed_history : forall (cap0 : nat) (fx : bool) (ls : list clabel),
    let cs := crun dec atoi itoa rk c src msg_of beh (cinit cap0 fx) ls in
    NoDup (map fst (c_log cs))
    /\ (forall k r, In (k, r) (c_log cs) ->
          (k < Sub.next (c_sub cs))%nat /\ r = relay_of dec atoi itoa rk c src msg_of beh (c_sub cs) k
          /\ Sub.c_st (Sub.copies (c_sub cs) k) = fst r)
    /\ (forall k1 r1 k2 r2, In (k1, r1) (c_log cs) -> In (k2, r2) (c_log cs) -> k1 <> k2 ->
          Sub.c_thr (Sub.copies (c_sub cs) k1) = Sub.c_thr (Sub.copies (c_sub cs) k2) ->
          accepted_pubs r1 = [] \/ accepted_pubs r2 = []).
  Proof. exact (composed_log_sound dec atoi itoa rk c src msg_of beh). Qed.

  (** the relay never blocks the subscription: a received, not yet handled copy can be handled *)
  Theorem C17_composed_handle_enabled : forall (cs : cstate) (k : Sub.cid),
    Sub.c_recv (Sub.copies (c_sub cs) k) = true -> handled cs k = false ->
    exists cs', cstep dec atoi itoa rk c src msg_of beh cs (CHandle k) = Some cs' /\ handled cs' k = true.
  Proof. exact (composed_handle_enabled dec atoi itoa rk c src msg_of beh). Qed.
End C17_composed.

Section C17_json.
  (** the interning table of the harness: a bijection between string ids and byte strings *)
  Variable str_of : N -> list N.
  Variable id_of : list N -> N.
  Variable unframe : list N -> option (list (list N * list N)).   (* C16's one oracle: object framing *)

  (** the codec premise of the C17 envelope theorems is a THEOREM for the JSON codec of Value/Json.v
      (string escaping, base64, field mapping written out), for envelopes of valid UTF-8 strings with
      unique keys, under C16's single assumption [framing_ok] (inside [json_ok]) *)
  Theorem C17_json_codec_ok :
    (forall n, id_of (str_of n) = n) -> (forall s, str_of (id_of s) = s) ->
    forall e : envelope, json_ok str_of unframe e ->
    codec_ok_on (json_enc str_of id_of) (json_dec str_of id_of unframe) san_id e.
  Proof. exact (json_codec_ok str_of id_of unframe). Qed.

  (** C17_envelope_roundtrip on the real wire format: exact restoration *)
  Theorem C17_envelope_roundtrip_json :
    (forall n, id_of (str_of n) = n) -> (forall s, str_of (id_of s) = s) ->
    forall (t : N) (m : msg) (p : N) (em : msg),
    json_ok str_of unframe (mk_env t m) ->
    wrap (json_enc str_of id_of) t m = Some p -> payload em = p ->
    unwrap (json_dec str_of id_of unframe) em = Some (t, m).
  Proof. exact (json_envelope_roundtrip str_of id_of unframe). Qed.

  (** C17_forwarder_end_to_end on the real wire format *)
  Theorem C17_forwarder_end_to_end_json :
    (forall n, id_of (str_of n) = n) -> (forall s, str_of (id_of s) = s) ->
    forall (atoi : N -> option Z) (itoa : Z -> N) (rk dflt cfg t : N) (ms : list msg) (ft : N) (ps : list N) (ab : bool),
    (forall m, In m ms -> json_ok str_of unframe (mk_env t m)) ->
    fpub_publish (json_enc str_of id_of) dflt cfg t ms = Some (ft, ps) ->
    ft = eff_topic dflt cfg
    /\ Forall2 (fun m p => forall src em cd pb, payload em = p ->
         let r := run (json_dec str_of id_of unframe) atoi itoa rk (CForwarder ab) (Inp src em cd pb) in
         pubs (snd r) = [(t, [m], Unsettled)] /\ (fst r = Acked <-> pb = PubAccept)) ms ps.
  Proof. exact (json_forward_end_to_end str_of id_of unframe). Qed.

  (** C17_forwarder_non_utf8_refuted restated through C16_json_escape_not_injective_refuted: on
      the real wire format two different messages (UUIDs that are not valid UTF-8) get the SAME
      envelope, so no decoder whatsoever restores both — the known finding, without any oracle *)
  Theorem C17_forwarder_non_utf8_json_refuted :
    (forall s, str_of (id_of s) = s) -> str_of 0 = [] ->
    exists t m1 m2 p, m1 <> m2
      /\ wrap (json_enc str_of id_of) t m1 = Some p /\ wrap (json_enc str_of id_of) t m2 = Some p
      /\ forall (dec : N -> option envelope) em, payload em = p ->
           ~ (unwrap dec em = Some (t, m1) /\ unwrap dec em = Some (t, m2)).
  Proof. exact (json_not_injective str_of id_of). Qed.
End C17_json.

(** glued to Layer B (GoChannel/Reg.v: all schedules of Publish / Subscribe / cancel / Close) as in
    GoChannel/ReplayCompose.v — the Senders Layer B starts for subscription x are the LSpawn labels of
    the composed run.  Layer B never starts a second Sender for the same (publication, subscription), so:
    per PUBLICATION the relay's destination accepts at most once; a later copy of the same published
    message exists only after the relay nacked every earlier one *)
From WM Require Import Relay.ConsumerLayerB.
From WM Require GoChannel.Reg GoChannel.ReplayCompose GoChannel.MonitorSound.
Theorem C17_composed_at_most_once_per_publication :
  forall (dec : N -> option envelope) (atoi : N -> option Z) (itoa : Z -> N) (rk : N) (c : comp) (src : N)
         (msg_of : Sub.pubid -> msg) (beh : Sub.cid -> attempt)
         (pers blk fxb : bool) (gls : list Reg.glabel) (x : Reg.subid) (cap0 : nat) (fx : bool) (ls : list clabel),
  let g := Reg.grun (Reg.ginit pers blk fxb) gls in
  let L := cproj dec atoi itoa rk c src msg_of beh (cinit cap0 fx) ls in
  let s := c_sub (crun dec atoi itoa rk c src msg_of beh (cinit cap0 fx) ls) in
  Permutation.Permutation (MonitorSound.spawn_pubs L) (ReplayCompose.sender_pubs g x) ->
  forall k1 k2 : nat, (k1 < k2)%nat -> (k2 < Sub.next s)%nat ->
  Sub.c_pub (Sub.copies s k1) = Sub.c_pub (Sub.copies s k2) ->
  Sub.c_st (Sub.copies s k1) = Nacked
  /\ accepted_pubs (relay_of dec atoi itoa rk c src msg_of beh s k1) = [].
Proof. exact composed_at_most_once_per_publication. Qed.

Print Assumptions C17_composed_is_layer_a_run.
Print Assumptions C17_composed_relay_consumer.
Print Assumptions C17_composed_at_most_once.
Print Assumptions C17_composed_acked_was_relayed.
Print Assumptions C17_composed_history.
Print Assumptions C17_composed_handle_enabled.
Print Assumptions C17_json_codec_ok.
Print Assumptions C17_envelope_roundtrip_json.
Print Assumptions C17_forwarder_end_to_end_json.
Print Assumptions C17_forwarder_non_utf8_json_refuted.
Print Assumptions C17_composed_at_most_once_per_publication.

(** a computed run of the composed system: the requeuer nacks copy 0 (destination error), Layer A
    sends copy 1 of the same publication, the requeuer relays it (counter 41 -> 42) and acks; the
    environment's own LAck and a second CHandle are not steps *)
Example C17_composed_witness :
  map fst (c_log w_final) = [0; 1]%nat
  /\ map (fun x => fst (snd x)) (c_log w_final) = [Nacked; Acked]
  /\ flat_map (fun x => accepted_pubs (snd x)) (c_log w_final) = [(7%N, [Msg 2 3 (Some [(w_rk, w_itoa 42)])])]
  /\ map (fun k => Sub.c_st (Sub.copies (c_sub w_final) k)) [0; 1]%nat = [Nacked; Acked]
  /\ Sub.thr (c_sub w_final) 0%nat = Sub.SDone 5%nat /\ Sub.next (c_sub w_final) = 2%nat.
Proof. exact composed_witness. Qed.

(** * Round "proofs 3": the outbox end to end, the known finding exactly, configuration, acceptor links *)
From WM Require Import Relay.Outbox Relay.Config Relay.ConfigProofs Relay.AcceptorLinks Corr.C17.
From WM Require Relay.JsonSanitize Value.Model Value.Codec Value.Json.

(** ONE statement over the composed model: forwarder.Publisher (wrap) -> an at-least-once source that
    redelivers a fresh copy after every Nack -> forwardMessage on a Router (C02's [handle]) -> the
    destination.  For every message published to topic t through the Publisher, whatever the
    destination does as long as one attempt accepts: the destination accepted it on t, intact, exactly
    once (at least once, never twice); exactly one delivery of its envelope was acked on the outbox, the
    last one; and in every delivery the Ack comes only after the destination publish returned nil *)
Theorem C17_outbox_at_least_once :
  forall (enc : envelope -> N) (dec : N -> option envelope) (san : N -> N) (atoi : N -> option Z) (itoa : Z -> N) (rk : N),
  (forall s, san s = 0 <-> s = 0) ->
  forall (dflt cfg t : N) (ms : list msg) (ft : N) (ps : list N) (ab : bool),
  (forall m, In m ms -> codec_ok_on enc dec san (mk_env t m)) ->
  fpub_publish enc dflt cfg t ms = Some (ft, ps) ->
  ft = eff_topic dflt cfg
  /\ Forall2 (fun m p => forall (u : N) (md : option meta) (beh : list attempt),
       (exists cd, In (cd, PubAccept) beh) ->
       let rs := fst (redeliver dec atoi itoa rk FreshCopy (CForwarder ab) ft (Msg u p md) beh) in
       all_accepted rs = [(san t, [san_msg san m])]
       /\ n_acked rs = 1%nat
       /\ Forall (fun r => fst r <> Acked) (removelast rs)
       /\ Forall (fun r => fst r = Acked -> accepted (snd r) = true /\ ack_after_accept (snd r) false = true) rs
       /\ (san t = t -> wf_msg m -> san_fixes_msg san m -> all_accepted rs = [(t, [m])])) ms ps.
Proof. exact outbox_at_least_once. Qed.

(** the same on the real wire format (C16's JSON model), messages of valid UTF-8, [framing_ok] only *)
Theorem C17_outbox_at_least_once_json :
  forall (str_of : N -> list N) (id_of : list N -> N) (unframe : list N -> option (list (list N * list N)))
         (atoi : N -> option Z) (itoa : Z -> N) (rk dflt cfg t : N) (ms : list msg) (ft : N) (ps : list N) (ab : bool),
  (forall n, id_of (str_of n) = n) -> (forall s, str_of (id_of s) = s) ->
  (forall m, In m ms -> json_ok str_of unframe (mk_env t m)) ->
  fpub_publish (json_enc str_of id_of) dflt cfg t ms = Some (ft, ps) ->
  ft = eff_topic dflt cfg
  /\ Forall2 (fun m p => forall (u : N) (md : option meta) (beh : list attempt),
       (exists cd, In (cd, PubAccept) beh) ->
       let rs := fst (redeliver (json_dec str_of id_of unframe) atoi itoa rk FreshCopy (CForwarder ab) ft (Msg u p md) beh) in
       all_accepted rs = [(t, [m])] /\ n_acked rs = 1%nat
       /\ Forall (fun r => fst r <> Acked) (removelast rs)
       /\ Forall (fun r => fst r = Acked -> accepted (snd r) = true /\ ack_after_accept (snd r) false = true) rs) ms ps.
Proof. exact outbox_at_least_once_json. Qed.

(** the known finding, exactly.  [sanitize] keeps every well-formed UTF-8 sequence and replaces every
    other byte by U+FFFD (EF BF BD), one per byte.  For EVERY byte string the JSON model reads back the
    sanitised string; a string is left alone iff it is valid UTF-8 *)
Theorem C17_json_string_roundtrip_any : forall s : list N,
  Value.Json.unescape (Value.Json.escape s) = Some (JsonSanitize.sanitize s)
  /\ Value.Json.dec_str (Value.Json.enc_str s) = Some (JsonSanitize.sanitize s).
Proof. exact (fun s => conj (JsonSanitize.unescape_escape_any s) (JsonSanitize.dec_str_enc_str_any s)). Qed.

Theorem C17_json_sanitize_fixes_iff : forall s : list N,
  JsonSanitize.sanitize s = s <-> Value.Codec.utf8_valid s = true.
Proof. exact JsonSanitize.sanitize_fixes_iff. Qed.

(** ... and for EVERY envelope whose payload is bytes (no UTF-8 or key premise): Unmarshal (Marshal e)
    is e with destination, UUID, metadata keys and values sanitised, the payload untouched, and the
    metadata rebuilt entry by entry — so keys that collide after sanitising keep ONE entry *)
Theorem C17_json_envelope_law_any : forall (unframe : list N -> option (list (list N * list N))) (e : Value.Codec.envelope),
  Value.Json.bytes_ok (Value.Model.pl_bytes (Value.Codec.e_payload e)) ->
  unframe (Value.Json.frame_obj (Value.Json.env_members e)) = Some (Value.Json.env_members e) ->
  (forall l, Value.Codec.e_meta e = Some l ->
     unframe (Value.Json.frame_obj (Value.Json.meta_members l)) = Some (Value.Json.meta_members l)) ->
  Value.Json.jdec_env unframe (Value.Json.frame_obj (Value.Json.env_members e)) = Some (JsonSanitize.san_envelope e).
Proof. exact JsonSanitize.jdec_jenc_env_any. Qed.

Theorem C17_json_envelope_altered_refuted : forall e : Value.Codec.envelope,
  (Value.Codec.utf8_valid (Value.Codec.e_dest e) = false \/ Value.Codec.utf8_valid (Value.Codec.e_uuid e) = false) ->
  JsonSanitize.san_envelope e <> e.
Proof. exact JsonSanitize.san_envelope_changes. Qed.

(** Forwarder / Publisher configuration (Config.setDefaults, Config.Validate, NewForwarder, PublisherConfig) *)
Theorem C17_forwarder_config_defaults : forall (dflt : N) (c : fwd_cfg),
  (fc_topic c <> 0 -> fc_topic (fwd_set_defaults dflt c) = fc_topic c)
  /\ (fc_topic c = 0 -> fc_topic (fwd_set_defaults dflt c) = dflt)
  /\ (fc_timeout c <> 0%Z -> fc_timeout (fwd_set_defaults dflt c) = fc_timeout c)
  /\ (fc_timeout c = 0%Z -> fc_timeout (fwd_set_defaults dflt c) = default_close_timeout).
Proof. exact fwd_defaults_keep. Qed.

Theorem C17_forwarder_config_validate : forall (dflt : N) (c : fwd_cfg),
  (fwd_validate c = false <-> fc_topic c = 0)
  /\ (dflt <> 0 -> fwd_validate (fwd_set_defaults dflt c) = true)
  /\ (dflt <> 0 -> fwd_set_defaults dflt (fwd_set_defaults dflt c) = fwd_set_defaults dflt c).
Proof. exact (fun dflt c => conj (fwd_validate_raw c) (conj (fwd_defaults_valid dflt c) (fwd_defaults_idem dflt c))). Qed.

(** NewForwarder never refuses a configuration, listens on a non-empty topic, and the Publisher
    decorator configured with the same topic publishes exactly there *)
Theorem C17_forwarder_new_never_refuses : forall (dflt t : N) (d : Z),
  fst (forwarder_new dflt (FCfg t d)) = NewOk
  /\ snd (forwarder_new dflt (FCfg t d)) = publisher_topic dflt t
  /\ (dflt <> 0 -> snd (forwarder_new dflt (FCfg t d)) <> 0).
Proof. exact forwarder_new_spec. Qed.

(** every acceptor that judges implementation behaviour accepts what the model does *)
Theorem C17_e2e_model_accepted : forall ab src em cd pb t m dcd at_ it rk orig_dec,
  wf_msg m -> unwrap (fun _ => orig_dec) em = Some (t, m) ->
  let r := run (fun _ => orig_dec) (lookupN at_) (lookupZ it) rk (CForwarder ab) (Inp src em cd pb) in
  e2e_violates (RC (KForwarder ab) src em dcd pb orig_dec at_ it rk (Some (t, m)) (snd r) (fst r)) = false.
Proof. exact e2e_model_accepted. Qed.

Theorem C17_fanout_model_accepted : forall src m n closed, wf_msg m ->
  fanout_violates (FO src m n closed (map (pair src) (fanout_deliver n closed m))
                      (if closed then [] else [Unsettled])
                      (fst (run (fun _ => None) (fun _ => None) (fun _ => 0) 0 CFanOut (Inp src m false (fanout_pb closed))))) = false.
Proof. exact fanout_case_model_accepted. Qed.

Theorem C17_chain_model_accepted : forall t m k, wf_msg m ->
  chain_violates (CH t m k (map (pair t) (repeat (gochan_copy m) (S k))) Acked) = false.
Proof. exact chain_model_accepted. Qed.

Print Assumptions C17_outbox_at_least_once.
Print Assumptions C17_outbox_at_least_once_json.
Print Assumptions C17_json_string_roundtrip_any.
Print Assumptions C17_json_sanitize_fixes_iff.
Print Assumptions C17_json_envelope_law_any.
Print Assumptions C17_json_envelope_altered_refuted.
Print Assumptions C17_forwarder_config_defaults.
Print Assumptions C17_forwarder_config_validate.
Print Assumptions C17_forwarder_new_never_refuses.
Print Assumptions C17_e2e_model_accepted.
Print Assumptions C17_fanout_model_accepted.
Print Assumptions C17_chain_model_accepted.

(** the witness of the known finding, computed: "v\xff" is read back as "v" + EF BF BD *)
Example C17_witness_sanitize :
  JsonSanitize.sanitize [118; 255] = [118; 239; 191; 189]
  /\ Value.Json.dec_str (Value.Json.enc_str [118; 255]) = Some [118; 239; 191; 189]
  /\ JsonSanitize.sanitize [107; 254] = JsonSanitize.sanitize [107; 253].
Proof. repeat split; vm_compute; reflexivity. Qed.
