(** C08 — Router routes per handler: right function, right topic, unmodified outputs.
    Model: Router/Wiring.v (registration state machine [exec] over ALL programs of AddHandler /
    AddNoPublisherHandler / AddMiddleware / Handler.AddMiddleware / Add*Decorators / Run / RunHandlers,
    and [dispatch]: what one copy of a message goes through in one handler, written with the loops
    of router.go).  Declarative reading of a program: Router/WiringSpec.v ([spec_cfg] = the first
    AddHandler with that name, [spec_started] = what was registered before the first start that
    follows it, [chain_outcome] = the function's result plus what the handler's own middlewares
    appended).  Quantifiers: every program [ops] (any number of handlers, any interleaving), every
    delivery [d] (subscriber object, topic, context keys already present, any handler outcome, any
    publisher behaviour). *)
From WM Require Import Base.Prelude Message.Model Handler.RouterHandle Router.Wiring Router.WiringSpec Router.WiringProofs
  Router.Life Router.LifeProofs Corr.C08 Router.LifeAccept.

(** For EVERY program (incl. Handler.Stop, re-added names, failing decorator constructors): a message
    handed to subscriber object [d_sub d] on topic [d_topic d] is processed by handler [n] iff the
    Router holds a STARTED handler of that name subscribed on exactly that subscriber and topic; at
    most once per handler; and what runs is that handler's own function, once, and no other. *)
Theorem C08_right_function : forall ops d,
  (forall n tr, In (n, tr) (deliver (exec rinit ops) d) <->
      exists h s, find_handler n (exec rinit ops) = Some (HS h (Some s))
                  /\ h_sub h = d_sub d /\ h_subtopic h = d_topic d /\ tr = dispatch h s d)
  /\ NoDup (map fst (deliver (exec rinit ops) d))
  /\ (forall h s, fn_calls (dispatch h s d) = [(h_fn h, ctx_of h)]).
Proof. exact c08_right_function. Qed.

(** ... and for programs without Stop / failing constructors the handler the Router holds under a
    name is: the first AddHandler with that name, started iff a Run/RunHandlers followed it. *)
Theorem C08_wiring_is_declarative : forall ops n, plain ops = true ->
  find_handler n (exec rinit ops) =
  match spec_cfg n ops with Some h => Some (HS h (spec_started n ops)) | None => None end.
Proof. exact c08_wiring_plain. Qed.

(** All Publish calls of one copy: exactly one, on the handler's own publisher object and publish
    topic, carrying the chain's outputs unmodified and in order — and only when the chain returned
    a non-empty list without error and the handler has a real publisher; nothing anywhere else.
    The chain's outputs are the function's own outputs when none of the handler's effective
    middlewares appends (and for AddHandler handlers the function's outputs are not touched). *)
Theorem C08_publish_target : forall h s d,
  publish_calls (dispatch h s d) = expected_publish h s d
  /\ (Forall (fun r => r_app r = None) (effective (h_name h) (s_chain s)) ->
      chain_outcome h s d = fn_outcome h (d_out d))
  /\ (h_pub h <> PDisabled -> fn_outcome h (d_out d) = d_out d).
Proof. exact c08_publish_target. Qed.

(** A handler without a real publisher (AddNoPublisherHandler, or a nil publisher) whose chain
    nevertheless returns messages: Nack, and no Publish call on any publisher. *)
Theorem C08_no_publisher_output_nacks : forall h s d x l,
  (forall id ty, h_pub h <> PReal id ty) -> chain_outcome h s d = Ret (x :: l) ->
  publish_calls (dispatch h s d) = [] /\ settles (dispatch h s d) = [false].
Proof. exact c08_no_publisher_output_nacks. Qed.

(** The copy is settled exactly once, with the verdict of C02's [handle] for this handler's
    publisher kind and this chain result. *)
Theorem C08_settles_as_C02 : forall h s d,
  settles (dispatch h s d) =
  [settle_eqb (st (fst (handle (pub_kind (h_pub h)) (d_pb d) (CR PreNone (chain_outcome h s d))))) Acked].
Proof. exact c08_settles_as_c02. Qed.

(** Context values (REPAIRED addHandlerContext: all five keys always set): whatever router keys the
    arriving message context already carries, inside the function the context reports exactly this
    handler's name, publisher type name, subscriber type name, subscribe topic and publish topic,
    and so does every produced message — while everything ELSE each produced message's own context
    carries (its user values, its cancellation) reaches the publisher untouched, message by message. *)
Theorem C08_context_values : forall h s d,
  fn_calls (dispatch h s d) = [(h_fn h, ctx_of h)]
  /\ (forall p t outs m c u, In (p, t, outs) (publish_calls (dispatch h s d)) -> In (m, c, u) outs ->
        c = ctx_of h /\ u = own_ctx d m).
Proof. exact c08_context_values. Qed.

(** PINNED addHandlerContext (keys set only for non-empty values; before the fix commit): the clause
    fails — a handler without publisher (publish topic "") that receives an object still carrying
    another handler's keys reports THAT handler's publish topic.  For contexts without router keys
    both behaviours agree. *)
Theorem C08_context_values_pinned_refuted :
  exists c h, overlay_pinned c h <> ctx_of h /\ c_pubtopic (overlay_pinned c h) <> h_pubtopic h.
Proof. exact c08_context_pinned_refuted. Qed.
Theorem C08_context_pinned_agrees_when_fresh : forall h, overlay_pinned cx0 h = ctx_of h.
Proof. exact overlay_pinned_fresh. Qed.

(** A handler added with a nil publisher (REPAIRED AddHandler: it gets the no-publisher stand-in): whatever
    publisher decorators are registered, nothing is ever called on nil — when the handler stops there is no
    Close on nil, and a chain that returns messages is nacked without any Publish call. *)
Theorem C08_nil_publisher_never_closed : forall h s, publisher_close_panics false h s = false.
Proof. exact nil_publisher_never_closed. Qed.
Theorem C08_nil_publisher_outputs_nacked : forall h s d x l, h_pub h = PNil -> chain_outcome h s d = Ret (x :: l) ->
  publish_calls (dispatch h s d) = [] /\ settles (dispatch h s d) = [false].
Proof. exact nil_publisher_trace. Qed.
(** PINNED (before the fix): with a publisher decorator registered h.publisher was the decorator around nil and
    handler.run's Close on it panicked in the handler goroutine when the handler stopped: the process died. *)
Theorem C08_nil_publisher_pinned_refuted : exists h s, publisher_close_panics true h s = true.
Proof. exact nil_publisher_pinned_refuted. Qed.

(** The code-shaped model (loops) computes the declarative trace, and every delivery of every
    program passes the acceptor that judges implementation observations. *)
Theorem C08_dispatch_is_spec : forall h s d, dispatch h s d = spec_trace h s d.
Proof. exact dispatch_spec. Qed.
Theorem C08_model_accepted : forall ops, plain ops = true -> c08_monitor ops (run rinit ops) = true.
Proof. exact c08_model_accepted. Qed.
Theorem C08_model_accepted_all : forall ops, c08_monitor_st ops (run rinit ops) = true.
Proof. exact c08_model_accepted_st. Qed.

(** ** Run, plugins, Handlers() (Router/Life.v): programs of plugin registrations, Handlers() calls and
    Wiring operations; the first start-like operation is Run *)
(** a Router program amounts to the Wiring program [effective_ops] (its Wiring operations, minus the Run
    that a plugin error aborted): same registration state, same deliveries; and what Run calls is the
    plugins registered before it, in order, up to and including the first that returns an error *)
Theorem C08_router_program_is_wiring : forall pops,
  core (pexec pinit pops) = exec rinit (effective_ops pops)
  /\ del_obs (prun pinit pops) = run rinit (effective_ops pops)
  /\ plug_obs (prun pinit pops) = spec_plug [] pops.
Proof. exact life_is_wiring. Qed.
(** plugins are called by at most one operation of a program (Run) — never by a later RunHandlers, and a
    plugin added after Run never runs *)
Theorem C08_plugins_once : forall pops, length (plug_obs (prun pinit pops)) <= 1.
Proof. exact plugins_once. Qed.
(** a plugin error aborts Run: no handler is started by it, isRunning stays set *)
Theorem C08_plugin_error_aborts_run : forall c P o, is_startlike o = true -> snd (upto_fail P) = true ->
  core (fst (pstep (PS c P false) (PCore o))) = c /\ isrun (fst (pstep (PS c P false) (PCore o))) = true.
Proof. exact plugin_error_aborts. Qed.
(** plugins run before any handler: before the first start-like operation nobody is started *)
Theorem C08_plugins_before_handlers : forall pre,
  forallb (fun o => negb (is_startlike o)) (core_ops pre) = true ->
  Forall (fun hs => hs_started hs = None) (handlers (core (pexec pinit pre))).
Proof. exact plugins_before_handlers. Qed.
(** Handlers() reports the names the registration machine holds at that moment; for every program these
    are pairwise different and each was added by an AddHandler of the program *)
Theorem C08_handlers_view : forall pops, name_obs (prun pinit pops) = spec_views [] pops.
Proof. exact views_spec. Qed.
Theorem C08_handlers_view_names : forall ops,
  let ns := map (fun hs => h_name (hs_cfg hs)) (handlers (exec rinit ops)) in
  NoDup ns /\ forall n, In n ns -> exists h, In (OAddHandler h) ops /\ h_name h = n.
Proof. exact view_names. Qed.
(** the acceptor that judges implementation observations of Router programs accepts every model run *)
Theorem C08_router_program_accepted : forall pops, c08_lviolates (LC pops (prun pinit pops)) = false.
Proof. exact c08_router_program_accepted. Qed.

Print Assumptions C08_right_function.
Print Assumptions C08_publish_target.
Print Assumptions C08_no_publisher_output_nacks.
Print Assumptions C08_settles_as_C02.
Print Assumptions C08_context_values.
Print Assumptions C08_context_values_pinned_refuted.
Print Assumptions C08_context_pinned_agrees_when_fresh.
Print Assumptions C08_dispatch_is_spec.
Print Assumptions C08_model_accepted.
Print Assumptions C08_router_program_is_wiring.
Print Assumptions C08_plugins_once.
Print Assumptions C08_plugin_error_aborts_run.
Print Assumptions C08_plugins_before_handlers.
Print Assumptions C08_handlers_view.
Print Assumptions C08_handlers_view_names.
Print Assumptions C08_router_program_accepted.
Print Assumptions C08_nil_publisher_never_closed.
Print Assumptions C08_nil_publisher_outputs_nacked.
Print Assumptions C08_nil_publisher_pinned_refuted.
Print Assumptions C08_model_accepted_all.
Print Assumptions C08_wiring_is_declarative.

(** non-vacuity.  Two handlers on ONE subscriber object and topic, sharing ONE publisher object,
    different publish topics; a router-level appending middleware registered between them and a
    duplicate AddHandler that panics.  Each handler runs its own function and publishes its own
    outputs (+ the appended message) on its own topic. *)
Definition exA := HC 10 1 7 20 (PReal 1 8) 30 1.
Definition exB := HC 11 1 7 20 (PReal 1 8) 31 2.
Definition exOps := [OAddHandler exA; OAddMw 5 (Some 105%N); OAddHandler exB;
                     OAddHandler (HC 10 1 7 21 PNil 32 3); OStart].
Example C08_witness_two_handlers :
  deliver (exec rinit exOps) (DL 1 20 cx0 (0%N, false) (Ret [1; 2; 0]%N) PubAccept) =
  [(10%N, [EEnter 5; EFn 1 (ctx_of exA); EExit 5;
           EPublish 1 30 [(1%N, ctx_of exA, (1%N, false)); (2%N, ctx_of exA, (2%N, true)); (0%N, ctx_of exA, (0%N, false));
                          (105%N, ctx_of exA, (105%N, false))]; ESettle true]);
   (11%N, [EEnter 5; EFn 2 (ctx_of exB); EExit 5;
           EPublish 1 31 [(1%N, ctx_of exB, (1%N, false)); (2%N, ctx_of exB, (2%N, true)); (0%N, ctx_of exB, (0%N, false));
                          (105%N, ctx_of exB, (105%N, false))]; ESettle true])].
Proof. reflexivity. Qed.
(** other topic: nobody *)
Example C08_witness_other_topic :
  deliver (exec rinit exOps) (DL 1 21 cx0 (0%N, false) (Ret [1]%N) PubAccept) = [].
Proof. reflexivity. Qed.
(** AddNoPublisherHandler + a middleware that appends: decorators see the batch, nothing is
    published, Nack *)
Example C08_witness_no_publisher :
  deliver (exec rinit [OAddPubDec 9 0; OAddHandler (HC 12 1 7 20 PDisabled 0 3); OAddHMw 12 6 (Some 106%N); OStart])
          (DL 1 20 cx0 (0%N, false) (Ret []) PubAccept) =
  [(12%N, [EEnter 6; EFn 3 (CX 12 ty_disabled 7 20 0); EExit 6; EPubDec 9 0 [106%N]; ESettle false])].
Proof. reflexivity. Qed.
(** a re-delivered object that still carries handler A's keys: the no-publisher handler reports its own
    (empty) publish topic *)
Example C08_witness_redelivered_object :
  fn_calls (dispatch (HC 12 1 7 20 PDisabled 0 3) (ST [] [] []) (DL 1 20 (ctx_of exA) (7%N, true) (Ret []) PubAccept))
  = [(3%N, CX 12 ty_disabled 7 20 0)].
Proof. reflexivity. Qed.

(** plugins 1, 2 (fails), 3: Run calls 1 then 2 and returns; handler A is not started by it (a delivery reaches
    nobody), the next start-like operation is a RunHandlers: A runs; plugin 3 and the late plugin 4 never run *)
Example C08_witness_plugins :
  prun pinit [PAddPlugin 1 false; PAddPlugin 2 true; PAddPlugin 3 false; PCore (OAddHandler exA); PCore OStart;
              PView; PCore (ODeliver (DL 1 20 cx0 (0%N, false) (Ret []) PubAccept)); PAddPlugin 4 false; PCore OStart;
              PCore (ODeliver (DL 1 20 cx0 (0%N, false) (Ret []) PubAccept))] =
  [PPlug [1; 2]%N false; PNames [10%N]; PDel []; PDel [(10%N, [EFn 1 (ctx_of exA); ESettle true])]].
Proof. reflexivity. Qed.
