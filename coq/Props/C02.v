(** C02 — Router settles each message once: Ack iff handled and outputs published.
    The model is Handler/RouterHandle.v ([handle]: handleMessage + publishProducedMessages on
    top of the C03 settlement model).  Quantifiers: every handler behaviour (returns any list
    of messages, fails with or without messages, panics; settles the message itself first or
    not), every publisher kind and behaviour.  Each message in flight is handled by its own
    handleMessage instance that shares nothing with the others (message/router.go l.645-651),
    so the statements are per message. *)
From WM Require Import Base.Prelude Message.Model Message.Proofs Handler.RouterHandle Handler.RouterProofs.

Section C02.
  Context {M : Type}.

  (** the chain is invoked once, the Router settles exactly once, as its last action *)
  Theorem C02_router_settles_once : forall pk pb (r : chain_result M),
    let tr := snd (handle pk pb r) in
    count_calls tr = 1 /\ count_settles tr = 1
    /\ exists ack ret pre, tr = pre ++ [HSettle ack ret] /\ count_settles pre = 0.
  Proof. exact handle_once. Qed.

  (** Ack iff the chain returned no error and everything it returned was accepted by the
      handler's publisher; Nack otherwise (error, panic, publish failure or panic, output in a
      no-publisher handler) *)
  Theorem C02_ack_iff : forall pk pb (r : chain_result M), cr_pre r = PreNone ->
    (st (fst (handle pk pb r)) = Acked <-> handled_ok pk pb r = true)
    /\ (st (fst (handle pk pb r)) = Nacked <-> handled_ok pk pb r = false).
  Proof. exact handle_ack_iff. Qed.

  (** a settlement the handler made itself is never overridden *)
  Theorem C02_no_override : forall pk pb (r : chain_result M),
    (cr_pre r = PreAck -> st (fst (handle pk pb r)) = Acked)
    /\ (cr_pre r = PreNack -> st (fst (handle pk pb r)) = Nacked).
  Proof. exact handle_no_override. Qed.

  (** the Ack is never sent before the publish call has returned successfully, and inside
      Publish the consumed message shows only what the handler did itself *)
  Theorem C02_ack_after_publish_return : forall pk pb (r : chain_result M),
    ack_after_publish (snd (handle pk pb r)) false = true
    /\ seen_ok r (snd (handle pk pb r)) = true.
  Proof. exact handle_ack_after_publish. Qed.

  (** one Publish call with exactly the returned messages, unmodified and in order; none for
      an empty output, none without a real publisher *)
  Theorem C02_outputs_unmodified_in_order : forall pk pb (r : chain_result M),
    publishes (snd (handle pk pb r)) = expected_publishes pk r.
  Proof. exact handle_publishes. Qed.

  (** messages returned together with an error (or before a panic) are not published *)
  Theorem C02_no_publish_on_error : forall pk pb (r : chain_result M),
    (forall outs, cr_out r <> Ret outs) -> publishes (snd (handle pk pb r)) = [].
  Proof. exact handle_no_publish_on_error. Qed.

  (** the model passes the acceptor that judges implementation traces *)
  Theorem C02_model_accepted : forall (eqbM : M -> M -> bool), (forall x, eqbM x x = true) ->
    forall pk pb (r : chain_result M),
    c02_monitor eqbM pk pb r (snd (handle pk pb r)) (st (fst (handle pk pb r))) = true.
  Proof. exact handle_monitor. Qed.

  (** pass-through middlewares in front of the handler change nothing *)
  Theorem C02_passthrough_prefix : forall (ws : list (mw M)) (r : chain_result M),
    Forall (fun w => w = MwPass) ws -> mws_apply ws r = r.
  Proof. exact mws_pass. Qed.
End C02.
Print Assumptions C02_router_settles_once.
Print Assumptions C02_ack_iff.
Print Assumptions C02_no_override.
Print Assumptions C02_ack_after_publish_return.
Print Assumptions C02_outputs_unmodified_in_order.
Print Assumptions C02_no_publish_on_error.
Print Assumptions C02_model_accepted.
Print Assumptions C02_passthrough_prefix.

(** non-vacuity: a handler that Nacks the message itself, then returns two messages which the
    publisher accepts: published, seen as nacked inside Publish, stays nacked although the
    Router calls Ack *)
Example C02_witness :
  handle PubReal PubAccept (CR PreNack (Ret [1; 2]%N)) =
  (MS Nacked COpen CClosed false,
   [HCall; HPreSettle false true; HPublish [1; 2]%N Nacked; HPublishRet true; HSettle true false]).
Proof. reflexivity. Qed.

(** * Round "proofs 3": messages that arrive already settled, from ANY state reachable in the C03
    model ([reachable m0]: some constructor, some sequence of Ack/Nack/reads before the
    subscriber hands the message over).  Model: [handle_from m0] (RouterHandle.v); acceptor:
    [c02_monitor_from] (RouterFrom.v), which is what Corr/C02.v evaluates on every
    implementation trace, with the arrival settlement of the case. *)
From WM Require Import Handler.RouterFrom Handler.RouterFromProofs.

Section C02_from.
  Context {M : Type}.

  (** whatever state the message arrives in: the chain is invoked exactly once and the Router
      settles (calls Ack or Nack) exactly once, as its last action *)
  Theorem C02_from_any_state_settles_once : forall m0 pk pb (r : chain_result M), reachable m0 ->
    let tr := snd (handle_from m0 pk pb r) in
    count_calls tr = 1 /\ count_settles tr = 1
    /\ exists ack ret pre, tr = pre ++ [HSettle ack ret] /\ count_settles pre = 0.
  Proof. exact from_once. Qed.

  (** the final settlement is that of arrival if the message was settled already (it then leaves
      handleMessage exactly as it came), else [expected_final]; the result is again a reachable
      C03 state *)
  Theorem C02_from_any_state_final : forall m0 pk pb (r : chain_result M), reachable m0 ->
    st (fst (handle_from m0 pk pb r)) = expected_final_from (st m0) pk pb r
    /\ (st m0 <> Unsettled -> fst (handle_from m0 pk pb r) = m0)
    /\ (st m0 = Unsettled -> st (fst (handle_from m0 pk pb r)) = expected_final pk pb r)
    /\ reachable (fst (handle_from m0 pk pb r)).
  Proof. exact from_final. Qed.

  (** the Router's own settle call on a message that arrived settled returns what C03 says:
      true iff it agrees with the arrival settlement *)
  Theorem C02_from_settled_router_call_result : forall m0 pk pb (r : chain_result M), st m0 <> Unsettled ->
    exists pre ack ret, snd (handle_from m0 pk pb r) = pre ++ [HSettle ack ret]
                        /\ ret = settle_eqb (st m0) (if ack then Acked else Nacked).
  Proof. exact handle_from_settle_ret. Qed.

  (** what is published does not depend on the arrival state at all *)
  Theorem C02_from_any_state_outputs : forall m0 pk pb (r : chain_result M),
    publishes (snd (handle_from m0 pk pb r)) = expected_publishes pk r.
  Proof. exact handle_from_publishes. Qed.

  (** every model run from every reachable arrival state passes the acceptor that judges the
      implementation traces; for an unsettled arrival the acceptor IS [c02_monitor] *)
  Theorem C02_from_model_accepted : forall (eqbM : M -> M -> bool), (forall x, eqbM x x = true) ->
    forall m0 pk pb (r : chain_result M), reachable m0 ->
    c02_monitor_from eqbM (st m0) pk pb r (snd (handle_from m0 pk pb r))
                     (st (fst (handle_from m0 pk pb r))) = true.
  Proof. exact from_monitor. Qed.

  Theorem C02_monitor_from_unsettled_is_monitor : forall (eqbM : M -> M -> bool) pk pb (r : chain_result M) tr f,
    c02_monitor_from eqbM Unsettled pk pb r tr f = c02_monitor eqbM pk pb r tr f.
  Proof. exact monitor_from_unsettled. Qed.
End C02_from.
Print Assumptions C02_from_any_state_settles_once.
Print Assumptions C02_from_any_state_final.
Print Assumptions C02_from_settled_router_call_result.
Print Assumptions C02_from_any_state_outputs.
Print Assumptions C02_from_model_accepted.
Print Assumptions C02_monitor_from_unsettled_is_monitor.

(** non-vacuity: a message the subscriber acked before delivery, handled by a handler that
    nacks it (returns false) and then fails: the chain runs, the Router's Nack returns false,
    the message stays acked *)
Example C02_from_witness :
  handle_from (fst (step (init CtorNew) OpAck)) PubReal PubAccept (CR PreNack (Fail [1]%N)) =
  (MS Acked CClosed COpen false, [HCall; HPreSettle false false; HSettle false false]).
Proof. reflexivity. Qed.

(** * Round "proofs 3": the handler's run loop with ANY number of messages in flight
    (Handler/RouterLoop.v: message/router.go handler.run — receive from the subscriber's channel,
    runningHandlersWg.Add(1), go handleMessage — and the handleMessage goroutines stepping through
    their [handle_from] event lists into ONE global log and ONE shared publisher).
    Quantifiers: every content of the channel (any number of messages, each in any reachable
    arrival state with any handler / publisher behaviour), EVERY schedule ([lrun] skips labels
    that are not enabled, so every list of labels is a schedule). *)
From WM Require Import Base.Count Handler.RouterLoop Handler.RouterLoopProofs.

Section C02_loop.
  Context {M : Type}.

  (** the projection of the global log onto one message is a prefix of that message's
      handleMessage trace and equals it once its thread finished; what was received is an
      initial part of what the channel had to deliver, in order *)
  Theorem C02_loop_projection : forall pk (inbox : list (lmsg M)) sched,
    let s := lrun pk (linit inbox) sched in
    (exists dropped, l_msgs s ++ l_inbox s ++ dropped = inbox)
    /\ forall i x, nth_error (l_msgs s) i = Some x ->
         (exists rest, proj i (l_log s) ++ rest = trace_of pk x)
         /\ (l_thr s i = @TDone M -> proj i (l_log s) = trace_of pk x)
         /\ l_thr s i <> @TNone M.
  Proof. exact loop_projection. Qed.

  (** every received message is settled exactly once when its thread has finished (so: all of
      them when all threads finished), by the Router's one settle call, its last event; final
      settlement = that of arrival if it arrived settled, else [expected_final] *)
  Theorem C02_loop_settled_once : forall pk (inbox : list (lmsg M)) sched,
    Forall (fun x => reachable (lm_state x)) inbox ->
    let s := lrun pk (linit inbox) sched in
    forall i x, nth_error (l_msgs s) i = Some x -> l_thr s i = @TDone M ->
      let tr := proj i (l_log s) in
      count_calls tr = 1 /\ count_settles tr = 1
      /\ (exists ack ret pre, tr = pre ++ [HSettle ack ret] /\ count_settles pre = 0)
      /\ model_finals pk s i = expected_final_from (st (lm_state x)) pk (lm_pb x) (lm_r x).
  Proof. exact loop_settled_once. Qed.

  (** a Publish call on the shared publisher contains the outputs of exactly one consumed
      message, all of them, in order (no batching across messages, no splitting); at most one
      call per consumed message, exactly [expected_publishes] once its thread finished *)
  Theorem C02_loop_publish_one_message : forall pk (inbox : list (lmsg M)) sched,
    let s := lrun pk (linit inbox) sched in
    (forall i outs, In (i, outs) (l_pub s) ->
       exists x, nth_error (l_msgs s) i = Some x /\ expected_publishes pk (lm_r x) = [outs]
                 /\ pub_proj i (l_pub s) = [outs])
    /\ (forall i x, nth_error (l_msgs s) i = Some x ->
          (exists rest, pub_proj i (l_pub s) ++ rest = expected_publishes pk (lm_r x))
          /\ (l_thr s i = @TDone M -> pub_proj i (l_pub s) = expected_publishes pk (lm_r x))).
  Proof. exact loop_publish_one_message. Qed.

  (** the number of running handleMessage goroutines equals the WaitGroup counter; Done() is
      never called on a zero counter (which would panic); the counter is zero iff nothing runs *)
  Theorem C02_loop_wg_counts_running : forall pk (inbox : list (lmsg M)) sched,
    let s := lrun pk (linit inbox) sched in
    l_wg s = cnt (fun i => is_run (l_thr s i)) (length (l_msgs s))
    /\ l_wgpanic s = false
    /\ (l_wg s = 0 <-> forall i, is_run (l_thr s i) = false).
  Proof. exact loop_wg_counts_running. Qed.

  (** every complete model run, under every schedule, passes [loop_monitor], the acceptor that
      judges the interleaved implementation log in checks/c02.py (Corr/C02Loop.v) *)
  Theorem C02_loop_model_accepted : forall pk (eqbM : M -> M -> bool), (forall a : M, eqbM a a = true) ->
    forall (inbox : list (lmsg M)) sched, Forall (fun x => reachable (lm_state x)) inbox ->
    let s := lrun pk (linit inbox) sched in
    all_done s = true ->
    loop_monitor pk eqbM (l_msgs s) (model_finals pk s) (l_log s) = true.
  Proof. exact loop_model_accepted. Qed.

  (** what the correspondence check replays strictly is a run in the sense of the theorems *)
  Theorem C02_loop_replay_is_run : forall pk sched (s s' : lstate M),
    lreplay pk s sched = Some s' -> lrun pk s sched = s'.
  Proof. exact replay_is_run. Qed.
End C02_loop.
Print Assumptions C02_loop_projection.
Print Assumptions C02_loop_settled_once.
Print Assumptions C02_loop_publish_one_message.
Print Assumptions C02_loop_wg_counts_running.
Print Assumptions C02_loop_model_accepted.
Print Assumptions C02_loop_replay_is_run.

(** non-vacuity: two messages in flight, interleaved: the second is received while the first is
    inside Publish, finishes first; both Publish calls carry only their own message's outputs *)
Example C02_loop_witness :
  let inbox := [LM (init CtorNew) PubAccept (CR PreNone (Ret [1; 2]%N));
                LM (init CtorNew) PubError (CR PreNone (Ret [3]%N))] in
  let s := lrun PubReal (linit inbox)
             [LRecv; LStep 0; LStep 0; LRecv; LStep 1; LStep 1; LStep 1; LStep 1; LStep 1; LClose;
              LStep 0; LStep 0; LStep 0] in
  (rev (l_pub s), l_wg s, all_done s, map (model_finals PubReal s) [0; 1],
   loop_monitor PubReal N.eqb (l_msgs s) (model_finals PubReal s) (l_log s))
  = ([(0, [1; 2]%N); (1, [3]%N)], 0, true, [Acked; Nacked], true).
Proof. vm_compute. reflexivity. Qed.
