(** C02 — Router settles each message once: Ack iff handled and outputs published.
    The model is Handler/RouterHandle.v ([handle]: handleMessage + publishProducedMessages on
    top of the C03 settlement model).  Quantifiers: every handler behaviour (returns any list
    of messages, fails with or without messages, panics; settles the message itself first or
    not), every publisher kind and behaviour.  Each message in flight is handled by its own
    handleMessage instance that shares nothing with the others (message/router.go l.645-651),
    so the statements are per message. *)
From WM Require Import Base.Prelude Message.Model Message.Proofs Handler.RouterHandle Handler.RouterProofs.

Section C02.
  Context {M : Type}.

  (** the chain is invoked once, the Router settles exactly once, as its last action *)
  Theorem C02_router_settles_once : forall pk pb (r : chain_result M),
    let tr := snd (handle pk pb r) in
    count_calls tr = 1 /\ count_settles tr = 1
    /\ exists ack ret pre, tr = pre ++ [HSettle ack ret] /\ count_settles pre = 0.
  Proof. exact handle_once. Qed.

  (** Ack iff the chain returned no error and everything it returned was accepted by the
      handler's publisher; Nack otherwise (error, panic, publish failure or panic, output in a
      no-publisher handler) *)
  Theorem C02_ack_iff : forall pk pb (r : chain_result M), cr_pre r = PreNone ->
    (st (fst (handle pk pb r)) = Acked <-> handled_ok pk pb r = true)
    /\ (st (fst (handle pk pb r)) = Nacked <-> handled_ok pk pb r = false).
  Proof. exact handle_ack_iff. Qed.

  (** a settlement the handler made itself is never overridden *)
  Theorem C02_no_override : forall pk pb (r : chain_result M),
    (cr_pre r = PreAck -> st (fst (handle pk pb r)) = Acked)
    /\ (cr_pre r = PreNack -> st (fst (handle pk pb r)) = Nacked).
  Proof. exact handle_no_override. Qed.

  (** the Ack is never sent before the publish call has returned successfully, and inside
      Publish the consumed message shows only what the handler did itself *)
  Theorem C02_ack_after_publish_return : forall pk pb (r : chain_result M),
    ack_after_publish (snd (handle pk pb r)) false = true
    /\ seen_ok r (snd (handle pk pb r)) = true.
  Proof. exact handle_ack_after_publish. Qed.

  (** one Publish call with exactly the returned messages, unmodified and in order; none for
      an empty output, none without a real publisher *)
  Theorem C02_outputs_unmodified_in_order : forall pk pb (r : chain_result M),
    publishes (snd (handle pk pb r)) = expected_publishes pk r.
  Proof. exact handle_publishes. Qed.

  (** messages returned together with an error (or before a panic) are not published *)
  Theorem C02_no_publish_on_error : forall pk pb (r : chain_result M),
    (forall outs, cr_out r <> Ret outs) -> publishes (snd (handle pk pb r)) = [].
  Proof. exact handle_no_publish_on_error. Qed.

  (** the model passes the acceptor that judges implementation traces *)
  Theorem C02_model_accepted : forall (eqbM : M -> M -> bool), (forall x, eqbM x x = true) ->
    forall pk pb (r : chain_result M),
    c02_monitor eqbM pk pb r (snd (handle pk pb r)) (st (fst (handle pk pb r))) = true.
  Proof. exact handle_monitor. Qed.

  (** pass-through middlewares in front of the handler change nothing *)
  Theorem C02_passthrough_prefix : forall (ws : list (mw M)) (r : chain_result M),
    Forall (fun w => w = MwPass) ws -> mws_apply ws r = r.
  Proof. exact mws_pass. Qed.
End C02.
Print Assumptions C02_router_settles_once.
Print Assumptions C02_ack_iff.
Print Assumptions C02_no_override.
Print Assumptions C02_ack_after_publish_return.
Print Assumptions C02_outputs_unmodified_in_order.
Print Assumptions C02_no_publish_on_error.
Print Assumptions C02_model_accepted.
Print Assumptions C02_passthrough_prefix.

(** non-vacuity: a handler that Nacks the message itself, then returns two messages which the
    publisher accepts: published, seen as nacked inside Publish, stays nacked although the
    Router calls Ack *)
Example C02_witness :
  handle PubReal PubAccept (CR PreNack (Ret [1; 2]%N)) =
  (MS Nacked COpen CClosed false,
   [HCall; HPreSettle false true; HPublish [1; 2]%N Nacked; HPublishRet true; HSettle true false]).
Proof. reflexivity. Qed.
