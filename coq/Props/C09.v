(** C09 — Middlewares nest in registration order per handler; decorators apply in order.
    Model: Router/Wiring.v — [build] is the reverse wrapping loop of handler.run with its filter,
    [decorate_pub] the reverse loop of decorateHandlerPublisher, [decorate_sub] the context decorator
    followed by the forward loop of decorateHandlerSubscriber, middlewares/decorators are tagging
    wrappers ([mw_sem], [pdec_sem], [sdec_sem]); [exec] is the registration state machine.
    Quantifiers: every program, every snapshot / decorator list (no length bound), every inner
    handler function, every delivery. *)
From WM Require Import Base.Prelude Message.Model Handler.RouterHandle Router.Wiring Router.WiringSpec Router.WiringProofs
  Router.Life Router.LifeProofs Corr.C08 Corr.C09 Router.LifeAccept Router.WiringGen Router.WiringGenFail.

(** What a handler freezes (programs without Stop / failing constructors): if handler [n] was added in [pre] and not started in [pre], then after
    [pre ++ Run/RunHandlers :: post] — whatever [post] registers — its snapshot is exactly the
    middleware registrations of [pre] (router-level registrations made AFTER its AddHandler
    included, registrations made after the start excluded), and its decorator lists are those of
    [pre]. *)
Theorem C09_started_freezes_registrations : forall pre post n h, plain (pre ++ OStart :: post) = true ->
  spec_cfg n pre = Some h -> spec_started n pre = None ->
  find_handler n (exec rinit (pre ++ OStart :: post)) =
  Some (HS h (Some (ST (regs_of pre) (pdecs_of pre) (sdecs_of pre)))).
Proof. exact started_freezes. Qed.

(** For EVERY program, incl. Handler.Stop, names added again after a Stop, and decorator constructors
    that return errors (RunHandlers aborts and is called again): *)
(** registrations are never removed: r.middlewares is the list of ALL registrations of the program in
    order — a handler added again under a name inherits what was registered for that NAME before *)
Theorem C09_registrations_never_removed : forall ops, mws (exec rinit ops) = regs_of ops.
Proof. exact mws_all. Qed.
(** a started handler is frozen: nothing but its own Stop changes its middleware snapshot or its
    decorator lists — no registration, no start of others, no failing RunHandlers, no other handler's Stop *)
Theorem C09_started_frozen : forall st o n h s,
  find_handler n st = Some (HS h (Some s)) -> o <> OStop n ->
  find_handler n (step st o) = Some (HS h (Some s)).
Proof. exact started_frozen. Qed.
(** a RunHandlers in which a constructor fails starts nobody; one in which none fails gives every
    waiting handler the middleware list and the decorator lists of that moment *)
Theorem C09_start_outcome : forall st,
  (forall d, (first_failing st (rev (pubdecs st)) = Some d \/
              (first_failing st (rev (pubdecs st)) = None /\ first_failing st (subdecs st) = Some d)) ->
        handlers (step st OStart) = handlers st)
  /\ (first_failing st (rev (pubdecs st)) = None -> first_failing st (subdecs st) = None ->
      handlers (step st OStart) = map (start_one st) (handlers st)).
Proof. exact start_outcome. Qed.
(** a RunHandlers attempt that fails leaves NOTHING behind (repaired code): no publisher decorator stays
    applied, so after any number of failed attempts a handler is decorated once, with the lists of the
    moment it is started *)
Theorem C09_retry_leaves_no_residue : forall ops, residue (exec rinit ops) = [].
Proof. exact residue_empty_all. Qed.
Theorem C09_retry_decorates_once : forall ops hs, hs_started hs = None -> waiting (exec rinit ops) hs = true ->
  start_one (exec rinit ops) hs =
  HS (hs_cfg hs) (Some (ST (mws (exec rinit ops)) (pubdecs (exec rinit ops)) (subdecs (exec rinit ops)))).
Proof. exact start_one_no_residue. Qed.
(** PINNED behaviour (before the fix): an attempt that failed in a subscriber decorator left the publisher
    decorated; after the retry publisher decorator 50 acts twice on one outgoing batch *)
Theorem C09_retry_pinned_refuted :
  let d := DL 1 22 cx0 (0%N, false) (Ret [1%N]) PubAccept in
  map (fun p => c09_proj (snd p)) (deliver (exec_pinned rinit pinned_witness) d)
    = [[OSub 62 (CX 12 8 7 22 33); OFn; OPubDec 50; OPubDec 50; OPub]]
  /\ map (fun p => c09_proj (snd p)) (deliver (exec rinit pinned_witness) d)
    = [[OSub 62 (CX 12 8 7 22 33); OFn; OPubDec 50; OPub]].
Proof. exact retry_pinned_refuted. Qed.
(** THE LINEARISATION POINT of a handler's start with respect to middleware registrations.  RunHandlers
    returns before the new handler's goroutine copies r.middlewares ([OStartAsync]); the copy
    ([OSnap n]: middlewares := append([]middleware{}, r.middlewares...) under middlewaresLock, the lock
    Handler.AddMiddleware and — since the fix — Router.AddMiddleware take) is the point P:
    a middleware registered before P of handler n's start is in n's chain (also when it was registered
    after RunHandlers returned), one registered after P is not; the decorator lists are those of the
    RunHandlers call.  [mid] and [post] are arbitrary programs (other starts, stops, failing attempts...). *)
Theorem C09_snapshot_linearisation : forall mid st n h decs post,
  pending_of st n = Some decs -> find_handler n st = Some (HS h None) ->
  Forall (fun o => o <> OSnap n) mid -> Forall (fun o => o <> OStop n) post ->
  find_handler n (exec st (mid ++ OSnap n :: post)) =
  Some (HS h (Some (ST (mws st ++ regs_of mid) (fst decs) (snd decs)))).
Proof. exact snapshot_linearisation. Qed.
(** a RunHandlers in which no constructor fails leaves every waiting handler in that pending state *)
Theorem C09_async_start_pending : forall st hs,
  NoDup (names st) -> In hs (handlers st) -> waiting st hs = true ->
  first_failing st (rev (pubdecs st)) = None -> first_failing st (subdecs st) = None ->
  pending_of (step st OStartAsync) (hname hs) = Some (frozen_decs st hs)
  /\ find_handler (hname hs) (step st OStartAsync) = Some hs
  /\ mws (step st OStartAsync) = mws st.
Proof. exact async_start_pending. Qed.
(** the [OStart] of the sequential programs is the special case "the copy follows at once" *)
Theorem C09_start_is_async_then_snap : forall st hs,
  NoDup (names st) -> In hs (handlers st) -> waiting st hs = true ->
  first_failing st (rev (pubdecs st)) = None -> first_failing st (subdecs st) = None ->
  find_handler (hname hs) (step (step st OStartAsync) (OSnap (hname hs))) = find_handler (hname hs) (step st OStart).
Proof. exact start_is_async_then_snap. Qed.
(** For ALL programs (Stop, re-added names, failing constructors, asynchronous starts): the handler the
    Router holds under a name was added by an AddHandler of the program, and what it froze is declarative:
    its middleware snapshot is [regs_of pre1] for a prefix [pre1] of the program that is followed by a
    Run/RunHandlers or by its own copy op, its decorator lists are those of a prefix [pre0] <= [pre1] that is
    followed by a Run/RunHandlers.
    _partial: WHICH start it is (the first one in which no constructor fails after the AddHandler that
    follows the last Stop of the name) is not given by a closed scan function for programs with Stop /
    failing constructors — it is the registration machine's (C09_start_outcome, C09_started_frozen,
    C09_snapshot_linearisation); for plain programs the scan reading is C09_started_freezes_registrations. *)
Theorem C09_started_holds_prefix_partial : forall ops n h s,
  find_handler n (exec rinit ops) = Some (HS h (Some s)) ->
  In (OAddHandler h) ops /\
  exists pre0 o0 pre1 o1, is_prefix pre0 pre1 /\ is_prefix (pre0 ++ [o0]) ops /\ is_prefix (pre1 ++ [o1]) ops
    /\ (o0 = OStart \/ o0 = OStartAsync) /\ (o1 = OStart \/ o1 = OSnap (h_name h))
    /\ s_chain s = regs_of pre1 /\ s_pubdecs s = pdecs_of pre0 /\ s_subdecs s = sdecs_of pre0.
Proof. exact started_holds_prefix. Qed.
(** the Router's decorator lists are, for all programs, all decorator registrations in order *)
Theorem C09_decorator_lists_all : forall ops,
  pubdecs (exec rinit ops) = pdecs_of ops /\ subdecs (exec rinit ops) = sdecs_of ops.
Proof. exact decorators_all. Qed.
(** Programs with Handler.Stop and names added again (no failing constructor, no asynchronous start): what the
    Router holds under a name is given by ONE left-to-right scan of the program for that name, independent of
    all other handlers ([gscan]): the AddHandler of the current generation (the first one after the last
    effective Stop of the name) and, once a Run/RunHandlers followed it, exactly the registrations and
    decorator lists of the prefix before that start.  (With failing constructors WHICH start succeeds depends
    on the other handlers and the constructors' budgets: C09_started_holds_prefix_partial + C09_start_outcome.) *)
Theorem C09_wiring_is_generation_scan : forall ops n, splain ops = true ->
  find_handler n (exec rinit ops) = gspec n ops.
Proof. exact wiring_is_generation_scan. Qed.
(** Programs WITH failing decorator constructors (and Stop / re-added names; asynchronous starts excluded).
    Whether a Run/RunHandlers finds a failing constructor depends on the budgets all handlers' attempts have
    used up; per handler that is an oracle [ok]: [ok k] = the start at position k of the program found no failing
    constructor.  Given a right oracle the wiring of a name is ONE left-to-right scan of the program,
    independent of every other handler: the current generation's AddHandler, started by the first start after it
    for which the oracle says yes, holding exactly the registrations and decorator lists of the prefix before
    that start.  The machine's own verdicts are such an oracle. *)
Theorem C09_started_holds_prefix_with_failures : forall ok ops n, sync_prog ops = true -> oracle_for ok ops ->
  find_handler n (exec rinit ops) = gspec_o ok n ops.
Proof. exact started_holds_prefix_with_failures. Qed.
Theorem C09_machine_oracle_is_right : forall ops, oracle_for (machine_oracle ops) ops.
Proof. exact machine_oracle_for. Qed.
Theorem C09_names_unique : forall ops, NoDup (names (exec rinit ops)).
Proof. exact names_nodup_all. Qed.

(** the wrapping loop, for ALL snapshots and ALL inner handler functions: entries of exactly the
    effective middlewares in registration order, then the inner handler, then the exits mirrored
    (none after a panic); appended messages innermost first *)
Theorem C09_build_nests : forall snap n (f : hfun) c,
  let eff := effective n snap in
  build snap n f c =
  (map EEnter (map r_id eff) ++ fst (f c) ++ exits (map r_id eff) (snd (f c)),
   add_apps (flat_map app_of (rev eff)) (snd (f c))).
Proof. exact build_spec. Qed.

(** in the trace of one copy: the enter/exit marks around the handler function *)
Theorem C09_nesting : forall h s d,
  mw_marks (dispatch h s d) =
  map EEnter (map r_id (effective (h_name h) (s_chain s)))
  ++ [EFn (h_fn h) (overlay (d_ctx d) h)]
  ++ exits (map r_id (effective (h_name h) (s_chain s))) (chain_outcome h s d).
Proof. exact c09_nesting. Qed.

(** exactly the router-level middlewares plus the handler's own — never another handler's *)
Theorem C09_chain_membership : forall n chain r,
  In r (effective n chain) <-> In r chain /\ (r_router r = true \/ r_hname r = n).
Proof. exact c09_chain_membership. Qed.

(** publisher decorators, for ALL lists and ALL publishers: they see an outgoing batch in the order
    they were added, before the publisher *)
Theorem C09_pub_decorator_order : forall decs p t outs,
  decorate_pub decs p t outs =
  (map (fun x => EPubDec x t (map (fun o => fst (fst o)) outs)) decs ++ fst (p t outs), snd (p t outs)).
Proof. exact decorate_pub_spec. Qed.

(** subscriber decorators, for ALL lists: an incoming message passes them in the order they were
    added, after the Router's context decorator (they all see the handler's context values) *)
Theorem C09_sub_decorator_order : forall h decs c,
  decorate_sub h decs c = (map (fun x => ESubDec x (overlay c h)) decs, overlay c h).
Proof. exact decorate_sub_spec. Qed.

(** the complete order of one copy's trace *)
Theorem C09_order : forall h s d, c09_proj (dispatch h s d) = spec_order h s d.
Proof. exact c09_order. Qed.

(** every delivery of every program passes the acceptor that judges implementation observations *)
Theorem C09_model_accepted : forall ops, plain ops = true -> c09_monitor ops (run rinit ops) = true.
Proof. exact c09_model_accepted. Qed.
Theorem C09_model_accepted_all : forall ops, c09_monitor_st ops (run rinit ops) = true.
Proof. exact c09_model_accepted_st. Qed.

Theorem C09_router_program_accepted : forall pops, c09_lviolates (LC pops (prun pinit pops)) = false.
Proof. exact c09_router_program_accepted. Qed.
Print Assumptions C09_router_program_accepted.
Print Assumptions C09_started_freezes_registrations.
Print Assumptions C09_build_nests.
Print Assumptions C09_nesting.
Print Assumptions C09_chain_membership.
Print Assumptions C09_pub_decorator_order.
Print Assumptions C09_sub_decorator_order.
Print Assumptions C09_order.
Print Assumptions C09_model_accepted.
Print Assumptions C09_model_accepted_all.
Print Assumptions C09_registrations_never_removed.
Print Assumptions C09_started_frozen.
Print Assumptions C09_start_outcome.
Print Assumptions C09_names_unique.
Print Assumptions C09_started_holds_prefix_with_failures.
Print Assumptions C09_machine_oracle_is_right.
Print Assumptions C09_wiring_is_generation_scan.
Print Assumptions C09_started_holds_prefix_partial.
Print Assumptions C09_decorator_lists_all.
Print Assumptions C09_snapshot_linearisation.
Print Assumptions C09_async_start_pending.
Print Assumptions C09_start_is_async_then_snap.
Print Assumptions C09_retry_leaves_no_residue.
Print Assumptions C09_retry_decorates_once.
Print Assumptions C09_retry_pinned_refuted.

(** non-vacuity: router-level 1, handler A (name 10), A's own 2, handler B (name 11), router-level 3
    (after both AddHandler calls: applies to both), B's own 4, decorators, Run, then registrations
    that come too late.  A: 1 2 3 around fn, B: 1 3 4. *)
Definition exA := HC 10 1 7 20 (PReal 1 8) 30 1.
Definition exB := HC 11 1 7 21 (PReal 1 8) 31 2.
Definition exOps := [OAddMw 1 None; OAddHandler exA; OAddHMw 10 2 None; OAddHandler exB; OAddMw 3 None;
                     OAddHMw 11 4 None; OAddPubDec 50 0; OAddSubDec 60 0; OAddPubDec 51 0; OAddSubDec 61 0; OStart;
                     OAddMw 5 None; OAddHMw 10 6 None; OAddPubDec 52 0].
Example C09_witness_A :
  map (fun p => c09_proj (snd p)) (deliver (exec rinit exOps) (DL 1 20 cx0 (0%N, false) (Ret [1%N]) PubAccept)) =
  [[OSub 60 (ctx_of exA); OSub 61 (ctx_of exA); OEnter 1; OEnter 2; OEnter 3; OFn; OExit 3; OExit 2; OExit 1; OPubDec 50; OPubDec 51; OPub]].
Proof. reflexivity. Qed.
Example C09_witness_B :
  map (fun p => c09_proj (snd p)) (deliver (exec rinit exOps) (DL 1 21 cx0 (0%N, false) Panic PubAccept)) =
  [[OSub 60 (ctx_of exB); OSub 61 (ctx_of exB); OEnter 1; OEnter 3; OEnter 4; OFn]].
Proof. reflexivity. Qed.
(** a handler added and started later picks up the late registrations too *)
Example C09_witness_late_handler :
  map (fun p => c09_proj (snd p))
      (deliver (exec rinit (exOps ++ [OAddHandler (HC 12 1 7 22 PNil 0 3); OStart])) (DL 1 22 cx0 (0%N, false) (Ret []) PubAccept)) =
  [[OSub 60 (CX 12 ty_nil 7 22 0); OSub 61 (CX 12 ty_nil 7 22 0); OEnter 1; OEnter 3; OEnter 5; OFn; OExit 5; OExit 3; OExit 1]].
Proof. reflexivity. Qed.

(** a handler added to the running router; publisher decorator 53's constructor fails once, subscriber
    decorator 62's fails once: the first two RunHandlers start nobody, the third starts it, and every
    decorator acts ONCE (repaired: the undecorated publisher is put back when the subscriber cannot be decorated) *)
Definition exRetry := exOps ++ [OAddPubDec 53 1; OAddSubDec 62 1; OAddHandler (HC 12 1 7 22 (PReal 1 8) 33 3)].
Example C09_witness_failing_constructors :
  map (fun ops => map (fun p => c09_proj (snd p)) (deliver (exec rinit ops) (DL 1 22 cx0 (0%N, false) (Ret [1%N]) PubAccept)))
      [exRetry ++ [OStart]; exRetry ++ [OStart; OStart]; exRetry ++ [OStart; OStart; OStart]] =
  [[]; [];
   [[OSub 60 (CX 12 8 7 22 33); OSub 61 (CX 12 8 7 22 33); OSub 62 (CX 12 8 7 22 33);
     OEnter 1; OEnter 3; OEnter 5; OFn; OExit 5; OExit 3; OExit 1;
     OPubDec 50; OPubDec 51; OPubDec 52; OPubDec 53; OPub]]].
Proof. reflexivity. Qed.
(** Stop of A, then a new handler under A's name: it inherits A's middleware 2 and the late 6 *)
Example C09_witness_stop_and_readd :
  map (fun p => c09_proj (snd p))
      (deliver (exec rinit (exOps ++ [OStop 10; OAddHandler (HC 10 1 7 23 PNil 0 4); OAddHMw 10 7 None; OStart]))
               (DL 1 23 cx0 (0%N, false) (Ret []) PubAccept)) =
  [[OSub 60 (CX 10 ty_nil 7 23 0); OSub 61 (CX 10 ty_nil 7 23 0);
    OEnter 1; OEnter 2; OEnter 3; OEnter 5; OEnter 6; OEnter 7; OFn; OExit 7; OExit 6; OExit 5; OExit 3; OExit 2; OExit 1]].
Proof. reflexivity. Qed.

(** registrations in the window between RunHandlers' return and the goroutine's copy: router-level 8 and
    A's own 9 are registered after the (asynchronous) start and before the copy: both in A's chain;
    decorator 54 registered in the window is NOT applied (frozen by RunHandlers); 10 after the copy: not in. *)
Example C09_witness_window :
  map (fun p => c09_proj (snd p))
      (deliver (exec rinit [OAddHandler exA; OAddMw 1 None; OAddPubDec 50 0; OStartAsync;
                            OAddMw 8 None; OAddHMw 10 9 None; OAddPubDec 54 0; OSnap 10; OAddMw 10 None])
               (DL 1 20 cx0 (0%N, false) (Ret [1%N]) PubAccept)) =
  [[OEnter 1; OEnter 8; OEnter 9; OFn; OExit 9; OExit 8; OExit 1; OPubDec 50; OPub]].
Proof. reflexivity. Qed.

(** generations: A (own middleware 2) is started, stopped, added again with other topics and its own 7, started
    again: the scan names the SECOND AddHandler and the prefix before the second start *)
Example C09_witness_generation_scan :
  let ops := [OAddHandler exA; OAddHMw 10 2 None; OStart; OStop 10; OAddHandler (HC 10 1 7 23 PNil 0 4); OAddHMw 10 7 None; OStart; OAddMw 9 None] in
  gspec 10 ops = Some (HS (HC 10 1 7 23 PNil 0 4)
                          (Some (ST [MR false 10 2 None; MR false 10 7 None] [] [])))
  /\ find_handler 10 (exec rinit ops) = gspec 10 ops.
Proof. split; reflexivity. Qed.
