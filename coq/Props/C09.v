(** C09 — Middlewares nest in registration order per handler; decorators apply in order.
    Model: Router/Wiring.v — [build] is the reverse wrapping loop of handler.run with its filter,
    [decorate_pub] the reverse loop of decorateHandlerPublisher, [decorate_sub] the context decorator
    followed by the forward loop of decorateHandlerSubscriber, middlewares/decorators are tagging
    wrappers ([mw_sem], [pdec_sem], [sdec_sem]); [exec] is the registration state machine.
    Quantifiers: every program, every snapshot / decorator list (no length bound), every inner
    handler function, every delivery. *)
From WM Require Import Base.Prelude Message.Model Handler.RouterHandle Router.Wiring Router.WiringSpec Router.WiringProofs.

(** What a handler freezes: if handler [n] was added in [pre] and not started in [pre], then after
    [pre ++ Run/RunHandlers :: post] — whatever [post] registers — its snapshot is exactly the
    middleware registrations of [pre] (router-level registrations made AFTER its AddHandler
    included, registrations made after the start excluded), and its decorator lists are those of
    [pre]. *)
Theorem C09_started_freezes_registrations : forall pre post n h,
  spec_cfg n pre = Some h -> spec_started n pre = None ->
  find_handler n (exec rinit (pre ++ OStart :: post)) =
  Some (HS h (Some (ST (regs_of pre) (pdecs_of pre) (sdecs_of pre)))).
Proof. exact started_freezes. Qed.

(** the wrapping loop, for ALL snapshots and ALL inner handler functions: entries of exactly the
    effective middlewares in registration order, then the inner handler, then the exits mirrored
    (none after a panic); appended messages innermost first *)
Theorem C09_build_nests : forall snap n (f : hfun) c,
  let eff := effective n snap in
  build snap n f c =
  (map EEnter (map r_id eff) ++ fst (f c) ++ exits (map r_id eff) (snd (f c)),
   add_apps (flat_map app_of (rev eff)) (snd (f c))).
Proof. exact build_spec. Qed.

(** in the trace of one copy: the enter/exit marks around the handler function *)
Theorem C09_nesting : forall h s d,
  mw_marks (dispatch h s d) =
  map EEnter (map r_id (effective (h_name h) (s_chain s)))
  ++ [EFn (h_fn h) (overlay (d_ctx d) h)]
  ++ exits (map r_id (effective (h_name h) (s_chain s))) (chain_outcome h s d).
Proof. exact c09_nesting. Qed.

(** exactly the router-level middlewares plus the handler's own — never another handler's *)
Theorem C09_chain_membership : forall n chain r,
  In r (effective n chain) <-> In r chain /\ (r_router r = true \/ r_hname r = n).
Proof. exact c09_chain_membership. Qed.

(** publisher decorators, for ALL lists and ALL publishers: they see an outgoing batch in the order
    they were added, before the publisher *)
Theorem C09_pub_decorator_order : forall decs p t outs,
  decorate_pub decs p t outs =
  (map (fun x => EPubDec x t (map fst outs)) decs ++ fst (p t outs), snd (p t outs)).
Proof. exact decorate_pub_spec. Qed.

(** subscriber decorators, for ALL lists: an incoming message passes them in the order they were
    added, after the Router's context decorator (they all see the handler's context values) *)
Theorem C09_sub_decorator_order : forall h decs c,
  decorate_sub h decs c = (map (fun x => ESubDec x (overlay c h)) decs, overlay c h).
Proof. exact decorate_sub_spec. Qed.

(** the complete order of one copy's trace *)
Theorem C09_order : forall h s d, c09_proj (dispatch h s d) = spec_order h s d.
Proof. exact c09_order. Qed.

(** every delivery of every program passes the acceptor that judges implementation observations *)
Theorem C09_model_accepted : forall ops, c09_monitor ops (run rinit ops) = true.
Proof. exact c09_model_accepted. Qed.

Print Assumptions C09_started_freezes_registrations.
Print Assumptions C09_build_nests.
Print Assumptions C09_nesting.
Print Assumptions C09_chain_membership.
Print Assumptions C09_pub_decorator_order.
Print Assumptions C09_sub_decorator_order.
Print Assumptions C09_order.
Print Assumptions C09_model_accepted.

(** non-vacuity: router-level 1, handler A (name 10), A's own 2, handler B (name 11), router-level 3
    (after both AddHandler calls: applies to both), B's own 4, decorators, Run, then registrations
    that come too late.  A: 1 2 3 around fn, B: 1 3 4. *)
Definition exA := HC 10 1 7 20 (PReal 1 8) 30 1.
Definition exB := HC 11 1 7 21 (PReal 1 8) 31 2.
Definition exOps := [OAddMw 1 None; OAddHandler exA; OAddHMw 10 2 None; OAddHandler exB; OAddMw 3 None;
                     OAddHMw 11 4 None; OAddPubDec 50; OAddSubDec 60; OAddPubDec 51; OAddSubDec 61; OStart;
                     OAddMw 5 None; OAddHMw 10 6 None; OAddPubDec 52].
Example C09_witness_A :
  map (fun p => c09_proj (snd p)) (deliver (exec rinit exOps) (DL 1 20 cx0 (Ret [1%N]) PubAccept)) =
  [[OSub 60 (ctx_of exA); OSub 61 (ctx_of exA); OEnter 1; OEnter 2; OEnter 3; OFn; OExit 3; OExit 2; OExit 1; OPubDec 50; OPubDec 51; OPub]].
Proof. reflexivity. Qed.
Example C09_witness_B :
  map (fun p => c09_proj (snd p)) (deliver (exec rinit exOps) (DL 1 21 cx0 Panic PubAccept)) =
  [[OSub 60 (ctx_of exB); OSub 61 (ctx_of exB); OEnter 1; OEnter 3; OEnter 4; OFn]].
Proof. reflexivity. Qed.
(** a handler added and started later picks up the late registrations too *)
Example C09_witness_late_handler :
  map (fun p => c09_proj (snd p))
      (deliver (exec rinit (exOps ++ [OAddHandler (HC 12 1 7 22 PNil 0 3); OStart])) (DL 1 22 cx0 (Ret []) PubAccept)) =
  [[OSub 60 (CX 12 ty_nil 7 22 0); OSub 61 (CX 12 ty_nil 7 22 0); OEnter 1; OEnter 3; OEnter 5; OFn; OExit 5; OExit 3; OExit 1]].
Proof. reflexivity. Qed.
