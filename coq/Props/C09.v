From WM Require Import Base.Prelude Message.Model Handler.RouterHandle Router.Wiring Router.WiringSpec Router.WiringProofs.
Theorem C09_dispatch_spec : forall h s d, dispatch h s d = spec_trace h s d.
Proof. exact dispatch_spec. Qed.
Print Assumptions C09_dispatch_spec.
