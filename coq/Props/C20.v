(** C20 — Pub/Sub decorators are transparent; delay stamps and metrics count exactly. *)
From WM Require Import Base.Prelude Message.Model Decor.Model Decor.Monitor Decor.Proofs.

Theorem C20_close_once : forall (A : Type) (st : list A) r, pclose st r = (1, r).
Proof. exact @pclose_once. Qed.
Print Assumptions C20_close_once.
