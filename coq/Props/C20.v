(** C20 — Pub/Sub decorators are transparent; delay stamps and metrics count exactly.
    Model: Decor/Model.v (decorator stacks as stream transformers over message objects, the C03
    settlement machine for received messages, Prometheus as a log of label tuples); acceptors:
    Decor/Monitor.v.  Quantifiers: every stack (any depth, any nesting order, the same metrics
    decorator any number of times), every batch (any length, any mix of delay sources), every
    PublisherConfig, every answer script of the wrapped publisher, every sequence of calls over a
    heap of (possibly re-published) objects, every emit/Ack/Nack/Close sequence, every sequence of
    handler outcomes. *)
From WM Require Import Base.Prelude Message.Model Handler.RouterHandle Decor.RouterMetrics Decor.Model Decor.Monitor Decor.Heap Decor.Proofs Decor.SubProofs Decor.SubAccept Decor.HeapProofs Decor.HeapRefine Decor.HeapCount Decor.HeapTrail Decor.Labels Decor.MwStack Decor.MwStackProofs.

(** ** publisher decorators are transparent *)

(** one Publish through any stack: either a delay layer rejects the batch — then the wrapped
    publisher is not called at all, that error is returned and the script is untouched — or the
    wrapped publisher is called exactly once, with the same topic and the whole batch, and its
    answer (nil or error) is returned unchanged *)
Theorem C20_publish_transparent : forall st script topic msgs,
  match stack_reject st msgs with
  | Some e => inner_calls (po_ev (publish st script topic msgs)) = []
              /\ po_res (publish st script topic msgs) = Some e
              /\ po_script (publish st script topic msgs) = script
  | None => inner_calls (po_ev (publish st script topic msgs)) = [(topic, po_msgs (publish st script topic msgs))]
            /\ po_res (publish st script topic msgs) = hd None script
            /\ po_script (publish st script topic msgs) = tl script
            /\ po_msgs (publish st script topic msgs) = map (stack_final st) msgs
  end.
Proof. exact publish_spec. Qed.

(** same objects in the same order with the same content, whatever happens (also when rejected) *)
Theorem C20_publish_same_objects : forall st script topic msgs,
  map pm_id (po_msgs (publish st script topic msgs)) = map pm_id msgs
  /\ map pm_rest (po_msgs (publish st script topic msgs)) = map pm_rest msgs.
Proof. exact publish_ids. Qed.

(** per message: identity, content, context delay and context names untouched; every transform
    of the stack applied exactly once, outermost first *)
Theorem C20_publish_message_untouched : forall st m,
  pm_id (stack_final st m) = pm_id m /\ pm_rest (stack_final st m) = pm_rest m
  /\ pm_ctx (stack_final st m) = pm_ctx m /\ pm_gen (stack_final st m) = pm_gen m
  /\ pm_hname (stack_final st m) = pm_hname m /\ pm_pname (stack_final st m) = pm_pname m.
Proof. exact stack_final_untouched. Qed.

Theorem C20_transform_once_in_order : forall st m,
  pm_trail (stack_final st m) = pm_trail m ++ transform_tags st.
Proof. exact stack_final_trail. Qed.

(** Close reaches the wrapped publisher / subscriber exactly once and its result comes back *)
Theorem C20_close_once : forall (A : Type) (st : list A) r, pclose st r = (1, r).
Proof. exact @pclose_once. Qed.

(** ** delay.Publisher *)

(** precedence: metadata already present > delay in the context > default generator > none *)
Theorem C20_delay_precedence_metadata : forall g a m, nonempty (pm_for m) = true -> decide g a m = Keep.
Proof. exact decide_metadata. Qed.
Theorem C20_delay_precedence_context : forall g a m d,
  nonempty (pm_for m) = false -> pm_ctx m = Some d -> decide g a m = Stamp SrcCtx d.
Proof. exact decide_ctx. Qed.
Theorem C20_delay_precedence_generator : forall a m,
  nonempty (pm_for m) = false -> pm_ctx m = None ->
  decide true a m = match pm_gen m with GDelay d => Stamp SrcGen d | GErr e => Reject e end.
Proof. exact decide_gen. Qed.
Theorem C20_delay_precedence_none : forall a m,
  nonempty (pm_for m) = false -> pm_ctx m = None ->
  decide false a m = if a then PassBare else Reject e_nodelay.
Proof. exact decide_none. Qed.

(** a stamp writes both keys from the same Delay value ... *)
Theorem C20_delay_stamp_both_keys : forall d m,
  pm_for (stamp d m) = MDur (d_dur d) /\ pm_until (stamp d m) = MTime (d_sec d)
  /\ nonempty (pm_for (stamp d m)) = true.
Proof. exact stamp_both. Qed.

(** ... and there is exactly one: through any stack (several delay layers, any configuration) a
    forwarded message is either unchanged or stamped once, and stamped only if it carried no delay *)
Theorem C20_delay_exactly_one_stamp : forall st m,
  stack_stamp st m = m \/ exists d, stack_stamp st m = stamp d m /\ nonempty (pm_for m) = false.
Proof. exact stack_stamp_once. Qed.

(** the delay metadata the wrapped publisher sees is what the precedence function prescribes *)
Theorem C20_delay_forwarded_metadata : forall st m,
  pm_for (stack_final st m) = pm_for (stack_stamp st m)
  /\ pm_until (stack_final st m) = pm_until (stack_stamp st m).
Proof. exact stack_final_delay. Qed.

(** delayed-until = clock + delayed-for, for For and (inside the range of time.Duration) Until *)
Theorem C20_delay_for_agrees : forall now d,
  d_sec (mk_for now d) = ((now + d_dur (mk_for now d)) / ns_per_s)%Z.
Proof. exact for_agrees. Qed.
Theorem C20_delay_until_agrees : forall now t, (min_dur <= t - now <= max_dur)%Z ->
  d_sec (mk_until now t) = ((now + d_dur (mk_until now t)) / ns_per_s)%Z.
Proof. exact until_agrees. Qed.
(** the acceptor run on the implementation's Delay values accepts whatever agrees *)
Theorem C20_delay_agree_acceptor_sound : forall t0 t1 now d,
  (t0 <= now <= t1)%Z -> d_sec d = ((now + d_dur d) / ns_per_s)%Z -> agree_within t0 t1 d = true.
Proof. exact agree_within_sound. Qed.

(** two clocks: a Delay is built at clock reading [c] and stamped at some later time.  The stamp
    is the Delay as built — Until(t) is stamped with exactly t, For(d) with c + d — and no clock
    reading at stamping time enters ([stamp], [publish] take none): a Delay kept in a context or
    returned by a caching generator and stamped seconds later still carries its own deadline *)
Theorem C20_delay_until_stamped_exactly : forall c t m,
  pm_until (stamp (mk_until c t) m) = MTime (t / ns_per_s)%Z
  /\ pm_for (stamp (mk_until c t) m) = MDur (sat (t - c)%Z).
Proof. exact stamp_until_exact. Qed.
Theorem C20_delay_for_stamped_exactly : forall c d m,
  pm_until (stamp (mk_for c d) m) = MTime ((c + d) / ns_per_s)%Z
  /\ pm_for (stamp (mk_for c d) m) = MDur d.
Proof. exact stamp_for_exact. Qed.

(** the batch is atomic: the result of the delay loop is the first rejection; if there is none the
    whole batch goes on, each message with its own decision applied *)
Theorem C20_delay_batch_atomic : forall g a t msgs,
  db_res (delay_batch g a t msgs) = first_reject g a msgs
  /\ (first_reject g a msgs = None ->
      db_msgs (delay_batch g a t msgs) = map (fun m => apply_decision (decide g a m) m) msgs).
Proof. exact delay_batch_spec. Qed.
Theorem C20_delay_rejection_publishes_nothing : forall g a st msgs e,
  first_reject g a msgs = Some e -> stack_reject (PDelay g a :: st) msgs = Some e.
Proof. exact delay_layer_rejects. Qed.
(** no generator, AllowNoDelay off: one message without a delay anywhere in the batch and the
    call fails with "message doesn't have a delay set"; AllowNoDelay on: never rejected *)
Theorem C20_delay_none_rejected : forall a msgs m,
  a = false -> In m msgs -> nonempty (pm_for m) = false -> pm_ctx m = None ->
  first_reject false a msgs = Some e_nodelay.
Proof. exact no_delay_rejected. Qed.
Theorem C20_delay_allow_no_delay : forall msgs, first_reject false true msgs = None.
Proof. exact allow_never_rejects. Qed.

(** ** publish metric *)

(** one call through any stack: exactly one observation iff the call reaches a metrics layer with
    a non-empty batch whose first object was not counted before, none otherwise — however many
    metrics layers there are; its success label is "the call returned nil" *)
Theorem C20_publish_counted_once : forall st script topic msgs,
  po_obs (publish st script topic msgs) =
  match msgs with
  | [] => []
  | m0 :: _ => if reaches_metrics st msgs && negb (pm_mark m0)
               then [pub_label (first_metrics_name st) m0 (po_res (publish st script topic msgs))]
               else []
  end.
Proof. exact publish_obs. Qed.

(** every sequence of calls over a heap of objects: the observation log is exactly the
    specification's, call by call *)
Theorem C20_publish_sequence_counted : forall st calls s,
  ps_obs (fold_left (pstep st) calls s) = ps_obs s ++ spec_pub_obs st (pobs_run st s calls).
Proof. exact prun_obs. Qed.

(** every run of the model is accepted by the acceptor that judges the implementation *)
Theorem C20_publish_model_accepted : forall st heap script calls tab,
  counts_agree plabel_eqb tab (ps_obs (prun st heap script calls)) = true ->
  pub_monitor st (pobs_run st (PS heap script [] [] []) calls) tab = true.
Proof. exact pub_monitor_model. Qed.

(** ** Publish in place: the same *Message several times in one batch (Decor/Heap.v) *)

(** no repeated position in the batch: the in-place model IS the by-value model (written back),
    so every theorem above holds of it; also for whole call sequences *)
Theorem C20_inplace_refines : forall st script topic idx h, NoDup idx -> hvalid_all h idx ->
  ho_script (publish_h st script topic idx h) = po_script (publish st script topic (hreads h idx))
  /\ ho_ev (publish_h st script topic idx h) = po_ev (publish st script topic (hreads h idx))
  /\ ho_obs (publish_h st script topic idx h) = po_obs (publish st script topic (hreads h idx))
  /\ ho_res (publish_h st script topic idx h) = po_res (publish st script topic (hreads h idx))
  /\ ho_heap (publish_h st script topic idx h) = write h idx (po_msgs (publish st script topic (hreads h idx))).
Proof. exact publish_h_refines. Qed.
Theorem C20_inplace_sequence_refines : forall st calls s,
  good_calls (length (ps_heap s)) calls ->
  fold_left (pstep_h st) calls s = fold_left (pstep st) calls s.
Proof. exact prun_h_refines. Qed.

(** ANY batch, repetitions allowed: identities and contents untouched; the wrapped publisher is
    called at most once, with the same positions in order on the same topic, and its answer comes
    back unchanged; without a call the result is an error and the script is untouched *)
Theorem C20_duplicates_transparent : forall st script topic idx h,
  map pm_id (ho_heap (publish_h st script topic idx h)) = map pm_id h
  /\ map pm_rest (ho_heap (publish_h st script topic idx h)) = map pm_rest h
  /\ ((inner_calls (ho_ev (publish_h st script topic idx h)) = []
       /\ (exists e, ho_res (publish_h st script topic idx h) = Some e)
       /\ ho_script (publish_h st script topic idx h) = script)
      \/ (inner_calls (ho_ev (publish_h st script topic idx h))
          = [(topic, hreads (ho_heap (publish_h st script topic idx h)) idx)]
          /\ ho_res (publish_h st script topic idx h) = hd None script
          /\ ho_script (publish_h st script topic idx h) = tl script)).
Proof. exact publish_h_shape. Qed.
Theorem C20_duplicates_acceptor : forall st script topic idx h,
  call_ok_dup (PObs topic (hreads h idx) (ho_ev (publish_h st script topic idx h)) (hd None script)
                    (ho_res (publish_h st script topic idx h))
                    (hreads (ho_heap (publish_h st script topic idx h)) idx)) = true.
Proof. exact publish_h_call_ok_dup. Qed.

(** the publish metric of one in-place call, ANY batch (the same object any number of times): one
    observation iff the call reaches a metrics layer with a non-empty batch whose first position holds
    an uncounted object; label success = the call returned nil.  (Simulation between the in-place and
    the by-value run that ignores the transform trail — the only thing repetition changes.) *)
Theorem C20_inplace_counted_once : forall st script topic idx h, hvalid_all h idx ->
  ho_obs (publish_h st script topic idx h) =
  match hreads h idx with
  | [] => []
  | m0 :: _ => if reaches_metrics st (hreads h idx) && negb (pm_mark m0)
               then [pub_label (first_metrics_name st) m0 (ho_res (publish_h st script topic idx h))]
               else []
  end.
Proof. exact publish_h_obs. Qed.
Theorem C20_inplace_simulates : forall st script topic idx h msgs,
  hvalid_all h idx -> map untrail (hreads h idx) = map untrail msgs ->
  ho_obs (publish_h st script topic idx h) = po_obs (publish st script topic msgs)
  /\ ho_res (publish_h st script topic idx h) = po_res (publish st script topic msgs)
  /\ ho_script (publish_h st script topic idx h) = po_script (publish st script topic msgs).
Proof. exact publish_h_simulates. Qed.

(** the acceptor the check runs ([pub_monitor_any]) accepts EVERY run of the in-place model: any
    stack, heap, script and call sequence, batches with or without repeated objects *)
Theorem C20_publish_inplace_model_accepted : forall st heap script calls tab,
  valid_calls (length heap) calls ->
  counts_agree plabel_eqb tab (ps_obs (prun_h st heap script calls)) = true ->
  pub_monitor_any st (pobs_run_h st (PS heap script [] [] []) calls) tab = true.
Proof. exact pub_monitor_any_model_all. Qed.

(** the trail on a repeated object: in a call that reaches the wrapped publisher every object has
    been through every transform of the stack once per POSITION it occupies in the batch *)
Theorem C20_duplicates_trail_multiplicity : forall st script topic idx h,
  hvalid_all h idx ->
  inner_calls (ho_ev (publish_h st script topic idx h)) <> [] ->
  forall i m, nth_error h i = Some m ->
  exists m', nth_error (ho_heap (publish_h st script topic idx h)) i = Some m'
             /\ pm_trail m' = pm_trail m ++ tag_block (count_nat i idx) (transform_tags st).
Proof. exact publish_h_trails. Qed.

(** the COMPLETE acceptor of publisher cases ([pub_monitor_full] = [pub_monitor_any] + the trail
    clause with multiplicities, [trail_ok_dup]) accepts every run of the in-place model over a heap of
    objects with distinct identities: any stack, script, call sequence, repeated objects or not *)
Theorem C20_publish_full_model_accepted : forall st heap script calls tab,
  NoDup (map pm_id heap) -> valid_calls (length heap) calls ->
  counts_agree plabel_eqb tab (ps_obs (prun_h st heap script calls)) = true ->
  pub_monitor_full st (pobs_run_h st (PS heap script [] [] []) calls) tab = true.
Proof. exact pub_monitor_full_model. Qed.

(** ** a wrapped publisher that panics (script answer [e_panic]) *)
Theorem C20_publish_panic_escapes : forall st script topic msgs,
  stack_reject st msgs = None -> hd None script = Some e_panic ->
  po_res (publish st script topic msgs) = Some e_panic.
Proof. exact publish_panic_escapes. Qed.
(** the label the model uses is the repaired one: a panic is a failure; the pinned decorator
    recorded it as a success (refuted, repaired by fix 9061e12) *)
Theorem C20_publish_label_repaired : forall n m r, pub_label n m r = pub_label_v true n m r.
Proof. exact pub_label_is_fixed. Qed.
Theorem C20_publish_panic_refuted :
  pub_success true (Some e_panic) = false /\ pub_success false (Some e_panic) = true.
Proof. exact pub_panic_labels. Qed.

(** ** subscriber decorators *)

(** one pass through any stack: content, settlement state and context names untouched, every
    transform applied once, innermost first *)
Theorem C20_subscribe_message_untouched : forall stk m,
  sm_rest (spass stk m) = sm_rest m /\ sm_st (spass stk m) = sm_st m
  /\ sm_hname (spass stk m) = sm_hname m /\ sm_sname (spass stk m) = sm_sname m
  /\ sm_trail (spass stk m) = sm_trail m ++ rev (stransform_tags stk).
Proof. exact spass_untouched. Qed.

(** same objects in the same order: exactly what the wrapped subscriber sent before Close *)
Theorem C20_subscribe_same_order : forall stk heap ops,
  map fst (sw_out (srun stk heap ops)) = valid_emits heap ops.
Proof. exact srun_out. Qed.

(** a draining Close: everything the wrapped subscriber hands out before its own Close has returned
    (ops [a] without a Close, then the Close) reaches the consumer, in order, and nothing after it *)
Theorem C20_subscribe_delivers_until_close : forall stk heap a post,
  count_closes a = 0 ->
  map fst (sw_out (srun stk heap (a ++ SoClose :: post))) = valid_emits heap a.
Proof. exact srun_out_until_close. Qed.
Theorem C20_subscribe_all_emits_valid : forall heap a,
  count_closes a = 0 ->
  valid_emits heap a
  = filter (fun i => match nth_error heap i with Some _ => true | None => false end)
           (flat_map (fun o => match o with SoEmit i => [i] | _ => [] end) a).
Proof. exact valid_emits_all. Qed.

(** settling the received message settles the wrapped subscriber's message: the object's state
    is the C03 machine run on exactly the Ack/Nack calls made on it; the first one wins *)
Theorem C20_settlement_transparent : forall stk heap ops i m,
  nth_error heap i = Some m ->
  exists m', nth_error (sw_heap (srun stk heap ops)) i = Some m'
             /\ sm_st m' = final_state m i ops /\ sm_rest m' = sm_rest m.
Proof. exact srun_state. Qed.
Theorem C20_settlement_first_wins : forall m i ops,
  st (sm_st m) = Unsettled ->
  st (final_state m i ops) = match settle_ops i ops with
                             | [] => Unsettled
                             | OpAck :: _ => Acked
                             | OpNack :: _ => Nacked
                             | _ :: _ => st (final_state m i ops)
                             end.
Proof. exact final_state_first_wins. Qed.

Theorem C20_subscriber_close_once : forall stk heap ops, sw_closes (srun stk heap ops) = count_closes ops.
Proof. exact srun_closes_total. Qed.

(** every delivered and settled message is counted exactly once with the label of the settlement
    that won, nothing else is counted — any stack with the metrics decorator once or more *)
Theorem C20_received_counted_once : forall stk heap ops i m,
  has_smetrics stk = true -> nth_error heap i = Some m -> sfresh m = true ->
  obs_of i (sw_obs (srun stk heap ops)) =
  if existsb (Nat.eqb i) (emitted_before_close ops) then
    match st (final_state m i ops) with
    | Unsettled => []
    | Acked => [(i, fst (slabel_of stk m), snd (slabel_of stk m), true)]
    | Nacked => [(i, fst (slabel_of stk m), snd (slabel_of stk m), false)]
    end
  else [].
Proof. exact received_counted_once. Qed.

(** the aggregated counter table: label by label the model's log has exactly the specified
    counts (one per delivered and settled object), for every stack — also one without the metrics
    decorator, which observes nothing *)
Theorem C20_received_table_counts : forall stk heap ops l,
  forallb sfresh heap = true ->
  count slabel_eqb l (map sobs_label (sw_obs (srun stk heap ops)))
  = count slabel_eqb l (spec_sub_obs stk heap ops).
Proof. exact srun_counts. Qed.

(** every run of the model — any stack, any heap of fresh objects, any emit/Ack/Nack/Close
    sequence incl. re-deliveries — is accepted by the acceptor that judges the implementation:
    delivery order, one transform pass per delivery, final settlements, Close, counter table *)
Theorem C20_subscribe_model_accepted : forall stk heap ops crets tab,
  forallb sfresh heap = true ->
  length crets = count_closes ops ->
  counts_agree slabel_eqb tab (map sobs_label (sw_obs (srun stk heap ops))) = true ->
  sub_monitor stk heap ops (sseen_of_run stk heap ops crets tab) = true.
Proof. exact sub_monitor_model. Qed.

(** (same statement under the name DESIGN section 9 uses) the list-level acceptor [sub_monitor] accepts
    every trace of the subscriber model that starts from fresh objects — which is every trace the
    harness can produce: objects enter a case unmarked and without pending watchers *)
Theorem C20_subscriber_model_accepted : forall stk heap ops crets tab,
  forallb sfresh heap = true ->
  length crets = count_closes ops ->
  counts_agree slabel_eqb tab (map sobs_label (sw_obs (srun stk heap ops))) = true ->
  sub_monitor stk heap ops (sseen_of_run stk heap ops crets tab) = true.
Proof. exact sub_monitor_model. Qed.

(** ** label values (labels.go + the fallbacks of the three recorders) *)

(** publish_time_seconds: labelled from the FIRST message: handler_name = context name else
    "<no handler>"; publisher_name = context name else the struct name of what the outermost metrics
    decorator wraps; success = the call returned nil *)
Theorem C20_publish_labels : forall st script topic msgs l,
  In l (po_obs (publish st script topic msgs)) ->
  exists m0 rest, msgs = m0 :: rest
    /\ fst (fst l) = or_default no_handler (pm_hname m0)
    /\ snd (fst l) = or_default (first_metrics_name st) (pm_pname m0)
    /\ snd l = match po_res (publish st script topic msgs) with None => true | Some _ => false end.
Proof. exact publish_labels. Qed.
Theorem C20_publish_labels_in_router : forall st script topic m0 rest l,
  pm_hname m0 <> 0%N -> pm_pname m0 <> 0%N ->
  In l (po_obs (publish st script topic (m0 :: rest))) ->
  fst (fst l) = pm_hname m0 /\ snd (fst l) = pm_pname m0.
Proof. exact publish_labels_in_router. Qed.
Theorem C20_publish_labels_standalone : forall st script topic m0 rest l,
  pm_hname m0 = 0%N -> pm_pname m0 = 0%N ->
  In l (po_obs (publish st script topic (m0 :: rest))) ->
  fst (fst l) = no_handler /\ snd (fst l) = first_metrics_name st.
Proof. exact publish_labels_standalone. Qed.
(** subscriber_messages_received_total: names from the object's context, else "<no handler>" / the
    struct name of what the INNERMOST metrics decorator wraps; acked = the settlement that won *)
Theorem C20_received_labels : forall stk heap ops i m o,
  has_smetrics stk = true -> nth_error heap i = Some m -> sfresh m = true ->
  In o (obs_of i (sw_obs (srun stk heap ops))) ->
  fst (fst (sobs_label o)) = or_default no_handler (sm_hname m)
  /\ snd (fst (sobs_label o)) = or_default (first_smetrics_name stk) (sm_sname m)
  /\ snd (sobs_label o) = match st (final_state m i ops) with Acked => true | _ => false end.
Proof. exact received_labels. Qed.
(** handler_execution_time_seconds: handler_name is the context name AS IS (no fallback: the empty
    string outside a Router), success per outcome *)
Theorem C20_handler_labels : forall fixed k calls l,
  In l (run_mw fixed k calls) -> exists c, In c calls /\ fst l = fst c /\ snd l = success_label fixed (snd c).
Proof. exact handler_labels. Qed.

(** ** inside a Router (composition with C02's [handle]) *)

(** the handler's outputs hit a wrapped publisher that PANICS: the Router nacks the consumed message
    (C02), the subscriber counter says nacked, the publish metric records exactly one failed call
    (the repaired decorator), the handler metric says success (the handler returned without error) *)
Theorem C20_router_publisher_panics : forall h s p n,
  let m := RMsg HOk (S n) PubPanic in
  st (fst (rm_handle m)) = Nacked
  /\ rm_sobs h s m = [(h, s, false)]
  /\ rm_pobs h p m = [(h, p, false)]
  /\ run_mw true 1 [(h, rm_out m)] = [(h, true)].
Proof. exact router_publisher_panics. Qed.
(** every message: acked label iff C02's [handled_ok]; one publish observation iff the handler
    returned a non-empty output without error, successful iff the publisher accepted *)
Theorem C20_router_metrics : forall h s p m,
  rm_sobs h s m = [(h, s, handled_ok PubReal (rm_pub m) (rm_chain m))]
  /\ rm_pobs h p m = match rm_out m, rm_nouts m with
                     | HOk, S _ => [(h, p, match rm_pub m with PubAccept => true | _ => false end)]
                     | _, _ => []
                     end.
Proof. exact router_metrics_spec. Qed.

(** ** handler middleware *)

(** (repaired code) applied once: every invocation counted exactly once; success="true" exactly
    for the invocations that returned without error — errors AND panics are failures *)
Theorem C20_handler_counted_once : forall calls l, hcount l (run_mw true 1 calls) = hspec l calls.
Proof. exact mw_counted_once. Qed.
Theorem C20_handler_acceptor_sound : forall calls tab,
  (forall l, lookup hlabel_eqb l tab = hcount l (run_mw true 1 calls)) -> mw_monitor calls tab = true.
Proof. exact mw_monitor_sound. Qed.
(** k layers: k observations per invocation, all with the right label *)
Theorem C20_handler_layers : forall k calls l, hcount l (run_mw true k calls) = k * hspec l calls.
Proof. exact mw_counted_layers. Qed.
(** the pinned code recorded a panicking handler as a success (D11, repaired) *)
Theorem C20_handler_panic_refuted : exists calls l, hcount l (run_mw false 1 calls) <> hspec l calls.
Proof. exact mw_panic_refuted. Qed.
(** the middleware in a handler chain (Decor/MwStack.v: applications LM and Retry layers LR n in any
    order).  Repaired middleware (per-invocation mark): any chain behaves exactly like the chain with
    every application INSIDE another one removed, under the pinned semantics of a single application —
    applying the middleware again is a no-op; Retry outside, between or inside is unaffected *)
Theorem C20_handler_chain_idempotent : forall h st script,
  heval true st false h script = heval false (erase_inner false st) false h script.
Proof. exact heval_idempotent. Qed.
Theorem C20_handler_chain_runs_idempotent : forall h st top script,
  hrun true st h top script = hrun false (erase_inner false st) h top script.
Proof. exact hrun_idempotent. Qed.
(** k applications, Retry anywhere between them: exactly ONE observation per invocation of the
    chain, labelled with the outcome of that invocation *)
Theorem C20_handler_chain_counted_once : forall h st script,
  snd (heval true (LM :: st) false h script)
  = [(h, success_label true (fst (fst (heval true st true h script))))].
Proof. exact heval_once. Qed.
(** overlapping invocations ([interleave]: the log of a concurrent run is an interleaving of the
    per-invocation logs, because the repaired middleware's mark is per invocation): any number of
    applications, Retry anywhere inside, any number of invocations, ANY interleaving — exactly one
    observation per invocation, per label the count of the invocations run one after the other *)
Theorem C20_handler_concurrent_one_each : forall h st scripts L,
  interleave (conc_logs true (LM :: st) h scripts) L ->
  length L = length scripts
  /\ forall l, hcount l L = list_sum (map (hcount l) (conc_logs true (LM :: st) h scripts)).
Proof. exact conc_one_each. Qed.
Theorem C20_handler_interleaving_counts : forall (ls : list (list hlabel)) L l,
  interleave ls L -> hcount l L = list_sum (map (hcount l) ls).
Proof. exact interleave_count. Qed.

(** the pinned middleware applied twice counted twice (refuted; repaired by fix c7c0c5d) *)
Theorem C20_handler_chain_twice_refuted :
  snd (heval false [LM; LM] false 5%N [HOk]) = [(5%N, true); (5%N, true)].
Proof. exact heval_pinned_twice. Qed.

(** the flat model of the pinned middleware: applied twice counts every invocation twice *)
Theorem C20_handler_twice_refuted : exists calls l, hcount l (run_mw true 2 calls) <> hspec l calls.
Proof. exact mw_twice_refuted. Qed.

Print Assumptions C20_publish_transparent.
Print Assumptions C20_publish_same_objects.
Print Assumptions C20_publish_message_untouched.
Print Assumptions C20_transform_once_in_order.
Print Assumptions C20_close_once.
Print Assumptions C20_delay_precedence_metadata.
Print Assumptions C20_delay_precedence_context.
Print Assumptions C20_delay_precedence_generator.
Print Assumptions C20_delay_precedence_none.
Print Assumptions C20_delay_stamp_both_keys.
Print Assumptions C20_delay_exactly_one_stamp.
Print Assumptions C20_delay_forwarded_metadata.
Print Assumptions C20_delay_for_agrees.
Print Assumptions C20_delay_until_agrees.
Print Assumptions C20_delay_agree_acceptor_sound.
Print Assumptions C20_delay_until_stamped_exactly.
Print Assumptions C20_delay_for_stamped_exactly.
Print Assumptions C20_subscribe_delivers_until_close.
Print Assumptions C20_subscribe_all_emits_valid.
Print Assumptions C20_delay_batch_atomic.
Print Assumptions C20_delay_rejection_publishes_nothing.
Print Assumptions C20_delay_none_rejected.
Print Assumptions C20_delay_allow_no_delay.
Print Assumptions C20_publish_counted_once.
Print Assumptions C20_publish_sequence_counted.
Print Assumptions C20_publish_model_accepted.
Print Assumptions C20_inplace_refines.
Print Assumptions C20_inplace_sequence_refines.
Print Assumptions C20_duplicates_transparent.
Print Assumptions C20_duplicates_acceptor.
Print Assumptions C20_duplicates_trail_multiplicity.
Print Assumptions C20_publish_full_model_accepted.
Print Assumptions C20_inplace_counted_once.
Print Assumptions C20_inplace_simulates.
Print Assumptions C20_publish_inplace_model_accepted.
Print Assumptions C20_publish_panic_escapes.
Print Assumptions C20_publish_label_repaired.
Print Assumptions C20_publish_panic_refuted.
Print Assumptions C20_subscribe_message_untouched.
Print Assumptions C20_subscribe_same_order.
Print Assumptions C20_settlement_transparent.
Print Assumptions C20_settlement_first_wins.
Print Assumptions C20_subscriber_close_once.
Print Assumptions C20_received_counted_once.
Print Assumptions C20_received_table_counts.
Print Assumptions C20_subscribe_model_accepted.
Print Assumptions C20_publish_labels.
Print Assumptions C20_publish_labels_in_router.
Print Assumptions C20_publish_labels_standalone.
Print Assumptions C20_received_labels.
Print Assumptions C20_handler_labels.
Print Assumptions C20_subscriber_model_accepted.
Print Assumptions C20_router_publisher_panics.
Print Assumptions C20_router_metrics.
Print Assumptions C20_handler_counted_once.
Print Assumptions C20_handler_acceptor_sound.
Print Assumptions C20_handler_layers.
Print Assumptions C20_handler_panic_refuted.
Print Assumptions C20_handler_twice_refuted.
Print Assumptions C20_handler_chain_idempotent.
Print Assumptions C20_handler_chain_runs_idempotent.
Print Assumptions C20_handler_chain_counted_once.
Print Assumptions C20_handler_chain_twice_refuted.
Print Assumptions C20_handler_concurrent_one_each.
Print Assumptions C20_handler_interleaving_counts.

(** non-vacuity: metrics twice around a delay layer around a transform; a batch of two — the
    first already carries a delay, the second gets the generator's; one call of the wrapped
    publisher with both, one observation by the OUTER metrics layer, none by the inner one *)
Example C20_witness_stack :
  let m1 := PM 0 7 [] (MDur 5) (MTime 9) None (GErr 4) false 0 0 in
  let m2 := PM 1 8 [] MAbsent MAbsent None (GDelay (D 100 3)) false 0 0 in
  let o := publish [PMetrics 21; PMetrics 20; PDelay true false; PTransform 11] [Some 33%N] 6%N [m1; m2] in
  po_res o = Some 33%N
  /\ po_obs o = [(no_handler, 21%N, false)]
  /\ map pm_for (po_msgs o) = [MDur 5; MDur 3] /\ map pm_until (po_msgs o) = [MTime 9; MTime 100]
  /\ map pm_trail (po_msgs o) = [[11%N]; [11%N]]
  /\ po_ev o = [EvGen 6%N 1%N; EvInner 6%N (po_msgs o)].
Proof. vm_compute. repeat split. Qed.

(** a rejected batch: the second message has no delay and the generator fails — nothing is
    published, the first message stays stamped, the metrics layer records a failed call *)
Example C20_witness_reject :
  let m1 := PM 0 7 [] MAbsent MAbsent (Some (D 50 2)) (GErr 4) false 0 0 in
  let m2 := PM 1 8 [] MEmpty MAbsent None (GErr 4) false 0 0 in
  let o := publish [PMetrics 20; PDelay true true] [] 6%N [m1; m2] in
  po_res o = Some 4%N /\ inner_calls (po_ev o) = [] /\ po_obs o = [(no_handler, 20%N, false)]
  /\ map pm_for (po_msgs o) = [MDur 2; MEmpty].
Proof. vm_compute. repeat split. Qed.

(** subscriber: metrics twice around a transform; object 0 is delivered, nacked, then acked (the
    Nack wins), object 1 is delivered and never settled: one increment, label nacked *)
Example C20_witness_subscriber :
  let heap := [SM 5 [] false [] (init CtorNew) 0 0; SM 6 [] false [] (init CtorNew) 0 0] in
  let w := srun [SMetrics 31; SMetrics 30; STransform 12] heap
                [SoEmit 0; SoEmit 1; SoSettle 0 false; SoSettle 0 true; SoClose] in
  map sobs_label (sw_obs w) = [(no_handler, 30%N, false)]
  /\ map fst (sw_out w) = [0; 1] /\ sw_closes w = 1
  /\ map (fun m => st (sm_st m)) (sw_heap w) = [Nacked; Unsettled].
Proof. vm_compute. repeat split. Qed.

(** the same object twice in one batch under a transform and a delay layer: transformed twice,
    stamped once (the generator is asked once), one call of the wrapped publisher with both positions *)
Example C20_witness_duplicate :
  let m := PM 0 7 [] MAbsent MAbsent None (GDelay (D 100 3)) false 0 0 in
  let o := publish_h [PTransform 11; PDelay true false] [] 6%N [0; 0] [m] in
  map pm_trail (ho_heap o) = [[11%N; 11%N]] /\ map pm_for (ho_heap o) = [MDur 3]
  /\ ho_ev o = [EvGen 6%N 0%N; EvInner 6%N (hreads (ho_heap o) [0; 0])] /\ ho_res o = None.
Proof. vm_compute. repeat split. Qed.

(** Retry outside two applications: every attempt is an invocation and is observed once; Retry
    between them: the outer application observes the whole (retried) invocation once *)
Example C20_witness_retry_outside :
  snd (heval true [LR 2; LM; LM] false 5%N [HErr; HErr; HOk]) = [(5%N, false); (5%N, false); (5%N, true)].
Proof. exact heval_retry_outside. Qed.
Example C20_witness_retry_between :
  snd (heval true [LM; LR 2; LM] false 5%N [HErr; HErr; HOk]) = [(5%N, true)].
Proof. exact heval_retry_between. Qed.
