(** C15 — CQRS buses and processors dispatch by type name with the configured ack policy.

    Model: CQRS/Model.v ([bus_send] = CommandBus.Send / SendWithModifiedMessage / EventBus.Publish;
    [process] = one message delivered to one router handler of a Command / Event / EventGroup
    processor, i.e. the processor's closure composed with C02's [handle_from]).
    Quantifiers: every marshaler (name generator, codec), every bus configuration (topic
    function, OnSend/OnPublish/modify callbacks that edit the message and return / fail /
    panic, publisher behaviour), every processor configuration (AckCommandHandlingErrors,
    AckOnUnknownEvent, OnHandle mode), every handler list (any length, any types, duplicates),
    every message (any metadata, payload, context) and every handler behaviour (settles the
    original message itself or not; returns nil / an error / panics).  Each delivery is handled
    by its own closure invocation that shares nothing but the configuration with the others,
    so the statements are per delivery. *)
From WM Require Import Base.Prelude Message.Model Handler.RouterHandle Handler.RouterProofs CQRS.Model CQRS.Proofs CQRS.Reg CQRS.RegProofs CQRS.Calls CQRS.CallsProofs CQRS.Own CQRS.OwnProofs CQRS.Names CQRS.NamesProofs CQRS.Accept CQRS.AcceptProofs CQRS.OptionsProofs.

Section C15.
  Context {V T P : Type}.
  Variable gen_name : V -> N.               (* Marshaler.Name *)
  Variable enc : V -> option P.             (* the codec's Marshal; None = error *)
  Variable dec : P -> T -> option V.        (* the codec's Unmarshal into new(T) *)
  Variable zero : T -> V.                   (* *handler.NewCommand() / NewEvent() *)

  (** *** buses *)

  (** a bus call makes at most one Publish call (with one message) *)
  Theorem C15_bus_publishes_at_most_once : forall cfg uuid obj c v modify pb,
    length (bus_publishes (fst (bus_send gen_name enc cfg uuid obj c v modify pb))) <= 1.
  Proof. exact (bus_at_most_once gen_name enc). Qed.

  (** a call that returns nil published exactly once, on the topic the configuration generates
      for (name, value), the marshalled value as the callbacks left it *)
  Theorem C15_bus_publishes_once : forall cfg uuid obj c v modify pb tr,
    bus_send gen_name enc cfg uuid obj c v modify pb = (tr, BOk) ->
    exists t p, bc_topic cfg (gen_name v) v = TopicOk t /\ enc v = Some p
                /\ bus_publishes tr = [(t, published_msg gen_name cfg uuid obj c v p modify)].
  Proof. exact (bus_ok_publishes_once gen_name enc). Qed.

  (** the published message carries the value's type name (metadata "name") and serialized
      value unless a callback overwrote them, the caller's context, and is the object the
      marshaler created; without edits it is exactly NewMessage(uuid, enc v) + name *)
  Theorem C15_bus_message_carries_name_and_payload : forall (cfg : bus_cfg V P) uuid obj c (v : V) (p : P) (modify : option (hook P)),
    let m := published_msg gen_name cfg uuid obj c v p modify in
    let es := hook_edits (bc_hook cfg) ++ hook_edits modify in
    (edits_touch_name es = false -> name_from m = gen_name v)
    /\ (edits_touch_payload es = false -> w_payload m = p)
    /\ w_ctx m = c /\ w_obj m = obj
    /\ (es = [] -> m = WM obj uuid p [(KNAME, gen_name v)] c).
  Proof. exact (published_carries gen_name). Qed.

  (** any error before Publish (Marshal, GeneratePublishTopic, OnSend/OnPublish, modify) aborts
      with nothing published *)
  Theorem C15_bus_error_publishes_nothing : forall cfg uuid obj c v modify pb tr r,
    bus_send gen_name enc cfg uuid obj c v modify pb = (tr, r) ->
    r = BErr EMarshal \/ r = BErr ETopic \/ r = BErr EHook \/ r = BErr EModify ->
    bus_publishes tr = [].
  Proof. exact (bus_error_publishes_nothing gen_name enc dec). Qed.

  (** complete characterisation: whether Publish is reached, what it receives, what the call returns *)
  Theorem C15_bus_spec : forall cfg uuid obj c v modify pb,
    let '(tr, r) := bus_send gen_name enc cfg uuid obj c v modify pb in
    match reaches_publish gen_name enc cfg v modify with
    | Some t =>
        exists p, enc v = Some p
        /\ bus_publishes tr = [(t, published_msg gen_name cfg uuid obj c v p modify)]
        /\ r = match pb with PubAccept => BOk | PubError => BErr EPublish | PubPanic => BPanicked end
    | None => bus_publishes tr = [] /\ r <> BOk /\ r <> BErr EPublish
    end.
  Proof. exact (bus_send_spec gen_name enc). Qed.

  (** the deprecated NewCommandBus / NewEventBus: the topic is the given function of the name *)
  Theorem C15_legacy_bus_topic : forall f uuid obj c v modify pb tr,
    bus_send gen_name enc (legacy_bus_cfg f) uuid obj c v modify pb = (tr, BOk) ->
    exists pm : wmsg P, bus_publishes tr = [(f (gen_name v), pm)].
  Proof. exact (legacy_bus_topic gen_name enc). Qed.

  (** *** processors *)

  (** command / event processor: the handler is invoked iff the message's name equals the name
      of the handler's type (and the payload decodes), once, with the decoded value *)
  Theorem C15_handler_iff_name_matches : forall cfg msg d h b hid v,
    d = DCommand h b \/ d = DEvent h b -> oh_calls (pc_onhandle cfg) = true ->
    (In (hid, v) (calls (snd (fst (process gen_name dec zero cfg msg d))))
     <-> name_from msg = hname gen_name zero h /\ unmarshal dec msg (h_ty h) = Some v /\ hid = h_id h).
  Proof. exact (single_iff gen_name dec zero). Qed.

  (** ... and the exact invocation list for every OnHandle mode *)
  Theorem C15_single_handler_calls : forall cfg msg d h b,
    d = DCommand h b \/ d = DEvent h b ->
    calls (snd (fst (process gen_name dec zero cfg msg d))) =
      if matches gen_name zero msg h then
        match unmarshal dec msg (h_ty h) with
        | Some v => if oh_calls (pc_onhandle cfg) then [(h_id h, v)] else []
        | None => []
        end
      else [].
  Proof. exact (single_calls gen_name dec zero). Qed.

  (** every processor kind: whoever is invoked is a registered handler whose type name equals
      the message's name, and it receives the payload decoded into its own type *)
  Theorem C15_only_matching_handlers_called : forall cfg msg d hid v,
    In (hid, v) (calls (snd (fst (process gen_name dec zero cfg msg d)))) ->
    exists h b, In (h, b) (d_hs d) /\ h_id h = hid /\ name_from msg = hname gen_name zero h
                /\ unmarshal dec msg (h_ty h) = Some v.
  Proof. exact (calls_only_matching gen_name dec zero). Qed.

  (** group: handlers of other types are invisible — the loop behaves as if only the matching
      handlers were registered *)
  Theorem C15_group_ignores_other_types : forall cfg name hs msg handled m,
    grp_loop gen_name dec zero cfg name msg hs handled m
    = grp_loop gen_name dec zero cfg name msg (filter (nmatch gen_name zero name) hs) handled m.
  Proof. exact (grp_loop_filter gen_name dec zero). Qed.

  (** group: the invoked handlers are a prefix of the matching handlers in registration order *)
  Theorem C15_group_registration_order : forall cfg msg d, oh_calls (pc_onhandle cfg) = true ->
    exists rest, map (fun hb => h_id (fst hb)) (d_matching gen_name zero msg d)
                 = map fst (calls (snd (fst (process gen_name dec zero cfg msg d)))) ++ rest.
  Proof. exact (calls_in_registration_order gen_name dec zero). Qed.

  (** group: stop at the first error — whatever follows the first matching handler that fails
      (error, panic, undecodable payload) has no influence on anything *)
  Theorem C15_group_stops_at_first_error : forall cfg name pre msg handled m hb post post',
    forallb (fun x => negb (nmatch gen_name zero name x) || hb_ok dec (pc_onhandle cfg) msg x) pre = true ->
    nmatch gen_name zero name hb = true -> hb_ok dec (pc_onhandle cfg) msg hb = false ->
    grp_loop gen_name dec zero cfg name msg (pre ++ hb :: post) handled m
    = grp_loop gen_name dec zero cfg name msg (pre ++ hb :: post') handled m.
  Proof. exact (grp_loop_stops gen_name dec zero). Qed.

  (** ... the failing handler is the last one invoked and the loop does not succeed *)
  Theorem C15_group_calls_up_to_first_error : forall oh msg pre h b post, oh_calls oh = true ->
    forallb (hb_ok dec oh msg) pre = true -> hb_ok dec oh msg (h, b) = false ->
    map fst (expected_calls dec oh msg (pre ++ (h, b) :: post))
      = map (fun hb => h_id (fst hb)) pre
        ++ (match unmarshal dec msg (h_ty h) with Some _ => [h_id h] | None => [] end)
    /\ expected_verdict dec oh msg (pre ++ (h, b) :: post) <> VAllOk.
  Proof. exact (expected_calls_stop dec). Qed.

  (** ... and when no matching handler fails all of them are invoked *)
  Theorem C15_group_calls_all_when_no_error : forall oh msg ms, oh_calls oh = true ->
    forallb (hb_ok dec oh msg) ms = true ->
    map fst (expected_calls dec oh msg ms) = map (fun hb => h_id (fst hb)) ms
    /\ expected_verdict dec oh msg ms = VAllOk.
  Proof. exact (expected_calls_all dec). Qed.

  (** every delivery, every kind: the invocation list, the final settlement, the handler
      contexts and the Router-level trace are the functions of (registry, flags, message,
      handler behaviour) defined in the model file *)
  Theorem C15_delivery_spec : forall cfg msg d,
    let '(m2, e, rtr) := process gen_name dec zero cfg msg d in
    calls e = expected_calls dec (pc_onhandle cfg) msg (d_matching gen_name zero msg d)
    /\ st m2 = expected_settle gen_name dec zero (d_kind d) cfg msg (d_hs d)
    /\ ctx_ok msg e = true
    /\ count_settles rtr = 1 /\ count_calls rtr = 1 /\ publishes rtr = [].
  Proof. exact (process_spec gen_name dec zero). Qed.

  (** messages of other types: nothing is invoked (no OnHandle either); commands are
      acknowledged, events are acknowledged iff AckOnUnknownEvent; one Router settle *)
  Theorem C15_unknown_policy : forall cfg msg d,
    d_matching gen_name zero msg d = [] ->
    let '(m2, e, rtr) := process gen_name dec zero cfg msg d in
    e = []
    /\ st m2 = match d_kind d with KCommand => Acked | _ => if pc_ack_unknown cfg then Acked else Nacked end
    /\ count_settles rtr = 1.
  Proof. exact (unknown_policy gen_name dec zero). Qed.

  (** a handler error means Nack unless AckCommandHandlingErrors (commands only); a panic and an
      Unmarshal error always mean Nack; nil means Ack *)
  Theorem C15_error_policy : forall cfg msg d h b,
    d = DCommand h b \/ d = DEvent h b ->
    matches gen_name zero msg h = true ->
    (if oh_calls (pc_onhandle cfg) then hs_pre b else PreNone) = PreNone ->
    st (fst (fst (process gen_name dec zero cfg msg d))) =
      match unmarshal dec msg (h_ty h) with
      | None => Nacked
      | Some _ =>
          match oh_result (pc_onhandle cfg) (hs_res b) with
          | HROk => Acked
          | HRPanic => Nacked
          | HRErr => match d with
                     | DCommand _ _ => if pc_ack_errors cfg then Acked else Nacked
                     | _ => Nacked
                     end
          end
      end.
  Proof. exact (error_policy gen_name dec zero). Qed.

  (** a group with at least one matching handler: Ack iff every matching handler returned nil *)
  Theorem C15_group_policy : forall cfg msg hs,
    let ms := d_matching gen_name zero msg (DGroup hs) in
    expected_pre dec (pc_onhandle cfg) msg ms = PreNone -> ms <> [] ->
    st (fst (fst (process gen_name dec zero cfg msg (DGroup hs)))) =
      if forallb (hb_ok dec (pc_onhandle cfg) msg) ms then Acked else Nacked.
  Proof. exact (group_policy gen_name dec zero). Qed.

  (** settlement composes with C02: when no handler settled the message itself, the delivery IS
      [handle] of a no-publisher Router handler applied to the closure's outcome *)
  Theorem C15_settlement_is_router_handle : forall cfg msg d,
    let '(m1, e, o) := proc_fn gen_name dec zero cfg msg d (init CtorNew) in
    m1 = init CtorNew ->
    process gen_name dec zero cfg msg d
    = (fst (handle PubDisabled PubAccept (CR PreNone o)), e, snd (handle PubDisabled PubAccept (CR PreNone o))).
  Proof. exact (process_is_handle gen_name dec zero). Qed.

  (** the handler's (and OnHandle's) context exposes the consumed message as the original
      message and keeps the values of the message's own context *)
  Theorem C15_original_message : forall cfg msg d,
    ctx_ok msg (snd (fst (proc_fn gen_name dec zero cfg msg d (init CtorNew)))) = true.
  Proof. exact (proc_fn_ctx_ok gen_name dec zero). Qed.

  (** with the marshaler's round-trip law (property C16), a value sent through a bus reaches
      every handler of its type unchanged, whatever object / uuid / context the delivery has *)
  Theorem C15_value_equal : forall (ty_of : V -> T),
    (forall v p, enc v = Some p -> dec p (ty_of v) = Some v) ->
    forall buscfg uuid obj c v modify pb tr t pm,
    bus_send gen_name enc buscfg uuid obj c v modify pb = (tr, BOk) ->
    edits_touch_name (hook_edits (bc_hook buscfg) ++ hook_edits modify) = false ->
    edits_touch_payload (hook_edits (bc_hook buscfg) ++ hook_edits modify) = false ->
    bus_publishes tr = [(t, pm)] ->
    forall msg : wmsg P, w_payload msg = w_payload pm -> w_meta msg = w_meta pm ->
    name_from msg = gen_name v
    /\ forall cfg d hid v', In (hid, v') (calls (snd (fst (process gen_name dec zero cfg msg d)))) ->
         forall h b, In (h, b) (d_hs d) -> h_id h = hid ->
           (forall h' b', In (h', b') (d_hs d) -> h_id h' = hid -> h' = h) ->
           h_ty h = ty_of v -> v' = v.
  Proof. exact (value_equal gen_name enc dec zero). Qed.

  (** the model passes the acceptors that judge implementation traces *)
  Theorem C15_model_accepted : forall (eqbV : V -> V -> bool), (forall v, eqbV v v = true) ->
    forall cfg msg d,
    let '(m2, e, rtr) := process gen_name dec zero cfg msg d in
    c15_monitor gen_name dec zero eqbV cfg msg d e rtr (st m2) = true.
  Proof. exact (c15_monitor_accepts gen_name dec zero). Qed.

  Theorem C15_bus_model_accepted : forall (eqbV : V -> V -> bool), (forall v, eqbV v v = true) ->
    forall (eqbP : P -> P -> bool), (forall p, eqbP p p = true) ->
    forall cfg uuid obj c v modify pb,
    bus_monitor gen_name enc eqbV eqbP cfg c v modify
                (fst (bus_send gen_name enc cfg uuid obj c v modify pb))
                (snd (bus_send gen_name enc cfg uuid obj c v modify pb)) = true.
  Proof. exact (bus_monitor_accepts gen_name enc). Qed.

  (** AddHandlers of the command processor accepts a batch iff the handlers' command names
      are pairwise different *)
  Theorem C15_add_handlers_rejects_duplicates : forall hs : list (handler T),
    cmd_add_handlers gen_name zero hs = None <-> NoDup (map (hname gen_name zero) hs).
  Proof. exact (add_handlers_nodup gen_name zero). Qed.
End C15.

(** ** registration (round "proofs"): which router handlers a processor puts on the Router.
    Model: CQRS/Reg.v ([reg_step] = AddHandlers / AddHandler / AddHandlersToRouter of the command
    and event processors, config-constructed or deprecated, and AddHandlersGroup), for every
    script of calls, every handler list and every behaviour of GenerateSubscribeTopic /
    SubscriberConstructor / NewCommand (pointer or not). *)
Section C15_Reg.
  Context {V T : Type}.
  Variable gen_name : V -> N.
  Variable zero : T -> V.

  (** every call leaves exactly the Router handlers, p.handlers, callback sequence and result
      the batch-level specification prescribes ([spec_step]: the longest registrable prefix
      [good_prefix], its router handlers [mk_handlers], the first failure [batch_result]) *)
  Theorem C15_registration_spec : forall evt depr (s : rstate T) (c : rcall T),
    reg_step gen_name zero evt depr s c = spec_step gen_name zero evt depr s c.
  Proof. exact (reg_step_spec gen_name zero). Qed.

  Theorem C15_registration_run_spec : forall evt depr (cs : list (rcall T)) (s : rstate T),
    reg_run gen_name zero evt depr s cs = spec_run gen_name zero evt depr s cs.
  Proof. exact (reg_run_spec gen_name zero). Qed.

  (** AddHandlers / AddHandler / AddHandlersToRouter in detail: Router, p.handlers, result,
      callback sequence, subscribers constructed *)
  Theorem C15_registration_call_spec : forall evt depr (s : rstate T) (o : hop T),
    let '(s', e, r) := hreg_step gen_name zero evt depr s o in
    (r_router s', r_handlers s', r) = hreg_expected gen_name zero evt depr s o
    /\ e = hreg_expected_events gen_name zero evt depr s o
    /\ r_groups s' = r_groups s
    /\ r_nsub s' = (r_nsub s + N.of_nat (length (r_router s') - length (r_router s)) + panic_extra r)%N.
  Proof. exact (hreg_step_spec gen_name zero). Qed.

  (** what gets registered is a prefix of the batch; the call returns nil iff it is the whole batch *)
  Theorem C15_registration_prefix : forall evt (xs : list (rspec T)) taken,
    exists post, xs = good_prefix evt taken xs ++ post.
  Proof. exact (good_prefix_is_prefix). Qed.
  Theorem C15_registration_ok_iff_all : forall evt (xs : list (rspec T)) taken,
    batch_result evt taken xs = ROk <-> good_prefix evt taken xs = xs.
  Proof. exact (batch_ok_iff). Qed.

  (** whoever is registered returned a pointer, got a topic and a subscriber, and carries a
      router-handler name different from all earlier ones *)
  Theorem C15_registered_only_registrable : forall evt (xs : list (rspec T)) taken pre x post,
    good_prefix evt taken xs = pre ++ x :: post ->
    rs_ptr x = true /\ rs_sub x = true /\ (exists t, rs_topic x = Some t)
    /\ existsb (N.eqb (rs_hname x)) (taken ++ map rs_hname pre) = false.
  Proof. exact (good_prefix_sound). Qed.

  (** one router handler per registered cqrs handler, in order, named HandlerName(), subscribed
      to the topic generated for (its command/event name, the handler), each on its own fresh
      subscriber (consecutive SubscriberConstructor results) *)
  Theorem C15_registered_handlers_wellformed : forall evt (xs : list (rspec T)) taken n,
    let good := good_prefix evt taken xs in
    Forall2 (fun x rh => rh_from x rh = true) good (mk_handlers n good)
    /\ map rh_sub (mk_handlers n good) = map (fun i => (n + N.of_nat i)%N) (seq 1 (length good)).
  Proof. exact (mk_handlers_spec). Qed.

  (** router-handler names stay pairwise different under every script of calls *)
  Theorem C15_router_names_distinct : forall evt depr (cs : list (rcall T)) (s : rstate T),
    nodupb (taken_names s) = true ->
    nodupb (taken_names (fst (reg_run gen_name zero evt depr s cs))) = true.
  Proof. exact (reg_run_names_nodup gen_name zero). Qed.

  (** a command batch with two handlers of one command name is rejected before anything happens *)
  Theorem C15_registration_duplicate_batch_rejected : forall depr (s : rstate T) xs n,
    first_dup [] (map (rs_name gen_name zero) xs) = Some n ->
    hreg_step gen_name zero false depr s (OAddHandlers xs) = (s, [], RDup n).
  Proof. exact (dup_batch_rejected gen_name zero). Qed.

  (** deprecated processors only collect handlers; AddHandlersToRouter registers them as one
      batch and is refused on a config-constructed processor *)
  Theorem C15_registration_deprecated_defers : forall evt (s : rstate T) xs x,
    (evt = true \/ first_dup [] (map (rs_name gen_name zero) xs) = None) ->
    hreg_step gen_name zero evt true s (OAddHandlers xs) = (push_handlers s xs, [], ROk)
    /\ hreg_step gen_name zero evt true s (OAddHandler x) = (push_handlers s [x], [], ROk)
    /\ hreg_step gen_name zero evt true s OToRouter = add_many gen_name zero evt false s (r_handlers s)
    /\ hreg_step gen_name zero evt false s OToRouter = (s, [], RNotDeprecated).
  Proof. exact (deprecated_defers gen_name zero). Qed.

  (** AddHandlersGroup: one router handler named after the group for all its handlers; a refused
      group changes nothing, and an empty / existing / non-pointer group calls no callback *)
  Theorem C15_registration_group_spec : forall (s : rstate T) g (xs : list (rspec T)) topic sub,
    let '(s', e, r) := greg_step s g xs topic sub in
    (r = ROk -> exists t, topic = Some t /\ xs <> [] /\ existsb (N.eqb g) (r_groups s) = false
                /\ r_router s' = r_router s ++ [RH g t (N.succ (r_nsub s)) (map (fun x => rs_id x) xs)]
                /\ r_groups s' = r_groups s ++ [g]
                /\ e = [RegTopic g (N.of_nat (length xs)); RegSub g (N.of_nat (length xs)) 0; RegAdd g t (N.succ (r_nsub s))])
    /\ (r <> ROk -> r_router s' = r_router s /\ r_groups s' = r_groups s /\ r_handlers s' = r_handlers s)
    /\ (r = RNoHandlers \/ r = RGroupExists \/ r = RValidateErr -> e = [] /\ s' = s).
  Proof. exact (group_spec). Qed.

  (** the model passes the registration acceptor that judges the implementation *)
  Theorem C15_registration_model_accepted : forall evt depr (cs : list (rcall T)),
    let '(s, obs) := reg_run gen_name zero evt depr (rinit (T:=T)) cs in
    reg_monitor gen_name zero evt depr cs obs (r_router s) (map (fun x => rs_id x) (r_handlers s)) = true.
  Proof. exact (reg_monitor_accepts gen_name zero). Qed.
End C15_Reg.

(** ** the marshaler call discipline (round "proofs"; model: CQRS/Calls.v) *)
Section C15_Calls.
  Context {V T P : Type}.
  Variable gen_name : V -> N.
  Variable enc : V -> option P.
  Variable dec : P -> T -> option V.
  Variable zero : T -> V.

  (** every delivery, every processor kind, every handler list / flags / OnHandle mode / handler
      behaviour: NameFromMessage first and before every Unmarshal (the group closure calls it a
      second time only to build its "no handler found" error); Unmarshal only into a
      brand-new object of a type whose name equals the message's name; Handle only on an object
      that was decoded successfully (each at most once); nothing after a failed Unmarshal; the
      processors never call Marshal or Name on behalf of a message *)
  Theorem C15_marshaler_calls : forall cfg (msg : wmsg P) (d : @delivery T),
    mcalls_ok (V:=V) (name_from msg) (proc_mcalls gen_name dec zero cfg msg d) = true.
  Proof. exact (proc_mcalls_ok gen_name dec zero). Qed.

  (** the call-level view and the event-level model dispatch to the same handlers *)
  Theorem C15_marshaler_calls_agree_with_dispatch : forall cfg (msg : wmsg P) (d : @delivery T),
    mhandles (proc_mcalls gen_name dec zero cfg msg d)
    = map fst (calls (snd (fst (process gen_name dec zero cfg msg d)))).
  Proof. exact (proc_mhandles gen_name dec zero). Qed.

  (** a Send / Publish calls Marshal exactly once, first, on the value sent *)
  Theorem C15_bus_marshals_once : forall v : V,
    length (filter (fun e => match e with MMarshal _ => true | _ => false end) (bus_mcalls enc v)) = 1
    /\ exists rest, bus_mcalls enc v = MMarshal v :: rest.
  Proof. exact (bus_one_marshal enc). Qed.

  Theorem C15_bus_marshaler_calls_accepted : forall (eqbV : V -> V -> bool), (forall v, eqbV v v = true) ->
    forall v, bus_mcalls_ok enc eqbV v (bus_mcalls enc v) = true.
  Proof. exact (bus_mcalls_accepts enc). Qed.
End C15_Calls.

(** ** ownership of published payloads (round "seeds 3"; model: CQRS/Own.v): payload bytes live in
    buffers that messages reference; a sequence of bus calls on one bus / marshaler *)
Section C15_Own.
  Context {V P : Type}.
  Variable enc : V -> option P.

  (** whatever calls follow, reading every published message's payload AFTER the whole sequence
      gives exactly what its own call prescribed: the value's encoding, or what the last callback
      of that call put there — no later Send / Publish affects an earlier message *)
  Theorem C15_published_payload_owned : forall (cs : list (@hcall V P)) (s : store),
    let '(sf, bs) := hrun enc s cs in map (read sf) bs = map (hexpected enc) cs.
  Proof. exact (own_reread enc). Qed.

  (** a published buffer is new (none of the buffers that existed before the call), allocated,
      and the heap only grows *)
  Theorem C15_published_buffer_fresh : forall (s : store) (c : @hcall V P),
    (exists ext, fst (hstep enc s c) = s ++ ext)
    /\ read (fst (hstep enc s c)) (snd (hstep enc s c)) = hexpected enc c
    /\ (forall b, snd (hstep enc s c) = Some b -> length s <= b < length (fst (hstep enc s c))).
  Proof. exact (hstep_spec enc). Qed.

  (** no two published messages share a buffer *)
  Theorem C15_published_buffers_distinct : forall (cs : list (@hcall V P)) (s : store),
    increasing_from (length s) (snd (hrun enc s cs)).
  Proof. exact (own_distinct enc). Qed.

  (** the prescribed bytes are the payload of the event-level model's published message *)
  Theorem C15_prescribed_payload_is_published_payload : forall (m0 : wmsg P) es,
    w_payload (apply_edits m0 es) = last_payload es (w_payload m0).
  Proof. exact (last_payload_apply_edits). Qed.

  Theorem C15_ownership_model_accepted : forall (eqbP : P -> P -> bool), (forall p, eqbP p p = true) ->
    forall (cs : list (@hcall V P)) (s : store),
    let '(sf, bs) := hrun enc s cs in own_monitor enc eqbP cs (map (read sf) bs) = true.
  Proof. exact (own_monitor_accepts enc). Qed.
End C15_Own.

(** ** name.go (round "seeds 4"; model: CQRS/Names.v): the name of a command / event does not depend
    on how many pointer levels the value is passed through *)

(** every generator (FullyQualifiedStructName, StructName, NamedStruct over them, nested), every
    pointer depth, every package-qualified Go type name without a Name method: the name of the
    value reached through [d] pointers is the name of the plain value *)
Theorem C15_name_invariant_under_pointer_depth : forall g d base,
  (forall c rest, base = c :: rest -> c <> STAR) -> In DOT base ->
  name_of g d base None = name_of g 0 base None.
Proof. exact name_invariant. Qed.

(** FullyQualifiedStructName is the type's own name "pkg.T" at every depth *)
Theorem C15_fully_qualified_name_is_type_name : forall d base,
  (forall c rest, base = c :: rest -> c <> STAR) ->
  name_of GFullyQualified d base None = base.
Proof. exact fq_invariant. Qed.

(** NamedStruct: a type with a value-receiver Name method names itself as T and as *T *)
Theorem C15_named_struct_names_itself : forall f d base n, d <= 1 ->
  name_of (GNamedStruct f) d base (Some n) = n.
Proof. exact named_self. Qed.

Theorem C15_name_model_accepted : forall g d base own,
  (forall c rest, base = c :: rest -> c <> STAR) -> In DOT base ->
  name_monitor g d base own (name_of g d base own) = true.
Proof. exact name_monitor_accepts. Qed.

(** ** round "proofs 4": (a) every acceptor that judges implementation traces accepts the model;
    (b) the ack options composed with the Router's settle rule (C02 [handle]) *)
Section C15_P4.
  Context {V T P : Type}.
  Variable gen_name : V -> N.
  Variable enc : V -> option P.
  Variable dec : P -> T -> option V.
  Variable zero : T -> V.

  (** the marshaler-call acceptor of a delivery (discipline + same handlers as the event-level trace) *)
  Theorem C15_marshaler_calls_model_accepted : forall cfg (msg : wmsg P) (d : @delivery T),
    mc_monitor msg (snd (fst (process gen_name dec zero cfg msg d)))
               (proc_mcalls gen_name dec zero cfg msg d) = true.
  Proof. exact (mc_monitor_accepts gen_name dec zero). Qed.

  (** the sent-value acceptor: whatever a successful bus call published without touching name /
      payload passes it, in whatever object / uuid / context it is consumed *)
  Theorem C15_sent_value_model_accepted : forall (eqbP : P -> P -> bool), (forall p, eqbP p p = true) ->
    forall buscfg uuid obj c v modify pb tr t (pm : wmsg P),
    bus_send gen_name enc buscfg uuid obj c v modify pb = (tr, BOk) ->
    edits_touch_name (hook_edits (bc_hook buscfg) ++ hook_edits modify) = false ->
    edits_touch_payload (hook_edits (bc_hook buscfg) ++ hook_edits modify) = false ->
    bus_publishes tr = [(t, pm)] ->
    forall msg : wmsg P, w_payload msg = w_payload pm -> w_meta msg = w_meta pm ->
    sent_monitor gen_name enc eqbP msg v = true.
  Proof. exact (sent_monitor_accepts gen_name enc). Qed.

  (** the ownership acceptor is applied to the payload the event-level model publishes *)
  Theorem C15_ownership_links_bus_model : forall cfg uuid obj c v modify pb,
    hexpected enc (bus_own_call gen_name enc cfg uuid obj c v modify pb)
    = match bus_publishes (fst (bus_send gen_name enc cfg uuid obj c v modify pb)) with
      | [(_, m)] => Some (w_payload m)
      | _ => None
      end.
  Proof. exact (own_call_links gen_name enc). Qed.

  (** AckCommandHandlingErrors: a command whose handler (or OnHandle) returns an error is, at the
      Router, exactly [handle] of [Ret []] with the option and of [Fail []] without: Ack / Nack *)
  Theorem C15_option_AckCommandHandlingErrors : forall cfg (msg : wmsg P) h b v,
    matches gen_name zero msg h = true -> unmarshal dec msg (h_ty h) = Some v -> hs_pre b = PreNone ->
    oh_result (pc_onhandle cfg) (hs_res b) = HRErr ->
    settled (process gen_name dec zero cfg msg (DCommand h b))
      = via_handle (if pc_ack_errors cfg then Ret [] else Fail [])
    /\ st (fst (fst (process gen_name dec zero cfg msg (DCommand h b)))) = (if pc_ack_errors cfg then Acked else Nacked).
  Proof. exact (opt_ack_command_handling_errors gen_name dec zero). Qed.

  (** AckOnUnknownEvent (EventProcessorConfig): an event of another type calls nothing and is
      [handle] of [Ret []] with the option, of [Fail []] without *)
  Theorem C15_option_AckOnUnknownEvent : forall cfg (msg : wmsg P) h b,
    matches gen_name zero msg h = false ->
    settled (process gen_name dec zero cfg msg (DEvent h b)) = via_handle (if pc_ack_unknown cfg then Ret [] else Fail [])
    /\ snd (fst (process gen_name dec zero cfg msg (DEvent h b))) = []
    /\ st (fst (fst (process gen_name dec zero cfg msg (DEvent h b)))) = (if pc_ack_unknown cfg then Acked else Nacked).
  Proof. exact (opt_ack_on_unknown_event gen_name dec zero). Qed.

  (** AckOnUnknownEvent (EventGroupProcessorConfig): no handler of the group matches *)
  Theorem C15_option_AckOnUnknownEvent_group : forall cfg (msg : wmsg P) hs,
    filter (fun hb => matches gen_name zero msg (fst hb)) hs = [] ->
    settled (process gen_name dec zero cfg msg (DGroup hs)) = via_handle (if pc_ack_unknown cfg then Ret [] else Fail [])
    /\ snd (fst (process gen_name dec zero cfg msg (DGroup hs))) = []
    /\ st (fst (fst (process gen_name dec zero cfg msg (DGroup hs)))) = (if pc_ack_unknown cfg then Acked else Nacked).
  Proof. exact (opt_ack_on_unknown_event_group gen_name dec zero). Qed.

  (** where components/cqrs has NO option: an unknown command is always acknowledged ... *)
  Theorem C15_no_option_unknown_command : forall cfg (msg : wmsg P) h b,
    matches gen_name zero msg h = false ->
    settled (process gen_name dec zero cfg msg (DCommand h b)) = via_handle (Ret [])
    /\ st (fst (fst (process gen_name dec zero cfg msg (DCommand h b)))) = Acked.
  Proof. exact (no_option_unknown_command gen_name dec zero). Qed.

  (** ... and a failing event handler is always Nacked, whatever the flags say *)
  Theorem C15_no_option_event_handler_error : forall cfg (msg : wmsg P) h b v,
    matches gen_name zero msg h = true -> unmarshal dec msg (h_ty h) = Some v -> hs_pre b = PreNone ->
    oh_result (pc_onhandle cfg) (hs_res b) = HRErr ->
    settled (process gen_name dec zero cfg msg (DEvent h b)) = via_handle (Fail [])
    /\ st (fst (fst (process gen_name dec zero cfg msg (DEvent h b)))) = Nacked.
  Proof. exact (no_option_event_handler_error gen_name dec zero). Qed.
End C15_P4.

Print Assumptions C15_bus_publishes_at_most_once.
Print Assumptions C15_bus_publishes_once.
Print Assumptions C15_bus_message_carries_name_and_payload.
Print Assumptions C15_bus_error_publishes_nothing.
Print Assumptions C15_bus_spec.
Print Assumptions C15_legacy_bus_topic.
Print Assumptions C15_handler_iff_name_matches.
Print Assumptions C15_single_handler_calls.
Print Assumptions C15_only_matching_handlers_called.
Print Assumptions C15_group_ignores_other_types.
Print Assumptions C15_group_registration_order.
Print Assumptions C15_group_stops_at_first_error.
Print Assumptions C15_group_calls_up_to_first_error.
Print Assumptions C15_group_calls_all_when_no_error.
Print Assumptions C15_delivery_spec.
Print Assumptions C15_unknown_policy.
Print Assumptions C15_error_policy.
Print Assumptions C15_group_policy.
Print Assumptions C15_settlement_is_router_handle.
Print Assumptions C15_original_message.
Print Assumptions C15_value_equal.
Print Assumptions C15_model_accepted.
Print Assumptions C15_bus_model_accepted.
Print Assumptions C15_add_handlers_rejects_duplicates.

Print Assumptions C15_registration_spec.
Print Assumptions C15_registration_run_spec.
Print Assumptions C15_registration_call_spec.
Print Assumptions C15_registration_prefix.
Print Assumptions C15_registration_ok_iff_all.
Print Assumptions C15_registered_only_registrable.
Print Assumptions C15_registered_handlers_wellformed.
Print Assumptions C15_router_names_distinct.
Print Assumptions C15_registration_duplicate_batch_rejected.
Print Assumptions C15_registration_deprecated_defers.
Print Assumptions C15_registration_group_spec.
Print Assumptions C15_registration_model_accepted.

Print Assumptions C15_marshaler_calls.
Print Assumptions C15_marshaler_calls_agree_with_dispatch.
Print Assumptions C15_bus_marshals_once.
Print Assumptions C15_bus_marshaler_calls_accepted.

Print Assumptions C15_published_payload_owned.
Print Assumptions C15_published_buffer_fresh.
Print Assumptions C15_published_buffers_distinct.
Print Assumptions C15_prescribed_payload_is_published_payload.
Print Assumptions C15_ownership_model_accepted.

Print Assumptions C15_name_invariant_under_pointer_depth.
Print Assumptions C15_fully_qualified_name_is_type_name.
Print Assumptions C15_named_struct_names_itself.
Print Assumptions C15_name_model_accepted.

Print Assumptions C15_marshaler_calls_model_accepted.
Print Assumptions C15_sent_value_model_accepted.
Print Assumptions C15_ownership_links_bus_model.
Print Assumptions C15_option_AckCommandHandlingErrors.
Print Assumptions C15_option_AckOnUnknownEvent.
Print Assumptions C15_option_AckOnUnknownEvent_group.
Print Assumptions C15_no_option_unknown_command.
Print Assumptions C15_no_option_event_handler_error.

(** ** non-vacuity: concrete instances (values = (type, content), identity codec on the content,
    the name of a value is its type number) *)
Definition ex_name (v : N * N) : N := fst v.
Definition ex_enc (v : N * N) : option N := Some (snd v).
Definition ex_dec (p : N) (t : N) : option (N * N) := if N.eqb p 99 then None else Some (t, p).
Definition ex_zero (t : N) : N * N := (t, 0%N).

(** a group [h0:type 5 ok; h1:type 7 ok; h2:type 5 error; h3:type 5 ok] and a message named 5:
    h0 and h2 are called in that order, h1 (other type) and h3 (after the error) are not; Nack *)
Example C15_witness_group :
  process ex_name ex_dec ex_zero (PCfg false true OhNil)
          (WM 1 10 42 [(KNAME, 5)] [(CKTag, 3)])%N
          (DGroup [(Hd 0 5, HS PreNone HROk); (Hd 1 7, HS PreNone HROk);
                   (Hd 2 5, HS PreNone HRErr); (Hd 3 5, HS PreNone HROk)])%N
  = (MS Nacked COpen CClosed false,
     [PHandle 0 (5, 42) 1 3; PHandle 2 (5, 42) 1 3]%N,
     [HCall; HSettle false true]).
Proof. reflexivity. Qed.

(** an unknown event is Nacked without AckOnUnknownEvent, an unknown command is Acked *)
Example C15_witness_unknown :
  fst (fst (process ex_name ex_dec ex_zero (PCfg false false OhNil) (WM 1 10 42 [(KNAME, 6)] [])%N
                    (DEvent (Hd 0 5%N) (HS PreNone HROk)))) = MS Nacked COpen CClosed false
  /\ fst (fst (process ex_name ex_dec ex_zero (PCfg false false OhNil) (WM 1 10 42 [(KNAME, 6)] [])%N
                       (DCommand (Hd 0 5%N) (HS PreNone HROk)))) = MS Acked CClosed COpen false.
Proof. split; reflexivity. Qed.

(** AckCommandHandlingErrors acks a handler error but not an undecodable payload *)
Example C15_witness_ack_errors :
  st (fst (fst (process ex_name ex_dec ex_zero (PCfg true false OhNil) (WM 1 10 42 [(KNAME, 5)] [])%N
                        (DCommand (Hd 0 5%N) (HS PreNone HRErr))))) = Acked
  /\ st (fst (fst (process ex_name ex_dec ex_zero (PCfg true false OhNil) (WM 1 10 99 [(KNAME, 5)] [])%N
                           (DCommand (Hd 0 5%N) (HS PreNone HRErr))))) = Nacked.
Proof. split; reflexivity. Qed.

(** a bus call with an OnSend hook that adds a metadata key: one Publish on the generated topic *)
Example C15_witness_bus :
  bus_send ex_name ex_enc (BusCfg (fun n _ => TopicOk (100 + n)%N) (Some (Hook [ESetMeta 7 8] CbOk)))%N
           10 1 [(CKTag, 3)]%N (5, 42)%N None PubAccept
  = ([BTopicCall 5 (5, 42); BHookCall 5 (5, 42) (WM 1 10 42 [(KNAME, 5)] [(CKTag, 3)]);
      BPublish 105 (WM 1 10 42 [(KNAME, 5); (7, 8)] [(CKTag, 3)])]%N, BOk).
Proof. reflexivity. Qed.

(** the round-trip hypothesis of C15_value_equal is satisfiable *)
Example C15_witness_roundtrip : forall v p, v <> (fst v, 99%N) -> ex_enc v = Some p -> ex_dec p (fst v) = Some v.
Proof.
  intros [t c] p Hne [= <-]. unfold ex_dec. simpl in *.
  destruct (N.eqb c 99) eqn:E; [apply N.eqb_eq in E; subst; congruence|reflexivity].
Qed.
