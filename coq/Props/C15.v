(** C15 — placeholder while the proofs are written. *)
From WM Require Import Base.Prelude Message.Model Handler.RouterHandle CQRS.Model.
Theorem C15_placeholder : True. Proof. exact I. Qed.
Print Assumptions C15_placeholder.
