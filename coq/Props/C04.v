(** C04 — GoChannel delivers every published message to every current subscriber.
    Models: GoChannel/Sub.v (Layer A: Senders, consumer, teardown of ONE subscription) and
    GoChannel/Reg.v (Layer B: which (publication, subscription) pairs get a Sender). *)
From WM Require Import Base.Prelude Message.Model GoChannel.Sub GoChannel.SubProofs.

(** "A subscription sees a given published message again only after it Nacked the previous
    delivery of it": for every buffer size, any number of Senders, every consumer behaviour and
    every schedule, a Sender has made a later copy c2 of its message only if every earlier copy
    c1 of it was Nacked (in particular never after an Ack, never while c1 is unsettled). *)
Theorem C04_no_duplicate_without_nack : forall (cap0 : nat) (fx : bool) (ls : list label),
  let s := srun (sinit cap0 fx) ls in
  forall c1 c2, c1 < c2 -> c2 < next s ->
  c_thr (copies s c1) = c_thr (copies s c2) -> c_st (copies s c1) = Nacked.
Proof. exact no_duplicate_without_nack. Qed.
Print Assumptions C04_no_duplicate_without_nack.

(** "... and keeps receiving it after every Nack until it Acks": in every reachable state a
    Sender whose current copy was Nacked is enabled, goes back to the head of the loop, and -
    unless the subscription is closed/closing - offers a FRESH unsettled copy of the same
    publication. *)
Theorem C04_redelivery_after_nack : forall s t p c, SInv s ->
  thr s t = SWait p c -> c_st (copies s c) = Nacked ->
  exists s1, sstep s (LSeeNacked t) = Some s1 /\ thr s1 t = SHead p
  /\ (closedf s1 = false -> fixed s1 && closing s1 = false ->
      exists s2, sstep s1 (LStep t) = Some s2 /\ thr s2 t = SSend p (next s1)
                 /\ c_pub (copies s2 (next s1)) = p /\ c_st (copies s2 (next s1)) = Unsettled).
Proof. exact redelivery_after_nack. Qed.
Print Assumptions C04_redelivery_after_nack.

(** the hypothesis [SInv s] of the previous theorem holds in every reachable state *)
Theorem C04_reachable_states_satisfy_SInv : forall cap0 fx ls, SInv (srun (sinit cap0 fx) ls).
Proof. intros; apply srun_inv, sinv_init. Qed.
Print Assumptions C04_reachable_states_satisfy_SInv.

(** "Each delivery is a separate copy ...: settling the copy never affects ... later
    redeliveries": an Ack/Nack changes the settlement of that one copy and nothing else. *)
Theorem C04_settle_is_local : forall s c s',
  (sstep s (LAck c) = Some s' \/ sstep s (LNack c) = Some s') ->
  forall c', c' <> c -> copies s' c' = copies s c'.
Proof. exact settle_is_local. Qed.
Print Assumptions C04_settle_is_local.

(** non-vacuity: a run in which a message is Nacked twice and then Acked - three copies, the
    first two Nacked, one Sender *)
Example C04_nack_nack_ack :
  let s := srun (sinit 0 true)
    [LTdSpawn; LSpawn 0 7; LStep 0; LStep 0; LHandoff 0; LNack 0; LSeeNacked 0;
     LStep 0; LHandoff 0; LNack 1; LSeeNacked 0; LStep 0; LHandoff 0; LAck 2; LSeeAcked 0; LStep 0] in
  next s = 3 /\ map (fun c => c_st (copies s c)) [0; 1; 2] = [Nacked; Nacked; Acked]
  /\ thr s 0 = SDone 7 /\ outstanding s = [].
Proof. vm_compute. repeat split; reflexivity. Qed.
