(** C04 — GoChannel delivers every published message to every current subscriber.
    Models: GoChannel/Sub.v (Layer A: Senders, consumer, teardown of ONE subscription) and
    GoChannel/Reg.v (Layer B: which (publication, subscription) pairs get a Sender). *)
From WM Require Import Base.Prelude Message.Model GoChannel.Sub GoChannel.SubProofs
                       GoChannel.Reg GoChannel.RegLocks GoChannel.RegInv GoChannel.RegSend.
From WM Require GoChannel.SubInvX GoChannel.Monitor GoChannel.MonitorSound GoChannel.SubCtx.

(** "A subscription sees a given published message again only after it Nacked the previous
    delivery of it": for every buffer size, any number of Senders, every consumer behaviour and
    every schedule, a Sender has made a later copy c2 of its message only if every earlier copy
    c1 of it was Nacked (in particular never after an Ack, never while c1 is unsettled). *)
Theorem C04_no_duplicate_without_nack : forall (cap0 : nat) (fx : bool) (ls : list label),
  let s := srun (sinit cap0 fx) ls in
  forall c1 c2, c1 < c2 -> c2 < next s ->
  c_thr (copies s c1) = c_thr (copies s c2) -> c_st (copies s c1) = Nacked.
Proof. exact no_duplicate_without_nack. Qed.
Print Assumptions C04_no_duplicate_without_nack.

(** "... and keeps receiving it after every Nack until it Acks": in every reachable state a
    Sender whose current copy was Nacked is enabled, goes back to the head of the loop, and -
    unless the subscription is closed/closing - offers a FRESH unsettled copy of the same
    publication. *)
Theorem C04_redelivery_after_nack : forall s t p c, SInv s ->
  Sub.thr s t = SWait p c -> c_st (copies s c) = Nacked ->
  exists s1, sstep s (LSeeNacked t) = Some s1 /\ Sub.thr s1 t = SHead p
  /\ (closedf s1 = false -> fixed s1 && closing s1 = false ->
      exists s2, sstep s1 (LStep t) = Some s2 /\ Sub.thr s2 t = SSend p (next s1)
                 /\ c_pub (copies s2 (next s1)) = p /\ c_st (copies s2 (next s1)) = Unsettled).
Proof. exact redelivery_after_nack. Qed.
Print Assumptions C04_redelivery_after_nack.

(** the hypothesis [SInv s] of the previous theorem holds in every reachable state *)
Theorem C04_reachable_states_satisfy_SInv : forall cap0 fx ls, SInv (srun (sinit cap0 fx) ls).
Proof. intros; apply srun_inv, sinv_init. Qed.
Print Assumptions C04_reachable_states_satisfy_SInv.

(** "Each delivery is a separate copy ...: settling the copy never affects ... later
    redeliveries": an Ack/Nack changes the settlement of that one copy and nothing else. *)
Theorem C04_settle_is_local : forall s c s',
  (sstep s (LAck c) = Some s' \/ sstep s (LNack c) = Some s') ->
  forall c', c' <> c -> copies s' c' = copies s c'.
Proof. exact settle_is_local. Qed.
Print Assumptions C04_settle_is_local.

(** ** Registry layer: who gets a Sender.  For ALL schedules of any number of Publish, Subscribe,
    teardown and Close calls, all modes. *)

(** "is delivered ... to every subscription of that topic that existed when Publish was called":
    when a Publish takes the snapshot for message p on topic k, every subscription registered
    for k at that moment gets exactly one Sender for p; nothing else changes. *)
Theorem C04_snapshot_gives_every_subscriber_a_sender : forall pers blk fx ls t k p rem s',
  let s := grun (ginit pers blk fx) ls in
  Reg.thr s t = PSend k (p :: rem) -> gstep s (GT t) = Some s' ->
  (forall x, In x (subs s k) -> nsenders s' p x = 1)
  /\ (forall q y, (q <> p \/ ~ In y (subs s k)) -> nsenders s' q y = nsenders s q y)
  /\ In p (sent s').
Proof. exact snapshot_complete. Qed.
Print Assumptions C04_snapshot_gives_every_subscriber_a_sender.

(** which subscriptions are "current": exactly those whose Subscribe (or persistent replay) is
    past addSubscriber and whose teardown has not yet executed removeSubscriber *)
Theorem C04_registered_window : forall pers blk fx ls x k,
  let s := grun (ginit pers blk fx) ls in
  In x (subs s k) <-> (k = stopic s x /\ sb_reg (sb s x) = true /\ td_pre (td s x) = true).
Proof. exact registered_window. Qed.
Print Assumptions C04_registered_window.

(** "... and to no subscription of another topic" *)
Theorem C04_no_other_topic : forall pers blk fx ls p x,
  let s := grun (ginit pers blk fx) ls in
  In (p, x) (senders s) -> ptopic s p = stopic s x.
Proof. exact sender_topic. Qed.
Print Assumptions C04_no_other_topic.

(** never two Senders for one (message, subscription) pair: with the Layer A theorem above, a
    subscription sees a message a second time only after a Nack *)
Theorem C04_at_most_one_sender : forall pers blk fx ls p x,
  nsenders (grun (ginit pers blk fx) ls) p x <= 1.
Proof. exact sender_unique. Qed.
Print Assumptions C04_at_most_one_sender.

(** a Sender, once spawned, is never withdrawn *)
Theorem C04_senders_only_grow : forall s ls, exists new, senders (grun s ls) = new ++ senders s.
Proof. exact senders_monotone. Qed.
Print Assumptions C04_senders_only_grow.

(** ** The acceptor and the delivery context *)

(** the executable acceptor that judges implementation histories ([Monitor.mon_no_dup]: a message
    is seen again only after a Nack, never after an Ack) accepts every behaviour of the model,
    both loop variants, provided no two Senders carry the same publication - which is what the
    registry layer guarantees ([C04_at_most_one_sender]) *)
Theorem C04_no_dup_acceptor_sound : forall x cap0 fx ls,
  NoDup (MonitorSound.spawn_pubs ls) -> Monitor.mon_no_dup (MonitorSound.trace x (sinit cap0 fx) ls) = [].
Proof. exact MonitorSound.no_dup_sound. Qed.
Print Assumptions C04_no_dup_acceptor_sound.

(** "Each delivery ... whose context ... is live on receipt": the context of a copy lives as long
    as its Sender call ([ctx, cancel := WithCancel(s.ctx); defer cancel()]); when the consumer
    receives a copy from the buffer of a subscription that is not closing, or by direct hand-off,
    the Sender has not returned *)
Theorem C04_context_live_on_receipt : forall s s' c b, SubInvX.SX s -> buf s = c :: b ->
  sstep s LRecv = Some s' -> closing s = false ->
  SubCtx.ctx_live s c = true /\ SubCtx.ctx_live s' c = true /\ c_recv (copies s' c) = true.
Proof. exact SubCtx.recv_ctx_live. Qed.
Print Assumptions C04_context_live_on_receipt.
Theorem C04_context_live_on_handoff : forall s s' t p c, SubInvX.SX s -> Sub.thr s t = SSend p c ->
  sstep s (LHandoff t) = Some s' ->
  SubCtx.ctx_live s c = true /\ SubCtx.ctx_live s' c = true /\ c_recv (copies s' c) = true.
Proof. exact SubCtx.handoff_ctx_live. Qed.
Print Assumptions C04_context_live_on_handoff.
(** [SX] holds in every reachable state *)
Theorem C04_reachable_states_satisfy_SX : forall cap0 fx ls, SubInvX.SX (srun (sinit cap0 fx) ls).
Proof. exact SubInvX.sx_reach. Qed.
Print Assumptions C04_reachable_states_satisfy_SX.

(** "... and is cancelled after the Ack": the Sender that observed the Ack can take its next step,
    which cancels the context, and it never becomes live again *)
Theorem C04_context_cancelled_after_ack : forall s t p c s1, SInv s -> Sub.thr s t = SWait p c ->
  sstep s (LSeeAcked t) = Some s1 ->
  Sub.thr s1 t = SExit p /\ SubCtx.ctx_live s1 c = true
  /\ exists s2, sstep s1 (LStep t) = Some s2 /\ Sub.thr s2 t = Sub.SDone p /\ SubCtx.ctx_live s2 c = false
                /\ forall ls, SubCtx.ctx_live (srun s2 ls) c = false.
Proof. exact SubCtx.ack_cancels_ctx. Qed.
Print Assumptions C04_context_cancelled_after_ack.

(** why the acceptor exempts closing subscriptions: a buffered copy can be received after its
    Sender saw [closing] and returned - the context is then dead on receipt (both loop variants) *)
Example C04_closing_receive_has_dead_context : forall fx,
  let s := srun (sinit 1 fx) SubCtx.dead_ctx_schedule in
  buf s = [0] /\ closing s = true /\ Sub.thr s 0 = Sub.SDone 10 /\ SubCtx.ctx_live s 0 = false
  /\ exists s', sstep s LRecv = Some s' /\ c_recv (copies s' 0) = true /\ SubCtx.ctx_live s' 0 = false.
Proof. exact SubCtx.closing_recv_dead_ctx. Qed.

(** non-vacuity: a run in which a message is Nacked twice and then Acked - three copies, the
    first two Nacked, one Sender *)
Example C04_nack_nack_ack :
  let s := srun (sinit 0 true)
    [LTdSpawn; LSpawn 0 7; LStep 0; LStep 0; LHandoff 0; LNack 0; LSeeNacked 0;
     LStep 0; LHandoff 0; LNack 1; LSeeNacked 0; LStep 0; LHandoff 0; LAck 2; LSeeAcked 0; LStep 0] in
  next s = 3 /\ map (fun c => c_st (copies s c)) [0; 1; 2] = [Nacked; Nacked; Acked]
  /\ Sub.thr s 0 = Sub.SDone 7 /\ outstanding s = [].
Proof. vm_compute. repeat split; reflexivity. Qed.

(** ** Round "proofs": the content / context / topic acceptor *)
From WM Require GoChannel.MonitorContent.

(** the acceptor [Monitor.mon_content] (delivered copy equals the published message, its context
    is live and derived, the subscription belongs to the message's topic) accepts every history
    of the model - Publish / Subscribe calls followed by the behaviour of subscription x with the
    ARecv context flag computed from the state - provided every publication a Sender is spawned
    for on x was published to x's topic (the registry layer: [C04_no_other_topic]).  A copy
    received with a dead context only occurs on a cancelled subscription, which is exactly what
    the acceptor exempts. *)
Theorem C04_content_acceptor_sound : forall cap0 fx calls x k ls,
  (forall p, In p (MonitorSound.spawn_pubs ls) ->
             Monitor.assoc (MonitorContent.pubtab calls) p = Some k) ->
  Monitor.mon_content (MonitorContent.prefix calls x k
                       ++ MonitorContent.trace_ctx x (sinit cap0 fx) ls) = [].
Proof. exact MonitorContent.content_sound. Qed.
Print Assumptions C04_content_acceptor_sound.

(** ** Round "proofs 3": the duplicate acceptor on COMPOSED runs - no hypothesis left *)
From WM Require GoChannel.Compose GoChannel.ComposeTrace.
(** in the composed system (registry x one send protocol per subscription) the LSpawn labels an
    instance sees carry pairwise distinct publications - it was the hypothesis of
    [C04_no_dup_acceptor_sound], now a theorem - so [Monitor.mon_no_dup] accepts the API history
    of every subscription of every composed run, all modes, both loop variants *)
Theorem C04_spawn_pubs_nodup_composed : forall pers blk fx caps fa cls x,
  NoDup (MonitorSound.spawn_pubs (Compose.sub_labels x (Compose.cinit pers blk fx caps fa) cls)).
Proof. exact ComposeTrace.spawn_pubs_nodup. Qed.
Print Assumptions C04_spawn_pubs_nodup_composed.
Theorem C04_no_dup_acceptor_sound_composed : forall pers blk fx caps fa cls x,
  Monitor.mon_no_dup (MonitorSound.trace x (sinit (caps x) fa)
                        (Compose.sub_labels x (Compose.cinit pers blk fx caps fa) cls)) = [].
Proof. exact ComposeTrace.no_dup_acceptor_sound_composed. Qed.
Print Assumptions C04_no_dup_acceptor_sound_composed.

(** ** Round "proofs 5": the delivery acceptor on COMPOSED histories *)
From WM Require GoChannel.ComposeAccept GoChannel.ComposeDelivered.
(** in a quiescent state of the composed system (every Sender the registry spawned has returned in
    its subscription's instance) every Sender (p, x) of a subscription that is not closing has
    delivered: the API history of the whole composed run contains a receipt of p by x.  Any
    consumer behaviour, all modes, every schedule. *)
Theorem C04_delivered_at_quiescence_composed : forall pers blk fx caps fa cls p x,
  let c0 := Compose.cinit pers blk fx caps fa in let c := Compose.crun c0 cls in
  ComposeAccept.quiescent c -> In (p, x) (senders (Compose.cg c)) -> closing (Compose.ci c x) = false ->
  1 <= Monitor.count_recv (ComposeAccept.ctrace c0 cls) x p.
Proof. exact ComposeDelivered.delivered_at_quiescence. Qed.
Print Assumptions C04_delivered_at_quiescence_composed.

(** [Monitor.mon_delivered] accepts the history of every quiescent composed run - PARTIAL: under the
    bookkeeping hypothesis [ComposeDelivered.Tested] (every pair the acceptor tests - good
    subscription x whose ASubRet precedes the APubCall of a good publication p of its topic - has
    a Sender in the registry and x is not closing).  Missing for the full
    [ComposeAccept.delivered_acceptor_sound_composed_statement]: deriving [Tested] from the order of
    events in [ctrace] (ASubRet before APubCall ==> x in p's snapshot), and an AChanClosed event (or
    "no Close in the history") so that a good subscription is not closing at quiescence. *)
Theorem C04_delivered_acceptor_sound_composed_partial : forall pers blk fx caps fa cls,
  let c0 := Compose.cinit pers blk fx caps fa in let c := Compose.crun c0 cls in
  let h := ComposeAccept.ctrace c0 cls ++ [Monitor.AQuiescent] in
  ComposeAccept.quiescent c -> ComposeDelivered.Tested c h -> Monitor.mon_delivered h = [].
Proof. exact ComposeDelivered.delivered_acceptor_sound_composed_partial. Qed.
Print Assumptions C04_delivered_acceptor_sound_composed_partial.

(** ** Round "proofs 6": composed runs without Close / cancel calls *)
From WM Require GoChannel.ComposeNoClose.
(** along every composed run without Close and cancel calls no subscription is ever closing and
    g.closing stays open *)
Theorem C04_no_close_not_closing : forall pers blk fx caps fa cls x,
  forallb ComposeNoClose.no_close_label cls = true ->
  closing (Compose.ci (Compose.crun (Compose.cinit pers blk fx caps fa) cls) x) = false
  /\ gclosing (Compose.cg (Compose.crun (Compose.cinit pers blk fx caps fa) cls)) = false.
Proof. exact ComposeNoClose.no_close_not_closing. Qed.
Print Assumptions C04_no_close_not_closing.
(** [Monitor.mon_delivered] on quiescent composed runs without Close / cancel - PARTIAL: the "not
    closing" half of the bookkeeping hypothesis is discharged; what remains is
    [ComposeNoClose.TestedSenders]: every pair the acceptor tests has a Sender in the registry
    (ASubRet x before APubCall p on x's topic ==> x in p's snapshot: the event-order half, open). *)
Theorem C04_delivered_acceptor_sound_composed_no_close_partial : forall pers blk fx caps fa cls,
  let c0 := Compose.cinit pers blk fx caps fa in let c := Compose.crun c0 cls in
  let h := ComposeAccept.ctrace c0 cls ++ [Monitor.AQuiescent] in
  forallb ComposeNoClose.no_close_label cls = true ->
  ComposeAccept.quiescent c -> ComposeNoClose.TestedSenders c h -> Monitor.mon_delivered h = [].
Proof. exact ComposeNoClose.delivered_acceptor_sound_composed_no_close_partial. Qed.
Print Assumptions C04_delivered_acceptor_sound_composed_no_close_partial.
