(** C05 — GoChannel: one unsettled message per subscription; blocking publish waits.
    Models: GoChannel/Sub.v (Layer A: Senders, consumer and teardown of ONE subscription) and
    GoChannel/Reg.v (Layer B: Publish / Subscribe / teardown / Close and their locks). *)
From WM Require Import Base.Prelude Message.Model GoChannel.Sub GoChannel.SubProofs
                       GoChannel.Reg GoChannel.RegWitness GoChannel.RegLocks GoChannel.RegInv GoChannel.RegSend.
From WM Require GoChannel.Monitor GoChannel.MonitorSound.

(** For every buffer size, any number of Sender goroutines (publishers / replays), every
    consumer behaviour and every schedule: at most ONE copy is in flight (handed to the output
    channel - buffered or received - and neither Acked nor Nacked).  Unconditional for the
    repaired send loop ([fx = true], the code after the D13 fix); for the send loop of the
    pinned commit ([fx = false]) as long as the subscription is not being cancelled/closed. *)
Theorem C05_one_in_flight : forall (cap0 : nat) (fx : bool) (ls : list label),
  let s := srun (sinit cap0 fx) ls in
  (fx = true \/ closing s = false) -> length (outstanding s) <= 1.
Proof. exact one_in_flight. Qed.
Print Assumptions C05_one_in_flight.

(** The full statement is FALSE of the pinned send loop while a subscription is torn down
    (D13): after a cancel, a Sender that was queued on the sending lock still takes the send
    case although its predecessor left its message unsettled - two messages received, both
    unsettled.  The witness schedule is replayed on the implementation by the check. *)
Theorem C05_one_in_flight_refuted :
  let s := srun (sinit 0 false) d13_schedule in
  outstanding s = [0; 1]
  /\ c_recv (copies s 0) = true /\ c_recv (copies s 1) = true /\ Sub.panicked s = false.
Proof. exact one_in_flight_refuted. Qed.
Print Assumptions C05_one_in_flight_refuted.

(** ... and the same schedule on the repaired loop: the second Sender gives up. *)
Theorem C05_one_in_flight_fixed_witness :
  let s := srun (sinit 0 true) d13_schedule in outstanding s = [0] /\ Sub.thr s 1 = SExit 11.
Proof. exact one_in_flight_fixed_witness. Qed.
Print Assumptions C05_one_in_flight_fixed_witness.

(** "Publish does return ... also when subscribers publish from their receive loop or
    subscriptions come and go meanwhile" is FALSE of the code (D9, known finding): a blocking
    Publish waits for the Ack while holding the read lock; the consumer publishes before
    acking; a Subscribe in between has announced a writer, which blocks the consumer's RLock.
    In the reached state no thread can move, nothing is closed, nothing panicked. *)
Theorem C05_blocking_returns_refuted :
  let s := grun (ginit false true true) d9_schedule in
  stuck_on s [0; 1] [0; 1] = true
  /\ Reg.thr s 0 = PWait 0 1 [] /\ Reg.thr s 1 = PRLock 1 [2] /\ sb s 1 = SWAnn 1
  /\ mem 1 (acked s) = false /\ gclosing s = false /\ Reg.panicked s = false.
Proof. exact d9_deadlock. Qed.
Print Assumptions C05_blocking_returns_refuted.

(** "With BlockPublishUntilSubscriberAck, Publish returns only after every subscription that was
    active for the message has Acked it (or ... the Pub/Sub was closed)": for every schedule, a
    blocking Publish that has returned successfully has, for each of its messages, seen all its
    Senders finish ([acked]: a Sender finishes on the Ack or on its subscription's closing -
    Layer A) or the Pub/Sub closing. *)
Theorem C05_blocking_publish_waits : forall pers ls t p,
  let s := grun (ginit pers true true) ls in
  Reg.thr s t = PDone true -> In p (pmsgs s t) -> mem p (acked s) = true \/ gclosing s = true.
Proof. exact blocking_waits. Qed.
Print Assumptions C05_blocking_publish_waits.

(** The executable acceptor that judges implementation histories ([Monitor.mon_one_in_flight], "a
    message was received while an earlier one of that subscription is unsettled") accepts EVERY
    behaviour of the repaired model: for every subscription id, buffer size and schedule the API
    trace the model emits is accepted ... *)
Theorem C05_one_in_flight_acceptor_sound : forall x cap0 ls,
  Monitor.mon_one_in_flight (MonitorSound.trace x (sinit cap0 true) ls) = [].
Proof. exact MonitorSound.one_in_flight_sound. Qed.
Print Assumptions C05_one_in_flight_acceptor_sound.

(** ... and on the pinned loop every verdict it can reach is the while-closing one (D13), never a
    plain two-in-flight *)
Theorem C05_one_in_flight_acceptor_verdicts : forall x cap0 fx ls iv,
  In iv (Monitor.mon_one_in_flight (MonitorSound.trace x (sinit cap0 fx) ls)) ->
  snd iv = Monitor.V_TWO_IN_FLIGHT_CLOSING /\ fx = false.
Proof. exact MonitorSound.one_in_flight_verdicts. Qed.
Print Assumptions C05_one_in_flight_acceptor_verdicts.

(** ** Round "proofs": blocking mode - liveness without a pending writer, publish order *)
From WM Require GoChannel.RegLive GoChannel.RegBlock.

(** "Publish does return ..." fails only through a pending writer (D9).  In every reachable state
    (any mode, all schedules) in which no Subscribe / replay / teardown is between its write-lock
    request and its unlock and something is busy, some internal step is enabled, or a Publish is
    at its wait for a message whose snapshot was taken, not yet acked, nothing closing - and the
    environment step "all Senders of p have finished" is enabled: a blocked Publish waits for
    nothing but its subscribers' Acks. *)
Theorem C05_blocking_progress_without_pending_writer : forall pers blk fx ls,
  let s := grun (ginit pers blk fx) ls in
  writer s = None -> wpending s = [] -> RegLive.busy s ->
  (exists l, RegLive.internal l = true /\ RegLive.en s l) \/ RegBlock.Waiting s.
Proof. exact RegBlock.blocking_progress_without_pending_writer. Qed.
Print Assumptions C05_blocking_progress_without_pending_writer.

(** the D9 deadlock state is exactly in the complement: an announced writer *)
Example C05_d9_has_pending_writer :
  let s := grun (ginit false true true) d9_schedule in
  wpending s = [OwS 1] /\ writer s = None /\ Reg.thr s 0 = PWait 0 1 [] /\ mem 1 (acked s) = false.
Proof. exact RegBlock.d9_has_pending_writer. Qed.

(** every run of internal steps is bounded by the measure - blocking mode included *)
Theorem C05_blocking_internal_runs_bounded : forall pers blk fx ls ils s',
  let s := grun (ginit pers blk fx) ls in
  forallb RegLive.internal ils = true -> greplay s ils = Some s' ->
  length ils + RegLive.measure s' <= RegLive.measure s.
Proof. exact RegBlock.blocking_internal_run_bounded. Qed.
Print Assumptions C05_blocking_internal_runs_bounded.

(** per-publisher order, registry half: in blocking mode a Publish call takes the snapshot of a
    message only after every earlier message of the same call is acked by all subscribers of its
    snapshot (or the Pub/Sub is closing); no Sender of the later message exists before that *)
Theorem C05_blocking_snapshot_order : forall pers ls t k p rem,
  let s := grun (ginit pers true true) ls in
  Reg.thr s t = PSend k (p :: rem) ->
  exists done, pmsgs s t = done ++ p :: rem
    /\ (forall q, In q done -> mem q (acked s) = true \/ gclosing s = true)
    /\ (forall x, nsenders s p x = 0).
Proof. exact RegBlock.blocking_snapshot_order. Qed.
Print Assumptions C05_blocking_snapshot_order.

(** per-publisher order, subscription half: when the Sender of p1 has returned on a subscription
    that is not closing and no Sender of p2 has been spawned yet (which is the situation the
    registry guarantees when it takes p2's snapshot: p1 is acked = all its Senders returned),
    the history of that subscription contains a receipt of p1 and none of p2: first receipts
    are in publish order.  Any consumer (Nacks allowed), every schedule. *)
From WM Require GoChannel.SubFifo.
Theorem C05_blocking_order_on_subscription : forall x cap0 fx ls p1 p2 t1,
  let s := srun (sinit cap0 fx) ls in
  let h := MonitorSound.trace x (sinit cap0 fx) ls in
  NoDup (MonitorSound.spawn_pubs ls) ->
  closing s = false -> Sub.thr s t1 = Sub.SDone p1 ->
  (forall t, MonitorSound.spc_pub (Sub.thr s t) <> Some p2) ->
  1 <= Monitor.count_recv h x p1 /\ Monitor.count_recv h x p2 = 0.
Proof. exact SubFifo.fifo_at_spawn. Qed.
Print Assumptions C05_blocking_order_on_subscription.

(** ** Round "proofs 2": ONE composed system (registry x one send protocol per subscription) *)
From WM Require GoChannel.Compose.

(** the layers are glued by synchronised steps (snapshot / replay = LSpawn in the instance,
    teardown woken = LTdWake, s.Close() returned = DSubClose, and [GAllAcked p] is enabled only
    when every Sender of p's snapshot has returned); the registry component of every composed
    run is a registry run and every instance is a run of the per-subscription model, so all
    theorems above hold of the composition *)
Theorem C05_composed_projection_registry : forall ls c,
  Compose.cg (Compose.crun c ls) = grun (Compose.cg c) (Compose.reg_labels c ls).
Proof. exact Compose.proj_reg. Qed.
Print Assumptions C05_composed_projection_registry.
Theorem C05_composed_projection_subscription : forall x ls c,
  Compose.ci (Compose.crun c ls) x = srun (Compose.ci c x) (Compose.sub_labels x c ls).
Proof. exact Compose.proj_sub. Qed.
Print Assumptions C05_composed_projection_subscription.

(** the contract between the layers is now a theorem: a message is in [acked] only after its
    Sender has returned in every subscription of its snapshot *)
Theorem C05_acked_after_senders_returned : forall pers blk fx caps fa cls p x,
  let c := Compose.crun (Compose.cinit pers blk fx caps fa) cls in
  In p (acked (Compose.cg c)) -> In x (Compose.csnap c p) ->
  exists q, Sub.thr (Compose.ci c x) p = Sub.SDone q.
Proof. exact Compose.acked_after_senders_returned. Qed.
Print Assumptions C05_acked_after_senders_returned.

(** per-publisher FIFO in blocking mode, over both layers: when a Publish call is about to take
    the snapshot of p2, every subscription that was in the snapshot of an earlier message p1 of
    the call has received and Acked a copy of p1 (its Sender returned) and has no Sender and no
    copy of p2 - unless the Pub/Sub or that subscription is closing *)
Theorem C05_blocking_fifo_composed : forall pers caps fa cls t k p2 rem,
  let c := Compose.crun (Compose.cinit pers true true caps fa) cls in
  Reg.thr (Compose.cg c) t = PSend k (p2 :: rem) ->
  exists done, pmsgs (Compose.cg c) t = done ++ p2 :: rem /\
  forall p1 x, In p1 done -> In x (Compose.csnap c p1) ->
    gclosing (Compose.cg c) = true \/
    ((exists q, Sub.thr (Compose.ci c x) p1 = Sub.SDone q)
     /\ (closing (Compose.ci c x) = false ->
         exists c1, c1 < next (Compose.ci c x) /\ c_thr (copies (Compose.ci c x) c1) = p1
                    /\ c_st (copies (Compose.ci c x) c1) = Acked
                    /\ c_recv (copies (Compose.ci c x) c1) = true)
     /\ Sub.thr (Compose.ci c x) p2 = Sub.SNone
     /\ (forall c2, c2 < next (Compose.ci c x) -> c_thr (copies (Compose.ci c x) c2) <> p2)).
Proof. exact Compose.fifo_composed. Qed.
Print Assumptions C05_blocking_fifo_composed.

(** "Publish does return": progress of the composed system.  In every reachable composed state
    (any mode) in which no Subscribe / replay / teardown holds or has announced the write lock
    and something in the registry is busy, some step of the composition itself is enabled: a
    registry-internal step, the closing of a message's acked channel, a Sender's or teardown's
    own step in some subscription - or a step of some subscription's CONSUMER (receive / Ack /
    Nack).  A blocked Publish waits for nothing but the consumers of its subscribers.
    (Termination - that the steps run out - needs a bound on the consumers' Nacks and a run
    without further Subscribe / cancel: see GoChannel/ComposeLive.v; hence "_partial".) *)
From WM Require GoChannel.ComposeLive.
Theorem C05_blocking_returns_composed_partial : forall pers blk fx caps fa cls,
  let c := Compose.crun (Compose.cinit pers blk fx caps fa) cls in
  writer (Compose.cg c) = None -> wpending (Compose.cg c) = [] -> RegLive.busy (Compose.cg c) ->
  ComposeLive.CProg c.
Proof. exact ComposeLive.blocking_progress_composed. Qed.
Print Assumptions C05_blocking_returns_composed_partial.

(** ** Round "proofs 3" *)
From WM Require GoChannel.ComposeTrace.
(** the one-in-flight acceptor accepts the history of every subscription of every composed run
    (repaired loop) *)
Theorem C05_one_in_flight_acceptor_sound_composed : forall pers blk fx caps cls x,
  Monitor.mon_one_in_flight
    (MonitorSound.trace x (sinit (caps x) true)
       (Compose.sub_labels x (Compose.cinit pers blk fx caps true) cls)) = [].
Proof. exact ComposeTrace.one_in_flight_acceptor_sound_composed. Qed.
Print Assumptions C05_one_in_flight_acceptor_sound_composed.

(** termination half of "every Publish returns" in the composition, per component (the combined
    measure - spawned Senders paid for by a weight on the registry measure - is the part that is
    still missing; the full statement is [ComposeMeasure.blocking_returns_composed_statement]) *)
From WM Require GoChannel.SubMeasure GoChannel.ComposeMeasure.
Theorem C05_composed_registry_step_decreases : forall pers blk fx caps fa cls l c',
  let c := Compose.crun (Compose.cinit pers blk fx caps fa) cls in
  RegLive.internal l = true -> Compose.cstep c (Compose.CReg l) = Some c' ->
  RegLive.measure (Compose.cg c') < RegLive.measure (Compose.cg c).
Proof. exact ComposeMeasure.composed_reg_step_decreases. Qed.
Print Assumptions C05_composed_registry_step_decreases.
Theorem C05_composed_sender_step_decreases : forall pers blk fx caps fa cls x l c',
  let c := Compose.crun (Compose.cinit pers blk fx caps fa) cls in
  SubMeasure.moving l = true -> Compose.cstep c (Compose.CSub x l) = Some c' ->
  SubLive.measure (sent (Compose.cg c)) (Compose.ci c' x) < SubLive.measure (sent (Compose.cg c)) (Compose.ci c x)
  /\ Compose.cg c' = Compose.cg c /\ (forall y, y <> x -> Compose.ci c' y = Compose.ci c y).
Proof. exact ComposeMeasure.composed_sub_step_decreases. Qed.
Print Assumptions C05_composed_sender_step_decreases.
(** ... and the safety half of the full statement: nothing enabled (consumers included), no
    writer pending or holding ==> no Publish is under way *)
Theorem C05_stuck_means_published : forall pers blk fx caps fa cls,
  let c := Compose.crun (Compose.cinit pers blk fx caps fa) cls in
  writer (Compose.cg c) = None -> wpending (Compose.cg c) = [] -> ~ ComposeLive.CProg c ->
  forall t, ComposeMeasure.publish_pending (Reg.thr (Compose.cg c) t) = false.
Proof. exact ComposeMeasure.stuck_means_published. Qed.
Print Assumptions C05_stuck_means_published.

(** ** Round "proofs 4": "every blocking Publish returns" in the composition *)
From WM Require GoChannel.ComposeTerm.
(** ONE measure for the composed system: M = W * (registry measure) + sum of the instance measures
    + number of sent-but-unacked publications, W = 6|T||X| + 2 (T = publication ids used so far,
    X = subscriptions so far).  Every step of the composition that is neither the consumer's nor
    an API call (and not a redundant GAllAcked) strictly decreases M; LRecv / LAck leave it
    unchanged; a Nack raises it by at most 3|T||X|. *)
Theorem C05_composed_step_decreases : forall pers blk fx caps fa cls T X,
  let c := Compose.crun (Compose.cinit pers blk fx caps fa) cls in
  (forall p, In p (used (Compose.cg c)) -> In p T) -> (forall x, In x (allsubs (Compose.cg c)) -> In x X) ->
  forall cl c', ComposeTerm.counted c cl = true -> Compose.cstep c cl = Some c' ->
  ComposeTerm.M T X c' < ComposeTerm.M T X c.
Proof. exact ComposeTerm.composed_step_decreases. Qed.
Print Assumptions C05_composed_step_decreases.

(** Hence: from every reachable composed state c, along every run without new Publish / Subscribe /
    cancel / Close calls, the number of executed steps other than the consumers' is at most
    M c + 3|T||X| * (number of Nacks) - with a Nack budget the run is finite up to consumer steps,
    any mode, blocking included; and a state in which nothing of the composition (consumers
    included) is enabled and no writer is pending or holding has every Publish returned. *)
Theorem C05_blocking_returns_composed : forall pers blk fx caps fa cls cls',
  let c := Compose.crun (Compose.cinit pers blk fx caps fa) cls in
  let T := used (Compose.cg c) in let X := allsubs (Compose.cg c) in
  forallb (fun cl => negb (ComposeMeasure.env_call cl)) cls' = true ->
  ComposeTerm.ccount c cls'
    <= ComposeTerm.M T X c + ComposeTerm.budget T X * ComposeMeasure.count_exec ComposeMeasure.nack_step c cls'
  /\ (writer (Compose.cg (Compose.crun c cls')) = None -> wpending (Compose.cg (Compose.crun c cls')) = [] ->
      ~ ComposeLive.CProg (Compose.crun c cls') ->
      forall t, ComposeMeasure.publish_pending (Reg.thr (Compose.cg (Compose.crun c cls')) t) = false).
Proof. exact ComposeTerm.blocking_returns_composed. Qed.
Print Assumptions C05_blocking_returns_composed.
