(** C05 — GoChannel: one unsettled message per subscription; blocking publish waits.
    Models: GoChannel/Sub.v (Layer A: Senders, consumer and teardown of ONE subscription) and
    GoChannel/Reg.v (Layer B: Publish / Subscribe / teardown / Close and their locks). *)
From WM Require Import Base.Prelude Message.Model GoChannel.Sub GoChannel.SubProofs
                       GoChannel.Reg GoChannel.RegWitness GoChannel.RegLocks GoChannel.RegInv GoChannel.RegSend.
From WM Require GoChannel.Monitor GoChannel.MonitorSound.

(** For every buffer size, any number of Sender goroutines (publishers / replays), every
    consumer behaviour and every schedule: at most ONE copy is in flight (handed to the output
    channel - buffered or received - and neither Acked nor Nacked).  Unconditional for the
    repaired send loop ([fx = true], the code after the D13 fix); for the send loop of the
    pinned commit ([fx = false]) as long as the subscription is not being cancelled/closed. *)
Theorem C05_one_in_flight : forall (cap0 : nat) (fx : bool) (ls : list label),
  let s := srun (sinit cap0 fx) ls in
  (fx = true \/ closing s = false) -> length (outstanding s) <= 1.
Proof. exact one_in_flight. Qed.
Print Assumptions C05_one_in_flight.

(** The full statement is FALSE of the pinned send loop while a subscription is torn down
    (D13): after a cancel, a Sender that was queued on the sending lock still takes the send
    case although its predecessor left its message unsettled - two messages received, both
    unsettled.  The witness schedule is replayed on the implementation by the check. *)
Theorem C05_one_in_flight_refuted :
  let s := srun (sinit 0 false) d13_schedule in
  outstanding s = [0; 1]
  /\ c_recv (copies s 0) = true /\ c_recv (copies s 1) = true /\ Sub.panicked s = false.
Proof. exact one_in_flight_refuted. Qed.
Print Assumptions C05_one_in_flight_refuted.

(** ... and the same schedule on the repaired loop: the second Sender gives up. *)
Theorem C05_one_in_flight_fixed_witness :
  let s := srun (sinit 0 true) d13_schedule in outstanding s = [0] /\ Sub.thr s 1 = SExit 11.
Proof. exact one_in_flight_fixed_witness. Qed.
Print Assumptions C05_one_in_flight_fixed_witness.

(** "Publish does return ... also when subscribers publish from their receive loop or
    subscriptions come and go meanwhile" is FALSE of the code (D9, known finding): a blocking
    Publish waits for the Ack while holding the read lock; the consumer publishes before
    acking; a Subscribe in between has announced a writer, which blocks the consumer's RLock.
    In the reached state no thread can move, nothing is closed, nothing panicked. *)
Theorem C05_blocking_returns_refuted :
  let s := grun (ginit false true true) d9_schedule in
  stuck_on s [0; 1] [0; 1] = true
  /\ Reg.thr s 0 = PWait 0 1 [] /\ Reg.thr s 1 = PRLock 1 [2] /\ sb s 1 = SWAnn 1
  /\ mem 1 (acked s) = false /\ gclosing s = false /\ Reg.panicked s = false.
Proof. exact d9_deadlock. Qed.
Print Assumptions C05_blocking_returns_refuted.

(** "With BlockPublishUntilSubscriberAck, Publish returns only after every subscription that was
    active for the message has Acked it (or ... the Pub/Sub was closed)": for every schedule, a
    blocking Publish that has returned successfully has, for each of its messages, seen all its
    Senders finish ([acked]: a Sender finishes on the Ack or on its subscription's closing -
    Layer A) or the Pub/Sub closing. *)
Theorem C05_blocking_publish_waits : forall pers ls t p,
  let s := grun (ginit pers true true) ls in
  Reg.thr s t = PDone true -> In p (pmsgs s t) -> mem p (acked s) = true \/ gclosing s = true.
Proof. exact blocking_waits. Qed.
Print Assumptions C05_blocking_publish_waits.

(** The executable acceptor that judges implementation histories ([Monitor.mon_one_in_flight], "a
    message was received while an earlier one of that subscription is unsettled") accepts EVERY
    behaviour of the repaired model: for every subscription id, buffer size and schedule the API
    trace the model emits is accepted ... *)
Theorem C05_one_in_flight_acceptor_sound : forall x cap0 ls,
  Monitor.mon_one_in_flight (MonitorSound.trace x (sinit cap0 true) ls) = [].
Proof. exact MonitorSound.one_in_flight_sound. Qed.
Print Assumptions C05_one_in_flight_acceptor_sound.

(** ... and on the pinned loop every verdict it can reach is the while-closing one (D13), never a
    plain two-in-flight *)
Theorem C05_one_in_flight_acceptor_verdicts : forall x cap0 fx ls iv,
  In iv (Monitor.mon_one_in_flight (MonitorSound.trace x (sinit cap0 fx) ls)) ->
  snd iv = Monitor.V_TWO_IN_FLIGHT_CLOSING /\ fx = false.
Proof. exact MonitorSound.one_in_flight_verdicts. Qed.
Print Assumptions C05_one_in_flight_acceptor_verdicts.
