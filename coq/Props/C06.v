(** C06 - Router.Close is graceful: returns nil only when no handler runs or can start.
    Statements over ALL schedules of the thread-level model Router/Close.v (any number of
    handlers [n], subscribers honouring their context or not [hon], any number of messages and
    Close callers, timeouts firing at any moment).  Flags: fix5 / fix6 / fix12 = the repairs of
    D5 / D6 / D12 (true = the code after the fix: commits). *)
From WM Require Import Base.Prelude Router.Close Router.CloseMonitor Router.CloseProofs Router.CloseTheorems Router.CloseWitness Router.CloseRefine Router.CloseStuck Router.CloseTerm Router.CloseAccept.

(** a Close call that returned nil: no handler invocation in progress, no message in the
    pipeline (each one taken from the subscriber has been handled to completion and settled),
    every handler loop has ended.  Holds for the call that performed the close and, with the
    D12 repair (or when no call timed out), for every call. *)
Theorem C06_close_nil_implies_quiescent :
  forall n hon f6 f12 sched c,
    let s := exec (init n hon true f6 f12) sched in
    cp s c = CRet RNil -> (f12 = true \/ close_res s <> Some RErr) -> quiescent s.
Proof. exact close_nil_implies_quiescent. Qed.
Print Assumptions C06_close_nil_implies_quiescent.

(** ... and none will start afterwards: whatever happens after the nil return *)
Theorem C06_nothing_starts_after_nil_close :
  forall n hon f6 sched more c,
    cp (exec (init n hon true f6 true) sched) c = CRet RNil ->
    quiescent (exec (init n hon true f6 true) (sched ++ more)).
Proof. exact nothing_starts_after_nil_close. Qed.
Print Assumptions C06_nothing_starts_after_nil_close.

(** the pinned code violates it: concurrent waits (D5) *)
Theorem C06_close_nil_implies_quiescent_refuted_concurrent_waits :
  match replay (init 1 ignore_ctx false true true) d5_schedule with
  | Some s => running_after_nil s 0 0 && negb (quiescent_b s)
  | None => false
  end = true.
Proof. exact d5_witness. Qed.
Print Assumptions C06_close_nil_implies_quiescent_refuted_concurrent_waits.

(** the pinned code violates it: a second Close after a timed-out one returns nil (D12) *)
Theorem C06_repeated_close_after_timeout_refuted :
  match replay (init 1 ignore_ctx true true false) d12_schedule with
  | Some s => returned s 0 RErr && running_after_nil s 1 0
  | None => false
  end = true.
Proof. exact d12_witness. Qed.
Print Assumptions C06_repeated_close_after_timeout_refuted.

(** Close closes every handler's subscriber: handleClose never finishes without having called
    Close() on it - unless the user had cancelled Run's context before Close signalled (then the
    handlers are stopped through their contexts; known finding) *)
Theorem C06_close_closes_subscribers :
  forall n hon f5 f12 sched h,
    let s := exec (init n hon f5 true f12) sched in
    early_cancel s = false -> hc_decided (hc s h) = true -> 1 <= sub_closes s h.
Proof. exact close_closes_subscriber. Qed.
Print Assumptions C06_close_closes_subscribers.

(** the pinned code violates it (D6): the subscriber is never closed and, when it ignores its
    context, only the timeout can end Close although no handler is running *)
Theorem C06_close_closes_subscribers_refuted :
  match replay (init 1 ignore_ctx true false true) d6_schedule with
  | Some s => match cp s 0 with CWait => true | _ => false end && negb (early_cancel s) &&
              negb (handler_running_b s) && Nat.eqb (sub_closes s 0) 0 &&
              match sys_enabled s 1 with [] => true | _ => false end
  | None => false
  end = true.
Proof. exact d6_witness. Qed.
Print Assumptions C06_close_closes_subscribers_refuted.

(** at rest every handler's publisher has been closed *)
Theorem C06_close_closes_publishers :
  forall n hon f5 f6 f12 sched h,
    let s := exec (init n hon f5 f6 f12) sched in
    quiescent s -> h < n -> 1 <= pub_closes s h.
Proof. exact quiescent_closes_publishers. Qed.
Print Assumptions C06_close_closes_publishers.

(** handlers outliving CloseTimeout: the timeout is always available to the waiting call and
    makes it return an error *)
Theorem C06_timeout_returns_error :
  forall s c, cp s c = CWait ->
    exists s', step s (LTimeout c) = Some s' /\ cp s' c = CClosedCh RErr /\ close_res s' = Some RErr.
Proof. exact timeout_returns_error. Qed.
Print Assumptions C06_timeout_returns_error.

(** ... and it needs nobody else: from ANY state in which the call waits, three steps of that call
    alone (timeout, deferred close(closedCh), deferred unlocks) reach the error return with
    closedCh closed (so Run can return) and closedLock free (so other Close calls get in) - no
    step of a handler, a loop, a pump or a handleClose goroutine is required.  In particular a
    subscriber whose Close() blocks ([HCInSubClose] until the environment's [LSubCloseRet], which
    may never come) cannot make Close hang. *)
Theorem C06_timeout_returns_error_alone :
  forall s c, cp s c = CWait ->
    exists s', replay s [LTimeout c; LClose c; LClose c] = Some s' /\
               cp s' c = CRet RErr /\ closedCh s' = true /\ closedLock s' = None /\
               hc s' = hc s /\ mp s' = mp s /\ lp s' = lp s.
Proof. exact timeout_alone_returns_error. Qed.
Print Assumptions C06_timeout_returns_error_alone.

(** the step-level facts behind termination (the former C06_every_close_returns_partial, kept):
    in every reachable state, with any number of RunHandlers calls competing for handlersLock, some
    lock user (a Close call, or the RunHandlers call that holds handlersLock) can move whenever a
    Close call has not returned - no lock-order cycle between closedLock and handlersLock - and each
    call takes at most seven steps of its own. *)
Theorem C06_some_lock_user_can_always_move :
  (forall n hon f5 f6 f12 sched c,
     let s := exec (init n hon f5 f6 f12) sched in
     cp s c <> CNone -> (forall r, cp s c <> CRet r) -> lock_user_can_move s) /\
  (forall s l s' c, step s l = Some s' ->
     (own_label l c = true -> crank (cp s' c) < crank (cp s c)) /\
     (own_label l c = false -> cp s' c = cp s c)).
Proof. exact (conj close_never_stuck close_steps_bounded). Qed.
Print Assumptions C06_some_lock_user_can_always_move.

(** what can keep a Close call waiting (the general stuck-state theorem of the repaired protocol):
    in every reachable state in which a call waits and NO system step is enabled - i.e. everything
    but the environment's own choices (a new Close call, the user's cancel, an emission, a handler
    function returning, the subscriber's own Close() returning, the clock) has come to a halt -
    a handler function is still running, or a handleClose goroutine is blocked inside its
    subscriber's Close(), or the user had cancelled Run's context before Close signalled (the
    known finding).  Nothing else - no lock, wait group, channel or goroutine of the Router - can
    keep Close from finishing without the timeout.  Together with
    [C06_some_lock_user_can_always_move] and [C06_timeout_returns_error_alone]: a Close call returns
    as soon as the scheduler runs it (fairness of the Go scheduler is the only assumption left). *)
Theorem C06_close_waits_only_for_handlers_or_blocked_subscriber :
  forall n hon f12 sched c,
    let s := exec (init n hon true true f12) sched in
    cp s c = CWait ->
    (forall l, sys_label l = true -> step s l = None) ->
    (exists m, mp s m = MRunning) \/ (exists h, hc s h = HCInSubClose) \/ early_cancel s = true.
Proof. exact close_waits_only_for. Qed.
Print Assumptions C06_close_waits_only_for_handlers_or_blocked_subscriber.

(** Run returns only after the close has completed: closedCh is closed, the result is decided,
    no Close call is still signalling or waiting - and after a nil result everything is at rest *)
Theorem C06_run_returns_after_close :
  forall n hon f5 f6 f12 sched,
    let s := exec (init n hon f5 f6 f12) sched in
    run s = RDone ->
    closedCh s = true /\ close_res s <> None /\ (forall c, cp s c <> CWait /\ cp s c <> CSignal) /\
    (f5 = true -> close_res s = Some RNil -> quiescent s).
Proof. exact run_returns_after_close. Qed.
Print Assumptions C06_run_returns_after_close.

(** repeated / concurrent Close is safe: never two calls inside the critical section, and no
    panic (no channel closed twice, no negative WaitGroup) in any variant *)
Theorem C06_concurrent_close :
  (forall n hon f5 f6 f12 sched c1 c2,
     let s := exec (init n hon f5 f6 f12) sched in
     holds (cp s c1) = true -> holds (cp s c2) = true -> c1 = c2) /\
  (forall n hon f5 f6 f12 sched, panicked (exec (init n hon f5 f6 f12) sched) = false).
Proof. exact (conj close_exclusive no_panic). Qed.
Print Assumptions C06_concurrent_close.

(** the link between the model and the executable acceptor the check evaluates on implementation
    histories: EVERY API trace of the repaired model (any handlers, subscribers, schedule; [trace]
    is the function Corr/C06.v uses) is accepted - [mon_run] reports no rejection at all
    (simulation relation between model state and acceptor state, Router/CloseRefine.v) *)
Theorem C06_acceptor_accepts_model :
  forall hp n hon f6 ls, mon_run n hp (trace (init n hon true f6 true) ls) = [].
Proof. exact mon_accepts_model. Qed.
Print Assumptions C06_acceptor_accepts_model.

(** the hypotheses are satisfiable and the behaviour is not trivial: a close that overlaps a
    message in the pipeline, waits for it, returns nil, with everything closed and the acceptor
    accepting the whole history *)
Example C06_graceful_close_example :
  match replay (init 1 ignore_ctx true true true) graceful_schedule with
  | Some s => returned s 0 RNil && quiescent_b s && Nat.eqb (sub_closes s 0) 1 && Nat.eqb (pub_closes s 0) 1 &&
              match run s with RDone => true | _ => false end && negb (panicked s) &&
              match mon_run 1 (fun _ => true) (trace (init 1 ignore_ctx true true true) graceful_schedule) with [] => true | _ => false end
  | None => false
  end = true.
Proof. exact graceful_example. Qed.

(** the acceptor the harness evaluates rejects the D5 and D12 histories of the model *)
Example C06_monitor_rejects_d5 :
  existsb (fun ic => Nat.eqb (snd ic) 2) (mon_run 1 (fun _ => true) (trace (init 1 ignore_ctx false true true) d5_schedule)) = true.
Proof. exact d5_monitor_rejects. Qed.
Example C06_monitor_rejects_d12 :
  existsb (fun ic => Nat.eqb (snd ic) 14) (mon_run 1 (fun _ => true) (trace (init 1 ignore_ctx true true false) d12_schedule)) = true.
Proof. exact d12_monitor_rejects. Qed.

(** a subscriber whose Close() never returns + a handler that never finishes: both Close calls
    return the timeout error and Run returns *)
Example C06_blocked_subscriber_close_example :
  match replay (init 1 ignore_ctx true true true) blocked_sub_close_schedule with
  | Some s => returned s 0 RErr && returned s 1 RErr && match run s with RDone => true | _ => false end &&
              match hc s 0 with HCInSubClose => true | _ => false end &&
              match mp s 0 with MRunning => true | _ => false end
  | None => false
  end = true.
Proof. exact blocked_sub_close_example. Qed.

(** ** handlers that were added but never started (D16): [init_u n u] has [u] such handlers *)

(** the pinned code: Close can only time out although nothing runs, nothing is blocked, the
    context was not cancelled and no system step is enabled *)
Theorem C06_unstarted_handler_blocks_close_refuted :
  match replay (init_u 0 1 ignore_ctx true true true false) d16_schedule with
  | Some s => match cp s 0 with CWait => true | _ => false end && negb (early_cancel s) &&
              negb (handler_running_b s) && match sys_enabled s 1 with [] => true | _ => false end
  | None => false
  end = true.
Proof. exact d16_witness. Qed.
Print Assumptions C06_unstarted_handler_blocks_close_refuted.

(** repaired: with any number of never-started handlers the stuck-state theorem and the
    quiescence theorem hold unchanged *)
Theorem C06_close_waits_only_for_handlers_or_blocked_subscriber_with_unstarted :
  forall n u hon f12 sched c,
    let s := exec (init_u n u hon true true f12 true) sched in
    cp s c = CWait ->
    (forall l, sys_label l = true -> step s l = None) ->
    (exists m, mp s m = MRunning) \/ (exists h, hc s h = HCInSubClose) \/ early_cancel s = true.
Proof. exact close_waits_only_for_u. Qed.
Print Assumptions C06_close_waits_only_for_handlers_or_blocked_subscriber_with_unstarted.

Theorem C06_close_nil_implies_quiescent_with_unstarted :
  forall n u hon f6 f16 sched c,
    let s := exec (init_u n u hon true f6 true f16) sched in
    cp s c = CRet RNil -> quiescent s.
Proof. exact close_nil_implies_quiescent_u. Qed.
Print Assumptions C06_close_nil_implies_quiescent_with_unstarted.

Example C06_unstarted_handler_fixed_example :
  match replay (init_u 0 1 ignore_ctx true true true true)
               (d16_schedule ++ [LW1; LW2; LW2; LW2; LWaitDone 0; LClose 0; LClose 0; LRun]) with
  | Some s => returned s 0 RNil && match run s with RDone => true | _ => false end
  | None => false
  end = true.
Proof. exact d16_fixed_returns_nil. Qed.

(** sensitivity of the no-deadlock part: in the variant where RunHandlers asks IsClosed() (closedLock)
    while it holds handlersLock, an overlapping Close and RunHandlers block each other for ever *)
Theorem C06_every_close_returns_refuted_if_runhandlers_takes_closedlock :
  match replay (init_rh_isclosed 1 ignore_ctx) rh_deadlock_schedule with
  | Some s => match cp s 0 with CHWant => true | _ => false end && match rp s 0 with RHCWant => true | _ => false end &&
              negb (enabled s (LClose 0)) && negb (enabled s (LTimeout 0)) && negb (enabled s (LRh 0)) &&
              match sys_enabled s 1 with [LHcClosing 0] | [] => true | _ => false end
  | None => false
  end = true.
Proof. exact rh_isclosed_deadlock_witness. Qed.
Print Assumptions C06_every_close_returns_refuted_if_runhandlers_takes_closedlock.

(** EVERY CLOSE CALL RETURNS - termination in the closed system, no fairness assumption.
    [mu K] is a natural-number measure over all threads of the model (Close calls and RunHandlers
    calls below the identifier bound [K] of the schedule so far, the two waiters, Run, per handler:
    subscription, pump, handleClose, loop; per message) that every SYSTEM label strictly decreases
    (all labels except the environment's: a new Close / RunHandlers call, the user's cancel, an
    emission, a handler function returning, a subscriber's own Close() returning, the clock).  So
    from every reachable state of the repaired protocol (any handlers, never-started handlers,
    subscribers, schedule) every run of system labels has at most [mu K s] steps, and a maximal one
    ends in a state where every Close call has returned, or is the one waiting for the handlers with
    the wait LEGITIMATELY held (a handler function still running, a subscriber blocked in its own
    Close(), or the context cancelled before Close signalled - the known finding), or wants
    closedLock while that call holds it.  In the legitimately-held case the timeout is enabled and
    leads to the error return in three steps of that call alone ([C06_timeout_returns_error_alone]),
    after which the calls that wanted the lock run through the 'already closed' path. *)
Theorem C06_every_close_returns :
  forall n u hon f12 sched,
    let s := exec (init_u n u hon true true f12 true) sched in
    let K := ids_bound sched in
    (forall ls s', Forall (fun l => sys_label l = true) ls -> replay s ls = Some s' -> length ls <= mu K s) /\
    (forall ls s', Forall (fun l => sys_label l = true) ls -> replay s ls = Some s' -> sys_maximal s' ->
       forall c,
         cp s' c = CNone \/ (exists r, cp s' c = CRet r) \/
         (cp s' c = CWait /\ legitimately_held s') \/
         (cp s' c = CWant /\ exists c', cp s' c' = CWait /\ legitimately_held s')).
Proof. exact every_close_returns. Qed.
Print Assumptions C06_every_close_returns.

(** the measure: every system label strictly decreases it *)
Theorem C06_system_steps_decrease_measure :
  forall K s l s', Inv s -> hbounded s -> bounded K s -> sys_label l = true -> step s l = Some s' -> mu K s' < mu K s.
Proof. exact mu_decreases. Qed.
Print Assumptions C06_system_steps_decrease_measure.

(** ** the acceptor is not a trusted oracle *)

(** [mon_run] (Router/CloseMonitor.v) - the function the check evaluates on implementation
    histories - accepts the API trace of EVERY run of the repaired model: any handlers, any
    never-started handlers, any subscribers, with or without the D6/D16 repairs, any schedule; no
    rejection code of any kind.  One simulation case per label ([sim_step], Router/CloseRefine.v). *)
Theorem C06_model_accepted :
  forall hp n u hon f6 f16 ls, mon_run n hp (trace (init_u n u hon true f6 true f16) ls) = [].
Proof. exact mon_accepts_model_u. Qed.
Print Assumptions C06_model_accepted.

(** ... including its verdict AT REST (the event [AQuiescent] the driver appends when every
    handleClose goroutine has decided): if Run's context was not cancelled before Close signalled,
    the acceptor also finds Close() called on every handler's subscriber and, after a nil Close,
    every publisher closed (second simulation relation [RelQ], Router/CloseAccept.v).  This is the
    complement of the known finding below. *)
Theorem C06_model_accepted_at_rest :
  forall n hon ls hp,
    let s0 := init n hon true true true in
    let s := exec s0 ls in
    early_cancel s = false ->
    (forall h, h < n -> hc_decided (hc s h) = true) ->
    mon_run n hp (trace s0 ls ++ [AQuiescent]) = [].
Proof. exact model_accepted_at_rest. Qed.
Print Assumptions C06_model_accepted_at_rest.

(** the KNOWN FINDING, in the repaired model: Run's context cancelled BEFORE Close signals =>
    handleClose leaves through ctx.Done and never closes the subscriber; with a subscriber that
    ignores its context the Close call waits with no system step enabled and no handler running
    (only the clock can end it).  The complementary case is [C06_close_closes_subscribers] /
    [C06_model_accepted_at_rest] (no cancel before Close => every subscriber closed). *)
Theorem C06_close_closes_subscribers_refuted_after_early_cancel :
  match replay (init 1 ignore_ctx true true true) early_cancel_schedule with
  | Some s => match cp s 0 with CWait => true | _ => false end && early_cancel s &&
              match hc s 0 with HCDone => true | _ => false end && Nat.eqb (sub_closes s 0) 0 &&
              negb (handler_running_b s) && match sys_enabled s 1 with [] => true | _ => false end
  | None => false
  end = true.
Proof. exact early_cancel_witness. Qed.
Print Assumptions C06_close_closes_subscribers_refuted_after_early_cancel.

Example C06_monitor_reports_known_finding :
  map snd (mon_run 1 (fun _ => true)
             (trace (init 1 ignore_ctx true true true) (early_cancel_schedule ++ [LTimeout 0; LClose 0; LClose 0]) ++ [AQuiescent]))
  = [7; 8].
Proof. exact early_cancel_monitor_rejects. Qed.

(** handleMessage's failure exits (handler error, recovered panic) are part of the model ([LFail]):
    every theorem above quantifies over them; a concrete run *)
Example C06_failing_handler_example :
  match replay (init 1 ignore_ctx true true true) failing_handler_schedule with
  | Some s => returned s 0 RNil && quiescent_b s && negb (panicked s) &&
              match mon_run 1 (fun _ => true) (trace (init 1 ignore_ctx true true true) failing_handler_schedule ++ [AQuiescent]) with [] => true | _ => false end
  | None => false
  end = true.
Proof. exact failing_handler_example. Qed.
