(** C03 — Message Ack/Nack is a linearizable first-wins state machine.
    Only statements, each closed by [exact], with [Print Assumptions]. *)
From WM Require Import Base.Prelude Message.Model Message.Conc Message.Proofs.

(** For every constructor and every finite sequence over {Ack, Nack, read Acked(), read
    Nacked()}: the results are exactly those of the first-wins specification (the first
    Ack/Nack decides; afterwards Ack is true iff acked, Nack iff nacked; a read finds the
    channel closed iff it is the decided one), every call returns a result (no step of the
    model blocks: [step] is total), nothing panics (also on the zero-value message), and at
    the end exactly the matching channel is closed, never both. *)
Theorem C03_first_wins_seq : forall (c : ctor) (ops : list op),
  let '(m, rs) := run (init c) ops in
  seq_monitor (combine ops rs) = true
  /\ length rs = length ops
  /\ panicked m = false
  /\ (ackc m = CClosed <-> st m = Acked)
  /\ (nackc m = CClosed <-> st m = Nacked)
  /\ ~ (ackc m = CClosed /\ nackc m = CClosed).
Proof. exact first_wins_seq. Qed.
Print Assumptions C03_first_wins_seq.

(** The first decision is final: whatever is called afterwards, the state stays. *)
Theorem C03_decided_forever : forall (c : ctor) (ops1 ops2 : list op),
  st (fst (run (init c) ops1)) <> Unsettled ->
  fst (run (init c) (ops1 ++ ops2)) = fst (run (init c) ops1).
Proof. exact decided_forever. Qed.
Print Assumptions C03_decided_forever.

(** Any number of goroutines, any programs, any schedule of the micro-step system (lock,
    guards + type write, channel close, unlock; channel receives atomic): the linearisation
    points form a legal sequential history of the atomic object, each lies inside its call
    and carries the result the call returns, nothing panics, and at most one thread is ever
    inside the critical section. *)
Theorem C03_linearizable : forall (c : ctor) (progs : tid -> list op) (sched : list tid),
  let s := crun (cinit c progs) sched in
  snd (run (init c) (lin_ops (hist s))) = lin_res (hist s)
  /\ (forall t, tauto t (hist s) <> TErr)
  /\ panicked (ms s) = false
  /\ (forall t1 t2, holds_lock (tpc (thr s t1)) = true ->
                    holds_lock (tpc (thr s t2)) = true -> t1 = t2).
Proof. exact linearizable. Qed.
Print Assumptions C03_linearizable.

(** All callers observe the same winner and no call ever returns by panicking. *)
Theorem C03_same_winner : forall (c : ctor) (progs : tid -> list op) (sched : list tid),
  let s := crun (cinit c progs) sched in
  (forall t1 t2, In (ERet t1 OpAck (RBool true)) (hist s) ->
                 In (ERet t2 OpNack (RBool true)) (hist s) -> False)
  /\ (forall t o, ~ In (ERet t o RPanic) (hist s)).
Proof. exact same_winner. Qed.
Print Assumptions C03_same_winner.

(** Non-vacuity: a concrete racing execution (an Ack, a Nack and a reader, interleaved inside
    each other's calls) in which the Nack wins, the Ack returns false and the reader sees the
    change. *)
Definition results_of (t : tid) (h : list event) : list res :=
  flat_map (fun e => match e with ERet t' _ r => if Nat.eqb t' t then [r] else [] | _ => [] end) (rev h).
Example C03_race_witness :
  let progs := fun t => match t with 0 => [OpAck] | 1 => [OpNack] | 2 => [OpReadNacked; OpReadNacked] | _ => [] end in
  let s := crun (cinit CtorZero progs) [0; 1; 2; 1; 1; 0; 1; 2; 1; 0; 0; 0] in
  map (fun t => results_of t (hist s)) [0; 1; 2] =
    [[RBool false]; [RBool true]; [RBlocks; RClosed]].
Proof. vm_compute. reflexivity. Qed.

(** * Round "proofs 3": Copy(), metadata maps, contexts (Message/World.v: a world of any number
    of messages made by NewMessage, &Message{} and Copy(); every message has its own C03 state
    machine; metadata maps are references into a heap). *)
From WM Require Import Message.World Message.WorldProofs.

(** Every message is its own first-wins state machine: after ANY program over ANY number of
    messages (creations, copies, settle calls on any of them, metadata writes, contexts), the
    settlement of message [j] is what its own Ack/Nack/read calls, in order, make of the state
    it had, and those calls returned exactly what [run] says. *)
Theorem C03_settlement_is_per_message : forall ops w j, j < w_n w ->
  let m0 := o_set (w_obj w j) in
  o_set (w_obj (fst (wrun w ops)) j) = fst (run m0 (settle_proj j ops))
  /\ settle_hist j ops (snd (wrun w ops))
     = combine (settle_proj j ops) (snd (run m0 (settle_proj j ops))).
Proof. exact settle_own. Qed.
Print Assumptions C03_settlement_is_per_message.

(** The acceptor applied to observed histories of real message worlds (checks/c03.py, command
    c03world): every program of the model passes it — every message, copies and zero values
    included, is first-wins on its own calls. *)
Theorem C03_world_model_accepted : forall ops, world_monitor ops (snd (wrun wempty ops)) = true.
Proof. exact world_accepted. Qed.
Print Assumptions C03_world_model_accepted.

(** Copy() of a message in ANY state (settled or not): a new message, Unsettled, with its own
    two open channels, the same UUID, payload and metadata entries, no context, its own new
    metadata map; every existing message — the source included — is untouched. *)
Theorem C03_copy_is_fresh_unsettled : forall w i, i < w_n w ->
  let w' := fst (wstep w (WCopy i)) in
  let j := w_n w in
  snd (wstep w (WCopy i)) = WId j
  /\ w_n w' = S j
  /\ o_set (w_obj w' j) = MS Unsettled COpen COpen false
  /\ o_uuid (w_obj w' j) = o_uuid (w_obj w i)
  /\ o_payload (w_obj w' j) = o_payload (w_obj w i)
  /\ (forall k, meta_get w' j k = meta_get w i k)
  /\ o_ctx (w_obj w' j) = 0%N
  /\ o_meta (w_obj w' j) = Some (w_nm w)
  /\ (forall i', i' < w_n w -> w_obj w' i' = w_obj w i').
Proof. exact copy_fresh. Qed.
Print Assumptions C03_copy_is_fresh_unsettled.

(** Settling the copy never changes the original and vice versa: an Ack/Nack/read on message
    [i] changes nothing but [i]'s settlement. *)
Theorem C03_settle_touches_only_that_message : forall w i op, i < w_n w ->
  let w' := fst (wstep w (WSettle i op)) in
  (forall j, j <> i -> w_obj w' j = w_obj w j)
  /\ o_uuid (w_obj w' i) = o_uuid (w_obj w i) /\ o_payload (w_obj w' i) = o_payload (w_obj w i)
  /\ o_meta (w_obj w' i) = o_meta (w_obj w i) /\ o_ctx (w_obj w' i) = o_ctx (w_obj w i)
  /\ w_meta w' = w_meta w /\ w_n w' = w_n w
  /\ o_set (w_obj w' i) = fst (step (o_set (w_obj w i)) op).
Proof. exact settle_touches_only_settlement. Qed.
Print Assumptions C03_settle_touches_only_that_message.

(** In every world a program can reach, no two messages share a metadata map: a Set through one
    message (a copy, say) never shows through another (its source), and changes no message. *)
Theorem C03_copy_metadata_not_shared : forall ops0 i j k v,
  let w := fst (wrun wempty ops0) in
  i < w_n w -> j < w_n w -> i <> j ->
  let w' := fst (wstep w (WMetaSet i k v)) in
  (forall k', meta_get w' j k' = meta_get w j k')
  /\ (forall i', w_obj w' i' = w_obj w i')
  /\ (o_meta (w_obj w i) <> None -> forall k', meta_get w' i k' = if N.eqb k' k then v else meta_get w i k').
Proof. exact metadata_not_shared. Qed.
Print Assumptions C03_copy_metadata_not_shared.

(** SetContext / Context are irrelevant for settlement: remove every SetContext/Context call
    from a program and every message ends in the same settlement, each of its calls returning
    the same result; a message nobody set a context on reports Background (0). *)
Theorem C03_context_irrelevant : forall ops w j, j < w_n w ->
  o_set (w_obj (fst (wrun w ops)) j) = o_set (w_obj (fst (wrun w (strip_ctx ops))) j)
  /\ settle_hist j ops (snd (wrun w ops)) = settle_hist j (strip_ctx ops) (snd (wrun w (strip_ctx ops))).
Proof. exact context_irrelevant. Qed.
Print Assumptions C03_context_irrelevant.

Theorem C03_context_default_background : forall ops u p,
  let w := fst (wrun wempty ops) in
  snd (wrun w [WNew u p; WGetCtx (w_n w)]) = [WId (w_n w); WVal 0%N].
Proof. exact context_default_background. Qed.
Print Assumptions C03_context_default_background.

(** Non-vacuity: a nacked message with metadata and a context is copied; the copy can be acked,
    has the entry, no context; a Set on the copy does not show in the source, which stays nacked. *)
Example C03_copy_witness :
  snd (wrun wempty [WNew 7 [1; 2]; WMetaSet 0 5 6; WSetCtx 0 9; WSettle 0 OpNack; WCopy 0;
                    WSettle 1 OpAck; WMetaGet 1 5; WGetCtx 1; WMetaSet 1 5 8; WMetaGet 0 5;
                    WSettle 0 OpAck; WSettle 1 OpReadAcked; WContent 1; WGetCtx 0])%N
  = [WId 0; WUnit; WUnit; WRes (RBool true); WId 1;
     WRes (RBool true); WVal 6; WVal 0; WUnit; WVal 6;
     WRes (RBool false); WRes RClosed; WCont 7 [1; 2]; WVal 9]%N.
Proof. vm_compute. reflexivity. Qed.

(** * Round "proofs 3": the linearizability acceptor is linked to the model.
    [lin_ok] (Message/Monitor.v) is what judges the stamped call histories of the implementation
    in the concurrent scenarios.  [calls_of] (Message/ConcCalls.v) reads the same kind of history
    off a model run: stamp = position in the ghost history, a call = (stamp of its invocation,
    stamp of its response, operation, result).  For every constructor, any number of goroutines,
    any programs and any schedule: whenever every thread is between calls, the acceptor accepts. *)
From WM Require Import Message.Monitor Message.ConcCalls Message.LinOkProofs.

Theorem C03_lin_ok_model_accepted : forall (c : ctor) (progs : tid -> list op) (sched : list tid),
  let s := crun (cinit c progs) sched in
  quiescent s -> lin_ok (calls_of (hist s)) = true.
Proof. exact lin_ok_model_accepted. Qed.
Print Assumptions C03_lin_ok_model_accepted.

(** non-vacuity: the racing execution of [C03_race_witness], run to quiescence: four completed
    calls with overlapping intervals, accepted *)
Example C03_lin_ok_witness :
  let progs := fun t => match t with 0 => [OpAck] | 1 => [OpNack] | 2 => [OpReadNacked; OpReadNacked] | _ => [] end in
  let s := crun (cinit CtorZero progs) [0; 1; 2; 1; 1; 0; 1; 2; 1; 0; 0; 0] in
  (forallb (fun t => match tpc (thr s t) with PIdle => true | _ => false end) [0; 1; 2; 3],
   calls_of (hist s), lin_ok (calls_of (hist s)))
  = (true,
     [Call 3 5 OpReadNacked RBlocks; Call 7 9 OpReadNacked RClosed;
      Call 2 10 OpNack (RBool true); Call 1 12 OpAck (RBool false)]%N, true).
Proof. vm_compute. reflexivity. Qed.

(** * Round "proofs 6": the converse — [lin_ok] accepts ONLY linearizable histories.
    Whatever stamped call history (any calls, any stamps with invocation <= response, any
    results) the acceptor accepts has a linearization: a permutation [l] of the calls that
    respects the real-time order (no call is placed before one that had returned before it was
    invoked) and whose sequential run on the C03 model ([run] = [step] from [init c0], for every
    constructor) gives every call exactly its observed result — the first settle wins, later
    ones return false / true and reads block / find the channel closed as the model says.
    With [C03_lin_ok_model_accepted]: on the histories the model produces, [lin_ok] is exactly
    "linearizable w.r.t. the sequential model". *)
From Coq Require Import Sorting.Sorted Sorting.Permutation.
From WM Require Import Message.LinOkComplete.

Theorem C03_lin_ok_complete : forall h : list call,
  (forall c, In c h -> (c_inv c <= c_ret c)%N) -> lin_ok h = true ->
  exists l, Permutation l h
    /\ StronglySorted (fun a b => ~ (c_ret b < c_inv a)%N) l
    /\ forall c0 : ctor, snd (run (init c0) (map c_op l)) = map c_res l.
Proof. exact lin_ok_complete. Qed.
Print Assumptions C03_lin_ok_complete.
