(** C03 — Message Ack/Nack is a linearizable first-wins state machine.
    Only statements, each closed by [exact], with [Print Assumptions]. *)
From WM Require Import Base.Prelude Message.Model Message.Conc Message.Proofs.

(** For every constructor and every finite sequence over {Ack, Nack, read Acked(), read
    Nacked()}: the results are exactly those of the first-wins specification (the first
    Ack/Nack decides; afterwards Ack is true iff acked, Nack iff nacked; a read finds the
    channel closed iff it is the decided one), every call returns a result (no step of the
    model blocks: [step] is total), nothing panics (also on the zero-value message), and at
    the end exactly the matching channel is closed, never both. *)
Theorem C03_first_wins_seq : forall (c : ctor) (ops : list op),
  let '(m, rs) := run (init c) ops in
  seq_monitor (combine ops rs) = true
  /\ length rs = length ops
  /\ panicked m = false
  /\ (ackc m = CClosed <-> st m = Acked)
  /\ (nackc m = CClosed <-> st m = Nacked)
  /\ ~ (ackc m = CClosed /\ nackc m = CClosed).
Proof. exact first_wins_seq. Qed.
Print Assumptions C03_first_wins_seq.

(** The first decision is final: whatever is called afterwards, the state stays. *)
Theorem C03_decided_forever : forall (c : ctor) (ops1 ops2 : list op),
  st (fst (run (init c) ops1)) <> Unsettled ->
  fst (run (init c) (ops1 ++ ops2)) = fst (run (init c) ops1).
Proof. exact decided_forever. Qed.
Print Assumptions C03_decided_forever.

(** Any number of goroutines, any programs, any schedule of the micro-step system (lock,
    guards + type write, channel close, unlock; channel receives atomic): the linearisation
    points form a legal sequential history of the atomic object, each lies inside its call
    and carries the result the call returns, nothing panics, and at most one thread is ever
    inside the critical section. *)
Theorem C03_linearizable : forall (c : ctor) (progs : tid -> list op) (sched : list tid),
  let s := crun (cinit c progs) sched in
  snd (run (init c) (lin_ops (hist s))) = lin_res (hist s)
  /\ (forall t, tauto t (hist s) <> TErr)
  /\ panicked (ms s) = false
  /\ (forall t1 t2, holds_lock (tpc (thr s t1)) = true ->
                    holds_lock (tpc (thr s t2)) = true -> t1 = t2).
Proof. exact linearizable. Qed.
Print Assumptions C03_linearizable.

(** All callers observe the same winner and no call ever returns by panicking. *)
Theorem C03_same_winner : forall (c : ctor) (progs : tid -> list op) (sched : list tid),
  let s := crun (cinit c progs) sched in
  (forall t1 t2, In (ERet t1 OpAck (RBool true)) (hist s) ->
                 In (ERet t2 OpNack (RBool true)) (hist s) -> False)
  /\ (forall t o, ~ In (ERet t o RPanic) (hist s)).
Proof. exact same_winner. Qed.
Print Assumptions C03_same_winner.

(** Non-vacuity: a concrete racing execution (an Ack, a Nack and a reader, interleaved inside
    each other's calls) in which the Nack wins, the Ack returns false and the reader sees the
    change. *)
Definition results_of (t : tid) (h : list event) : list res :=
  flat_map (fun e => match e with ERet t' _ r => if Nat.eqb t' t then [r] else [] | _ => [] end) (rev h).
Example C03_race_witness :
  let progs := fun t => match t with 0 => [OpAck] | 1 => [OpNack] | 2 => [OpReadNacked; OpReadNacked] | _ => [] end in
  let s := crun (cinit CtorZero progs) [0; 1; 2; 1; 1; 0; 1; 2; 1; 0; 0; 0] in
  map (fun t => results_of t (hist s)) [0; 1; 2] =
    [[RBool false]; [RBool true]; [RBlocks; RClosed]].
Proof. vm_compute. reflexivity. Qed.
