(** C10 — Router lifecycle: Running, RunHandlers, Stop and self-close behave as documented.
    Model: RouterLife/Model.v (message/router.go: Run, RunHandlers, handler goroutine,
    handleClose, watcher, AddHandler, Close protocol, Handler.Stop/Stopped) with the variant
    flags [fix4] (D4 repaired), [fix14] (D14 repaired), [fix15] (D15 repaired), [fix16] (C06's D16 repaired);
    [rinit fix4 fix14 fix15 fix16].
    handleClose and Close are modelled as in the merged tree (C06's D6 / D5 / D12 repairs).
    All theorems quantify over EVERY label list = every client program (any number of handlers,
    RunHandlers / Stop / Close / Run calls and threads) and every schedule. *)
From WM Require Import Base.Prelude Base.Count RouterLife.Model RouterLife.Monitor RouterLife.Inv
                       RouterLife.ProofsA RouterLife.ProofsB RouterLife.ProofsW RouterLife.SelfClose RouterLife.Term RouterLife.Persist RouterLife.PersistNil RouterLife.Local RouterLife.AcceptN RouterLife.Accept RouterLife.Theorems RouterLife.Witness.

(** Running() closed => each of the [run_n] handlers registered when Run's RunHandlers took
    handlersLock is started and holds its (one) subscription - unless a Close BEFORE that Run
    removed it from the router ([h_removed], D16 repair; never true with fix16 = false). *)
Theorem C10_running_after_all_subscribed : forall (f4 f14 f15 f16 : bool) (ls : list label),
  let s := run (rinit f4 f14 f15 f16) ls in
  runningCh s = true ->
  forall h, h < run_n s -> h_removed (hs s h) = false ->
    h < nexth s /\ h_started (hs s h) = true /\ h_startedCh (hs s h) = true /\ h_subs (hs s h) = 1.
Proof. exact running_after_all_subscribed. Qed.
Print Assumptions C10_running_after_all_subscribed.

(** However often and from however many goroutines RunHandlers is called, a handler is
    subscribed at most once, and exactly once as soon as it is started. *)
Theorem C10_runhandlers_idempotent : forall (f4 f14 f15 f16 : bool) (ls : list label) (h : hid),
  let s := run (rinit f4 f14 f15 f16) ls in
  h_subs (hs s h) <= 1 /\ (h_started (hs s h) = true -> h_subs (hs s h) = 1).
Proof. exact runhandlers_idempotent. Qed.
Print Assumptions C10_runhandlers_idempotent.

(** After the D4 repair: Started() closed => stopFn and stopped are assigned, a Stop() called
    after Started() was observed returns normally, Stopped() closes exactly when the handler
    goroutine is done. *)
Theorem C10_started_implies_stoppable : forall (f14 f15 f16 : bool) (ls : list label),
  let s := run (rinit true f14 f15 f16) ls in
  (forall h, h_startedCh (hs s h) = true ->
             h_started (hs s h) = true /\ h_stopFn (hs s h) = true /\ h_stoppedSet (hs s h) = true)
  /\ (forall t h r, thr s t = TStopDone h true r -> r = StopOk)
  /\ (forall h, h_stoppedCh (hs s h) = true <-> h_loop (hs s h) = LDone).
Proof. exact started_implies_stoppable. Qed.
Print Assumptions C10_started_implies_stoppable.

(** FALSE of the pinned code (D4): Started() is closed before stopFn / stopped are assigned. *)
Theorem C10_started_implies_stoppable_refuted :
  let s := run (rinit false true true true) d4_schedule in
  h_startedCh (hs s 0) = true /\ h_stoppedSet (hs s 0) = false /\ thr s 1 = TStopDone 0 true StopNilPanic
  /\ verdict (hist (rinit false true true true) d4_schedule) = 4.
Proof. exact d4_refuted. Qed.
Print Assumptions C10_started_implies_stoppable_refuted.

Theorem C10_started_implies_stoppable_fixed_witness :
  let s := run (rinit true true true true) d4_schedule in
  h_stoppedSet (hs s 0) = true /\ thr s 1 = TStopDone 0 true StopOk /\ h_cancel (hs s 0) = true
  /\ verdict (hist (rinit true true true true) d4_schedule) = 0.
Proof. exact d4_fixed_witness. Qed.
Print Assumptions C10_started_implies_stoppable_fixed_witness.

(** Stop ends that handler only: in EVERY reachable state (all variants), whatever was done to
    OTHER handlers (Stop calls, subscriptions ended by the environment), a started handler h2
    that was not stopped itself ([h_stopreq]), whose subscription was not ended by the environment
    ([h_envend]) - while nothing global happened ([glob]: Run context cancelled, Run's own cancel,
    router closing) - is still in its receive loop with an open subscription and a live context,
    takes its next message, and its publisher is open unless a handler SHARING it was stopped/ended. *)
Theorem C10_stop_is_local : forall (f4 f14 f15 f16 : bool) (ls : list label),
  let s := run (rinit f4 f14 f15 f16) ls in
  forall h2, h_loop (hs s h2) <> LNone -> reason (hs s h2) = false -> glob s = false ->
    h_loop (hs s h2) = LRange /\ h_subOpen (hs s h2) = true /\ h_cancel (hs s h2) = false
    /\ step s (LRecv h2) <> None
    /\ (forall p, h_pub (hs s h2) = Some p ->
          (forall h1, h1 < nexth s -> h_pub (hs s h1) = Some p -> reason (hs s h1) = false) ->
          pubClosed s p = false).
Proof. exact stop_is_local. Qed.
Print Assumptions C10_stop_is_local.

(** the step-level facts behind it: a Stop call on h changes nothing but h's own flags ... *)
Theorem C10_stop_changes_only_its_handler : forall s t h a c s' evs,
  thr s t = TStopRead h a \/ thr s t = TStopCall h a -> step s (LT t c) = Some (s', evs) ->
  (forall h', h' <> h -> hs s' h' = hs s h') /\ pubClosed s' = pubClosed s /\ cctx s' = cctx s /\ rcancel s' = rcancel s
  /\ closingCh s' = closingCh s /\ closedF s' = closedF s /\ hwg s' = hwg s /\ hlock s' = hlock s /\ mainp s' = mainp s /\ wat s' = wat s.
Proof. exact stop_frame_globals. Qed.
Print Assumptions C10_stop_changes_only_its_handler.

(** ... a publisher is closed only by the goroutine of a handler that uses it, after that
    handler's own loop has ended ... *)
Theorem C10_publisher_closed_only_by_sharing_handler : forall s l s' evs p,
  step s l = Some (s', evs) -> pubClosed s p = false -> pubClosed s' p = true ->
  exists h, l = LLoop h /\ h_pub (hs s h) = Some p /\ h_loop (hs s h) = LPubClose /\ h_subOpen (hs s h) = h_subOpen (hs s h).
Proof. exact pub_closed_only_by_sharing. Qed.
Print Assumptions C10_publisher_closed_only_by_sharing_handler.

(** ... a handler's subscription ends only through the environment, through its own context
    (honouring subscriber), or - only while the whole ROUTER is closing - through the handleClose of a
    handler that uses the same Subscriber object ([h_sub]: Subscriber objects may be shared) ... *)
Theorem C10_subscription_ended_only_by : forall s l s' evs h,
  step s l = Some (s', evs) -> h < nexth s -> h_subOpen (hs s h) = true -> h_subOpen (hs s' h) = false ->
  l = LSubEnd h \/ (l = LSubCtx h /\ hctx_done s h = true)
  \/ (exists h' b, l = LHC h' b /\ closingCh s = true /\ h_sub (hs s h) = h_sub (hs s h')).
Proof. exact sub_closed_only_by. Qed.
Print Assumptions C10_subscription_ended_only_by.

(** ... and a handler whose loop runs and whose subscription is open takes the next message. *)
Theorem C10_running_handler_accepts : forall s h,
  h_loop (hs s h) = LRange -> h_subOpen (hs s h) = true -> step s (LRecv h) <> None.
Proof. exact recv_enabled. Qed.
Print Assumptions C10_running_handler_accepts.

(** What sharing does: Stop(0) ends handler 0, whose goroutine closes the publisher it shares
    with handler 1 - handler 1 keeps receiving but its publish fails; handler 2 (own publisher)
    is unaffected.  The monitor accepts this history. *)
Theorem C10_shared_publisher_witness :
  let s := run (rinit true true true true) shared_schedule in
  h_loop (hs s 1) = LRange /\ h_subOpen (hs s 1) = true /\ h_loop (hs s 2) = LRange /\ pubClosed s 0 = true /\ pubClosed s 1 = false
  /\ rev (hist (rinit true true true true) shared_schedule) = AProcessed 2 true :: AProcessed 1 false :: APubClose 0 :: AStopRet 1 StopOk ::
       skipn 4 (rev (hist (rinit true true true true) shared_schedule))
  /\ verdict (hist (rinit true true true true) shared_schedule) = 0.
Proof. exact shared_publisher_witness. Qed.
Print Assumptions C10_shared_publisher_witness.

(** Self-close (repaired model, all three flags): in EVERY reachable state in which Run has
    started and not returned, if at least one handler was added and every added handler's
    goroutine is past handlersWg.Done() - or the Run context is cancelled and every added handler
    is started with a subscription that follows that context - then some goroutine of the router
    or some call in progress ([internal] label: Run, watcher, handler goroutine, handleClose,
    context-honouring subscriber, in-flight message, thread inside RunHandlers/Close/Stop/Run)
    can take a step: no deadlock before Run returns.  (Run's last step returns nil.) *)
Theorem C10_self_close_never_stuck : forall (f16 : bool) (ls : list label),
  let s := run (rinit true true true f16) ls in
  mainp s <> RNone -> (forall ok, mainp s <> RDone ok) ->
  (0 < nexth s /\ all_past_done s) \/ (cctx s = true /\ all_follow_ctx s) ->
  exists l, internal l = true /\ step s l <> None.
Proof. exact self_close_not_stuck. Qed.
Print Assumptions C10_self_close_never_stuck.

(** the WaitGroup part on its own, for every variant: all goroutines past Done => counter zero *)
Theorem C10_self_close_wg_zero : forall (f4 f14 f15 f16 : bool) (ls : list label),
  let s := run (rinit f4 f14 f15 f16) ls in
  (forall h, h < nexth s -> pendh (hs s h) = false) ->
  hwg s = 0 /\ (wat s = WWait -> step s (LWatch CStep) <> None).
Proof. exact all_ended_wg_zero. Qed.
Print Assumptions C10_self_close_wg_zero.

(** FALSE of the pinned code (D14): started empty, first handler added before the watcher blocks
    in its select, handler stopped -> every handler ended, no goroutine can move, Run never returns. *)
Theorem C10_self_close_refuted :
  let s := run (rinit true false true true) d14_schedule in
  nexth s = 1 /\ h_loop (hs s 0) = LDone /\ hwg s = 0 /\ mainp s = RWaitClosing /\ wat s = WSelect
  /\ hadded s = 0 /\ closedF s = false /\ stuck s 3 = true /\ panicked s = false
  /\ verdict (hist (rinit true false true true) d14_schedule ++ [ARunHung]) = 9.
Proof. exact d14_refuted. Qed.
Print Assumptions C10_self_close_refuted.

(** the same schedule on the repaired code: the signal is kept, the router closes itself, Run returns nil *)
Theorem C10_self_close_fixed_witness :
  let s := run (rinit true true true true) (d14_schedule ++ self_close_tail) in
  mainp s = RDone true /\ wat s = WDone /\ closedCh s = true /\ hlock s = None /\ clock s = None
  /\ verdict (hist (rinit true true true true) (d14_schedule ++ self_close_tail)) = 0.
Proof. exact d14_fixed_witness. Qed.
Print Assumptions C10_self_close_fixed_witness.

(** Run context cancelled with one handler: the router closes itself and Run returns nil ... *)
Theorem C10_cancel_closes_witness :
  let s := run (rinit true true true true) cancel_schedule in mainp s = RDone true /\ h_stoppedCh (hs s 0) = true.
Proof. exact cancel_closes_witness. Qed.
Print Assumptions C10_cancel_closes_witness.

(** ... but FALSE of the pinned watcher for a router WITHOUT handlers (D15): it only waits for
    handlerAdded / closedCh, nothing can move after the cancel ([fix15 = false]). *)
Theorem C10_cancel_empty_router_refuted :
  let s := run (rinit true true false true) d15_schedule in
  cctx s = true /\ nexth s = 0 /\ mainp s = RWaitClosing /\ wat s = WSelect /\ stuck s 2 = true
  /\ verdict (hist (rinit true true false true) d15_schedule ++ [ARunHung]) = 11.
Proof. exact d15_refuted. Qed.
Print Assumptions C10_cancel_empty_router_refuted.

(** the same schedule after the D15 repair (the watcher's select also waits for the Run context) *)
Theorem C10_cancel_empty_router_fixed_witness :
  let s := run (rinit true true true true) (d15_schedule ++ d15_tail) in
  mainp s = RDone true /\ wat s = WDone /\ closedCh s = true /\ verdict (hist (rinit true true true true) (d15_schedule ++ d15_tail)) = 0.
Proof. exact d15_fixed_witness. Qed.
Print Assumptions C10_cancel_empty_router_fixed_witness.

(** D16 (C06's repair, as far as this model sees it): FALSE of the code before bc235ce - Close on a
    router with a handler that was added but never started waits although nothing runs; only the
    timeout ends it ([fix16 = false]) ... *)
Theorem C10_close_unstarted_refuted :
  let s := run (rinit true true true false) d16_schedule in
  thr s 0 = TClose KWait /\ hwg s = 1 /\ mainp s = RNone /\ wat s = WNone /\ h_loop (hs s 0) = LNone
  /\ step s (LT 0 CStep) = None
  /\ thr (run s [LT 0 CAlt; LT 0 CStep]) 0 = TClose (KRet false).
Proof. exact d16_refuted. Qed.
Print Assumptions C10_close_unstarted_refuted.

(** ... and with the repair Close releases and removes it and returns nil. *)
Theorem C10_close_unstarted_fixed_witness :
  let s := run (rinit true true true true) (d16_schedule ++ [LT 0 CStep; LT 0 CStep]) in
  thr s 0 = TClose (KRet true) /\ hwg s = 0 /\ h_removed (hs s 0) = true /\ h_inmap (hs s 0) = false /\ panicked s = false.
Proof. exact d16_fixed_witness. Qed.
Print Assumptions C10_close_unstarted_fixed_witness.

(** Stop() is usable whoever sits inside handlersLock: it takes no lock, both of its steps are enabled in EVERY
    state (seeded change C10-G made Stop wait for handlersLock). *)
Theorem C10_stop_never_blocks : forall s t h a,
  thr s t = TStopRead h a \/ thr s t = TStopCall h a -> step s (LT t CStep) <> None.
Proof. exact stop_never_blocks. Qed.
Print Assumptions C10_stop_never_blocks.

(** Run returns an error only right after a Subscribe failed - a Run context that is already cancelled is no
    reason (seeded change C10-H): the step that makes Run return the error leaves the pc "Subscribe failed", and
    that pc is entered only by a step that emits ASubscribe h false. *)
Theorem C10_run_error_only_after_failed_subscribe : forall s l s' evs,
  step s l = Some (s', evs) ->
  (mainp s' = RDone false -> mainp s <> RDone false -> mainp s = RRH HFail \/ mainp s = RRH HCheck)
  /\ (mainp s' = RRH HFail -> mainp s <> RRH HFail -> exists h, l = LMain (CPick h false) /\ evs = [ASubscribe h false]).
Proof. exact run_error_only_after_failed_subscribe. Qed.
Print Assumptions C10_run_error_only_after_failed_subscribe.

(** ... and with the context cancelled BEFORE Run: everything is subscribed, the router closes itself, Run returns nil *)
Theorem C10_cancel_before_run_witness :
  let s := run (rinit true true true true) cancel_first_schedule in
  mainp s = RDone true /\ runningCh s = true /\ h_subs (hs s 0) = 1 /\ h_stoppedCh (hs s 0) = true
  /\ verdict (hist (rinit true true true true) cancel_first_schedule) = 0.
Proof. exact cancel_before_run_witness. Qed.
Print Assumptions C10_cancel_before_run_witness.

(** A second Run returns an error: no Run call other than the first to pass the check ever
    returns nil or gets inside; isRunning is set as soon as the first one passed. *)
Theorem C10_second_run_errors : forall (f4 f14 f15 f16 : bool) (ls : list label),
  let s := run (rinit f4 f14 f15 f16) ls in
  (forall t ok, thr s t = TRunDone ok -> ok = false)
  /\ (forall t t', thr s t = TMain -> thr s t' = TMain -> t = t')
  /\ (isRunning s = true <-> mainp s <> RNone).
Proof. exact second_run_errors. Qed.
Print Assumptions C10_second_run_errors.

(** handlersWg never goes negative; handlersLock is held by exactly the thread inside its critical section. *)
Theorem C10_no_panic_and_mutex : forall (f4 f14 f15 f16 : bool) (ls : list label),
  let s := run (rinit f4 f14 f15 f16) ls in
  panicked s = false
  /\ (forall t t', thr_hl (thr s t) = true -> thr_hl (thr s t') = true -> t = t')
  /\ (forall t, thr_hl (thr s t) = true -> main_hl (mainp s) = false /\ wat_hl (wat s) = false)
  /\ hwg s = cnt (fun h => pendh (hs s h)) (nexth s).
Proof. exact no_panic_and_mutex. Qed.
Print Assumptions C10_no_panic_and_mutex.

(** monitor_accepts (all labels; named _partial because three clauses are not covered): on the API trace
    - the trace function [hist] the check uses - of ANY run of the model with the D4 repair (any fix14,
    fix15, fix16) the acceptor's verdict is 0 or one of 1, 6, 10: it never raises clause 2 (second
    Subscribe), 3 / 4 (Stop / Stopped after Started), 5 (processing failed with an open publisher),
    7 (second Run returned nil), nor the watchdog clauses 8, 9, 11.  Proof: simulation invariant [MInv]
    between model state and monitor state, one lemma per label kind ([step_minv]).  NOT covered:
    clause 6 (state-level counterpart: [RInv], C10_stop_is_local) and clauses 1 / 10, which can only fire
    in the corner the property excludes (the WATCHER's Close removes a handler that was added while the
    router was closing itself; with a client Close the monitor does not judge them). *)
Theorem C10_monitor_accepts_partial : forall (f14 f15 f16 : bool) (ls : list label),
  let v := verdict (hist (rinit true f14 f15 f16) ls) in v = 0 \/ v = 1 \/ v = 6 \/ v = 10.
Proof. exact monitor_accepts_codes. Qed.
Print Assumptions C10_monitor_accepts_partial.

(** monitor_accepts with the premise of the property's quantifier: in every run in which the WATCHER's own Close
    removed no handler (ghost [wremoved]: no handler was added while the router was closing itself) the
    acceptor raises none of the clauses 1, 2, 3, 4, 5, 7, 10 (nor 8, 9, 11): the verdict is 0 or 6.
    Clause 6 is the only one not tied to the model by this theorem (state-level counterpart: [RInv] /
    C10_stop_is_local); hence the name of the weaker statement above keeps _partial. *)
Theorem C10_monitor_accepts : forall (f14 f15 f16 : bool) (ls : list label),
  wremoved (run (rinit true f14 f15 f16) ls) = false ->
  let v := verdict (hist (rinit true f14 f15 f16) ls) in v = 0 \/ v = 6.
Proof. exact monitor_accepts. Qed.
Print Assumptions C10_monitor_accepts.

(** the simulation step itself, for every label ([PW] = "the watcher's own Close removes a handler in this run") *)
Theorem C10_monitor_simulation : forall (PW : Prop) s m l s' evs,
  SInv s -> fix4 s = true -> MInv s m -> NInv s m -> (wremoved s = true -> PW) -> okbad PW m ->
  step s l = Some (s', evs) -> MInv s' (mon_run m evs) /\ okbad PW (mon_run m evs).
Proof. exact step_minv. Qed.
Print Assumptions C10_monitor_simulation.

(** Termination measure: EVERY internal label (Run, watcher, thread inside RunHandlers / Close / Stop / Run, handler
    goroutine past its loop, handleClose, honouring subscriber, in-flight message) strictly decreases [mu K] in every
    invariant state; [K] bounds the thread identifiers in use.  (All variants of the model.) *)
Theorem C10_internal_steps_decrease_measure : forall K s l s' evs,
  SInv s -> WInv s -> tbounded K s -> internal l = true -> step s l = Some (s', evs) -> mu K s' < mu K s.
Proof. exact mu_decreases. Qed.
Print Assumptions C10_internal_steps_decrease_measure.

(** C10_self_close: in the repaired model, from any reachable state every run of internal labels has at most [mu K s]
    steps - no fairness assumption - and when it cannot be extended while Run has started and every added handler's
    goroutine is past Done (>= 1 handler), or the Run context is cancelled and all handlers follow it, then Run HAS
    RETURNED.  (The premise is taken at the END of the run; that "all goroutines past Done" persists along internal
    steps is not proved separately.  Run returns an error only after a failed Subscribe:
    C10_run_error_only_after_failed_subscribe.) *)
Theorem C10_self_close : forall f16 ls0 ls K s',
  let s := run (rinit true true true f16) ls0 in
  tbounded K s -> irun s ls = Some s' ->
  length ls <= mu K s
  /\ (~ can_move s' -> mainp s' <> RNone ->
      (0 < nexth s' /\ all_past_done s') \/ (cctx s' = true /\ all_follow_ctx s') ->
      exists ok, mainp s' = RDone ok).
Proof. exact self_close_terminates. Qed.
Print Assumptions C10_self_close.

(** C10_self_close with its premise at the START of the internal run: "every added handler's goroutine is past Done"
    (>= 1 handler), resp. "the Run context is cancelled and every handler follows it", persists along every internal
    label ([step_persist]), so: from such a reachable state every run of internal labels has at most [mu K s] steps and
    when it cannot be extended Run has returned. *)
Theorem C10_self_close_from_start : forall f16 ls0 ls K s',
  let s := run (rinit true true true f16) ls0 in
  tbounded K s -> irun s ls = Some s' -> mainp s <> RNone ->
  (0 < nexth s /\ all_past_done s) \/ (cctx s = true /\ all_follow_ctx s) ->
  length ls <= mu K s /\ (~ can_move s' -> exists ok, mainp s' = RDone ok).
Proof. exact self_close_from_start. Qed.
Print Assumptions C10_self_close_from_start.

(** ... and Run returns NIL when no Subscribe failed anywhere in the history of the run. *)
Theorem C10_self_close_returns_nil : forall f16 ls0 ls K s',
  let s := run (rinit true true true f16) ls0 in
  tbounded K s -> irun s ls = Some s' -> mainp s <> RNone ->
  (0 < nexth s /\ all_past_done s) \/ (cctx s = true /\ all_follow_ctx s) ->
  no_failed (hist (rinit true true true f16) (ls0 ++ ls)) ->
  length ls <= mu K s /\ (~ can_move s' -> mainp s' = RDone true).
Proof. exact self_close_returns_nil. Qed.
Print Assumptions C10_self_close_returns_nil.

(** the hypotheses are satisfiable and the behaviour is non-trivial *)
Example C10_running_reachable :
  let s := run (rinit true true true true) (firstn 18 shared_schedule) in
  runningCh s = true /\ run_n s = 3 /\ map (fun h => h_subs (hs s h)) [0; 1; 2] = [1; 1; 1].
Proof. vm_compute. repeat split. Qed.
Example C10_second_run_example :
  let s := run (rinit true true true true) (firstn 5 shared_schedule ++ [LRunCall 7; LT 7 CStep]) in thr s 7 = TRunDone false.
Proof. vm_compute. reflexivity. Qed.
