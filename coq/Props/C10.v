(** C10 — Router lifecycle (placeholder while the proofs are being written). *)
From WM Require Import Base.Prelude RouterLife.Model RouterLife.Monitor.
Example C10_model_runs : nexth (run (rinit true true) [LAdd None true; LRunCall 0; LT 0 CStep]) = 1.
Proof. reflexivity. Qed.
