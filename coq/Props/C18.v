(** C18 - Request-reply: replies reach only their requester and listeners always finish.

    Models: ReqReply/Listen.v (the listener goroutine of PubSubBackend.ListenForNotifications +
    any caller of SendWithReplies/SendWithReply + any stream of notifications on the shared reply
    topic + any schedule; [fixed c] selects the D10 repair) and ReqReply/Processed.v (the handler
    side: NewCommandHandler[WithResult] -> OnCommandProcessed, composed with the Router's
    [handle] of C02).  [dec]/[enc] are encoding/json (Unmarshal / Marshal of the result).
    Other concurrent requests on the reply topic are the foreign notifications of the stream. *)
From WM Require Import Base.Prelude Message.Model Handler.RouterHandle
  ReqReply.Listen ReqReply.Processed ReqReply.ListenProofs ReqReply.ProcessedProofs ReqReply.Compose
  ReqReply.Caller ReqReply.CallerProofs ReqReply.Marshaler ReqReply.MarshalerProofs
  ReqReply.Concurrent ReqReply.ConcurrentProofs ReqReply.Api ReqReply.ApiProofs Corr.C18 ReqReply.CorrProofs.

(** every reply a caller receives is the final timeout reply or was built from a notification
    carrying the caller's own operation id - for every stream, caller behaviour and schedule *)
Theorem C18_only_own_replies : forall dec c stream ls r,
  In r (got (lrun dec c (linit stream) ls)) ->
  is_final r = true \/ exists n, In n stream /\ n_op n = opid c /\ r = reply_of dec n.
Proof. exact got_only_own. Qed.

(** ... and the notification a handler publishes for a command carries that command's operation
    id, so the reply to another request is never handed over *)
Theorem C18_replies_do_not_cross : forall dec enc c stream ls r,
  In r (got (lrun dec c (linit stream) ls)) ->
  is_final r = true \/
  exists n, In n stream /\ r = reply_of dec n /\ n_op n = opid c
    /\ forall pc i, In (PPublish n) (fst (on_processed enc pc i)) -> p_op i = opid c.
Proof. exact replies_do_not_cross. Qed.

(** the safety acceptor (own replies only, in arrival order, with the notification's content,
    nothing lost before the context ended, one final reply at most and last, every taken
    notification acked, hook at most once, channel capacity 1) holds in every reachable state *)
Theorem C18_listener_safe : forall dec c stream ls,
  safe_ok dec c stream (obs_of (lrun dec c (linit stream) ls)) = true.
Proof. exact safe_ok_reach. Qed.

Theorem C18_no_reply_lost_before_context_end : forall dec c stream ls,
  let s := lrun dec c (linit stream) ls in
  ctx_done s = false -> nonfinal (got s ++ buf s) ++ pend (pc s) = own_replies dec c (consumed s).
Proof. exact no_loss_before_ctx_end. Qed.

Theorem C18_every_notification_acked : forall dec c stream ls,
  let s := lrun dec c (linit stream) ls in acks s = map n_id (consumed s) /\ consumed s ++ inbox s = stream.
Proof. exact every_notification_acked. Qed.

(** the handler's result and error text arrive unchanged (given json round-trips the result) *)
Theorem C18_reply_content : forall enc c i n,
  In (PPublish n) (fst (on_processed enc c i)) ->
  n_op n = p_op i /\ n_id n = p_nid i /\ enc (p_res i) = Some (n_pay n)
  /\ n_haserr n = is_some (p_err i) /\ n_err n = errtext (p_err i) /\ p_op i <> 0%N.
Proof. exact reply_content. Qed.

Theorem C18_reply_content_end_to_end : forall dec enc c stream ls r,
  (forall x p, enc x = Some p -> dec p = Some x) ->
  In r (got (lrun (unm_json dec) c (linit stream) ls)) ->
  is_final r = true \/
  exists n, In n stream /\ n_op n = opid c /\ r = reply_of (unm_json dec) n
    /\ forall pc i, In (PPublish n) (fst (on_processed enc pc i)) ->
         r = ROwn (p_res i) (p_err i) (p_nid i) /\ p_op i = opid c.
Proof. exact reply_end_to_end. Qed.

(** the command is acked or nacked as AckCommandErrors says ... *)
Theorem C18_settle_policy : forall enc c i,
  (snd (process enc c i) = Acked <->
     reply_out enc c i = true /\ (ack_errors c = true \/ p_err i = None))
  /\ (snd (process enc c i) = Nacked \/ snd (process enc c i) = Acked).
Proof. exact process_ack_iff. Qed.

(** ... once, as the last event of the delivery, and an Ack only after the reply was published *)
Theorem C18_settle_last : forall enc c i,
  exists evs ack, fst (process enc c i) = map TP evs ++ [TR (HSettle ack true)]
                  /\ snd (process enc c i) = (if ack then Acked else Nacked).
Proof. exact process_settles_last. Qed.

Theorem C18_settle_after_reply_published : forall enc c i,
  snd (process enc c i) = Acked ->
  exists n evs, fst (process enc c i) = map TP evs ++ [TR (HSettle true true)]
    /\ In (PPublish n) evs
    /\ (In (PPublishRet true) evs \/ (has_errh c = true /\ In (PErrHandler true) evs)).
Proof. exact ack_only_after_reply_published. Qed.

Theorem C18_one_reply_per_delivery : forall enc c i,
  length (filter (fun e => match e with PPublish _ => true | _ => false end) (fst (on_processed enc c i))) <= 1.
Proof. exact one_reply_per_delivery. Qed.

Theorem C18_processed_accepted : forall enc c i,
  processed_ok enc c i (fst (process enc c i)) (snd (process enc c i)) = true.
Proof. exact process_accepted. Qed.

(** the reply channel is closed at most once (no double-close panic) and only after the context
    was cancelled; the hook runs at most once - both variants *)
Theorem C18_close_and_hook_at_most_once : forall dec c stream ls,
  let s := lrun dec c (linit stream) ls in
  closes s <= 1 /\ hooks s <= 1 /\ panicked s = false /\ (chan_closed s = true -> ctx_done s = true).
Proof. exact close_and_hook_at_most_once. Qed.

(** two contexts: the caller's and the listener's own (derived, with ListenForReplyTimeout); the
    second has ended whenever the first has.  Every liveness statement below is about the DERIVED
    context, so it covers the timeout passing while the caller's context is still alive *)
Theorem C18_caller_ctx_implies_listen_ctx : forall dec c stream ls,
  let s := lrun dec c (linit stream) ls in cctx_done s = true -> ctx_done s = true.
Proof. exact caller_ctx_implies_listen_ctx. Qed.

Theorem C18_finished_listener : forall dec c stream ls,
  let s := lrun dec c (linit stream) ls in
  pc s = PDone ->
  chan_closed s = true /\ closes s = 1 /\ hooks s = (if has_hook c then 1 else 0) /\ panicked s = false.
Proof. exact done_state. Qed.

(** the listener can never run forever: along any schedule it takes at most [mu s] steps and
    has finished once it took that many *)
Theorem C18_listener_steps_bounded : forall dec c s ls,
  lsteps dec c s ls <= mu s /\ (mu s <= lsteps dec c s ls -> pc (lrun dec c s ls) = PDone).
Proof. exact listener_steps_bounded. Qed.

(** REPAIRED code: once the context has ended the listener always has an enabled step until it
    has finished - however many replies arrived, whether or not the caller reads *)
Theorem C18_listener_never_blocked : forall dec c s,
  fixed c = true -> ctx_done s = true -> pc s <> PDone ->
  exists l s', llabel l = true /\ lstep dec c s l = Some s'.
Proof. exact never_blocked_fixed. Qed.

(** ... hence in every state where the listener goroutine cannot move the full acceptor holds:
    context ended => channel closed and OnListenForReplyFinished ran exactly once *)
Theorem C18_listener_terminates : forall dec c stream ls,
  fixed c = true ->
  let s := lrun dec c (linit stream) ls in
  quiescent dec c s = true -> listener_ok dec c stream (obs_of s) = true.
Proof. exact listener_ok_quiescent_fixed. Qed.

(** PINNED code (D10): two replies, the caller reads one and cancels - the listener is blocked
    for ever on the full reply channel, the channel is never closed, the hook never runs *)
Theorem C18_listener_terminates_refuted :
  exists dec c stream ls, fixed c = false /\ leaked dec c stream (lrun dec c (linit stream) ls).
Proof. exact listener_terminates_refuted. Qed.

(** ... and already with ONE reply that the caller does not read before it cancels *)
Theorem C18_listener_terminates_refuted_unread_reply :
  exists dec c stream ls, fixed c = false /\ got (lrun dec c (linit stream) ls) = []
    /\ leaked dec c stream (lrun dec c (linit stream) ls).
Proof. exact listener_terminates_refuted_unread_reply. Qed.

(** ** the caller side as its own thread (ReqReply/Caller.v: SendWithReplies / SendWithReply of
    command_bus.go composed with the listener) *)

(** the listener part of every reachable state of the composed system is a reachable state of the
    listener system: everything above holds of the composed system *)
Theorem C18_composed_is_listener_run : forall dec c a stream cls,
  exists lls, lsys (crun dec c a (cinit stream) cls) = lrun dec c (linit stream) lls.
Proof. exact composed_reach. Qed.

(** SendWithReply returns exactly one reply - the timeout reply or one built from a notification
    of its own operation id, the FIRST own reply when read while the listener's context was alive -
    or the context error (only if the user's context ended) or the send error; never a foreign
    reply, never the zero Reply of a closed channel *)
Theorem C18_sendwithreply_returns : forall dec c stream cls o,
  let s := crun dec c ApiReply (cinit stream) cls in
  kp s = KReturned o ->
  match o with
  | OReply r => got (lsys s) = [r]
      /\ (is_final r = true \/ exists n, In n stream /\ n_op n = opid c /\ r = reply_of dec n)
      /\ (pre (lsys s) = [r] -> exists t, own_replies dec c stream = r :: t)
  | OCtxErr => pctx s = true /\ got (lsys s) = []
  | OSendErr => got (lsys s) = []
  | OZero => False
  end.
Proof. exact swr_result. Qed.

(** after the caller returned (SendWithReply: always through its deferred cancel; SendWithReplies:
    on the send error) the listener's context has ended: the repaired listener is never blocked and
    rests only when finished, channel closed, hook run exactly once (uses C18_listener_terminates) *)
Theorem C18_returned_caller_listener_terminates : forall dec c a stream cls o,
  fixed c = true ->
  let s := crun dec c a (cinit stream) cls in
  kp s = KReturned o ->
  ctx_done (lsys s) = true
  /\ (pc (lsys s) <> PDone -> exists l s', llabel l = true /\ lstep dec c (lsys s) l = Some s')
  /\ (quiescent dec c (lsys s) = true ->
      pc (lsys s) = PDone /\ listener_ok dec c stream (obs_of (lsys s)) = true).
Proof. exact returned_listener_terminates. Qed.

Theorem C18_returned_caller_is_gone : forall dec c a cls s o, kp s = KReturned o ->
  kp (crun dec c a s cls) = KReturned o /\ got (lsys (crun dec c a s cls)) = got (lsys s).
Proof. exact returned_caller_is_gone. Qed.

(** SendWithReplies: the channel handed to the user yields own replies only, in arrival order
    (acceptor safe_ok), is closed at most once and exactly once when the listener has finished; on a
    send error nothing was read and the context is cancelled *)
Theorem C18_sendwithreplies_channel : forall dec c stream cls,
  let s := crun dec c ApiReplies (cinit stream) cls in
  safe_ok dec c stream (obs_of (lsys s)) = true
  /\ closes (lsys s) <= 1 /\ panicked (lsys s) = false
  /\ (pc (lsys s) = PDone -> chan_closed (lsys s) = true /\ closes (lsys s) = 1)
  /\ (forall o, kp s = KReturned o -> o = OSendErr /\ got (lsys s) = [] /\ ctx_done (lsys s) = true).
Proof. exact swrs_channel. Qed.

(** ** N listeners sharing one reply topic, any interleaving: the product system *)
Theorem C18_product_independent : forall dec cs streams sched i,
  nrun dec cs (ninit streams) sched i = lrun dec (cs i) (linit (streams i)) (sched_of i sched).
Proof. exact product_independent. Qed.

Theorem C18_product_replies_do_not_cross : forall dec cs streams sched i r,
  In r (got (nrun dec cs (ninit streams) sched i)) ->
  is_final r = true \/
  exists n, In n (streams i) /\ n_op n = opid (cs i) /\ r = reply_of dec n
    /\ forall j, opid (cs j) <> opid (cs i) -> own (cs j) n = false.
Proof. exact product_replies_do_not_cross. Qed.

Theorem C18_product_safe : forall dec cs streams sched i,
  safe_ok dec (cs i) (streams i) (obs_of (nrun dec cs (ninit streams) sched i)) = true.
Proof. exact product_safe. Qed.

Theorem C18_product_terminates : forall dec cs streams sched i,
  fixed (cs i) = true ->
  quiescent dec (cs i) (nrun dec cs (ninit streams) sched i) = true ->
  listener_ok dec (cs i) (streams i) (obs_of (nrun dec cs (ninit streams) sched i)) = true.
Proof. exact product_terminates. Qed.

Print Assumptions C18_composed_is_listener_run.
Print Assumptions C18_sendwithreply_returns.
Print Assumptions C18_returned_caller_listener_terminates.
Print Assumptions C18_returned_caller_is_gone.
Print Assumptions C18_sendwithreplies_channel.
Print Assumptions C18_product_independent.
Print Assumptions C18_product_replies_do_not_cross.
Print Assumptions C18_product_safe.
Print Assumptions C18_product_terminates.
(** ** custom marshalers, as coded.  The listener theorems above hold for ANY UnmarshalReply ([dec] is
    the whole unmarshaler; [unm_json] is the JSON instance): the operation-id filter comes first, so
    a foreign notification never reaches the unmarshaler's verdict.  On the handler side: *)

(** whatever operation id MarshalReply wrote or dropped, the backend stamps the command's over it *)
Theorem C18_custom_marshaler_op_id_stamped : forall cmarshal modify c i n,
  has_modify c = false ->
  In (PPublish n) (fst (on_processed_custom cmarshal modify c i)) ->
  p_op i <> 0%N /\ exists m, cmarshal (p_res i) (p_err i) = Some m /\ n = stamp_op m (p_op i).
Proof. exact custom_marshaler_op_id_stamped. Qed.

(** ModifyNotificationMessage runs AFTER the stamping (so it is the one place that can drop the id) *)
Theorem C18_custom_modify_applied_after_stamp : forall cmarshal modify c i n,
  has_modify c = true ->
  In (PPublish n) (fst (on_processed_custom cmarshal modify c i)) ->
  exists m, cmarshal (p_res i) (p_err i) = Some m /\ modify (stamp_op m (p_op i)) = Some n.
Proof. exact custom_modify_applied_after_stamp. Qed.

Theorem C18_custom_json_instance : forall enc c i,
  has_modify c = false \/ p_modify_ok i = true ->
  on_processed_custom (cmarshal_json enc (p_nid i)) (fun n => if p_modify_ok i then Some n else None) c i
  = on_processed enc c i.
Proof. exact custom_json_instance. Qed.

(** ... and a notification that reaches the topic without the requester's id is lost: acked, never handed over *)
Theorem C18_reply_without_op_id_is_lost : forall dec c stream ls r,
  (forall n, In n stream -> n_op n <> opid c) ->
  In r (got (lrun dec c (linit stream) ls)) -> is_final r = true.
Proof. exact reply_without_op_id_is_lost. Qed.

Print Assumptions C18_custom_marshaler_op_id_stamped.
Print Assumptions C18_custom_modify_applied_after_stamp.
Print Assumptions C18_custom_json_instance.
Print Assumptions C18_reply_without_op_id_is_lost.
(** ** N deliveries running OnCommandProcessed concurrently through one backend (ReqReply/Concurrent.v:
    one step per access to a reply's metadata map).  Each reply has its own map, so under EVERY
    interleaving a finished delivery did exactly what the sequential model says for it alone *)
Theorem C18_deliveries_independent : forall enc cs ins sched t,
  thr (drun enc false cs ins dinit sched) t = DDone ->
  outs (drun enc false cs ins dinit sched) t = on_processed enc (cs t) (ins t).
Proof. exact deliveries_independent. Qed.

(** ... in particular its notification carries ITS command's operation id, has-error flag and error text *)
Theorem C18_concurrent_reply_has_own_op_id : forall enc cs ins sched t n,
  thr (drun enc false cs ins dinit sched) t = DDone ->
  In (PPublish n) (fst (outs (drun enc false cs ins dinit sched) t)) ->
  n_op n = p_op (ins t) /\ n_haserr n = is_some (p_err (ins t)) /\ n_err n = errtext (p_err (ins t)).
Proof. exact concurrent_reply_has_own_op_id. Qed.

(** the theorem is sensitive to exactly that: with ONE metadata map shared by the successful replies
    (variant [shared = true]) delivery A, overtaken between its stamp and its Publish by B's stamp,
    publishes its reply under B's operation id *)
Theorem C18_deliveries_independent_refuted_shared_map :
  exists enc cs ins sched t,
    thr (drun enc true cs ins dinit sched) t = DDone
    /\ outs (drun enc true cs ins dinit sched) t <> on_processed enc (cs t) (ins t)
    /\ exists n, In (PPublish n) (fst (outs (drun enc true cs ins dinit sched) t)) /\ n_op n = p_op (ins 1).
Proof. exact deliveries_independent_refuted_shared_map. Qed.

Print Assumptions C18_deliveries_independent.
Print Assumptions C18_concurrent_reply_has_own_op_id.
Print Assumptions C18_deliveries_independent_refuted_shared_map.
(** ** the handler's error VALUE.  [p_errkind] (plain, wrapped, context.Canceled, DeadlineExceeded, the
    handler context's own Err(), wrapped or not) and [p_ctx] (handler context live / cancelled / timed
    out) are inputs of every theorem about [process] above; the code looks at neither: *)
Theorem C18_error_value_irrelevant : forall enc c i k x,
  process enc c (with_errvalue i k x) = process enc c i.
Proof. exact error_value_irrelevant. Qed.

(** a reply is published for EVERY handler outcome whenever marshalling, the operation id, the Modify
    hook and the topic allow it, carrying the error flag and text - there is no error value that
    bypasses the reply (and with it the AckCommandErrors policy of C18_settle_policy) *)
Theorem C18_reply_for_every_handler_outcome : forall enc c i,
  reaches_publish enc c i = true ->
  exists n, In (PPublish n) (fst (on_processed enc c i))
    /\ n_op n = p_op i /\ n_haserr n = is_some (p_err i) /\ n_err n = errtext (p_err i).
Proof. exact reply_for_every_handler_outcome. Qed.

Theorem C18_no_reply_only_if_not_reachable : forall enc c i n,
  In (PPublish n) (fst (on_processed enc c i)) -> reaches_publish enc c i = true.
Proof. exact no_reply_only_if_not_reachable. Qed.

Print Assumptions C18_error_value_irrelevant.
Print Assumptions C18_reply_for_every_handler_outcome.
Print Assumptions C18_no_reply_only_if_not_reachable.
(** ** every verdict function applied to implementation observations accepts its model *)
Theorem C18_listen_verdict_model_accepted : forall c tab stream ls done,
  fixed c = true ->
  let dec := unm_json (tab_lookup tab) in
  let s := lrun dec c (linit stream) ls in
  quiescent dec c s = true ->
  c18_listen_verdict (LC c tab stream ls (obs_of s) done) = 0.
Proof. exact listen_verdict_model_accepted. Qed.

Theorem C18_listen_verdict_safety_model_accepted : forall c tab stream ls done,
  let dec := unm_json (tab_lookup tab) in
  Nat.odd (c18_listen_verdict (LC c tab stream ls (obs_of (lrun dec c (linit stream) ls)) done)) = false.
Proof. exact listen_verdict_safety_model_accepted. Qed.

Theorem C18_proc_verdict_model_accepted : forall c i tab,
  c18_proc_violates (PC c i tab (fst (process (tab_lookup tab) c i)) (snd (process (tab_lookup tab) c i))) = false.
Proof. exact proc_verdict_model_accepted. Qed.

Theorem C18_onproc_verdict_model_accepted : forall c i tab,
  c18_onproc_violates (OPC c i tab (fst (on_processed (tab_lookup tab) c i)) (snd (on_processed (tab_lookup tab) c i))) = false.
Proof. exact onproc_verdict_model_accepted. Qed.

(** API glue (ReqReply/Api.v): NewPubSubBackend validation and the exits of SendWithReplies *)
Theorem C18_api_verdict_model_accepted :
  (forall v, c18_api_violates (AV v (validate_model v)) = false)
  /\ (forall h i, c18_api_violates (AL h i (api_model h i)) = false).
Proof. exact api_verdict_model_accepted. Qed.

Theorem C18_validate_iff : forall v,
  validate_model v = true <->
  v_publisher v = true /\ v_subctor v = true /\ v_pubtopic v = true /\ v_subtopic v = true /\ v_marshaler v = true.
Proof. exact validate_model_iff. Qed.

(** the send-error row of the API model is what the composed caller + listener model does *)
Theorem C18_api_send_error_row_from_model : forall dec c a stream cls,
  fixed c = true ->
  let s := crun dec c a (cinit stream) cls in
  kp s = KReturned OSendErr ->
  quiescent dec c (lsys s) = true ->
  api_obs_of s = api_model (has_hook c) (LI true true true false).
Proof. exact api_send_error_row_from_model. Qed.

Print Assumptions C18_listen_verdict_model_accepted.
Print Assumptions C18_listen_verdict_safety_model_accepted.
Print Assumptions C18_proc_verdict_model_accepted.
Print Assumptions C18_onproc_verdict_model_accepted.
Print Assumptions C18_api_verdict_model_accepted.
Print Assumptions C18_validate_iff.
Print Assumptions C18_api_send_error_row_from_model.
(** the stream assumption made explicit (the only place the Pub/Sub enters): if a listener is handed
    only notifications the handler side published for some delivery, every non-final reply a caller
    reads is the result and error text of a delivery of its OWN command *)
Theorem C18_replies_are_own_deliveries : forall dec enc c deliveries stream ls r,
  (forall x p, enc x = Some p -> dec p = Some x) ->
  stream_from_deliveries enc deliveries stream ->
  In r (got (lrun (unm_json dec) c (linit stream) ls)) ->
  is_final r = true \/
  exists pc i, In (pc, i) deliveries /\ p_op i = opid c /\ r = ROwn (p_res i) (p_err i) (p_nid i).
Proof. exact replies_are_own_deliveries. Qed.
Print Assumptions C18_replies_are_own_deliveries.

Print Assumptions C18_only_own_replies.
Print Assumptions C18_replies_do_not_cross.
Print Assumptions C18_listener_safe.
Print Assumptions C18_no_reply_lost_before_context_end.
Print Assumptions C18_every_notification_acked.
Print Assumptions C18_reply_content.
Print Assumptions C18_reply_content_end_to_end.
Print Assumptions C18_settle_policy.
Print Assumptions C18_settle_last.
Print Assumptions C18_settle_after_reply_published.
Print Assumptions C18_one_reply_per_delivery.
Print Assumptions C18_processed_accepted.
Print Assumptions C18_close_and_hook_at_most_once.
Print Assumptions C18_caller_ctx_implies_listen_ctx.
Print Assumptions C18_finished_listener.
Print Assumptions C18_listener_steps_bounded.
Print Assumptions C18_listener_never_blocked.
Print Assumptions C18_listener_terminates.
Print Assumptions C18_listener_terminates_refuted.
Print Assumptions C18_listener_terminates_refuted_unread_reply.

(** non-vacuity: the D10 schedule on the REPAIRED listener finishes: the caller got the first
    reply, the second stays buffered, the timeout reply is skipped, channel closed, hook once *)
Example C18_witness_fixed :
  let s := lrun d10_dec (d10_cfg true) (linit d10_stream) (d10_sched ++ [LSkip; LCancel; LClose; LHook]) in
  (pc s, got s, buf s, chan_closed s, hooks s, closes s, quiescent d10_dec (d10_cfg true) s,
   listener_ok d10_dec (d10_cfg true) d10_stream (obs_of s))
  = (PDone, [ROwn 1 None 1], [ROwn 2 None 2], true, 1, 1, true, true).
Proof. reflexivity. Qed.

(** non-vacuity: ListenForReplyTimeout passes while the caller's context is alive and the caller is
    not reading, two replies: the second send is abandoned, the final reply skipped, the listener
    finishes; without a configured timeout the ETimeout label is not enabled at all *)
Example C18_witness_timeout_caller_alive :
  let s := lrun d10_dec (d10_cfg true) (linit d10_stream)
             [LRecv; LSend; LRecv; ETimeout; LCtx; LCtx; LSkip; LCancel; LClose; LHook] in
  (pc s, cctx_done s, ctx_done s, got s, buf s, chan_closed s, hooks s,
   listener_ok d10_dec (d10_cfg true) d10_stream (obs_of s),
   ctx_done (lrun d10_dec (Cfg true 7 true false) (linit d10_stream) [ETimeout]))
  = (PDone, false, true, [], [ROwn 1 None 1], true, 1, true, false).
Proof. reflexivity. Qed.

(** non-vacuity: foreign and malformed notifications between two own ones; the caller drains *)
Example C18_witness_filter :
  let dec := unm_json (fun p : N => if N.eqb p 9 then None else Some p) in
  let stream := [Notif 1 8 1 false 0; Notif 2 7 9 false 0; Notif 3 0 1 false 0; Notif 4 7 4 true 5] in
  let s := lrun dec (d10_cfg true) (linit stream)
             [LRecv; LRecv; LSend; CRead; LRecv; LRecv; LSend; CRead; ECancel; LCtx; LSend; CRead;
              LCancel; LClose; LHook; CReadClosed] in
  (pc s, got s, acks s, seen_closed s) = (PDone, [RUnmarshal; ROwn 4 (Some 5%N) 4; RTimeout], [1; 2; 3; 4]%N, true).
Proof. reflexivity. Qed.

(** non-vacuity of the handler side: handler error with AckCommandErrors off is replied, then
    nacked; a failed reply publication nacks although AckCommandErrors is on *)
Example C18_witness_processed :
  let enc := fun r : N => Some (r + 100)%N in
  (process enc (PCfg false false false) (PIn true 7 3 (Some 5%N) 11 true true true false ECtxOwn CtxTimedOut),
   snd (process enc (PCfg true false false) (PIn true 7 3 None 11 true true false false EPlain CtxLive)))
  = (([TP PCall; TP (PPublish (Notif 11 7 103 true 5)); TP (PPublishRet true); TR (HSettle false true)], Nacked),
     Nacked).
Proof. reflexivity. Qed.

(** non-vacuity: SendWithReply, two own replies: it returns the first one, its deferred cancel ends
    the listener's context, the listener abandons nothing (second reply buffered), skips the final
    reply and finishes; and two listeners on one topic each get only their own reply *)
Example C18_witness_sendwithreply :
  let s := crun d10_dec (d10_cfg true) ApiReply (cinit d10_stream)
             [KSendOk; CL LRecv; CL LSend; KTakeReply; CL LRecv; CL LSend; KCancel;
              CL LCtx; CL LSkip; CL LCancel; CL LClose; CL LHook; KTakeReply; URead] in
  (kp s, got (lsys s), buf (lsys s), pc (lsys s), hooks (lsys s), closes (lsys s))
  = (KReturned (OReply (ROwn 1 None 1)), [ROwn 1 None 1], [ROwn 2 None 2], PDone, 1, 1).
Proof. reflexivity. Qed.

Example C18_witness_product :
  let cs := fun i => Cfg true (if Nat.eqb i 0 then 7 else 8)%N true false in
  let stream := [Notif 1 7 1 false 0; Notif 2 8 2 false 0] in
  let ss := nrun d10_dec cs (ninit (fun _ => stream))
              [(0, LRecv); (1, LRecv); (0, LSend); (1, LRecv); (1, LSend); (0, CRead); (1, CRead); (0, LRecv)] in
  (got (ss 0), got (ss 1), acks (ss 0), acks (ss 1)) = ([ROwn 1 None 1], [ROwn 2 None 2], [1; 2]%N, [1; 2]%N).
Proof. reflexivity. Qed.
