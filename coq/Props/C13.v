(** C13 — Poison queue: a failed message is either in the poison topic or still failing.

    Model: Handler/Poison.v ([poison] = poisonQueue.Middleware + publishPoisonMessage,
    [mk_poison] = the two constructors, [in_router] = the middleware as the chain of a Router
    handler, composed with [RouterHandle.handle], the C02 model of handleMessage, on top of the
    C03 settlement model).  Quantifiers: every configuration (topic, filter: any function from
    errors to {accepts, rejects, panics, nil func}, or none), every consumed message (any UUID,
    payload, metadata incl. a nil map and pre-existing poison keys), every Router context, every
    handler behaviour (settles the message itself or not; changes metadata, payload, context;
    returns any outputs, fails with any error with or without outputs, panics), every poison
    publisher behaviour (accepts, fails with any error, panics, is nil), every kind and
    behaviour of the handler's own publisher.  [txt] is err.Error().  Messages in flight and
    handlers sharing one middleware value do not interact: [poison] is a function of its
    arguments (the value has no mutable state, poison.go l.20-25, l.77-101), so the statements
    are per message. *)
From WM Require Import Base.Prelude Message.Model Message.Proofs Handler.RouterHandle Handler.RouterProofs
  Handler.Poison Handler.PoisonProofs Handler.PoisonConc Handler.PoisonConcProofs
  Handler.PoisonRetry Handler.PoisonRetryProofs
  Handler.PoisonMeta Handler.PoisonProofs3 Handler.PoisonConcSpec Handler.PoisonConcProofs3
  Handler.PoisonRetryObs Handler.PoisonRetryProofs3 Handler.PoisonCtx Handler.PoisonCtxProofs.
From WM Require Handler.Retry.

(** PoisonQueue / PoisonQueueWithFilter yield a middleware iff the topic is non-empty *)
Theorem C13_constructor_rejects_empty_topic : forall topic f,
  (mk_poison topic f = None <-> topic = 0%N)
  /\ (forall cfg, mk_poison topic f = Some cfg -> pq_topic cfg = topic /\ pq_filter cfg = f).
Proof. exact mk_poison_spec. Qed.

(** the metadata written: the four keys name reason, subscribe topic, handler and subscriber
    (overwriting earlier values: redelivery of a poisoned message); every other key is kept *)
Theorem C13_poison_metadata : forall c reason md,
  mget K_REASON (stamp c reason md) = Some reason
  /\ mget K_TOPIC (stamp c reason md) = Some (rc_topic c)
  /\ mget K_HANDLER (stamp c reason md) = Some (rc_handler c)
  /\ mget K_SUB (stamp c reason md) = Some (rc_sub c)
  /\ forall k, ~ poison_key k -> mget k (stamp c reason md) = mget k md.
Proof. exact stamp_spec. Qed.

Section C13.
  Context {M : Type} (txt : err -> N).
  Notation poison := (poison (M:=M) txt).
  Notation in_router := (in_router (M:=M) txt).

  (** an accepted error: exactly one Publish, on the poison topic, of the message with the same
      UUID, the payload and metadata the handler left, plus the four keys; success (with the
      handler's outputs) iff the publisher accepted; otherwise the handler's error(s) followed by
      the wrapped publish error, or the publisher's panic *)
  Theorem C13_accepted_error_published_once : forall cfg c0 m0 seen (h : hscript M) pp e outs md,
    hs_out h = HFail e outs -> accepts cfg e = FYes ->
    pm_meta (fst (run_acts (hs_acts h) (m0, c0))) = Some md -> pp <> PPNil ->
    let m := fst (run_acts (hs_acts h) (m0, c0)) in
    let c := snd (run_acts (hs_acts h) (m0, c0)) in
    let pm := PM (pm_uuid m0) (pm_payload m) (Some (stamp c (txt e) md)) in
    let '(r, ev, mf) := poison cfg c0 m0 seen h pp in
    poison_pubs ev = [(pq_topic cfg, pm)] /\ mf = pm /\ filter_calls ev = filter_calls (filter_events cfg e)
    /\ match pp with
       | PPAccept => r = MRet outs None /\ pub_oks ev = 1
                     /\ exists pre, ev = pre ++ [PPublish (pq_topic cfg) pm seen; PPublishRet true]
       | PPError pe => r = MRet outs (Some (multi_append e (EWrapCause WRAP_MSG pe))) /\ pub_oks ev = 0
       | PPPanic => r = MPanic /\ pub_oks ev = 0
       | PPNil => False
       end.
  Proof. exact (poison_accepted txt). Qed.

  (** nil metadata map or nil publisher: the salvage panics; nothing reaches the poison topic *)
  Theorem C13_unsalvageable_panics : forall cfg c0 m0 seen (h : hscript M) pp e outs,
    hs_out h = HFail e outs -> accepts cfg e = FYes ->
    pm_meta (fst (run_acts (hs_acts h) (m0, c0))) = None \/ pp = PPNil ->
    let '(r, ev, mf) := poison cfg c0 m0 seen h pp in
    r = MPanic /\ poison_pubs ev = [].
  Proof. exact (poison_unsalvageable txt). Qed.

  (** success passes through unchanged: same outputs, no error, filter not asked, nothing
      published, the message as the handler left it *)
  Theorem C13_success_passes_through : forall cfg c0 m0 seen (h : hscript M) pp outs,
    hs_out h = HRet outs ->
    poison cfg c0 m0 seen h pp = (MRet outs None, [], fst (run_acts (hs_acts h) (m0, c0))).
  Proof. exact (poison_ret txt). Qed.

  (** a filtered-out error passes through unchanged (the very error, the outputs); the filter
      was asked once, about that error; nothing published; message untouched *)
  Theorem C13_filtered_error_passes_through : forall cfg c0 m0 seen (h : hscript M) pp e outs,
    hs_out h = HFail e outs -> accepts cfg e = FNo ->
    poison cfg c0 m0 seen h pp = (MRet outs (Some e), [PFilter e], fst (run_acts (hs_acts h) (m0, c0))).
  Proof. exact (poison_filtered txt). Qed.

  (** a panicking handler is not salvaged (err is nil when the deferred function runs) *)
  Theorem C13_panic_passes_through : forall cfg c0 m0 seen (h : hscript M) pp,
    hs_out h = HPanic ->
    poison cfg c0 m0 seen h pp = (MPanic, [], fst (run_acts (hs_acts h) (m0, c0))).
  Proof. exact (poison_panic txt). Qed.

  (** a panicking (or nil) filter: the panic escapes, nothing published, message untouched *)
  Theorem C13_filter_panic_escapes : forall cfg c0 m0 seen (h : hscript M) pp e outs,
    hs_out h = HFail e outs -> accepts cfg e = FPanics \/ accepts cfg e = FNoFunc ->
    let '(r, ev, mf) := poison cfg c0 m0 seen h pp in
    r = MPanic /\ poison_pubs ev = [] /\ mf = fst (run_acts (hs_acts h) (m0, c0)).
  Proof. exact (poison_filter_panics txt). Qed.

  (** for EVERY input: at most one poison Publish; one only for an accepted handler error; a
      failed handler is reported as success ONLY after a poison publish returned nil *)
  Theorem C13_at_most_once_and_no_silent_success : forall cfg c0 m0 seen (h : hscript M) pp,
    let '(r, ev, mf) := poison cfg c0 m0 seen h pp in
    length (poison_pubs ev) <= 1
    /\ (poison_pubs ev <> [] -> exists e outs, hs_out h = HFail e outs /\ accepts cfg e = FYes)
    /\ (handler_failed h = true -> (exists o, r = MRet o None) -> pub_oks ev = 1 /\ length (poison_pubs ev) = 1).
  Proof. exact (poison_at_most_once txt). Qed.

  (** composition with C02: inside a Router the Router-side events and the settlement are those
      of [handle] applied to the chain result the middleware produced, so every C02 theorem
      (settles once, Ack iff handled and published, no override, ...) applies verbatim *)
  Theorem C13_in_router_composes : forall cfg c0 m0 (h : hscript M) pp pk pb,
    let '(ms, tr, r, mf) := in_router cfg c0 m0 h pp pk pb in
    let '(r', pe, mf') := poison cfg c0 m0 (seen_after (M:=M) (hs_pre h)) h pp in
    r = r' /\ mf = mf' /\ pproj tr = pe
    /\ hproj tr = snd (handle pk pb (to_cr (hs_pre h) r'))
    /\ ms = fst (handle pk pb (to_cr (hs_pre h) r')).
  Proof. exact (in_router_decomp txt). Qed.

  (** the settlement of the consumed message *)
  Theorem C13_final_settlement : forall cfg c0 m0 (h : hscript M) pp pk pb,
    st (fst (fst (fst (in_router cfg c0 m0 h pp pk pb)))) = c13_expected_final cfg m0 h pp pk pb.
  Proof. exact (in_router_final txt). Qed.

  (** THE TITLE: Acked (by the Router) implies handled, or failed with an accepted error and
      present in the poison topic through exactly one accepted publish of the stamped message *)
  Theorem C13_acked_implies_handled_or_poisoned : forall cfg c0 m0 (h : hscript M) pp pk pb,
    hs_pre h = PreNone ->
    let '(ms, tr, r, mf) := in_router cfg c0 m0 h pp pk pb in
    st ms = Acked ->
    handled_ok pk pb (CR PreNone (Ret (outs_of h))) = true
    /\ ((exists outs, hs_out h = HRet outs /\ poison_pubs (pproj tr) = [])
        \/ (exists e outs md,
              hs_out h = HFail e outs /\ accepts cfg e = FYes /\ pp = PPAccept
              /\ pm_meta (fst (run_acts (hs_acts h) (m0, c0))) = Some md
              /\ poison_pubs (pproj tr) =
                   [(pq_topic cfg, PM (pm_uuid m0) (pm_payload (fst (run_acts (hs_acts h) (m0, c0))))
                                      (Some (stamp (snd (run_acts (hs_acts h) (m0, c0))) (txt e) md)))]
              /\ pub_oks (pproj tr) = 1)).
  Proof. exact (in_router_acked txt). Qed.

  (** ... or still failing: a failed handler whose message did not get into the poison topic
      (filtered out, filter panic, nil map, publisher error / panic / nil) is Nacked *)
  Theorem C13_not_poisoned_still_failing : forall cfg c0 m0 (h : hscript M) pp pk pb,
    hs_pre h = PreNone -> handler_failed h = true -> poison_ok cfg m0 h pp = false ->
    st (fst (fst (fst (in_router cfg c0 m0 h pp pk pb)))) = Nacked.
  Proof. exact (in_router_still_failing txt). Qed.

  (** "only then": the Router's Ack follows the successful return of the poison Publish; inside
      that Publish the message is not yet settled by the Router *)
  Theorem C13_ack_only_after_poison_publish : forall cfg c0 m0 (h : hscript M) pp pk pb,
    let tr := snd (fst (fst (in_router cfg c0 m0 h pp pk pb))) in
    ack_guard (handler_failed h) tr = true /\ seen_pre_ok (hs_pre h) tr = true.
  Proof. exact (in_router_order txt). Qed.

  (** the model passes the acceptors that judge implementation observations *)
  Theorem C13_model_accepted : forall (eqbM : M -> M -> bool), (forall x, eqbM x x = true) ->
    forall cfg c0 m0 (h : hscript M) pp pk pb,
    let '(ms, tr, r, mf) := in_router cfg c0 m0 h pp pk pb in
    c13_monitor txt eqbM cfg c0 m0 h pp pk pb tr (st ms) r mf = true.
  Proof. exact (in_router_monitor txt). Qed.

  Theorem C13_model_accepted_standalone : forall (eqbM : M -> M -> bool), (forall x, eqbM x x = true) ->
    forall cfg c0 m0 seen (h : hscript M) pp,
    let '(r, ev, mf) := poison cfg c0 m0 seen h pp in
    mw_monitor txt eqbM cfg c0 m0 h pp r ev mf = true.
  Proof. exact (poison_mw_monitor txt). Qed.

  (** the acceptor is sound for the title: an accepted observation in which a message whose
      handler failed ended up Acked contains exactly one Publish of the prescribed message on
      the poison topic and its successful return before the Ack *)
  Theorem C13_monitor_sound : forall (eqbM : M -> M -> bool) cfg c0 m0 (h : hscript M) pp pk pb tr final r mf,
    c13_monitor txt eqbM cfg c0 m0 h pp pk pb tr final r mf = true ->
    hs_pre h = PreNone -> final = Acked -> handler_failed h = true ->
    exists e outs pm,
      hs_out h = HFail e outs /\ accepts cfg e = FYes
      /\ poisoned txt (snd (run_acts (hs_acts h) (m0, c0))) (fst (run_acts (hs_acts h) (m0, c0))) e = Some pm
      /\ list_eqb pub_eqb (poison_pubs (pproj tr)) [(pq_topic cfg, pm)] = true
      /\ pub_oks (pproj tr) = 1
      /\ ack_guard true tr = true.
  Proof. exact (c13_monitor_sound txt). Qed.

  (** ... and for the other clauses: accepted observations of a failed, not successfully poisoned
      message end Nacked; of a success or a filtered-out error show no poison publish and the
      unchanged result *)
  Theorem C13_monitor_sound_rest : forall (eqbM : M -> M -> bool) cfg c0 m0 (h : hscript M) pp pk pb tr final r mf,
    c13_monitor txt eqbM cfg c0 m0 h pp pk pb tr final r mf = true ->
    (hs_pre h = PreNone -> handler_failed h = true -> poison_ok cfg m0 h pp = false -> final = Nacked)
    /\ (forall outs, hs_out h = HRet outs ->
          pproj tr = [] /\ exists o, r = MRet o None /\ outs_eqb eqbM o outs = true)
    /\ (forall e outs, hs_out h = HFail e outs -> accepts cfg e = FNo ->
          poison_pubs (pproj tr) = [] /\ exists o e', r = MRet o (Some e') /\ outs_eqb eqbM o outs = true /\ err_eqb e' e = true).
  Proof. exact (c13_monitor_sound_rest txt). Qed.

  (** the outcome does not depend on the state of the message context: a context that ends while
      the handler runs (cancelled by the handler, cancelled or timed out from outside) changes
      neither the result, nor what is published, nor the settlement; a context already ended at
      delivery is not an input of the model at all (poison.go reads only context VALUES) *)
  Theorem C13_context_state_irrelevant : forall cfg c0 m0 pre acts (out : hout M) pp pk pb seen,
    poison cfg c0 m0 seen (HS pre (strip_cancel acts) out) pp = poison cfg c0 m0 seen (HS pre acts out) pp
    /\ in_router cfg c0 m0 (HS pre (strip_cancel acts) out) pp pk pb = in_router cfg c0 m0 (HS pre acts out) pp pk pb.
  Proof. exact (ctx_state_irrelevant txt). Qed.
End C13.
Print Assumptions C13_context_state_irrelevant.
Print Assumptions C13_monitor_sound_rest.
Print Assumptions C13_constructor_rejects_empty_topic.
Print Assumptions C13_poison_metadata.
Print Assumptions C13_accepted_error_published_once.
Print Assumptions C13_unsalvageable_panics.
Print Assumptions C13_success_passes_through.
Print Assumptions C13_filtered_error_passes_through.
Print Assumptions C13_panic_passes_through.
Print Assumptions C13_filter_panic_escapes.
Print Assumptions C13_at_most_once_and_no_silent_success.
Print Assumptions C13_in_router_composes.
Print Assumptions C13_final_settlement.
Print Assumptions C13_acked_implies_handled_or_poisoned.
Print Assumptions C13_not_poisoned_still_failing.
Print Assumptions C13_ack_only_after_poison_publish.
Print Assumptions C13_model_accepted.
Print Assumptions C13_model_accepted_standalone.
Print Assumptions C13_monitor_sound.

(** ** messages in flight: ONE middleware value, any number of messages, any interleaving
    (Handler/PoisonConc.v: one thread per message, one step per point where another goroutine
    could interfere, locals only - the closure of poison.go l.77-101 captures nothing mutable) *)
Section C13_inflight.
  Context {M : Type} (txt : err -> N).

  (** after ANY schedule - any interleaving, any prefix, any number of messages - every thread
      is where it would be had it taken its own steps alone, and its projection of the global
      event log is what it would have emitted alone *)
  Theorem C13_inflight_any_prefix : forall cfg (jobs : nat -> job M) sched i,
    threads (sys_run txt false cfg jobs sched) i = fst (solo txt cfg (jobs i) (count_occ Nat.eq_dec sched i))
    /\ proj i (log (sys_run txt false cfg jobs sched)) = snd (solo txt cfg (jobs i) (count_occ Nat.eq_dec sched i)).
  Proof. exact (conc_prefix txt). Qed.

  (** N messages under any interleaving = N independent runs of the sequential model: result,
      events and final message content of a message that took its (at most four) steps are
      those of [poison] on its own inputs *)
  Theorem C13_inflight_independent : forall cfg (jobs : nat -> job M) sched i,
    4 <= count_occ Nat.eq_dec sched i ->
    let j := jobs i in
    let '(r, ev, mf) := poison txt cfg (j_ctx j) (j_msg j) (j_seen j) (j_h j) (j_pp j) in
    threads (sys_run txt false cfg jobs sched) i = TDone r mf
    /\ proj i (log (sys_run txt false cfg jobs sched)) = ev.
  Proof. exact (conc_independent txt). Qed.

  (** ... hence, inside a Router, trace and settlement of every message of the batch are those of
      [in_router] on its own inputs *)
  Theorem C13_inflight_in_router : forall cfg (jobs : nat -> job M) sched i pk pb,
    4 <= count_occ Nat.eq_dec sched i ->
    let j := jobs i in
    j_seen j = seen_after (M:=M) (hs_pre (j_h j)) ->
    exists r mf,
      threads (sys_run txt false cfg jobs sched) i = TDone r mf
      /\ in_router txt cfg (j_ctx j) (j_msg j) (j_h j) (j_pp j) pk pb
         = (fst (handle pk pb (to_cr (hs_pre (j_h j)) r)),
            splice (snd (handle pk pb (to_cr (hs_pre (j_h j)) r))) (proj i (log (sys_run txt false cfg jobs sched))),
            r, mf).
  Proof. exact (conc_in_router txt). Qed.
End C13_inflight.

(** the theorem is sensitive to exactly the absence of shared state: in the variant whose
    salvage reads the error from a variable shared by all invocations, two messages and one
    schedule suffice for a failed message to be reported as handled with nothing published *)
Theorem C13_inflight_shared_variable_refuted :
  let cfg := PC 10 None in
  let txt := fun _ : err => 77%N in
  4 <= count_occ Nat.eq_dec refute_sched 0
  /\ threads (sys_run txt true cfg refute_jobs refute_sched) 0%nat = TDone (MRet [] None) (PM 6 [] (Some []))
  /\ proj 0 (log (sys_run txt true cfg refute_jobs refute_sched)) = []
  /\ poison_pubs (snd (fst (poison (M:=N) txt cfg no_ctx (PM 6 [] (Some [])) Unsettled (HS PreNone [] (HFail (EBase 30) [])) PPAccept))) <> [].
Proof. exact conc_shared_refuted. Qed.
Print Assumptions C13_inflight_any_prefix.
Print Assumptions C13_inflight_independent.
Print Assumptions C13_inflight_in_router.
Print Assumptions C13_inflight_shared_variable_refuted.

(** ** the real Retry middleware INSIDE the poison queue: PoisonQueue(Retry(h)) - composition of
    C12's model [Retry.retry] with [poison] (Handler/PoisonRetry.v); for every Retry
    configuration, handler script [h : nat -> (outputs, error id)], timing/select environment,
    poison configuration, message and publisher behaviour *)
Section C13_retry.
  Context (txt : err -> N) (errof : N -> err).

  (** some attempt succeeded: the FIRST success is passed on unchanged, nothing is poisoned *)
  Theorem C13_retry_success_not_poisoned : forall cfg c0 m0 seen pre acts rc h env pp,
    Retry.is_ok (Retry.r_out (Retry.retry rc h env)) = true ->
    exists n, Retry.calls (Retry.r_trace (Retry.retry rc h env)) = seq 0 (S n)
              /\ Retry.is_ok (h n) = true /\ (forall j, j < n -> Retry.is_ok (h j) = false)
              /\ poison_retry txt errof cfg c0 m0 seen pre acts rc h env pp
                 = (MRet (fst (h n)) None, [], fst (run_acts acts (m0, c0))).
  Proof. exact (poison_retry_success txt errof). Qed.

  (** with n+1 invocations made by Retry: poisoned EXACTLY WHEN all n+1 attempts failed and the
      filter accepts the LAST error (and the message has a metadata map and a publisher exists);
      then exactly one Publish of the stamped message whose reason is the LAST error's text, and
      success is reported iff that publish was accepted *)
  Theorem C13_retry_poisoned_exactly_when_all_attempts_failed :
    forall cfg c0 m0 seen pre acts rc h env pp n,
    Retry.calls (Retry.r_trace (Retry.retry rc h env)) = seq 0 (S n) ->
    let m := fst (run_acts acts (m0, c0)) in
    let c := snd (run_acts acts (m0, c0)) in
    let le := errof (snd (h n)) in
    let '(r, ev, mf) := poison_retry txt errof cfg c0 m0 seen pre acts rc h env pp in
    (poison_pubs ev <> [] <->
       (forall j, j <= n -> Retry.is_ok (h j) = false) /\ accepts cfg le = FYes
       /\ pm_meta m <> None /\ pp <> PPNil)
    /\ (forall md, (forall j, j <= n -> Retry.is_ok (h j) = false) -> accepts cfg le = FYes ->
          pm_meta m = Some md -> pp <> PPNil ->
          poison_pubs ev = [(pq_topic cfg, PM (pm_uuid m0) (pm_payload m) (Some (stamp c (txt le) md)))]
          /\ ((exists o, r = MRet o None) <-> pp = PPAccept)).
  Proof. exact (poison_retry_exactly txt errof). Qed.

  (** inside a Router: Acked through poison(retry(h)) implies handled by some attempt, or all
      attempts failed and the message is in the poison topic with the last error as reason *)
  Theorem C13_retry_acked_implies_handled_or_poisoned : forall cfg c0 m0 acts rc h env pp pk pb,
    let '(ms, tr, r, mf) := poison_retry_in_router txt errof cfg c0 m0 PreNone acts rc h env pp pk pb in
    st ms = Acked ->
    exists n, Retry.calls (Retry.r_trace (Retry.retry rc h env)) = seq 0 (S n)
      /\ ((Retry.is_ok (h n) = true /\ (forall j, j < n -> Retry.is_ok (h j) = false) /\ poison_pubs (pproj tr) = [])
          \/ ((forall j, j <= n -> Retry.is_ok (h j) = false)
              /\ accepts cfg (errof (snd (h n))) = FYes /\ pp = PPAccept /\ pub_oks (pproj tr) = 1
              /\ exists md, pm_meta (fst (run_acts acts (m0, c0))) = Some md
                   /\ poison_pubs (pproj tr) =
                        [(pq_topic cfg, PM (pm_uuid m0) (pm_payload (fst (run_acts acts (m0, c0))))
                                           (Some (stamp (snd (run_acts acts (m0, c0))) (txt (errof (snd (h n)))) md)))])).
  Proof. exact (poison_retry_router_acked txt errof). Qed.
End C13_retry.
Print Assumptions C13_retry_success_not_poisoned.
Print Assumptions C13_retry_poisoned_exactly_when_all_attempts_failed.
Print Assumptions C13_retry_acked_implies_handled_or_poisoned.

(** ** round "proofs 3" *)

(** exactly which metadata keys the poisoned message carries: those it had plus the four
    documented ones - no other key appears, none disappears (values: C13_poison_metadata) *)
Theorem C13_exactly_four_keys_added : forall c reason md k,
  In k (mkeys (stamp c reason md)) <-> poison_key k \/ In k (mkeys md).
Proof. exact stamp_keys. Qed.

(** a key is in the key list iff the map answers for it (so the statement above is about Get) *)
Theorem C13_keys_are_what_get_answers : forall k m, mget k m <> None <-> In k (mkeys m).
Proof. exact mget_in_keys. Qed.

(** the map stays a map: each key once (strictly sorted representation preserved) *)
Theorem C13_metadata_stays_wellformed : forall c reason md,
  meta_wf md = true -> meta_wf (stamp c reason md) = true.
Proof. exact stamp_wf. Qed.

(** redelivery of an already poisoned message: the key set is unchanged, only values move *)
Theorem C13_redelivery_keeps_key_set : forall c reason md,
  (forall k, poison_key k -> In k (mkeys md)) ->
  forall k, In k (mkeys (stamp c reason md)) <-> In k (mkeys md).
Proof. exact stamp_keys_redelivery. Qed.

Section C13_filters.
  Context {M : Type} (txt : err -> N).

  (** PoisonQueueWithFilter: EVERY outcome of the filter in one table *)
  Theorem C13_filter_outcome_table : forall t f c0 m0 seen (h : hscript M) pp e outs,
    hs_out h = HFail e outs ->
    let m := fst (run_acts (hs_acts h) (m0, c0)) in
    let c := snd (run_acts (hs_acts h) (m0, c0)) in
    poison txt (PC t (Some f)) c0 m0 seen h pp =
      match f e with
      | FYes => let '(r, ev, m') := salvage txt (PC t (Some f)) c m seen e outs pp in (r, PFilter e :: ev, m')
      | FNo => (MRet outs (Some e), [PFilter e], m)
      | FPanics => (MPanic, [PFilter e], m)
      | FNoFunc => (MPanic, [], m)
      end.
  Proof. exact (poison_filter_table txt). Qed.

  (** PoisonQueue(pub, topic) = PoisonQueueWithFilter(pub, topic, accept all), the question to
      the built-in filter not being observable *)
  Theorem C13_default_filter_is_accept_all : forall t c0 m0 seen (h : hscript M) pp,
    let '(r1, ev1, m1) := poison txt (PC t None) c0 m0 seen h pp in
    let '(r2, ev2, m2) := poison txt (PC t (Some (fun _ => FYes))) c0 m0 seen h pp in
    r1 = r2 /\ m1 = m2 /\ ev1 = no_filter_events ev2.
  Proof. exact (default_is_accept_all txt). Qed.
End C13_filters.

(** the harness's concrete filters, ordered by strength; negation swaps yes/no only *)
Theorem C13_filters_eq_cause_is : forall t e,
  (filter_sem (FEq t) e = FYes -> filter_sem (FCause t) e = FYes)
  /\ (filter_sem (FCause t) e = FYes -> filter_sem (FIs t) e = FYes).
Proof. exact filters_ordered. Qed.

Theorem C13_filter_negation : forall f e,
  (filter_sem (FNot f) e = FYes <-> filter_sem f e = FNo)
  /\ (filter_sem (FNot f) e = FNo <-> filter_sem f e = FYes)
  /\ (filter_sem (FNot f) e = FPanics <-> filter_sem f e = FPanics)
  /\ (filter_sem (FNot f) e = FNoFunc <-> filter_sem f e = FNoFunc)
  /\ filter_sem (FNot (FNot f)) e = filter_sem f e.
Proof. exact fnot_swaps. Qed.

Section C13_refinement.
  Context {M : Type} (txt : err -> N).

  (** the concurrent semantics of one middleware value REFINES the atomic specification (each
      message handled in one indivisible [poison] step): whatever the schedule, whatever the
      order the specification picks, every message that took its steps ends in the same state
      with the same events *)
  Theorem C13_concurrent_refines_atomic : forall cfg (jobs : nat -> job M) sched order,
    (forall i, In i order -> 4 <= count_occ Nat.eq_dec sched i) ->
    forall i, In i order ->
      threads (sys_run txt false cfg jobs sched) i = threads (spec_run txt cfg jobs order) i
      /\ proj i (log (sys_run txt false cfg jobs sched)) = proj i (log (spec_run txt cfg jobs order)).
  Proof. exact (conc_refines_atomic txt). Qed.

  (** serializability: the atomic run's log is the plain concatenation of the sequential
      model's event lists, and every complete concurrent run agrees with it message by message *)
  Theorem C13_concurrent_serializable : forall cfg (jobs : nat -> job M) sched order, NoDup order ->
    (forall i, In i order -> 4 <= count_occ Nat.eq_dec sched i) ->
    log (spec_run txt cfg jobs order) = serial_log txt cfg jobs order
    /\ forall i, In i order ->
         threads (sys_run txt false cfg jobs sched) i = threads (spec_run txt cfg jobs order) i
         /\ proj i (log (sys_run txt false cfg jobs sched)) = proj i (serial_log txt cfg jobs order).
  Proof. exact (conc_serializable txt). Qed.
End C13_refinement.

Section C13_retry_end_to_end.
  Context (txt : err -> N) (errof : N -> err).

  (** PoisonQueue(Retry(h)) in the Router, forward: every attempt fails and Retry runs to
      exhaustion (1 + max(1, MaxRetries) invocations), the filter accepts the LAST error, the
      message has a metadata map => exactly one Publish of the message with the same UUID and
      payload and the stamped metadata (reason = last error) ; publisher accepts => ACKED and
      success returned; publisher fails => NACKED and the last error followed by the wrapped
      publish error returned (nothing is lost: the broker redelivers); panic / nil => NACKED *)
  Theorem C13_retry_exhausted_poisoned_once_and_acked : forall cfg c0 m0 acts rc h env pp pk pb md,
    (forall j, j <= Retry.iterations rc -> Retry.is_ok (h j) = false) ->
    (forall j, 1 <= j <= Retry.iterations rc -> Retry.s_ctx (Retry.e_sel env j) = false) ->
    let k := Retry.iterations rc in
    let le := errof (snd (h k)) in
    let m := fst (run_acts acts (m0, c0)) in
    let c := snd (run_acts acts (m0, c0)) in
    let pm := PM (pm_uuid m0) (pm_payload m) (Some (stamp c (txt le) md)) in
    accepts cfg le = FYes -> pm_meta m = Some md ->
    let '(ms, tr, r, mf) := poison_retry_in_router txt errof cfg c0 m0 PreNone acts rc h env pp pk pb in
    Retry.calls (Retry.r_trace (Retry.retry rc h env)) = seq 0 (S k)
    /\ match pp with
       | PPAccept => poison_pubs (pproj tr) = [(pq_topic cfg, pm)] /\ pub_oks (pproj tr) = 1
                     /\ st ms = Acked /\ r = MRet [] None /\ mf = pm
       | PPError pe => poison_pubs (pproj tr) = [(pq_topic cfg, pm)] /\ pub_oks (pproj tr) = 0
                     /\ st ms = Nacked /\ r = MRet [] (Some (multi_append le (EWrapCause WRAP_MSG pe))) /\ mf = pm
       | PPPanic => poison_pubs (pproj tr) = [(pq_topic cfg, pm)] /\ pub_oks (pproj tr) = 0
                     /\ st ms = Nacked /\ r = MPanic /\ mf = pm
       | PPNil => poison_pubs (pproj tr) = [] /\ st ms = Nacked /\ r = MPanic
       end.
  Proof. exact (retry_router_exhausted txt errof). Qed.

  (** the acceptor of the PoisonQueue(Retry(h)) scenario (handler read off the observation:
      PoisonRetryObs.obs_h, used by Corr/C13Retry.v) accepts every run of the composed model *)
  Theorem C13_retry_acceptor_model_accepted : forall cfg c0 m0 acts rc h env pp pk pb,
    let '(ms, tr, r, mf) := poison_retry_in_router txt errof cfg c0 m0 PreNone acts rc h env pp pk pb in
    c13_monitor txt N.eqb cfg c0 m0 (obs_h errof h (attempts_made rc h env) acts r) pp pk pb tr (st ms) r mf = true.
  Proof. exact (retry_obs_accepted txt errof). Qed.
End C13_retry_end_to_end.
Print Assumptions C13_exactly_four_keys_added.
Print Assumptions C13_keys_are_what_get_answers.
Print Assumptions C13_metadata_stays_wellformed.
Print Assumptions C13_redelivery_keeps_key_set.
Print Assumptions C13_filter_outcome_table.
Print Assumptions C13_default_filter_is_accept_all.
Print Assumptions C13_filters_eq_cause_is.
Print Assumptions C13_filter_negation.
Print Assumptions C13_concurrent_refines_atomic.
Print Assumptions C13_concurrent_serializable.
Print Assumptions C13_retry_exhausted_poisoned_once_and_acked.
Print Assumptions C13_retry_acceptor_model_accepted.

(** ** where "topic, handler and subscriber" come from: Router.addHandlerContext + the readers
    of router_context.go (Handler/PoisonCtx.v) *)

(** as the code is now, whatever context the consumed message already carried, all five readers
    answer with the CONSUMING handler's values and the poison queue names that handler *)
Theorem C13_context_names_consuming_handler : forall b p,
  add_handler_ctx true b p = RV (hc_name b) (hc_pubname b) (hc_subname b) (hc_subtopic b) (hc_pubtopic b)
  /\ poison_view (add_handler_ctx true b p) = RC (hc_subtopic b) (hc_name b) (hc_subname b).
Proof. exact ctx_names_consumer. Qed.

Theorem C13_context_keys_written : forall via b reason md,
  mget K_TOPIC (stamp (poison_view (consumed_ctx true via b)) reason md) = Some (hc_subtopic b)
  /\ mget K_HANDLER (stamp (poison_view (consumed_ctx true via b)) reason md) = Some (hc_name b)
  /\ mget K_SUB (stamp (poison_view (consumed_ctx true via b)) reason md) = Some (hc_subname b).
Proof. exact ctx_stamped. Qed.

(** the pinned behaviour (values written only when non-empty) named another handler's
    subscriber for a re-emitted object: the theorem above is sensitive to exactly the repair *)
Theorem C13_context_pinned_behaviour_refuted :
  exists a b, poison_view (consumed_ctx false (Some a) b) <> RC (hc_subtopic b) (hc_name b) (hc_subname b).
Proof. exact ctx_pinned_refuted. Qed.
Print Assumptions C13_context_names_consuming_handler.
Print Assumptions C13_context_keys_written.
Print Assumptions C13_context_pinned_behaviour_refuted.

(** the same schedule on the real semantics publishes message 0 *)
Example C13_inflight_witness :
  proj 0 (log (sys_run (fun _ => 77%N) false (PC 10 None) refute_jobs refute_sched))
  = [PPublish 10 (PM 6 [] (Some [(1, 77); (2, 0); (3, 0); (4, 0)]%N)) Unsettled; PPublishRet true].
Proof. exact conc_local_same_schedule. Qed.

(** non-vacuity.  Redelivery of an already poisoned message (keys 1-4 present, key 9 foreign) to
    handler 22 on topic 21 of subscriber 23; the handler fails with a wrapped error whose text is
    77; the filter errors.Is(err, 30) accepts; the poison publisher accepts: the four keys are
    overwritten, key 9 kept, one publish on topic 10, seen unsettled, then the Router acks. *)
Example C13_witness_poisoned :
  in_router (M:=N) (fun _ => 77%N) (PC 10 (Some (filter_sem (FIs 30)))) (RC 21 22 23)
            (PM 6 [1;2]%N (Some [(1, 50); (2, 51); (3, 52); (4, 53); (9, 54)]%N))
            (HS PreNone [] (HFail (EWrapStd 31 (EBase 30)) [])) PPAccept PubReal PubAccept
  = (MS Acked CClosed COpen false,
     [RH HCall; RP (PFilter (EWrapStd 31 (EBase 30)));
      RP (PPublish 10 (PM 6 [1;2]%N (Some [(1, 77); (2, 21); (3, 22); (4, 23); (9, 54)]%N)) Unsettled);
      RP (PPublishRet true); RH (HSettle true true)],
     MRet [] None,
     PM 6 [1;2]%N (Some [(1, 77); (2, 21); (3, 22); (4, 23); (9, 54)]%N)).
Proof. reflexivity. Qed.

(** the same with a failing poison publisher: the error is kept (multierror of the handler's
    error and the wrapped publish error) and the message is Nacked *)
Example C13_witness_publish_fails :
  in_router (M:=N) (fun _ => 77%N) (PC 10 None) (RC 21 22 23) (PM 6 [] (Some []))
            (HS PreNone [] (HFail (EBase 30) [])) (PPError (EBase 40)) PubReal PubAccept
  = (MS Nacked COpen CClosed false,
     [RH HCall;
      RP (PPublish 10 (PM 6 [] (Some [(1, 77); (2, 21); (3, 22); (4, 23)]%N)) Unsettled);
      RP (PPublishRet false); RH (HSettle false true)],
     MRet [] (Some (EMulti [EBase 30; EWrapCause 5 (EBase 40)])),
     PM 6 [] (Some [(1, 77); (2, 21); (3, 22); (4, 23)]%N)).
Proof. reflexivity. Qed.

(** errors.Cause does not see through fmt %w, errors.Is does: the two filters disagree *)
Example C13_witness_filters :
  (filter_sem (FCause 30) (EWrapStd 31 (EBase 30)), filter_sem (FIs 30) (EWrapStd 31 (EBase 30)),
   filter_sem (FCause 30) (EWrapCause 31 (EBase 30)), filter_sem (FIs 30) (EMulti [EBase 29; EBase 30]))
  = (FNo, FYes, FYes, FYes).
Proof. reflexivity. Qed.

(** boundary: an EMPTY UUID (0 = "") is a UUID like any other - the poisoned message carries it
    unchanged and so does the consumed object afterwards (C13_accepted_error_published_once holds
    for every [pm_uuid m0]; this instance only shows it is not vacuous there) *)
Example C13_witness_empty_uuid :
  poison (M:=N) (fun _ => 77%N) (PC 10 None) no_ctx (PM 0 [] (Some [])) Unsettled
         (HS PreNone [] (HFail (EBase 30) [])) PPAccept
  = (MRet [] None,
     [PPublish 10 (PM 0 [] (Some [(1, 77); (2, 0); (3, 0); (4, 0)]%N)) Unsettled; PPublishRet true],
     PM 0 [] (Some [(1, 77); (2, 0); (3, 0); (4, 0)]%N)).
Proof. reflexivity. Qed.
