(** C13 — Poison queue: a failed message is either in the poison topic or still failing. *)
From WM Require Import Base.Prelude Message.Model Handler.RouterHandle Handler.Poison Handler.PoisonProofs.

Theorem C13_constructor_rejects_empty_topic : forall topic f,
  (mk_poison topic f = None <-> topic = 0%N)
  /\ (forall cfg, mk_poison topic f = Some cfg -> pq_topic cfg = topic /\ pq_filter cfg = f).
Proof. exact mk_poison_spec. Qed.
Print Assumptions C13_constructor_rejects_empty_topic.
