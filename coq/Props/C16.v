(** C16 — Value semantics: Copy/Equals laws and codec round-trips are identities. (work in progress) *)
From WM Require Import Base.Prelude Message.Model Value.Model Value.Codec Value.EqualsProofs Value.CodecProofs.

Theorem C16_equals_iff : forall a b, msg_wf a -> msg_wf b ->
  (equals true a b = true <-> same_value a b).
Proof. exact equals_fixed_iff. Qed.
Print Assumptions C16_equals_iff.
