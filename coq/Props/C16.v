(** C16 — Value semantics: Copy/Equals laws and codec round-trips are identities.

    Models: Value/Model.v (message values, Message.Equals in its pinned and repaired variant,
    messages as Go objects with shared payload buffers and owned metadata maps, Copy, Set),
    Value/Codec.v (forwarder envelope and Publisher, CQRS JSON / Proto / gogo marshalers, reply
    marshaler; the serialisation libraries are function arguments = oracles).
    Strings and payloads are arbitrary byte sequences, so every statement below covers all
    payload bytes and (a superset of) all valid-UTF-8 strings.  Library behaviour enters only as
    an explicit, pointwise hypothesis of the round-trip theorems. *)
From WM Require Import Base.Prelude Message.Model Value.Model Value.Codec Value.Json Value.ToyCodec
  Value.EqualsProofs Value.CodecProofs Value.StoreProofs Value.JsonProofs Value.ToyProofs Value.CrossProofs Value.Reuse Value.ReuseProofs Value.Scan Value.ScanProofs Value.Sorted Value.SortedProofs Value.JsonInt Value.JsonIntProofs Value.AcceptProofs Value.Small Value.SmallProofs Value.ProtoWire Value.ProtoWireProofs.

(** * Equals *)

(** Equals (repaired) is true exactly when UUID, payload bytes and the complete metadata
    key/value set coincide.  [msg_wf] = "a Go map has no duplicate keys". *)
Theorem C16_equals_iff : forall a b, msg_wf a -> msg_wf b ->
  (equals true a b = true <->
   uuid a = uuid b /\ pl_bytes (payload a) = pl_bytes (payload b)
   /\ forall k, md_get (md_entries (meta a)) k = md_get (md_entries (meta b)) k).
Proof. exact equals_fixed_iff. Qed.

(** the pinned Equals (missing key reads as "") is not: D1, {"a":""} vs {"b":""} *)
Theorem C16_equals_iff_refuted :
  exists a b, msg_wf a /\ msg_wf b /\ equals false a b = true /\ ~ same_value a b.
Proof. exact equals_pinned_unsound. Qed.

(** ... and not even symmetric: {"b":""} vs {"a":"x"} *)
Theorem C16_equals_symmetric_refuted :
  exists a b, msg_wf a /\ msg_wf b /\ equals false a b = true /\ equals false b a = false.
Proof. exact equals_pinned_asymmetric. Qed.

(** the direction that holds for the pinned code as well: equal values are reported equal *)
Theorem C16_equals_if_pinned : forall a b, msg_wf a -> msg_wf b -> same_value a b -> equals false a b = true.
Proof. exact equals_pinned_complete. Qed.

(** the boolean acceptor applied to the implementation's answers is the specification, and
    the repaired Equals computes it *)
Theorem C16_equals_acceptor : forall a b, msg_wf a -> msg_wf b ->
  (same_value_b a b = true <-> same_value a b) /\ equals true a b = same_value_b a b.
Proof. exact equals_acceptor. Qed.

Theorem C16_equals_equivalence : forall a b c, msg_wf a -> msg_wf b -> msg_wf c ->
  equals true a a = true
  /\ equals true a b = equals true b a
  /\ (equals true a b = true -> equals true b c = true -> equals true a c = true).
Proof. exact equals_equivalence. Qed.

(** nil and empty payload / metadata are the same value (len, range and bytes.Equal cannot tell them apart) *)
Theorem C16_equals_nil_is_empty : forall f u, equals f (Msg u None None) (Msg u (Some []) (Some [])) = true.
Proof. exact equals_nil_empty. Qed.

(** * Copy *)

(** In every store a script can produce, Copy of object i yields a new object that has the
    original's value (Equals says so in both variants), the same payload slice, a non-nil
    metadata map that no other object references, and a fresh settlement state; the original
    is untouched. *)
Theorem C16_copy_equal_unsettled_fresh : forall f s i o, reachable s -> nth_error (objs s) i = Some o ->
  let s' := fst (vstep f s (VCopy i)) in
  let n := length (objs s) in
  snd (vstep f s (VCopy i)) = RObj n
  /\ exists c, nth_error (objs s') n = Some c
     /\ nth_error (objs s') i = Some o /\ val s' o = val s o
     /\ same_value (val s' o) (val s' c)
     /\ equals true (val s' o) (val s' c) = true /\ equals false (val s' o) (val s' c) = true
     /\ payload (val s' c) = payload (val s' o)
     /\ meta (val s' c) <> None
     /\ o_st c = MS Unsettled COpen COpen false
     /\ (forall i' o', nth_error (objs s') i' = Some o' -> i' <> n -> o_md o' <> o_md c).
Proof. exact copy_spec_reachable. Qed.

(** any number of later Sets on other objects leave the copy's metadata as it was; any number of
    Sets on the copy leave the original's as it was *)
Theorem C16_copy_owns_metadata : forall f s i o sets_other sets_copy, reachable s -> nth_error (objs s) i = Some o ->
  let s1 := fst (vstep f s (VCopy i)) in
  let n := length (objs s) in
  Forall (fun t => fst (fst t) <> n) sets_other -> Forall (fun t => fst (fst t) = n) sets_copy ->
  exists c, nth_error (objs s1) n = Some c
    /\ get_map (vexec f s1 (map set_op sets_other)) c = get_map s1 c
    /\ get_map (vexec f s1 (map set_op sets_copy)) o = get_map s o.
Proof. exact copy_owns_metadata. Qed.

(** more generally no object created by NewMessage, a literal or Copy ever shares its metadata *)
Theorem C16_set_touches_one_object : forall f sets s x ox, reachable s ->
  nth_error (objs s) x = Some ox -> Forall (fun t => fst (fst t) <> x) sets ->
  nth_error (objs (vexec f s (map set_op sets))) x = Some ox
  /\ get_map (vexec f s (map set_op sets)) ox = get_map s ox.
Proof. exact sets_frame_reachable. Qed.

(** every trace of the object model passes the acceptor the harness applies to the
    implementation's traces (Copy equal + unsettled + map of its own; Set changes exactly one
    key of exactly one object's metadata; nothing else changes any metadata) *)
Theorem C16_object_traces_accepted : forall f ops, script_scoped 0 ops = true ->
  trace_ok [] ops (vrun f empty_store ops) = true.
Proof. exact model_trace_accepted. Qed.

(** * Forwarder envelope *)

(** unwrap after wrap returns the destination topic and the message — UUID, payload, metadata,
    and whether payload / metadata were nil — whenever encoding/json reads back the envelope it
    wrote *)
Theorem C16_envelope_roundtrip : forall jenc jdec nu dest m w,
  (forall b, jenc (env_of dest m) = Some b -> jdec b = Some (env_of dest m)) ->
  wrap jenc nu dest m = Ok w -> unwrap jdec w = Ok (dest, m).
Proof. exact envelope_roundtrip. Qed.

(** the same from a library law that speaks about valid UTF-8 only *)
Theorem C16_envelope_roundtrip_utf8 : forall jenc jdec nu dest m w,
  (forall e b, envelope_utf8 e = true -> jenc e = Some b -> jdec b = Some e) ->
  utf8_valid dest = true -> utf8_valid (uuid m) = true -> md_utf8 (meta m) = true ->
  wrap jenc nu dest m = Ok w -> unwrap jdec w = Ok (dest, m).
Proof. exact envelope_roundtrip_utf8. Qed.

(** wrap fails exactly for an empty destination or when the library refuses; the envelope is a
    fresh message with empty metadata *)
Theorem C16_envelope_wrap_outcomes : forall jenc nu dest m,
  (dest = [] -> wrap jenc nu dest m = Err EUnknownDest)
  /\ (dest <> [] -> wrap jenc nu dest m =
        match jenc (env_of dest m) with
        | Some b => Ok (Msg nu (Some b) (Some []))
        | None => Err EMarshalEnvelope
        end).
Proof. exact wrap_outcomes. Qed.

Theorem C16_envelope_rejects_empty_dest : forall jdec w,
  (forall e, jdec (pl_bytes (payload w)) = Some e -> e_dest e = [] -> unwrap jdec w = Err EInvalidEnvelope)
  /\ (forall d m, unwrap jdec w = Ok (d, m) -> d <> []).
Proof. exact unwrap_rejects_empty_dest. Qed.

Theorem C16_envelope_model_accepted : forall jenc jdec nu dest m w, msg_wf m ->
  (forall b, jenc (env_of dest m) = Some b -> jdec b = Some (env_of dest m)) ->
  wrap jenc nu dest m = Ok w -> envelope_rt_ok dest m (unwrap jdec w) = true.
Proof. exact envelope_model_accepted. Qed.

(** forwarder.Publisher: the batch arrives on the forwarder topic, one envelope per message, in
    order, each unwrapping to (topic, that message) *)
Theorem C16_publisher_roundtrip : forall jenc jdec nu cfg inner_ok dest ms ft ws,
  (forall m b, In m ms -> jenc (env_of dest m) = Some b -> jdec b = Some (env_of dest m)) ->
  fwd_publish jenc nu cfg inner_ok dest ms = Ok (ft, ws) ->
  ft = (if str_eqb cfg [] then default_forwarder_topic else cfg)
  /\ map (unwrap jdec) ws = map (fun m => Ok (dest, m)) ms.
Proof. exact publisher_roundtrip. Qed.

(** * CQRS marshalers *)

Theorem C16_cqrs_json_roundtrip : forall V type_string gen_name cfg_uuid default_uuid venc vdec (v : V) m,
  (forall b, venc v = Some b -> vdec (pl_bytes b) = Some v) ->
  json_marshal V type_string gen_name cfg_uuid default_uuid venc v = Ok m ->
  json_unmarshal V vdec m = Ok v /\ name_from_message m = name_of V type_string gen_name v.
Proof. exact json_roundtrip. Qed.

Theorem C16_cqrs_proto_roundtrip : forall V type_string gen_name cfg_uuid default_uuid is_msg venc vdec (v : V) m,
  (forall b, venc v = Some b -> vdec (pl_bytes b) = Some v) ->
  proto_marshal V type_string gen_name cfg_uuid default_uuid is_msg venc v = Ok m ->
  proto_unmarshal V is_msg vdec m = Ok v /\ name_from_message m = name_of V type_string gen_name v.
Proof. exact proto_roundtrip. Qed.

(** the deprecated gogo marshaler with its fallback, repaired Unmarshal *)
Theorem C16_cqrs_gogo_roundtrip : forall V type_string gen_name cfg_uuid default_uuid is_msg venc vdec
    is_gogo genc gdec nofb (v : V) m,
  (forall b, genc v = LOk b -> gdec (pl_bytes b) = LOk v) ->
  (forall b, venc v = Some b -> vdec (pl_bytes b) = Some v) ->
  (forall b v', venc v = Some b -> gdec (pl_bytes b) = LOk v' -> v' = v) ->
  gogo_marshal V type_string gen_name cfg_uuid default_uuid is_msg venc is_gogo genc nofb v = Ok m ->
  gogo_unmarshal V is_msg vdec is_gogo gdec nofb true m = Ok v
  /\ name_from_message m = name_of V type_string gen_name v.
Proof. exact gogo_roundtrip. Qed.

(** the pinned Unmarshal refuses a value that Marshal accepted through the fallback (a type
    implementing only google.golang.org/protobuf's Message interface) *)
Theorem C16_cqrs_gogo_roundtrip_refuted :
  exists (venc : unit -> option (option (list N))) (vdec : list N -> option unit)
         (genc : unit -> lib (option (list N))) (gdec : list N -> lib unit) m,
    (forall b, venc tt = Some b -> vdec (pl_bytes b) = Some tt)
    /\ gogo_marshal unit (fun _ => []) None None [] true venc false genc false tt = Ok m
    /\ gogo_unmarshal unit true vdec false gdec false false m = Err ENoProto.
Proof. exact gogo_roundtrip_pinned_refuted. Qed.

(** ... while for types that do implement gogo's interface the pinned code was fine *)
Theorem C16_cqrs_gogo_roundtrip_pinned_partial : forall V type_string gen_name cfg_uuid default_uuid is_msg venc vdec
    is_gogo genc gdec nofb (v : V) m,
  is_gogo = true ->
  (forall b, genc v = LOk b -> gdec (pl_bytes b) = LOk v) ->
  (forall b, venc v = Some b -> vdec (pl_bytes b) = Some v) ->
  (forall b v', venc v = Some b -> gdec (pl_bytes b) = LOk v' -> v' = v) ->
  gogo_marshal V type_string gen_name cfg_uuid default_uuid is_msg venc is_gogo genc nofb v = Ok m ->
  gogo_unmarshal V is_msg vdec is_gogo gdec nofb false m = Ok v
  /\ name_from_message m = name_of V type_string gen_name v.
Proof. exact gogo_roundtrip_pinned_gogo_types. Qed.

(** FullyQualifiedStructName ignores pointer-ness: "%T" of a pointer is "*" followed by "%T" of the pointee *)
Theorem C16_name_ignores_pointer : forall s, trim_left_stars (42%N :: s) = trim_left_stars s.
Proof. exact trim_left_stars_pointer. Qed.

(** whatever satisfies the round-trip conclusion passes the acceptor applied to the implementation *)
Theorem C16_cqrs_acceptor : forall V ts gen veqb (v : V) mr nfm got,
  (forall x, veqb x x = true) ->
  (forall m, mr = Ok m -> got = Ok v /\ nfm = name_of V ts gen v) ->
  cqrs_rt_ok V ts gen veqb v mr nfm got = true.
Proof. exact cqrs_rt_ok_intro. Qed.

(** * Request-reply *)

(** result and error text come back exactly: nil error stays nil, an error whose text is ""
    stays an error whose text is "" *)
Theorem C16_reply_roundtrip : forall R renc rdec nu (p : rparams R) m,
  (forall b, renc (p_result R p) = Some b -> rdec (pl_bytes b) = Some (p_result R p)) ->
  marshal_reply R renc nu p = Ok m ->
  unmarshal_reply R rdec m = Ok (Rep R (p_result R p) (p_err R p)).
Proof. exact reply_roundtrip. Qed.

Theorem C16_reply_model_accepted : forall R renc rdec nu reqb (p : rparams R),
  (forall r, reqb r r = true) ->
  (forall b, renc (p_result R p) = Some b -> rdec (pl_bytes b) = Some (p_result R p)) ->
  reply_rt_ok R reqb p (marshal_reply R renc nu p)
    (match marshal_reply R renc nu p with Ok m => unmarshal_reply R rdec m | Err e => Err e end) = true.
Proof. exact reply_model_accepted. Qed.

(** * Round "proofs": encoding/json written out (Value/Json.v) — the library laws become theorems *)

(** reading back the string literal the encoder writes: every valid-UTF-8 byte string *)
Theorem C16_json_string_roundtrip : forall s, utf8_valid s = true ->
  unescape (escape s) = Some s /\ dec_str (enc_str s) = Some s.
Proof. exact (fun s H => conj (unescape_escape s H) (dec_str_enc_str s H)). Qed.

(** standard base64 with padding: every byte string *)
Theorem C16_base64_roundtrip : forall bs, bytes_ok bs -> b64dec (b64enc bs) = Some bs.
Proof. exact b64dec_b64enc. Qed.

(** the codec law of the envelope, no longer assumed: the decoder reads back the text the encoder
    wrote, given only that the scanner splits the two objects involved into their members *)
Theorem C16_envelope_json_law : forall unframe e, envelope_ok e ->
  unframe (frame_obj (env_members e)) = Some (env_members e) ->
  (forall l, e_meta e = Some l -> unframe (frame_obj (meta_members l)) = Some (meta_members l)) ->
  forall b, jenc_env e = Some b -> jdec_env unframe b = Some e.
Proof. exact jdec_jenc_env. Qed.

(** unwrap after wrap with the JSON library written out *)
Theorem C16_envelope_roundtrip_json : forall unframe nu dest m w,
  envelope_ok (env_of dest m) -> framing_ok unframe (env_of dest m) ->
  wrap jenc_env nu dest m = Ok w -> unwrap (jdec_env unframe) w = Ok (dest, m).
Proof. exact envelope_roundtrip_json. Qed.

Theorem C16_envelope_wrap_json_total : forall nu dest m, dest <> [] ->
  wrap jenc_env nu dest m = Ok (Msg nu (Some (frame_obj (env_members (env_of dest m)))) (Some [])).
Proof. exact wrap_json_total. Qed.

Theorem C16_publisher_roundtrip_json : forall unframe nu cfg inner_ok dest ms ft ws,
  (forall m, In m ms -> envelope_ok (env_of dest m) /\ framing_ok unframe (env_of dest m)) ->
  fwd_publish jenc_env nu cfg inner_ok dest ms = Ok (ft, ws) ->
  ft = (if str_eqb cfg [] then default_forwarder_topic else cfg)
  /\ map (unwrap (jdec_env unframe)) ws = map (fun m => Ok (dest, m)) ms.
Proof. exact publisher_roundtrip_json. Qed.

(** reply marshaler with a string result: closed (no library hypothesis at all) *)
Theorem C16_reply_roundtrip_string : forall nu (p : rparams str) m,
  utf8_valid (p_result str p) = true ->
  marshal_reply str (fun r => Some (Some (enc_str r))) nu p = Ok m ->
  unmarshal_reply str dec_str m = Ok (Rep str (p_result str p) (p_err str p)).
Proof. exact reply_roundtrip_string. Qed.

(** outside valid UTF-8 the property cannot hold (the C17 finding as a corollary): the encoder
    maps every ill-formed byte to U+FFFD, so it is not injective, ... *)
Theorem C16_json_escape_not_injective_refuted : exists s1 s2, s1 <> s2 /\ enc_str s1 = enc_str s2.
Proof. exact escape_not_injective. Qed.
Theorem C16_json_invalid_utf8_roundtrip_refuted :
  exists s, utf8_valid s = false /\ dec_str (enc_str s) = Some fffd_raw /\ s <> fffd_raw.
Proof. exact invalid_utf8_not_read_back. Qed.
(** ... and two different messages get the same envelope, so no decoder gives both back *)
Theorem C16_envelope_roundtrip_invalid_utf8_refuted :
  exists dest m1 m2 w, m1 <> m2
    /\ wrap jenc_env [85]%N dest m1 = Ok w /\ wrap jenc_env [85]%N dest m2 = Ok w
    /\ forall jdec, ~ (unwrap jdec w = Ok (dest, m1) /\ unwrap jdec w = Ok (dest, m2)).
Proof. exact envelope_invalid_utf8_collapses. Qed.

(** the GLOBAL codec law (for all envelopes) is satisfiable: a toy length-prefixed serialisation
    satisfies it, and with it wrap/unwrap is the identity for every message and destination *)
Theorem C16_codec_law_satisfiable :
  exists (jenc : envelope -> option (list N)) (jdec : list N -> option envelope),
    (forall e, jenc e <> None) /\ (forall e b, jenc e = Some b -> jdec b = Some e).
Proof. exact codec_law_satisfiable. Qed.
Theorem C16_toy_envelope_roundtrip : forall nu dest m, dest <> [] ->
  exists w, wrap toy_enc nu dest m = Ok w /\ unwrap toy_dec w = Ok (dest, m).
Proof. exact toy_envelope_roundtrip. Qed.

(** * Round "proofs": different marshalers on the two sides, and the message context *)

(** forward compatibility: ProtoMarshaler writes, the gogo marshaler (fallback enabled) reads *)
Theorem C16_cqrs_proto_then_gogo : forall V type_string gen_name cfg_uuid default_uuid is_msg venc vdec is_gogo gdec (v : V) m,
  (forall b, venc v = Some b -> vdec (pl_bytes b) = Some v) ->
  (forall b v', venc v = Some b -> gdec (pl_bytes b) = LOk v' -> v' = v) ->
  proto_marshal V type_string gen_name cfg_uuid default_uuid is_msg venc v = Ok m ->
  gogo_unmarshal V is_msg vdec is_gogo gdec false true m = Ok v.
Proof. exact proto_then_gogo. Qed.

(** backward compatibility: the gogo marshaler writes (either fallback setting), ProtoMarshaler reads *)
Theorem C16_cqrs_gogo_then_proto : forall V type_string gen_name cfg_uuid default_uuid is_msg venc vdec is_gogo genc nofb (v : V) m,
  is_msg = true ->
  (forall b, venc v = Some b -> vdec (pl_bytes b) = Some v) ->
  (forall b, genc v = LOk b -> vdec (pl_bytes b) = Some v) ->
  gogo_marshal V type_string gen_name cfg_uuid default_uuid is_msg venc is_gogo genc nofb v = Ok m ->
  proto_unmarshal V is_msg vdec m = Ok v.
Proof. exact gogo_then_proto. Qed.

(** gogo on both sides with different DisableStdProtoFallback: fine when gogo wrote the bytes, ... *)
Theorem C16_cqrs_gogo_cross_config_partial : forall V type_string gen_name cfg_uuid default_uuid is_msg venc vdec is_gogo genc gdec
    nofb_w nofb_r fixed (v : V) b,
  is_gogo = true -> genc v = LOk b ->
  (forall b, genc v = LOk b -> gdec (pl_bytes b) = LOk v) ->
  exists m, gogo_marshal V type_string gen_name cfg_uuid default_uuid is_msg venc is_gogo genc nofb_w v = Ok m
         /\ gogo_unmarshal V is_msg vdec is_gogo gdec nofb_r fixed m = Ok v.
Proof. exact gogo_cross_config_gogo_bytes. Qed.

(** ... refuted when the writer's fallback produced them and the reader has none *)
Theorem C16_cqrs_gogo_cross_config_refuted :
  exists (venc : unit -> option (option (list N))) (vdec : list N -> option unit)
         (genc : unit -> lib (option (list N))) (gdec : list N -> lib unit) m,
    (forall b, venc tt = Some b -> vdec (pl_bytes b) = Some tt)
    /\ gogo_marshal unit (fun _ => []) None None [] true venc true genc false tt = Ok m
    /\ gogo_unmarshal unit true vdec true gdec true true m = Err ELibPanic.
Proof. exact gogo_cross_config_refuted. Qed.

(** the envelope message carries the wrapped message's context, the unwrapped message the context
    of the envelope message it is unwrapped from *)
Theorem C16_envelope_context : forall jenc jdec nu dest m c c' w,
  (forall b, jenc (env_of dest m) = Some b -> jdec b = Some (env_of dest m)) ->
  wrap_c jenc nu dest (m, c) = Ok w ->
  snd w = c /\ unwrap_c jdec (fst w, c') = Ok (dest, (m, c')).
Proof. exact envelope_context. Qed.

(** * Round "seeds 3": Unmarshal is a function of the payload AND of what the target held *)

(** whatever the target held before — a previous message, defaults, a pooled value — after
    Unmarshal(Marshal v) it holds v, provided the library call resets its target
    (proto.Unmarshal's documented contract) and reads v back into a fresh one *)
Theorem C16_cqrs_proto_roundtrip_reused_target : forall V type_string gen_name cfg_uuid default_uuid is_msg venc vdec_into zero (v : V) m prev,
  resets V vdec_into zero ->
  (forall b, venc v = Some b -> vdec_into zero (pl_bytes b) = Some v) ->
  proto_marshal V type_string gen_name cfg_uuid default_uuid is_msg venc v = Ok m ->
  proto_unmarshal_into V vdec_into is_msg prev m = Ok v.
Proof. exact proto_roundtrip_reused. Qed.

(** the same statement for the JSON marshaler; encoding/json satisfies [resets] only for targets
    without maps / omitted fields (it merges into those), which the check measures case by case *)
Theorem C16_cqrs_json_roundtrip_reused_target : forall V type_string gen_name cfg_uuid default_uuid venc vdec_into zero (v : V) m prev,
  resets V vdec_into zero ->
  (forall b, venc v = Some b -> vdec_into zero (pl_bytes b) = Some v) ->
  json_marshal V type_string gen_name cfg_uuid default_uuid venc v = Ok m ->
  json_unmarshal_into V vdec_into prev m = Ok v.
Proof. exact json_roundtrip_reused. Qed.

(** the gogo marshaler: the fallback runs on whatever the failed gogo attempt left in the target *)
Theorem C16_cqrs_gogo_roundtrip_reused_target : forall V type_string gen_name cfg_uuid default_uuid is_msg venc vdec_into
    is_gogo genc gdec_into nofb zero (v : V) m prev,
  resets V vdec_into zero -> gogo_resets V gdec_into zero ->
  (forall b, genc v = LOk b -> fst (gdec_into zero (pl_bytes b)) = LOk v) ->
  (forall b, venc v = Some b -> vdec_into zero (pl_bytes b) = Some v) ->
  (forall b v', venc v = Some b -> fst (gdec_into zero (pl_bytes b)) = LOk v' -> v' = v) ->
  gogo_marshal V type_string gen_name cfg_uuid default_uuid is_msg venc is_gogo genc nofb v = Ok m ->
  gogo_unmarshal_into V vdec_into is_msg is_gogo gdec_into nofb true prev m = Ok v.
Proof. exact gogo_roundtrip_reused. Qed.

(** a call that merges into its target instead (repeated fields appended) reads every value back
    into a fresh target and still breaks the identity on a used one *)
Theorem C16_cqrs_roundtrip_reused_target_merging_refuted :
  exists (venc : list N -> option (option (list N))) (vdec_into : list N -> list N -> option (list N)) prev v m,
    (forall v b, venc v = Some b -> vdec_into [] (pl_bytes b) = Some v)
    /\ proto_marshal (list N) (fun _ => []) None None [] true venc v = Ok m
    /\ proto_unmarshal_into (list N) vdec_into true [] m = Ok v
    /\ proto_unmarshal_into (list N) vdec_into true prev m <> Ok v.
Proof. exact roundtrip_reused_merging_refuted. Qed.

(** * Round "proofs 2": the object framing is scanned in Gallina — nothing about encoding/json is assumed any more *)

(** the scanner splits every object made of string literals, null and one-level objects of those
    back into the member texts it was built from *)
Theorem C16_unframe_frame : forall ms, top_members ms -> unframe_std (frame_obj ms) = Some ms.
Proof. exact unframe_frame. Qed.

(** so the former assumption [framing_ok] holds of the scanner for every envelope *)
Theorem C16_framing_discharged : forall e, bytes_ok (pl_bytes (e_payload e)) -> framing_ok unframe_std e.
Proof. exact framing_std. Qed.

(** unwrap after wrap, closed: valid-UTF-8 destination / UUID / metadata, any payload bytes
    (nil-ness kept), duplicate-free metadata — no hypothesis about a library *)
Theorem C16_envelope_roundtrip_closed : forall nu dest m w, envelope_ok (env_of dest m) ->
  wrap jenc_env nu dest m = Ok w -> unwrap (jdec_env unframe_std) w = Ok (dest, m).
Proof. exact envelope_roundtrip_closed. Qed.

Theorem C16_envelope_identity : forall nu dest m, dest <> [] -> envelope_ok (env_of dest m) ->
  exists w, wrap jenc_env nu dest m = Ok w /\ unwrap (jdec_env unframe_std) w = Ok (dest, m).
Proof. exact envelope_identity. Qed.

Theorem C16_publisher_roundtrip_closed : forall nu cfg inner_ok dest ms ft ws,
  (forall m, In m ms -> envelope_ok (env_of dest m)) ->
  fwd_publish jenc_env nu cfg inner_ok dest ms = Ok (ft, ws) ->
  ft = (if str_eqb cfg [] then default_forwarder_topic else cfg)
  /\ map (unwrap (jdec_env unframe_std)) ws = map (fun m => Ok (dest, m)) ms.
Proof. exact publisher_roundtrip_closed. Qed.

(** with map entries written in Go's order (sorted by key, byte-wise) the round trip returns the
    canonical form of the message: same UUID, payload, nil-ness, metadata lookups *)
Theorem C16_envelope_roundtrip_sorted : forall nu dest m w, envelope_ok (env_of dest m) ->
  wrap jenc_sorted nu dest m = Ok w -> unwrap (jdec_env unframe_std) w = Ok (dest, canon_msg m).
Proof. exact envelope_roundtrip_sorted. Qed.
Theorem C16_envelope_roundtrip_sorted_same_value : forall nu dest m w, envelope_ok (env_of dest m) ->
  wrap jenc_sorted nu dest m = Ok w ->
  exists m', unwrap (jdec_env unframe_std) w = Ok (dest, m') /\ same_value m m'
    /\ payload m' = payload m /\ (meta m = None <-> meta m' = None).
Proof. exact envelope_roundtrip_sorted_same_value. Qed.

(** integers are read back from their JSON text (decimal, as strconv writes it), so the reply
    marshaler's round trip is closed for integer results as well *)
Theorem C16_json_int_roundtrip : forall z, dec_int (enc_int z) = Some z.
Proof. exact dec_int_enc_int. Qed.
Theorem C16_reply_roundtrip_int : forall nu (p : rparams Z) m,
  marshal_reply Z (fun r => Some (Some (enc_int r))) nu p = Ok m ->
  unmarshal_reply Z dec_int m = Ok (Rep Z (p_result Z p) (p_err Z p)).
Proof. exact reply_roundtrip_int. Qed.

(** * Round "proofs 3" *)

(** every acceptor applied to implementation results accepts what the model computes *)
Theorem C16_cqrs_json_model_accepted : forall V type_string gen_name cfg_uuid default_uuid venc vdec veqb,
  (forall x, veqb x x = true) -> forall v : V,
  (forall b, venc v = Some b -> vdec (pl_bytes b) = Some v) ->
  cqrs_rt_ok V type_string gen_name veqb v (json_marshal V type_string gen_name cfg_uuid default_uuid venc v)
    (read_name (json_marshal V type_string gen_name cfg_uuid default_uuid venc v))
    (read_back V (json_unmarshal V vdec) (json_marshal V type_string gen_name cfg_uuid default_uuid venc v)) = true.
Proof. exact json_model_accepted. Qed.
Theorem C16_cqrs_proto_model_accepted : forall V type_string gen_name cfg_uuid default_uuid is_msg venc vdec veqb,
  (forall x, veqb x x = true) -> forall v : V,
  (forall b, venc v = Some b -> vdec (pl_bytes b) = Some v) ->
  cqrs_rt_ok V type_string gen_name veqb v (proto_marshal V type_string gen_name cfg_uuid default_uuid is_msg venc v)
    (read_name (proto_marshal V type_string gen_name cfg_uuid default_uuid is_msg venc v))
    (read_back V (proto_unmarshal V is_msg vdec) (proto_marshal V type_string gen_name cfg_uuid default_uuid is_msg venc v)) = true.
Proof. exact proto_model_accepted. Qed.
Theorem C16_cqrs_gogo_model_accepted : forall V type_string gen_name cfg_uuid default_uuid is_msg venc vdec is_gogo genc gdec nofb veqb,
  (forall x, veqb x x = true) -> forall v : V,
  (forall b, genc v = LOk b -> gdec (pl_bytes b) = LOk v) ->
  (forall b, venc v = Some b -> vdec (pl_bytes b) = Some v) ->
  (forall b v', venc v = Some b -> gdec (pl_bytes b) = LOk v' -> v' = v) ->
  cqrs_rt_ok V type_string gen_name veqb v (gogo_marshal V type_string gen_name cfg_uuid default_uuid is_msg venc is_gogo genc nofb v)
    (read_name (gogo_marshal V type_string gen_name cfg_uuid default_uuid is_msg venc is_gogo genc nofb v))
    (read_back V (gogo_unmarshal V is_msg vdec is_gogo gdec nofb true)
       (gogo_marshal V type_string gen_name cfg_uuid default_uuid is_msg venc is_gogo genc nofb v)) = true.
Proof. exact gogo_model_accepted. Qed.
Theorem C16_publisher_model_accepted : forall jenc jdec nu cfg inner_ok dest ms ft ws,
  (forall m, In m ms -> msg_wf m) ->
  (forall m b, In m ms -> jenc (env_of dest m) = Some b -> jdec b = Some (env_of dest m)) ->
  fwd_publish jenc nu cfg inner_ok dest ms = Ok (ft, ws) ->
  length ws = length ms
  /\ forallb (fun mu => envelope_rt_ok dest (fst mu) (snd mu)) (combine ms (map (unwrap jdec) ws)) = true.
Proof. exact publisher_model_accepted. Qed.

(** protobuf wire format of the wrapper messages (varint, tag, length-delimited), proved read back:
    the ProtoMarshaler round trip for them has no library hypothesis *)
Theorem C16_proto_wire_roundtrips :
  (forall s, (N.of_nat (length s) < two64)%N -> dec_len_msg (enc_len_msg s) = Some s)
  /\ (forall s b, (N.of_nat (length s) < two64)%N -> enc_string_msg s = Some b -> dec_string_msg b = Some s)
  /\ (forall z, int64_ok z -> dec_int64_msg (enc_int64_msg z) = Some z)
  /\ (forall b, dec_bool_msg (enc_bool_msg b) = Some b).
Proof. exact (conj len_msg_roundtrip (conj string_msg_roundtrip (conj int64_msg_roundtrip bool_msg_roundtrip))). Qed.
Theorem C16_cqrs_proto_roundtrip_string_closed : forall ts gen cu du (v : list N) m,
  (N.of_nat (length v) < two64)%N ->
  proto_marshal (list N) ts gen cu du true (fun v => option_map Some (enc_string_msg v)) v = Ok m ->
  proto_unmarshal (list N) true dec_string_msg m = Ok v /\ name_from_message m = name_of (list N) ts gen v.
Proof. exact proto_roundtrip_string_closed. Qed.
Theorem C16_cqrs_proto_roundtrip_bytes_closed : forall ts gen cu du (v : list N) m,
  (N.of_nat (length v) < two64)%N ->
  proto_marshal (list N) ts gen cu du true (fun v => Some (Some (enc_len_msg v))) v = Ok m ->
  proto_unmarshal (list N) true dec_len_msg m = Ok v /\ name_from_message m = name_of (list N) ts gen v.
Proof. exact proto_roundtrip_bytes_closed. Qed.
Theorem C16_cqrs_proto_roundtrip_int64_closed : forall ts gen cu du (v : Z) m, int64_ok v ->
  proto_marshal Z ts gen cu du true (fun v => Some (Some (enc_int64_msg v))) v = Ok m ->
  proto_unmarshal Z true dec_int64_msg m = Ok v /\ name_from_message m = name_of Z ts gen v.
Proof. exact proto_roundtrip_int64_closed. Qed.
Theorem C16_cqrs_proto_roundtrip_bool_closed : forall ts gen cu du (v : bool) m,
  proto_marshal bool ts gen cu du true (fun v => Some (Some (enc_bool_msg v))) v = Ok m ->
  proto_unmarshal bool true dec_bool_msg m = Ok v /\ name_from_message m = name_of bool ts gen v.
Proof. exact proto_roundtrip_bool_closed. Qed.

(** Messages.IDs, LogFields.Add / Copy, identifier formats *)
Theorem C16_messages_ids : forall ms,
  length (ids ms) = length ms /\ forall i, nth_error (ids ms) i = option_map uuid (nth_error ms i).
Proof. exact ids_spec. Qed.
Theorem C16_logfields_add : forall l new, md_wf (md_entries l) -> md_wf (md_entries new) ->
  md_wf (lf_add l new)
  /\ forall k, md_get (lf_add l new) k
               = match md_get (md_entries new) k with Some v => Some v | None => md_get (md_entries l) k end.
Proof. exact lf_add_spec. Qed.
Theorem C16_logfields_copy : forall l, md_wf (md_entries l) -> lf_copy l = md_entries l.
Proof. exact lf_copy_spec. Qed.
Theorem C16_copy_drops_context : forall mc c,
  fst (copy_c (set_context mc c)) = fst mc /\ snd (copy_c (set_context mc c)) = 0%N.
Proof. exact copy_drops_context. Qed.
Theorem C16_id_formats_usable : forall s,
  uuid4_format s = true \/ shortuuid_format s = true \/ ulid_format s = true -> s <> [] /\ utf8_valid s = true.
Proof. exact id_formats_usable. Qed.

Print Assumptions C16_equals_iff.
Print Assumptions C16_equals_iff_refuted.
Print Assumptions C16_equals_symmetric_refuted.
Print Assumptions C16_equals_if_pinned.
Print Assumptions C16_equals_acceptor.
Print Assumptions C16_equals_equivalence.
Print Assumptions C16_equals_nil_is_empty.
Print Assumptions C16_copy_equal_unsettled_fresh.
Print Assumptions C16_copy_owns_metadata.
Print Assumptions C16_set_touches_one_object.
Print Assumptions C16_object_traces_accepted.
Print Assumptions C16_envelope_roundtrip.
Print Assumptions C16_envelope_roundtrip_utf8.
Print Assumptions C16_envelope_wrap_outcomes.
Print Assumptions C16_envelope_rejects_empty_dest.
Print Assumptions C16_envelope_model_accepted.
Print Assumptions C16_publisher_roundtrip.
Print Assumptions C16_cqrs_json_roundtrip.
Print Assumptions C16_cqrs_proto_roundtrip.
Print Assumptions C16_cqrs_gogo_roundtrip.
Print Assumptions C16_cqrs_gogo_roundtrip_refuted.
Print Assumptions C16_cqrs_gogo_roundtrip_pinned_partial.
Print Assumptions C16_name_ignores_pointer.
Print Assumptions C16_cqrs_acceptor.
Print Assumptions C16_reply_roundtrip.
Print Assumptions C16_reply_model_accepted.

Print Assumptions C16_json_string_roundtrip.
Print Assumptions C16_base64_roundtrip.
Print Assumptions C16_envelope_json_law.
Print Assumptions C16_envelope_roundtrip_json.
Print Assumptions C16_envelope_wrap_json_total.
Print Assumptions C16_publisher_roundtrip_json.
Print Assumptions C16_reply_roundtrip_string.
Print Assumptions C16_json_escape_not_injective_refuted.
Print Assumptions C16_json_invalid_utf8_roundtrip_refuted.
Print Assumptions C16_envelope_roundtrip_invalid_utf8_refuted.
Print Assumptions C16_codec_law_satisfiable.
Print Assumptions C16_toy_envelope_roundtrip.

Print Assumptions C16_cqrs_proto_then_gogo.
Print Assumptions C16_cqrs_gogo_then_proto.
Print Assumptions C16_cqrs_gogo_cross_config_partial.
Print Assumptions C16_cqrs_gogo_cross_config_refuted.
Print Assumptions C16_envelope_context.

Print Assumptions C16_cqrs_proto_roundtrip_reused_target.
Print Assumptions C16_cqrs_json_roundtrip_reused_target.
Print Assumptions C16_cqrs_gogo_roundtrip_reused_target.
Print Assumptions C16_cqrs_roundtrip_reused_target_merging_refuted.

Print Assumptions C16_unframe_frame.
Print Assumptions C16_framing_discharged.
Print Assumptions C16_envelope_roundtrip_closed.
Print Assumptions C16_envelope_identity.
Print Assumptions C16_publisher_roundtrip_closed.

Print Assumptions C16_envelope_roundtrip_sorted.
Print Assumptions C16_envelope_roundtrip_sorted_same_value.

Print Assumptions C16_json_int_roundtrip.
Print Assumptions C16_reply_roundtrip_int.

Print Assumptions C16_cqrs_json_model_accepted.
Print Assumptions C16_cqrs_proto_model_accepted.
Print Assumptions C16_cqrs_gogo_model_accepted.
Print Assumptions C16_publisher_model_accepted.
Print Assumptions C16_proto_wire_roundtrips.
Print Assumptions C16_cqrs_proto_roundtrip_string_closed.
Print Assumptions C16_cqrs_proto_roundtrip_bytes_closed.
Print Assumptions C16_cqrs_proto_roundtrip_int64_closed.
Print Assumptions C16_cqrs_proto_roundtrip_bool_closed.
Print Assumptions C16_messages_ids.
Print Assumptions C16_logfields_add.
Print Assumptions C16_logfields_copy.
Print Assumptions C16_id_formats_usable.
Print Assumptions C16_copy_drops_context.

(** * Non-vacuity *)

(** D1 on the two variants *)
Example C16_witness_D1 :
  equals false d1_a d1_b = true /\ equals true d1_a d1_b = false /\ same_value_b d1_a d1_b = false.
Proof. vm_compute. auto. Qed.

(** a script: NewMessage, Set, Copy, Set on the copy, Set on the original, poke the copy's
    payload.  The copy keeps {"k":"1"} plus its own key, the original gets its own; the payload
    byte written through the copy shows in the original (the slice is shared). *)
Example C16_witness_copy :
  let k := [107]%N in let k2 := [108]%N in
  map (fun o => (payload (ov_val o), meta (ov_val o)))
      (snd (last (vrun true empty_store
        [VNew [117]%N (Some [1; 2]%N); VSet 0 k [49]%N; VCopy 0; VSet 1 k2 [50]%N; VSet 0 k [51]%N; VPoke 1 0 9%N])
        (RUnit, [])))
  = [ (Some [9; 2]%N, Some [(k, [51]%N)]);
      (Some [9; 2]%N, Some [(k, [49]%N); (k2, [50]%N)]) ].
Proof. vm_compute. reflexivity. Qed.

(** the envelope hypotheses are satisfiable and the conclusion is not trivial: a toy "library"
    that reads back what it wrote for this envelope *)
Example C16_witness_envelope :
  let m := Msg [117]%N None (Some [([97]%N, [])]) in
  let dest := [116]%N in
  let jenc := fun _ : envelope => Some [1; 2; 3]%N in
  let jdec := fun b : list N => if list_eqb N.eqb b [1; 2; 3]%N then Some (env_of dest m) else None in
  (forall b, jenc (env_of dest m) = Some b -> jdec b = Some (env_of dest m))
  /\ (exists w, wrap jenc [85]%N dest m = Ok w /\ unwrap jdec w = Ok (dest, m))
  /\ wrap jenc [85]%N [] m = Err EUnknownDest
  /\ unwrap jdec (Msg [] (Some [7]%N) None) = Err EUnmarshalEnvelope.
Proof.
  cbv zeta. split; [intros b [= <-]; reflexivity|]. split; [eexists; split; reflexivity|]. split; reflexivity.
Qed.

(** reply: the empty error text and "no error" stay apart *)
Example C16_witness_reply :
  let renc := fun r : nat => Some (Some [N.of_nat r]) in
  let rdec := fun b : list N => match b with [x] => Some (N.to_nat x) | _ => None end in
  (match marshal_reply nat renc [85]%N (RP nat 7 (Some [])) with Ok m => unmarshal_reply nat rdec m | Err e => Err e end)
    = Ok (Rep nat 7 (Some []))
  /\ (match marshal_reply nat renc [85]%N (RP nat 7 None) with Ok m => unmarshal_reply nat rdec m | Err e => Err e end)
    = Ok (Rep nat 7 None).
Proof. vm_compute. auto. Qed.

(** UTF-8: the validator accepts U+10FFFF and rejects a surrogate and an overlong NUL *)
Example C16_witness_utf8 :
  utf8_valid [244; 143; 191; 191]%N = true /\ utf8_valid [237; 160; 128]%N = false /\ utf8_valid [192; 128]%N = false.
Proof. vm_compute. auto. Qed.

(** the framing hypothesis is satisfiable and the JSON-instantiated round trip computes: a message
    with a quote, a newline, U+2028, a 4-byte code point, all byte values 0..5 in the payload *)
Example C16_witness_json :
  let m := Msg [34; 10; 226; 128; 168]%N (Some [0; 1; 2; 3; 4; 5]%N) (Some [([240; 159; 152; 128]%N, [60]%N)]) in
  let dest := [116; 92]%N in
  let e := env_of dest m in
  let unframe := fun b : list N =>
    if list_eqb N.eqb b (frame_obj (env_members e)) then Some (env_members e)
    else if list_eqb N.eqb b (frame_obj (meta_members [([240; 159; 152; 128]%N, [60]%N)]))
         then Some (meta_members [([240; 159; 152; 128]%N, [60]%N)]) else None in
  wrap jenc_env [85]%N dest m = Ok (Msg [85]%N (Some (frame_obj (env_members e))) (Some []))
  /\ unwrap (jdec_env unframe) (Msg [85]%N (Some (frame_obj (env_members e))) (Some [])) = Ok (dest, m)
  /\ enc_str [34; 10; 226; 128; 168; 255]%N
     = [34; 92; 34; 92; 110; 92; 117; 50; 48; 50; 56; 92; 117; 102; 102; 102; 100; 34]%N
  /\ b64enc [0; 1; 2; 3; 4; 5]%N = [65; 65; 69; 67; 65; 119; 81; 70]%N.
Proof. vm_compute. repeat split. Qed.

(** the closed round trip computes: wrap, then scan + decode, on a message with escapes, a 4-byte
    code point in a metadata key and a binary payload *)
Example C16_witness_closed :
  let m := Msg [34; 10; 226; 128; 168]%N (Some [0; 1; 2; 255]%N) (Some [([240; 159; 152; 128]%N, [60]%N); ([97]%N, [])]) in
  match wrap jenc_env [85]%N [116; 92]%N m with
  | Ok w => unwrap (jdec_env unframe_std) w = Ok ([116; 92]%N, m)
  | Err _ => False
  end.
Proof. vm_compute. reflexivity. Qed.
