(** C14 — Deduplicator lets exactly one message per key through per window.
    Only statements, each closed by [exact], with [Print Assumptions].

    Reading guide.  [run w (init t0 roles) sched] is the state of the repository model after
    ANY list of labels [sched] (clock advances, thread steps, ticks; labels that are not
    enabled are skipped) from the empty repository with ANY population [roles] of client
    threads (each with any finite program of IsDuplicate calls) and cleaner threads, for ANY
    window [w] and start time [t0].  [rev (trace s)] is the chronological list of
    linearisation events: [EIns t m k now] = thread t's call for message m with key k was
    answered "new" and recorded k at clock [now]; [EDup] = answered "duplicate";
    [ESweep c T clk ks] = cleaner c, at clock clk, ran cleanOut(T) and deleted exactly ks. *)
From WM Require Import Message.Model Handler.RouterHandle.
From WM Require Import Base.Prelude Dedup.Model Dedup.MonProofs Dedup.Proofs Dedup.ApiProofs Dedup.Timed Dedup.TimedProofs Dedup.Clients Dedup.ClientsProofs Dedup.TimelockProofs Dedup.EndToEndProofs Dedup.BatchProofs Dedup.Glue Dedup.AcceptorProofs Dedup.HashVariants Dedup.HashSeparationProofs Corr.C14.
Local Open Scope Z_scope.

(** The lookup and the insert of different goroutines never interleave: at most one thread is
    ever between Lock and Unlock (clients and cleaners alike). *)
Theorem C14_mutual_exclusion : forall (w t0 : Z) (roles : tid -> role) (sched : list label),
  let s := run w (init t0 roles) sched in
  forall t1 t2, holds (thr s t1) = true -> holds (thr s t2) = true -> t1 = t2.
Proof. exact mutual_exclusion. Qed.
Print Assumptions C14_mutual_exclusion.

(** No path keeps the mutex: in any state the holder of the lock can take its next step (and
    after at most three of its own steps it has released it). *)
Theorem C14_holder_never_blocked : forall (w : Z) (s : state) (t : tid),
  holds (thr s t) = true -> step w s (LThr t) <> None.
Proof. exact holder_never_blocked. Qed.
Print Assumptions C14_holder_never_blocked.

(** Refinement: every trace of the transition system is accepted by the timed-set
    specification [mon_step] — the same function the check evaluates on the stamped log of
    the implementation — and the specification's state is the repository's map. *)
Theorem C14_trace_accepted : forall (w t0 : Z) (roles : tid -> role) (sched : list label),
  mon_ok w t0 (rev (trace (run w (init t0 roles) sched))) = true.
Proof. exact trace_accepted. Qed.
Print Assumptions C14_trace_accepted.

Theorem C14_tags_are_monitor_state : forall (w t0 : Z) (roles : tid -> role) (sched : list label),
  let s := run w (init t0 roles) sched in
  NoDup (map fst (tags s))
  /\ exists last, mon_run w ([], t0) (rev (trace s)) = Some (tags s, last) /\ last <= clock s.
Proof. exact tags_are_monitor_state. Qed.
Print Assumptions C14_tags_are_monitor_state.

(** Exactly one per key and epoch.  Cut the calls with key k into epochs at every sweep that
    deletes k: in every epoch the FIRST call is answered "new" and ALL others "duplicate"
    ([epoch_ok]), however many threads race.  [epochs k] looks only at events that mention k,
    so what other keys do is irrelevant to the verdict. *)
Theorem C14_one_per_epoch : forall (w t0 : Z) (roles : tid -> role) (sched : list label) (k : N),
  forallb epoch_ok (epochs k (rev (trace (run w (init t0 roles) sched))) []) = true.
Proof. exact one_per_epoch. Qed.
Print Assumptions C14_one_per_epoch.

(** Different keys never suppress each other: a call answered "duplicate" has a cause with the
    SAME key — an earlier call with key k answered "new", not later than it, and neither
    deleted nor re-inserted in between. *)
Theorem C14_keys_independent : forall (w t0 : Z) roles sched es t m k now rest,
  rev (trace (run w (init t0 roles) sched)) = es ++ EDup t m k now :: rest ->
  exists pre t' m' now' post,
    es = pre ++ EIns t' m' k now' :: post /\ now' <= now
    /\ forallb (fun x => negb (removes k x) && negb (inserts k x)) post = true.
Proof. exact dup_has_same_key_cause. Qed.
Print Assumptions C14_keys_independent.

(** Remembered for at least the window: after key k was recorded at clock tins, every later
    call with key k whose clock is <= tins + w is answered "duplicate"... *)
Theorem C14_retained_for_window : forall (w t0 : Z) roles sched pre t m k tins mid e rest,
  rev (trace (run w (init t0 roles) sched)) = pre ++ EIns t m k tins :: mid ++ e :: rest ->
  calls_key k e = true -> ev_time e <= tins + w ->
  is_dup e = true.
Proof. exact retained_for_window. Qed.
Print Assumptions C14_retained_for_window.

(** ...because a key is deleted only by a sweep whose tick time T is later than its expiry,
    and a tick time is never in the future: insertion + w < T <= clock at the sweep. *)
Theorem C14_removed_only_after_expiry : forall (w t0 : Z) roles sched es c T clk ks rest k,
  rev (trace (run w (init t0 roles) sched)) = es ++ ESweep c T clk ks :: rest -> In k ks ->
  exists pre t m now post,
    es = pre ++ EIns t m k now :: post /\ now + w < T /\ T <= clk
    /\ forallb (fun x => negb (removes k x) && negb (inserts k x)) post = true.
Proof. exact removed_only_after_expiry. Qed.
Print Assumptions C14_removed_only_after_expiry.

(** Two calls with the same key both answered "new" are more than a window apart and a sweep
    deleted the key between them. *)
Theorem C14_two_new_are_separated : forall (w t0 : Z) roles sched a t1 m1 k n1 b t2 m2 n2 c,
  rev (trace (run w (init t0 roles) sched)) = a ++ EIns t1 m1 k n1 :: b ++ EIns t2 m2 k n2 :: c ->
  existsb (removes k) b = true /\ n1 + w < n2.
Proof. exact two_new_are_separated. Qed.
Print Assumptions C14_two_new_are_separated.

(** The same without looking inside: observe every call only from outside, as (key, clock
    before the call, clock after the call, answer) — no linearisation order, no hooks.  For
    every run, every such observation satisfies [api_ok]: two calls with one key both answered
    "new" are more than a window apart (start of one + w < end of the other), and every
    "duplicate" has a possible cause (a "new" call with that key that started no later than the
    duplicate ended).  [api_ok] is evaluated on the call intervals the harness measures. *)
Theorem C14_api_observation_ok : forall (w t0 : Z) roles sched (obs : list acall),
  Forall2 encloses obs (trace_calls (rev (trace (run w (init t0 roles) sched)))) ->
  api_ok w obs = true.
Proof. exact api_observation_ok. Qed.
Print Assumptions C14_api_observation_ok.

(** Accepted again after expiry — what the code guarantees about clean-up timing: expiry is
    NOT checked by IsDuplicate; a key stays remembered until a sweep whose tick time T is
    later than its expiry has run.  Once such a sweep has run (and no call re-inserted the key
    since the insertion), the next call with that key is answered "new".  How soon such a
    sweep happens is up to the ticker (period w/2) and the scheduler: an oracle here, which is
    why the name says partial (on the implementation: the map empties itself within 15 s). *)
Theorem C14_expired_key_reaccepted_partial : forall (w t0 : Z) roles sched pre t m k tins mid c T clk ks post e rest,
  rev (trace (run w (init t0 roles) sched))
    = pre ++ EIns t m k tins :: mid ++ ESweep c T clk ks :: post ++ e :: rest ->
  tins + w < T ->
  forallb (fun y => negb (inserts k y)) (mid ++ post) = true ->
  calls_key k e = true ->
  is_dup e = false.
Proof. exact expired_key_reaccepted. Qed.
Print Assumptions C14_expired_key_reaccepted_partial.

(** ** Accepted again after it expired, with a bound — the closed system with a timely clean-up

    [trun w p d c (tinit t0 roles) sched] runs the same system with ONE designated cleaner [c]
    driven by a ticker of period p (the code: window / 2) under a fair-enough environment
    (Dedup/Timed.v): ticks received by c are at least p apart and never from the future; the
    clock may not pass last_tick + p + d while c waits for its tick, nor T + 2d while c is
    between receiving tick T and its Unlock (d = scheduling latency of the cleaner's cycle,
    which includes that no client sits on the mutex for longer).  Every list of labels is again
    a schedule (labels the timely system refuses are skipped), any clients, any other cleaners. *)

(** The timely system only removes schedules: its states are states of [run]. *)
Theorem C14_timely_refines : forall (w p d : Z) (c : tid) (t0 : Z) roles sched,
  exists sched', base (trun w p d c (tinit t0 roles) sched) = run w (init t0 roles) sched'.
Proof. exact timely_refines. Qed.
Print Assumptions C14_timely_refines.

(** Nothing is remembered longer than p + 3d past its expiry (insertion + w + p + 3d). *)
Theorem C14_bounded_retention : forall (w p d : Z) (c : tid) (t0 : Z),
  0 <= w -> 0 <= d <= p -> forall roles sched, roles c = RCleaner ->
  forall k e, alookup k (tags (base (trun w p d c (tinit t0 roles) sched))) = Some e ->
  clock (base (trun w p d c (tinit t0 roles) sched)) <= e + p + 3 * d.
Proof. exact bounded_retention. Qed.
Print Assumptions C14_bounded_retention.

(** Every trace of the timely system is accepted by the timed-set specification AND fresh:
    every "duplicate" is answered at most p + 3d after the expiry of the entry it hit
    ([tmon_ok] — the check evaluates the same function on the stamped log with its own slack). *)
Theorem C14_timely_trace_fresh : forall (w p d : Z) (c : tid) (t0 : Z),
  0 <= w -> 0 <= d <= p -> forall roles sched, roles c = RCleaner ->
  tmon_ok w (p + 3 * d) t0 (rev (trace (base (trun w p d c (tinit t0 roles) sched)))) = true.
Proof. exact timely_trace_fresh. Qed.
Print Assumptions C14_timely_trace_fresh.

(** Accepted again after it expired: a call with key k more than w + p + 3d after the LAST
    insertion of k is answered "new" — no premise about sweeps any more. *)
Theorem C14_expired_key_reaccepted : forall (w p d : Z) (c : tid) (t0 : Z),
  0 <= w -> 0 <= d <= p -> forall roles sched, roles c = RCleaner ->
  forall pre t m k tins mid e rest,
  rev (trace (base (trun w p d c (tinit t0 roles) sched))) = pre ++ EIns t m k tins :: mid ++ e :: rest ->
  forallb (fun y => negb (inserts k y)) mid = true ->
  calls_key k e = true -> tins + w + p + 3 * d < ev_time e ->
  is_dup e = false.
Proof. exact expired_key_reaccepted_timely. Qed.
Print Assumptions C14_expired_key_reaccepted.

(** With the code's period p <= w/2 and a latency d <= w/6: any call later than two windows
    after the last insertion of its key is answered "new".  (d = 0 gives the documented "up to
    50% longer": 1.5 windows; the harness verdict C14/expired-key-never-reaccepted allows 8
    windows, i.e. a latency of more than two windows.) *)
Theorem C14_reaccepted_within_two_windows : forall w p d c t0 roles sched pre t m k tins mid e rest,
  0 <= w -> 0 <= d <= p -> 2 * p <= w -> 6 * d <= w -> roles c = RCleaner ->
  rev (trace (base (trun w p d c (tinit t0 roles) sched))) = pre ++ EIns t m k tins :: mid ++ e :: rest ->
  forallb (fun y => negb (inserts k y)) mid = true ->
  calls_key k e = true -> tins + 2 * w < ev_time e ->
  is_dup e = false.
Proof. exact reaccepted_within_two_windows. Qed.
Print Assumptions C14_reaccepted_within_two_windows.

(** Towards time-lock freedom of the timely system (the urgency assumptions can always be met,
    by thread steps, which take no time and which [tstep] never refuses): whoever holds the
    mutex releases it within three of its own steps; with the mutex free a cleaner that has its
    tick completes its cycle.  Composed into [C14_time_can_advance] below. *)
Theorem C14_holder_releases : forall (w : Z) (s : state) (t : tid),
  holds (thr s t) = true ->
  exists n s', (n <= 3)%nat /\ replay w s (repeat (LThr t) n) = Some s' /\ owner s' = None
               /\ clock s' = clock s.
Proof. exact holder_releases. Qed.
Print Assumptions C14_holder_releases.

Theorem C14_cleaner_cycle_possible : forall (w : Z) (s : state) (c : tid) (T : Z),
  thr s c = TCleaner (CTicked T) -> owner s = None ->
  exists s', replay w s [LThr c; LThr c; LThr c] = Some s'
             /\ thr s' c = TCleaner CWait /\ owner s' = None /\ clock s' = clock s
             /\ forall k e, alookup k (tags s') = Some e -> T <= e.
Proof. exact cleaner_cycle_possible. Qed.
Print Assumptions C14_cleaner_cycle_possible.

(** The converse of the owner invariant: whoever owns the mutex is between Lock and Unlock. *)
Theorem C14_owner_holds : forall (w t0 : Z) roles sched t,
  owner (run w (init t0 roles) sched) = Some t -> holds (thr (run w (init t0 roles) sched) t) = true.
Proof. exact owner_holds. Qed.
Print Assumptions C14_owner_holds.

(** Time-lock freedom: from EVERY reachable state of the timely system there is a schedule,
    accepted label by label ([treplay] is strict), that carries the clock past any bound — the
    urgency assumptions can always be met (the lock holder releases, the cleaner finishes its
    cycle, the clock moves to the next fire time, the tick is received, ...). *)
Theorem C14_time_can_advance : forall (w p d : Z) (c : tid) (t0 : Z),
  0 <= w -> 0 <= d <= p -> forall roles sched X, 0 < p -> roles c = RCleaner ->
  exists sched' ts', treplay w p d c (trun w p d c (tinit t0 roles) sched) sched' = Some ts'
                     /\ X <= clock (base ts').
Proof. exact time_can_advance. Qed.
Print Assumptions C14_time_can_advance.

(** Closed-system liveness as ONE statement: in the timely system time never stops, and
    whenever it has carried a call more than w + p + 3d past the last insertion of its key,
    that call is answered "new". *)
Theorem C14_closed_system_liveness : forall w p d c t0 roles sched,
  0 <= w -> 0 <= d <= p -> 0 < p -> roles c = RCleaner ->
  let ts := trun w p d c (tinit t0 roles) sched in
  (forall X, exists sched' ts', treplay w p d c ts sched' = Some ts' /\ X <= clock (base ts'))
  /\ (forall sched' ts', treplay w p d c ts sched' = Some ts' ->
      forall pre t m k tins mid e rest,
        rev (trace (base ts')) = pre ++ EIns t m k tins :: mid ++ e :: rest ->
        forallb (fun y => negb (inserts k y)) mid = true ->
        calls_key k e = true -> tins + w + p + 3 * d < ev_time e ->
        is_dup e = false).
Proof. exact closed_system_liveness. Qed.
Print Assumptions C14_closed_system_liveness.

(** A sweep is complete: while the cleaner still holds the lock after cleanOut(T), no
    remembered key has an expiry before T. *)
Theorem C14_sweep_is_complete : forall (w t0 : Z) roles sched t T,
  let s := run w (init t0 roles) sched in
  thr s t = TCleaner (CSwept T) ->
  forall k e, alookup k (tags s) = Some e -> T <= e.
Proof. exact sweep_is_complete. Qed.
Print Assumptions C14_sweep_is_complete.

(** The answers a thread got are exactly its linearisation events (plus the call in flight),
    and the middleware invokes the handler exactly for the answers "new" — so per key and
    epoch exactly one message reaches the handler ([C14_one_per_epoch]). *)
Theorem C14_results_are_trace_calls : forall (w t0 : Z) roles sched t,
  let s := run w (init t0 roles) sched in
  calls_by t (trace s) = inflight (thr s t) ++ results_of (thr s t).
Proof. exact results_are_trace_calls. Qed.
Print Assumptions C14_results_are_trace_calls.

Theorem C14_handler_iff_new : forall k dup, mw_handler (mw_run (IKey k) (rres_of dup)) = negb dup.
Proof. exact mw_handler_iff_new. Qed.
Print Assumptions C14_handler_iff_new.

(** ** Middleware calls and decorator batches as client programs of the concurrent system
    (Dedup/Clients.v): a goroutine's operations [ops] compile to the program of IsDuplicate
    calls it makes; [delivered] computes through [mw_run] / [dec_run] which messages reach the
    handler / the inner publisher from the answers. *)

(** A thread's program is conserved by every schedule: done ++ in flight ++ to do. *)
Theorem C14_program_conserved : forall (w t0 : Z) roles sched t prog,
  roles t = RClient prog ->
  prog_of (thr (run w (init t0 roles) sched) t) = prog.
Proof. exact program_conserved. Qed.
Print Assumptions C14_program_conserved.

(** Sequentially: the delivered messages are exactly those whose call was answered "new". *)
Theorem C14_delivered_news : forall ops ans,
  length ans = length (compile true ops) ->
  delivered true ops ans = news (combine (compile true ops) ans).
Proof. exact delivered_news. Qed.
Print Assumptions C14_delivered_news.

(** In the concurrent system — any window, population, schedule: when a goroutine running
    [ops] (middleware calls and decorator batches, hasher failures included) has finished, the
    messages its handler / inner publisher were given are exactly, in order, the messages of
    its linearisation events "new" ([EIns t m _ _]); with [C14_one_per_epoch]: per key and
    epoch exactly one message of ALL goroutines reaches a handler or publisher. *)
Theorem C14_delivered_iff_new : forall (w t0 : Z) roles sched t ops res,
  roles t = RClient (compile true ops) ->
  thr (run w (init t0 roles) sched) t = TClient [] PIdle res ->
  delivered true ops (rev (map snd res)) = ins_msgs t (rev (trace (run w (init t0 roles) sched))).
Proof. exact delivered_iff_new. Qed.
Print Assumptions C14_delivered_iff_new.

(** Before the repair of the decorator this fails: a recorded message is not delivered. *)
Theorem C14_delivered_iff_new_refuted_before_fix :
  exists ops ans, length ans = length (compile false ops)
                  /\ delivered false ops ans <> news (combine (compile false ops) ans).
Proof. exact delivered_before_fix_refuted. Qed.
Print Assumptions C14_delivered_iff_new_refuted_before_fix.

(** ** End to end: what reaches the handler / the inner publisher — client programs over the
    TIMELY repository.  "Exactly one per key per window, and again after the window":
    (i) a finished goroutine's handler / publisher got exactly its repository steps answered
    "new"; (ii) two such steps with one key, of any goroutines, are more than a window apart;
    (iii) within the window of an accepted message every message with its key is answered
    "duplicate"; (iv) a message arriving later than w + p + 3d after the last accepted one with
    its key is accepted again and is among the delivered ones of its goroutine. *)
Theorem C14_handler_end_to_end : forall w p d c t0 roles sched,
  0 <= w -> 0 <= d <= p -> roles c = RCleaner ->
  let s := base (trun w p d c (tinit t0 roles) sched) in
  (forall t ops res, roles t = RClient (compile true ops) -> thr s t = TClient [] PIdle res ->
     delivered true ops (rev (map snd res)) = ins_msgs t (rev (trace s)))
  /\ (forall a t1 m1 k n1 b t2 m2 n2 c',
        rev (trace s) = a ++ EIns t1 m1 k n1 :: b ++ EIns t2 m2 k n2 :: c' -> n1 + w < n2)
  /\ (forall pre t m k tins mid e rest,
        rev (trace s) = pre ++ EIns t m k tins :: mid ++ e :: rest -> calls_key k e = true ->
        (ev_time e <= tins + w -> is_dup e = true)
        /\ (forallb (fun y => negb (inserts k y)) mid = true -> tins + w + p + 3 * d < ev_time e ->
            exists te me ne, e = EIns te me k ne /\ In me (ins_msgs te (rev (trace s))))).
Proof. exact handler_end_to_end. Qed.
Print Assumptions C14_handler_end_to_end.

(** Duplicates INSIDE one batch.  Sequentially, any batch without failures: a message the
    repository answered "duplicate" is acked, the inner publisher gets exactly the "new" ones,
    and (distinct message objects) the duplicate is not among them. *)
Theorem C14_decorator_duplicate_acked_seq : forall fixed ms m it,
  all_keys ms -> In (m, it, RDup) ms ->
  In m (d_acked (dec_run fixed ms))
  /\ d_inner (dec_run fixed ms) = Some (msgs_with is_new ms)
  /\ (NoDup (map (fun x => fst (fst x)) ms) -> ~ In m (msgs_with is_new ms)).
Proof. exact duplicate_in_batch_acked_seq. Qed.
Print Assumptions C14_decorator_duplicate_acked_seq.

(** Concurrently: a goroutine publishes [m1; m2] with ONE key in one Publish call.  If its
    repository step for m1 is answered "new" at n1 and its step for m2 happens no later than
    n1 + w, then — whatever the other goroutines and the cleaner do — the step for m2 is
    answered "duplicate", the decorator acks m2, and the inner publisher is given exactly [m1].
    (Without the time bound a sweep between the two steps may let both through: the code does
    not look at the batch, only at the repository.) *)
Theorem C14_decorator_duplicate_in_batch_acked : forall w t0 roles sched t m1 m2 k res a n1 b e2 n2 c',
  let s := run w (init t0 roles) sched in
  roles t = RClient (compile true [OpDEC [(m1, IKey k); (m2, IKey k)]]) ->
  thr s t = TClient [] PIdle res ->
  rev (trace s) = a ++ EIns t m1 k n1 :: b ++ e2 :: c' ->
  (e2 = EIns t m2 k n2 \/ e2 = EDup t m2 k n2) -> n2 <= n1 + w ->
  e2 = EDup t m2 k n2
  /\ let o := dec_run true (annotate [(m1, IKey k); (m2, IKey k)] (rev (map snd res))) in
     d_acked o = [m2] /\ d_inner o = Some [m1] /\ d_result o = DInner.
Proof. exact duplicate_in_batch_acked. Qed.
Print Assumptions C14_decorator_duplicate_in_batch_acked.

(** Middleware: a duplicate is dropped as a success — (nil, nil) — and that is the only way to
    get (nil, nil) from the middleware itself; the handler is not invoked. *)
Theorem C14_middleware_drops_as_success : forall it r,
  (mw_result (mw_run it r) = MDropped <-> exists k, it = IKey k /\ r = RDup)
  /\ (mw_result (mw_run it r) = MDropped -> mw_handler (mw_run it r) = false).
Proof. exact mw_drops_as_success. Qed.
Print Assumptions C14_middleware_drops_as_success.

(** Middleware: everything else passes through unchanged — the handler runs iff the hasher
    gave a key and the repository answered "new", and then the result is the handler's own;
    a hasher or repository error is returned without invoking the handler, and after a hasher
    error the repository is not asked. *)
Theorem C14_middleware_passes_through : forall it r,
  (mw_handler (mw_run it r) = true <-> exists k, it = IKey k /\ r = RNew)
  /\ (mw_handler (mw_run it r) = true <-> mw_result (mw_run it r) = MPass)
  /\ (forall e, mw_result (mw_run it r) = MErr e ->
        mw_handler (mw_run it r) = false /\ (it = IErr e \/ exists k, it = IKey k /\ r = RFail e))
  /\ (forall e, it = IErr e -> mw_repo_key (mw_run it r) = None).
Proof. exact mw_passes_through. Qed.
Print Assumptions C14_middleware_passes_through.

(** Decorator, no failure in the batch: the repository is asked once per message in order,
    exactly the duplicates are acked, and the inner publisher is called once with exactly the
    messages answered "new", in order (possibly none); its result is returned. *)
Theorem C14_decorator_filters_and_acks : forall fixed ms,
  all_keys ms ->
  dec_run fixed ms =
  DO (flat_map (fun x => match snd (fst x) with IKey k => [k] | IErr _ => [] end) ms)
     (msgs_with is_dupr ms) (Some (msgs_with is_new ms)) DInner.
Proof. exact decorator_filters_and_acks. Qed.
Print Assumptions C14_decorator_filters_and_acks.

Theorem C14_decorator_error_no_publish : forall fixed ms e,
  d_result (dec_run fixed ms) = DErr e -> d_inner (dec_run fixed ms) = None.
Proof. exact decorator_error_no_publish. Qed.
Print Assumptions C14_decorator_error_no_publish.

(** Decorator before the repair: a batch whose second message the hasher rejects records the
    key of the first although nothing reaches the inner publisher — a later message with that
    key is then dropped although NONE got through ("exactly one" fails)... *)
Theorem C14_decorator_error_batch_refuted :
  exists ms k, d_repo_keys (dec_run false ms) = [k] /\ d_inner (dec_run false ms) = None
               /\ d_acked (dec_run false ms) = [].
Proof. exact decorator_error_batch_refuted. Qed.
Print Assumptions C14_decorator_error_batch_refuted.

(** ...after the repair a batch the hasher rejects leaves the repository untouched. *)
Theorem C14_decorator_hash_error_records_nothing : forall ms e,
  first_hash_err ms = Some e -> dec_run true ms = DO [] [] None (DErr e).
Proof. exact decorator_fixed_hash_error_records_nothing. Qed.
Print Assumptions C14_decorator_hash_error_records_nothing.

(** Hashers (Adler-32 and SHA-256 alike, H = the hash function): payloads equal up to the
    effective read limit max(limit, 64) get equal keys; bytes after it are ignored; a limit
    below 64 is 64; a short payload is hashed whole. *)
Theorem C14_hasher_prefix : forall (H : list N -> list N) limit p1 p2,
  firstn (Z.to_nat (eff_limit limit)) p1 = firstn (Z.to_nat (eff_limit limit)) p2 ->
  hash_key H limit p1 = hash_key H limit p2.
Proof. exact hasher_prefix. Qed.
Print Assumptions C14_hasher_prefix.

Theorem C14_hasher_ignores_tail : forall (H : list N -> list N) limit p s1 s2,
  Z.of_nat (length p) >= eff_limit limit ->
  hash_key H limit (p ++ s1) = hash_key H limit (p ++ s2).
Proof. exact hasher_ignores_tail. Qed.
Print Assumptions C14_hasher_ignores_tail.

Theorem C14_hasher_limit_floor : forall (H : list N -> list N) limit p,
  limit < read_limit_min -> hash_key H limit p = hash_key H read_limit_min p.
Proof. exact hasher_limit_floor. Qed.
Print Assumptions C14_hasher_limit_floor.

Theorem C14_hasher_short_payload : forall (H : list N -> list N) limit p,
  Z.of_nat (length p) <= eff_limit limit -> hash_key H limit p = H p.
Proof. exact hasher_short_payload. Qed.
Print Assumptions C14_hasher_short_payload.

(** SHA-256: IF the hash function is injective (the named assumption — true of no real hash
    function, believed infeasible to refute for SHA-256), payloads that differ within the
    effective limit get different keys.  Nothing of the kind is claimed for Adler-32. *)
Theorem C14_sha256_distinguishes_within_limit : forall (H : list N -> list N),
  (forall a b, H a = H b -> a = b) ->
  forall limit p1 p2,
  firstn (Z.to_nat (eff_limit limit)) p1 <> firstn (Z.to_nat (eff_limit limit)) p2 ->
  hash_key H limit p1 <> hash_key H limit p2.
Proof. exact sha256_distinguishes. Qed.
Print Assumptions C14_sha256_distinguishes_within_limit.

(** The metadata-field hasher: the key is the field's value (an empty value is a key); a
    missing field is an error naming message and field, never a key. *)
Theorem C14_metadata_hasher : forall field uuid meta,
  (forall v, alookup field meta = Some v -> meta_key field uuid meta = HKey v)
  /\ (alookup field meta = None -> meta_key field uuid meta = HAbsent uuid field)
  /\ (forall k, meta_key field uuid meta = HKey k -> alookup field meta = Some k).
Proof. exact meta_key_spec. Qed.
Print Assumptions C14_metadata_hasher.

(** Non-vacuity.  Three clients race on key 5 and one on key 6 while a cleaner runs; window
    10.  Thread 0 wins the race (threads 1, 2 get "duplicate"), key 6 is unaffected; the clock
    passes the expiry, a tick carrying 25 arrives, the sweep deletes both keys, and thread 3's
    second call with key 5 is accepted again. *)
Definition demo_roles (t : tid) : role :=
  match t with
  | 0%nat => RClient [(100, 5)] | 1%nat => RClient [(101, 5)] | 2%nat => RClient [(102, 5)]
  | 3%nat => RClient [(103, 6); (104, 5)] | 4%nat => RCleaner | _ => RClient []
  end%N.
Definition demo_sched : list label :=
  [LThr 0; LThr 0; LThr 1 (* blocked *); LThr 0; LThr 0;
   LThr 1; LThr 1; LThr 1; LThr 3; LThr 3; LThr 3; LThr 3; LThr 2; LThr 2; LThr 2;
   LTick 4 25 (* not yet: in the future *); LAdv 30; LTick 4 25; LThr 4; LThr 4; LThr 4;
   LThr 3; LThr 3; LThr 3; LThr 3]%nat.
Definition eins (t m k : nat) (now : Z) : ev := EIns t (N.of_nat m) (N.of_nat k) now.
Definition edup (t m k : nat) (now : Z) : ev := EDup t (N.of_nat m) (N.of_nat k) now.
Definition esweep (t : nat) (T clk : Z) (ks : list nat) : ev := ESweep t T clk (map N.of_nat ks).
Definition res3 (m k : nat) (d : bool) : N * N * bool := (N.of_nat m, N.of_nat k, d).

Example C14_demo :
  let s := run 10 (init 0 demo_roles) demo_sched in
  rev (trace s) = [eins 0 100 5 0; edup 1 101 5 0; eins 3 103 6 0; edup 2 102 5 0;
                   esweep 4 25 30 [6; 5]%nat; eins 3 104 5 30]
  /\ tags s = [(5%N, 40)]
  /\ map (fun t => results_of (thr s t)) [0; 1; 2; 3]%nat
     = [[res3 100 5 false]; [res3 101 5 true]; [res3 102 5 true]; [res3 104 5 false; res3 103 6 false]]
  /\ epochs 5 (rev (trace s)) [] = [[false; true; true]; [false]].
Proof. vm_compute. repeat split. Qed.

(** the specification rejects what the property forbids: two "new" answers for one key inside
    a window, a deletion before expiry, a sweep that leaves an expired key behind *)
Example C14_monitor_rejects :
  mon_ok 10 0 [eins 0 1 5 0; eins 1 2 5 3] = false
  /\ mon_ok 10 0 [eins 0 1 5 0; esweep 4 9 9 [5]%nat] = false
  /\ mon_ok 10 0 [eins 0 1 5 0; esweep 4 20 30 []] = false
  /\ mon_ok 10 0 [eins 0 1 5 0; esweep 4 20 30 [5]%nat; edup 1 2 5 31] = false
  /\ mon_ok 10 0 [eins 0 1 5 0; esweep 4 20 30 [5]%nat; eins 1 2 5 31] = true.
Proof. vm_compute. repeat split. Qed.

Example C14_api_rejects :
  api_ok 10 [AC 5 0 1 false; AC 5 4 6 false] = false
  /\ api_ok 10 [AC 5 0 1 false; AC 5 4 12 false] = true
  /\ api_ok 10 [AC 5 0 1 false; AC 6 0 1 true] = false
  /\ api_ok 10 [AC 5 3 4 true; AC 5 0 9 false] = true.
Proof. vm_compute. repeat split. Qed.

(** The timely system is not vacuous (no time-lock): window 12, period 6, latency 2.  Key 5 is
    inserted at 0 (expiry 12); a [LAdv 100] past the deadline 0 + 6 + 2 is refused; ticks at 6
    and 12 sweep nothing (the call at 12 is a duplicate); the tick at 18 deletes the key and the
    call at 19 is answered "new". *)
Definition tdemo_roles (t : tid) : role :=
  match t with 0%nat => RClient [(100, 5); (101, 5); (102, 5)]%N | 1%nat => RCleaner | _ => RClient [] end.
Definition tdemo_sched : list label :=
  [LThr 0; LThr 0; LThr 0; LThr 0; LAdv 100; LAdv 6; LTick 1 6; LThr 1; LThr 1; LThr 1;
   LAdv 12; LTick 1 12; LThr 1; LThr 1; LThr 1; LThr 0; LThr 0; LThr 0;
   LAdv 18; LTick 1 18; LThr 1; LThr 1; LThr 1; LAdv 19; LThr 0; LThr 0; LThr 0; LThr 0]%nat.
Example C14_timely_demo :
  let ts := trun 12 6 2 1%nat (tinit 0 tdemo_roles) tdemo_sched in
  rev (trace (base ts)) = [eins 0 100 5 0; esweep 1 6 6 []; esweep 1 12 12 []; edup 0 101 5 12;
                           esweep 1 18 18 [5]%nat; eins 0 102 5 19]
  /\ clock (base ts) = 19 /\ last_tick ts = 18 /\ swept_to ts = 18
  /\ tmon_ok 12 (6 + 3 * 2) 0 (rev (trace (base ts))) = true.
Proof. vm_compute. repeat split. Qed.

(** ** Round "proofs 3": every acceptor that judges implementation histories accepts every
    history of the model.  [mon_ok]: C14_trace_accepted.  [api_ok]: C14_api_observation_ok.
    [tmon_ok] / [dups_fresh]: C14_timely_trace_fresh and, with the harness's slack: *)
Theorem C14_fresh_verdict_model_accepted : forall w p d c t0 roles sched,
  0 <= w -> 0 <= d <= p -> roles c = RCleaner -> p + 3 * d <= fresh_slack * w ->
  dups_fresh w (fresh_slack * w) ([], t0) (rev (trace (base (trun w p d c (tinit t0 roles) sched)))) = true.
Proof. exact fresh_verdict_model_accepted. Qed.
Print Assumptions C14_fresh_verdict_model_accepted.

(** the stale-duplicate verdict ([Corr.C14.stale_keys S w], signature
    C14/expired-key-never-reaccepted; the check uses S = 8): no outside observation of any run
    of the timely model has a stale duplicate as long as w + p + 3d < S * w *)
Theorem C14_stale_verdict_model_accepted : forall w p d c t0 roles sched obs S,
  0 <= w -> 0 <= d <= p -> roles c = RCleaner -> w + p + 3 * d < S * w ->
  Forall2 encloses obs (trace_calls (rev (trace (base (trun w p d c (tinit t0 roles) sched))))) ->
  stale_keys S w obs = [].
Proof. exact stale_verdict_model_accepted. Qed.
Print Assumptions C14_stale_verdict_model_accepted.

(** (the delivery rule [Corr.C14.delivered_ok] IS equality with [Clients.delivered]:
    C14_delivered_iff_new.)

    "Accepted again after it expired" for ARBITRARY schedules is false — without a sweep a key
    is remembered for ever; this is why C14_expired_key_reaccepted_partial carries the sweep
    premise and C14_expired_key_reaccepted needs the timely environment: *)
Theorem C14_reaccept_without_sweep_refuted :
  exists w t0 roles sched pre t m k tins e rest,
    rev (trace (run w (init t0 roles) sched)) = pre ++ EIns t m k tins :: e :: rest
    /\ calls_key k e = true /\ tins + 50 * w < ev_time e /\ is_dup e = true.
Proof. exact reaccept_without_sweep_refuted. Qed.
Print Assumptions C14_reaccept_without_sweep_refuted.

(** ** The middleware under the Router's settle rule (C02's [handle]): a dropped duplicate is
    Acked — once, successfully, nothing published; a hasher / repository failure is Nacked;
    everything else is exactly the wrapped handler's own result. *)
Theorem C14_dropped_duplicate_is_acked : forall (M : Type) k (pk : @pubkind) (pb : @pubbeh) (h : @chain_result M),
  handle pk pb (mw_chain (IKey k) RDup h) = (MS Acked CClosed COpen false, [HCall; HSettle true true]).
Proof. exact @dropped_duplicate_is_acked. Qed.
Print Assumptions C14_dropped_duplicate_is_acked.

Theorem C14_dedup_failure_is_nacked : forall (M : Type) it r e (pk : @pubkind) (pb : @pubbeh) (h : @chain_result M),
  mw_result (mw_run it r) = MErr e ->
  handle pk pb (mw_chain it r h) = (MS Nacked COpen CClosed false, [HCall; HSettle false true]).
Proof. exact @dedup_failure_is_nacked. Qed.
Print Assumptions C14_dedup_failure_is_nacked.

Theorem C14_new_message_passes_to_router : forall (M : Type) k (pk : @pubkind) (pb : @pubbeh) (h : @chain_result M),
  handle pk pb (mw_chain (IKey k) RNew h) = handle pk pb h.
Proof. exact @new_message_passes_to_router. Qed.
Print Assumptions C14_new_message_passes_to_router.

(** ** What the code assumes of a custom ExpiringKeyRepository: an atomic check-and-record whose
    linearisation history is accepted by the timed-set specification.  For ANY such history
    (no reference to the map repository): *)
Theorem C14_any_repository_one_per_epoch : forall w t0 es k,
  mon_ok w t0 es = true -> forallb epoch_ok (epochs k es []) = true.
Proof. exact accepted_one_per_epoch. Qed.
Print Assumptions C14_any_repository_one_per_epoch.

Theorem C14_any_repository_retains : forall w tinit pre t m k t0 mid e,
  mon_ok w tinit (pre ++ EIns t m k t0 :: mid ++ [e]) = true ->
  calls_key k e = true -> ev_time e <= t0 + w -> is_dup e = true.
Proof. exact accepted_retained. Qed.
Print Assumptions C14_any_repository_retains.

Theorem C14_any_repository_api_ok : forall w t0 es obs,
  mon_ok w t0 es = true -> Forall2 encloses obs (trace_calls es) -> api_ok w obs = true.
Proof. exact api_sound. Qed.
Print Assumptions C14_any_repository_api_ok.

(** a repository that fails in the middle of a batch (the map repository never does) leaves the
    keys before the failure recorded although nothing is published *)
Theorem C14_custom_repository_failure_records_prefix :
  exists ms k e, d_repo_keys (dec_run true ms) = [k; 8%N] /\ d_inner (dec_run true ms) = None
                 /\ d_result (dec_run true ms) = DErr e.
Proof. exact custom_repository_failure_records_prefix. Qed.
Print Assumptions C14_custom_repository_failure_records_prefix.

(** ** Glue brought into the model: the Timeout floor (5 ms) of applyDefaultsToDeduplicator and
    the window validation (>= 1 ms) of NewMapExpiringKeyRepository — an accepted window is
    non-negative, the hypothesis 0 <= w of the timely theorems. *)
Theorem C14_timeout_floor : forall t,
  min_timeout <= eff_timeout t /\ t <= eff_timeout t
  /\ (min_timeout <= t -> eff_timeout t = t) /\ (t < min_timeout -> eff_timeout t = min_timeout).
Proof. exact eff_timeout_spec. Qed.
Print Assumptions C14_timeout_floor.

Theorem C14_window_validation : forall w,
  (window_ok w = true <-> min_window <= w) /\ (window_ok w = true -> 0 <= w).
Proof. exact window_ok_spec. Qed.
Print Assumptions C14_window_validation.

(** ** What key separation needs (round "seeds 5"): the hash function injective AND the key a
    function of the digest only.  A key of the form H (f payload) with H injective separates
    exactly what f separates (f = the prefix at the read limit: C14_sha256_distinguishes_within_limit)... *)
Theorem C14_key_of_digest_only_separates : forall (H f : list N -> list N),
  (forall a b, H a = H b -> a = b) ->
  forall p1 p2, (H (f p1) = H (f p2) <-> f p1 = f p2).
Proof. exact key_of_digest_only_separates. Qed.
Print Assumptions C14_key_of_digest_only_separates.

(** ...whereas a hasher that returns payloads of at most n bytes (n = the digest size < 64)
    verbatim shares one key space between verbatim keys and digests: for EVERY hash function,
    injective or not, a payload longer than n and the payload consisting of the digest of its
    prefix at the read limit differ within the limit and get the same key.  (The hasher family
    of the check generates exactly these pairs from the hashers' own outputs.) *)
Theorem C14_verbatim_keys_break_separation_refuted : forall (H : list N -> list N) (n : Z),
  (forall x, Z.of_nat (length (H x)) <= n) -> 0 <= n < read_limit_min ->
  forall limit p1, n < Z.of_nat (length p1) ->
  let p2 := H (take (eff_limit limit) p1) in
  firstn (Z.to_nat (eff_limit limit)) p1 <> firstn (Z.to_nat (eff_limit limit)) p2
  /\ hash_key_verbatim H n limit p1 = hash_key_verbatim H n limit p2.
Proof. exact verbatim_keys_break_separation. Qed.
Print Assumptions C14_verbatim_keys_break_separation_refuted.
