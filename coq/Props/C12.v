(** C12 — Retry middleware: bounded attempts, back-off, first success wins, error kept.
    Model: Handler/Retry.v ([retry c h e]: one call of Retry.Middleware(h) on one message, for a
    configuration [c], a handler script [h : nat -> outcome] and an environment [e] of clock /
    random / select oracles constrained by [env_ok]).  Quantifiers: every configuration, every
    handler script, every environment. *)
From WM Require Import Base.Prelude Handler.Retry Handler.RetryMonitor Handler.RetryProofs.
From Coq Require Import QArith.
Open Scope Z_scope.

(** the handler is invoked 0,1,..,n in order; a successful result is the result of invocation n,
    which is the first successful one and the last one made *)
Theorem C12_first_success_wins : forall c h e,
  is_ok (r_out (retry c h e)) = true ->
  exists n, calls (r_trace (retry c h e)) = seq 0 (S n)
            /\ r_out (retry c h e) = h n /\ is_ok (h n) = true
            /\ forall j, (j < n)%nat -> is_ok (h j) = false.
Proof. exact retry_first_success_wins. Qed.

(** at most MaxRetries re-invocations (for MaxRetries >= 1) *)
Theorem C12_attempt_bound : forall c h e, 1 <= max_retries c ->
  Z.of_nat (attempts (r_trace (retry c h e))) <= 1 + max_retries c.
Proof. exact retry_attempt_bound_guarded. Qed.

(** the other branch, as the code is: MaxRetries <= 0 still retries once *)
Theorem C12_attempt_bound_nonpositive : forall c h e, max_retries c <= 0 ->
  (attempts (r_trace (retry c h e)) <= 2)%nat.
Proof. exact retry_attempt_bound_nonpos. Qed.

(** all attempts fail => the result is an error, the (non-nil) error of the last attempt made *)
Theorem C12_last_error_kept : forall c h e,
  (forall j, (j <= iterations c)%nat -> is_ok (h j) = false) ->
  is_ok (r_out (retry c h e)) = false
  /\ exists n, calls (r_trace (retry c h e)) = seq 0 (S n)
               /\ snd (r_out (retry c h e)) = snd (h n) /\ snd (h n) <> 0%N.
Proof. exact retry_last_error_kept. Qed.

(** a failure is never turned into a success *)
Theorem C12_never_invents_success : forall c h e,
  is_ok (r_out (retry c h e)) = true -> exists n, is_ok (h n) = true /\ r_out (retry c h e) = h n.
Proof. exact retry_never_invents_success. Qed.

Print Assumptions C12_first_success_wins.
Print Assumptions C12_attempt_bound.
Print Assumptions C12_attempt_bound_nonpositive.
Print Assumptions C12_last_error_kept.
Print Assumptions C12_never_invents_success.

(** non-vacuity: MaxRetries 3, 5 ms doubling capped at 15 ms, no randomisation; the handler
    fails three times and then returns message 31 *)
Example C12_witness :
  let c := Cfg 3 5 15 2 0 0 true false in
  let h := fun k => if (k <? 3)%nat then ([], 7%N) else ([31%N], 0%N) in
  let e := Env 0 1 0 0 None None (fun k => Sel 0 (Z.of_nat k * 100 - 100) 0 false 99 1) in
  env_ok c h e = true /\
  retry c h e = Run ([31%N], 0%N) 301
    [ECall 0 0 1; ECall 1 100 101; EHook 1 5; ECall 2 200 201; EHook 2 10; ECall 3 300 301]
    [WItem 1 5 5 1 1 100 false; WItem 2 10 10 101 101 200 false; WItem 3 15 15 201 201 300 false].
Proof. split; vm_compute; reflexivity. Qed.
