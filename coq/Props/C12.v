(** C12 — Retry middleware: bounded attempts, back-off, first success wins, error kept.
    Model: Handler/Retry.v ([retry c h e]: one call of Retry.Middleware(h) on one message, for a
    configuration [c], a handler script [h : nat -> outcome] and an environment [e] of clock /
    random / select oracles constrained by [env_ok]).  Quantifiers: every configuration, every
    handler script, every environment. *)
From WM Require Import Base.Prelude Handler.Retry Handler.RetryMonitor Handler.RetryArith Handler.RetryProofs
  Handler.RetryTrunc Handler.RetryConfig Handler.RetrySystem Handler.RetrySystemProofs
  Message.Model Handler.RouterHandle Handler.RetryRouter Handler.RetryRouterProofs Handler.RetryFloat Handler.RetryFloatProofs.
From Coq Require Import QArith Qminmax Qround.
Open Scope Z_scope.

(** the handler is invoked 0,1,..,n in order; a successful result is the result of invocation n,
    which is the first successful one and the last one made *)
Theorem C12_first_success_wins : forall c h e,
  is_ok (r_out (retry c h e)) = true ->
  exists n, calls (r_trace (retry c h e)) = seq 0 (S n)
            /\ r_out (retry c h e) = h n /\ is_ok (h n) = true
            /\ forall j, (j < n)%nat -> is_ok (h j) = false.
Proof. exact retry_first_success_wins. Qed.

(** at most MaxRetries re-invocations (for MaxRetries >= 1) *)
Theorem C12_attempt_bound : forall c h e, 1 <= max_retries c ->
  Z.of_nat (attempts (r_trace (retry c h e))) <= 1 + max_retries c.
Proof. exact retry_attempt_bound_guarded. Qed.

(** the other branch, as the code is: MaxRetries <= 0 still retries once *)
Theorem C12_attempt_bound_nonpositive : forall c h e, max_retries c <= 0 ->
  (attempts (r_trace (retry c h e)) <= 2)%nat.
Proof. exact retry_attempt_bound_nonpos. Qed.

(** all attempts fail => the result is an error, the (non-nil) error of the last attempt made *)
Theorem C12_last_error_kept : forall c h e,
  (forall j, (j <= iterations c)%nat -> is_ok (h j) = false) ->
  is_ok (r_out (retry c h e)) = false
  /\ exists n, calls (r_trace (retry c h e)) = seq 0 (S n)
               /\ snd (r_out (retry c h e)) = snd (h n) /\ snd (h n) <> 0%N.
Proof. exact retry_last_error_kept. Qed.

(** whenever an error is returned (exhaustion or early give-up, any script) every attempt made
    failed and the error is the non-nil error of the last attempt *)
Theorem C12_error_is_last_attempts : forall c h e,
  is_ok (r_out (retry c h e)) = false ->
  exists n, calls (r_trace (retry c h e)) = seq 0 (S n)
            /\ (forall j, (j <= n)%nat -> is_ok (h j) = false)
            /\ snd (r_out (retry c h e)) = snd (h n) /\ snd (h n) <> 0%N.
Proof. exact retry_error_is_last. Qed.

(** a failure is never turned into a success *)
Theorem C12_never_invents_success : forall c h e,
  is_ok (r_out (retry c h e)) = true -> exists n, is_ok (h n) = true /\ r_out (retry c h e) = h n.
Proof. exact retry_never_invents_success. Qed.

(** with every attempt failing and no context exit the handler is invoked exactly
    1 + max(1, MaxRetries) times and (nil, error of the last attempt) is returned *)
Theorem C12_exhausted_returns_last_error : forall c h e,
  (forall j, (j <= iterations c)%nat -> is_ok (h j) = false) ->
  (forall j, (1 <= j <= iterations c)%nat -> s_ctx (e_sel e j) = false) ->
  calls (r_trace (retry c h e)) = seq 0 (S (iterations c))
  /\ r_out (retry c h e) = ([], snd (h (iterations c))).
Proof. exact retry_exhaust. Qed.

(** OnRetryHook (and the Logger) are called with 1,2,..,f in order, f = number of failed
    re-invocations, each with the wait NextBackOff returned for that retry *)
Theorem C12_hook_sequence : forall c h e,
  let r := retry c h e in
  let f := failed_retries h (r_trace r) in
  map w_k (r_waits r) = seq 1 (length (r_waits r))
  /\ (f <= length (r_waits r))%nat
  /\ hooks (r_trace r) = (if has_hook c then map note_of (firstn f (r_waits r)) else [])
  /\ logs (r_trace r) = (if has_log c then map (fun it => (note_of it, max_retries c)) (firstn f (r_waits r)) else [])
  /\ (has_hook c = true -> map fst (hooks (r_trace r)) = map Z.of_nat (seq 1 f)).
Proof. exact retry_hook_sequence. Qed.

(** the k-th retry happens no earlier than its wait after the previous attempt ended; the wait
    is Stop (-1) or at least floor(cur_k * (1 - rf)) and at most ceil(cur_k * (1 + rf)), exactly
    cur_k without randomisation; without MaxElapsedTime there is no Stop and cur_k is the k-th
    value of the interval generator *)
Theorem C12_backoff_lower_bound : forall c h e, cfg_ok c -> env_ok c h e = true ->
  forall it, In it (r_waits (retry c h e)) -> w_ctx it = false ->
    w_prev it + w_wait it <= w_twake it
    /\ (w_wait it = STOP \/ delay_lo (rfac c) (w_cur it) <= w_wait it <= delay_hi (rfac c) (w_cur it))
    /\ (inject_Z (w_cur it) * (1 - rfac c) < inject_Z (delay_lo (rfac c) (w_cur it)) + 1)%Q
    /\ ((rfac c == 0)%Q -> w_wait it <> STOP -> w_wait it = w_cur it)
    /\ (max_elapsed c = 0 -> w_wait it <> STOP /\ w_cur it = cur_at c (w_k it)).
Proof. exact retry_backoff_lower_bound. Qed.

(** ... and that instant ([w_twake]) is when the k-th re-invocation starts *)
Theorem C12_retry_starts_after_wait : forall c h e it,
  In it (r_waits (retry c h e)) -> w_ctx it = false ->
  exists te, In (ECall (w_k it) (w_twake it) te) (r_trace (retry c h e)).
Proof. exact retry_call_at. Qed.

(** the generator in closed form: if a j = InitialInterval x Multiplier^j is integral for
    j <= k, Multiplier >= 1 and InitialInterval <= MaxInterval, the interval before the
    (k+1)-th retry is min(InitialInterval x Multiplier^k, MaxInterval) *)
Theorem C12_backoff_schedule_closed_form : forall c (a : nat -> Z) k,
  (0 < mult c)%Q -> (1 <= mult c)%Q -> 0 <= initial c <= max_interval c ->
  a O = initial c ->
  (forall j, (j <= k)%nat -> (inject_Z (a j) == inject_Z (initial c) * mult c ^ Z.of_nat j)%Q) ->
  cur_at c (S k) = Z.min (a k) (max_interval c).
Proof. exact cur_at_closed_form. Qed.

(** ... and for an ARBITRARY rational Multiplier >= 1 (products not integral): Go's
    [Duration(float64(cur)*Multiplier)], modelled as floor on Q, loses < 1 ns per step and a loss
    is multiplied at every later step, so the interval before the (k+1)-th retry lies within the
    geometric sum [geom m k] = 1 + m + .. + m^(k-1) below min(Initial x Multiplier^k, MaxInterval)
    and never above it *)
Theorem C12_backoff_truncation_bound : forall c, (1 <= mult c)%Q -> 0 <= initial c <= max_interval c ->
  forall k,
    (Qmin (inject_Z (initial c) * mult c ^ Z.of_nat k) (inject_Z (max_interval c))
       - geom (mult c) k <= inject_Z (cur_at c (S k)))%Q
    /\ (inject_Z (cur_at c (S k))
        <= Qmin (inject_Z (initial c) * mult c ^ Z.of_nat k) (inject_Z (max_interval c)))%Q.
Proof. exact cur_at_truncation_bound. Qed.

(** the error sum in closed form: (m - 1) x geom m k = m^k - 1; it is k for m = 1 *)
Theorem C12_truncation_error_sum : forall (m : Q) k, ~ (m == 0)%Q ->
  (geom m k * (m - 1) == m ^ Z.of_nat k - 1)%Q.
Proof. exact geom_closed. Qed.
Theorem C12_truncation_error_sum_mult_one : forall k, (geom 1 k == inject_Z (Z.of_nat k))%Q.
Proof. exact geom_one. Qed.

(** configurations the code does not validate (there is no validation in retry.go or in
    backoff/v3): what the generator does, as coded *)
(** InitialInterval > MaxInterval: the first wait is the uncapped InitialInterval, then MaxInterval *)
Theorem C12_config_initial_above_max : forall c, (1 <= mult c)%Q -> 0 <= max_interval c < initial c ->
  cur_at c 1 = initial c /\ forall k, cur_at c (S (S k)) = max_interval c.
Proof. exact sched_initial_above_max. Qed.
(** Multiplier < 0: InitialInterval, then MaxInterval for ever *)
Theorem C12_config_negative_multiplier : forall c, (mult c < 0)%Q -> 0 <= initial c -> 0 <= max_interval c ->
  forall k, cur_at c (S (S k)) = max_interval c.
Proof. exact sched_negative_multiplier. Qed.
(** Multiplier = 0: after the first wait every retry is made without waiting (interval 0; the
    negative MaxInterval if that is negative) *)
Theorem C12_config_zero_multiplier : forall c, (mult c == 0)%Q ->
  forall k, cur_at c (S (S k)) = if max_interval c <? 0 then max_interval c else 0.
Proof. exact sched_zero_multiplier. Qed.
(** 0 < Multiplier <= 1: the intervals shrink geometrically, below the cap *)
Theorem C12_config_fractional_multiplier : forall c, (0 < mult c)%Q -> (mult c <= 1)%Q ->
  0 <= initial c <= max_interval c ->
  forall k, 0 <= cur_at c (S k)
    /\ (ideal c k - geom (mult c) k <= inject_Z (cur_at c (S k)))%Q
    /\ (inject_Z (cur_at c (S k)) <= ideal c k)%Q
    /\ (ideal c k <= inject_Z (max_interval c))%Q.
Proof. exact sched_fractional_multiplier. Qed.
(** MaxElapsedTime < 0: every NextBackOff returns Stop, nothing is ever waited for *)
Theorem C12_config_negative_max_elapsed : forall c h e, max_elapsed c < 0 -> env_ok c h e = true ->
  Forall (fun it => w_wait it = STOP) (r_waits (retry c h e)).
Proof. exact retry_negative_max_elapsed. Qed.
(** and for EVERY configuration (negative intervals, any Multiplier, any factor; no [cfg_ok]):
    what NextBackOff returned is waited for before the re-invocation; a value <= 0 does not delay.
    (C12_first_success_wins, C12_attempt_bound*, C12_error_is_last_attempts, C12_hook_sequence,
    C12_never_invents_success hold for every configuration as well: they have no [cfg_ok].) *)
Theorem C12_wait_respected_any_config : forall c h e, env_ok c h e = true ->
  forall it, In it (r_waits (retry c h e)) ->
    w_prev it <= w_tnb it <= w_twake it
    /\ (w_ctx it = false -> w_tnb it + w_wait it <= w_twake it).
Proof. exact retry_wait_respected. Qed.

(** the randomisation interval is tight: every value in [delay_lo, delay_hi] is returned for
    some random number in [0,1) — the membership test of the monitor is not looser than the model *)
Theorem C12_delay_interval_tight : forall (rf : Q) (cur d : Z),
  (0 <= rf)%Q -> (rf <= 1)%Q -> 0 <= cur ->
  delay_lo rf cur <= d <= delay_hi rf cur ->
  exists r, (0 <= r)%Q /\ (r < 1)%Q /\ rand_value rf r cur = d.
Proof. exact rand_value_complete. Qed.

(** fewer retries than configured although every attempt failed: only by leaving through
    ctx.Done(), which was ready because the message context had been cancelled or
    MaxElapsedTime had passed since the first failure; the error is still returned
    (C12_last_error_kept / C12_first_success_wins cover the result) *)
Theorem C12_early_exit_only_on_ctx : forall c h e, cfg_ok c -> env_ok c h e = true ->
  let r := retry c h e in
  is_ok (r_out r) = false -> (attempts (r_trace r) < 1 + iterations c)%nat ->
  exists its it t, r_waits r = its ++ [it] /\ w_ctx it = true /\ w_twake it = r_tret r
    /\ t_done c e = Some t /\ t <= r_tret r
    /\ ((exists tc, e_cancel e = Some tc /\ tc <= r_tret r)
        \/ (0 < max_elapsed c /\ t_end0 e + max_elapsed c <= r_tret r)).
Proof. exact retry_early_exit_only_on_ctx. Qed.

(** it gives up when the context ends: once ctx.Done() is ready (cancellation, or the
    MaxElapsedTime deadline) no retry is made whose back-off timer would only fire later *)
Theorem C12_gives_up_when_context_ends : forall c h e, cfg_ok c -> env_ok c h e = true ->
  forall it t, In it (r_waits (retry c h e)) -> t_done c e = Some t ->
    w_ctx it = false -> t < w_tnb it + w_wait it -> w_wait it <= 0.
Proof. exact retry_gives_up_when_ctx_ends. Qed.

(** MaxElapsedTime, as far as the code guarantees it: once it has passed NextBackOff returns
    Stop (-1), i.e. nothing is waited for any more (and by the previous theorem no positive
    wait is sat out after Done closed).  PARTIAL: "gives up" itself is not guaranteed — with
    wait = -1 the timer case is ready together with ctx.Done() and select may keep choosing
    it until MaxRetries is reached (witness: C12_max_elapsed_race_witness) *)
Theorem C12_max_elapsed_gives_up_partial : forall c h e, cfg_ok c -> env_ok c h e = true ->
  forall it, In it (r_waits (retry c h e)) ->
    0 < max_elapsed c -> max_elapsed c < w_tnb it - t_reset e -> w_wait it = STOP.
Proof. exact retry_max_elapsed_stop. Qed.

(** every run of the model under a valid environment passes the acceptor that judges the
    implementation (Corr/C12.v evaluates the same [retry_monitor] on what the real middleware
    did), for any non-negative slack *)
Theorem C12_model_accepted : forall c sk h e,
  cfg_ok c -> 0 <= sl_lo sk /\ 0 <= sl_exit sk /\ 0 <= sl_af sk /\ 0 <= sl_d sk ->
  env_ok c h e = true ->
  (0 < max_elapsed c -> exists l, e_lag e = Some l /\ l <= sl_af sk) ->
  retry_monitor c sk h (obs_of e (retry c h e)) = true.
Proof. exact retry_accepted. Qed.

(** N messages concurrently through ONE wrapped handler (Handler/RetrySystem.v: interleaving of
    per-message steps — first invocation, loop iteration — on a shared clock, any schedule):
    after any schedule the state of message i is what it reaches alone on the instants of its own
    steps, whatever the other messages do *)
Theorem C12_interleaving_independent : forall c hs es sched st i,
  g_msgs (srun false c hs es st sched) i = mrun c (hs i) (es i) (g_msgs st i) (times_of i sched).
Proof. exact srun_independent. Qed.

(** ... hence N concurrent messages = N independent runs of [retry]: a message that has returned
    did what [retry] does for its own script and oracle values (instants from the shared clock),
    so every theorem above holds per message in the concurrent system *)
Theorem C12_concurrent_messages_are_independent_runs : forall c hs es sched i r,
  g_msgs (srun false c hs es sinit sched) i = MDone r ->
  exists t0 e', In (i, t0) sched /\ e_t0 e' = t0 /\ same_but_times e' (es i) /\ r = retry c (hs i) e'.
Proof. exact system_runs_are_retry_runs. Qed.

(** the variant with ONE ExponentialBackOff value for all messages ("Reset() before every use",
    [shared = true]) violates this: a failing second message resets the first one's schedule *)
Theorem C12_shared_backoff_independence_refuted :
  exists c hs es sched i r r',
    g_msgs (srun true c hs es sinit sched) i = MDone r
    /\ mrun c (hs i) (es i) MInit (times_of i sched) = MDone r'
    /\ hooks (r_trace r) = [(1, 5); (2, 5); (3, 10)]
    /\ hooks (r_trace r') = [(1, 5); (2, 10); (3, 20)].
Proof. exact shared_backoff_not_independent. Qed.

(** ZERO back-off and an ended context (the select has both cases ready; Go chooses uniformly at
    random — the code does not look at the context anywhere else).
    (a) after Done is ready a retry can only come from a wait <= 0, for every configuration *)
Theorem C12_retry_after_context_end_only_without_wait : forall c h e, env_ok c h e = true ->
  forall it, In it (r_waits (retry c h e)) -> lost_race (t_done c e) it = true -> w_wait it <= 0.
Proof. exact retry_after_context_end. Qed.
(** (b) with every attempt failing, ALL retries are made iff EVERY select takes the timer case: of
    the 2^n resolutions of n such coin flips exactly one — probability 2^-n — runs to the end *)
Theorem C12_zero_wait_race_count : forall c h e,
  (forall j, (j <= iterations c)%nat -> is_ok (h j) = false) ->
  (attempts (r_trace (retry c h e)) = 1 + iterations c)%nat
  <-> (forall j, (1 <= j <= iterations c)%nat -> s_ctx (e_sel e j) = false).
Proof. exact retry_all_retries_iff. Qed.
(** (c) under the fair-select contract "at most K races are lost to the timer" (probability of a
    violation 2^-K) a run of the model shows at most K retries started after cancel() had returned:
    the acceptor [late_ok K] that Corr/C12.v evaluates on the implementation with K = 40 *)
Theorem C12_gives_up_within_K_zero_waits : forall c h e K, env_ok c h e = true ->
  (lost_races (t_done c e) (r_waits (retry c h e)) <= K)%nat ->
  late_ok K (obs_of e (retry c h e)) = true.
Proof. exact retry_late_ok. Qed.

(** ---- round "proofs 3" ---- *)
(** Retry inside a Router (composition with C02's [handle]): every error result — retries
    exhausted, context ended, MaxElapsedTime — is Nacked and nothing is published, not even the
    messages failed attempts returned next to their errors *)
Theorem C12_in_router_error_nacked : forall pk pb c h e, is_ok (r_out (retry c h e)) = false ->
  retry_in_router pk pb c h e = Nacked
  /\ publishes (snd (handle pk pb (retry_chain c h e))) = [].
Proof. exact retry_error_nacked. Qed.
(** a nil result is that of the first successful attempt n: exactly its outputs are published
    (one call, in order) and the message is Acked iff they were accepted *)
Theorem C12_in_router_success : forall pk pb c h e, is_ok (r_out (retry c h e)) = true ->
  exists n, is_ok (h n) = true /\ (forall j, (j < n)%nat -> is_ok (h j) = false)
    /\ retry_chain c h e = CR PreNone (Ret (fst (h n)))
    /\ (retry_in_router pk pb c h e = Acked <-> handled_ok pk pb (CR PreNone (Ret (fst (h n)))) = true)
    /\ (retry_in_router pk pb c h e = Nacked <-> handled_ok pk pb (CR PreNone (Ret (fst (h n)))) = false)
    /\ publishes (snd (handle pk pb (retry_chain c h e))) = expected_publishes pk (CR PreNone (Ret (fst (h n)))).
Proof. exact retry_success_in_router. Qed.
Theorem C12_in_router_acked_only_if_handled : forall pk pb c h e,
  retry_in_router pk pb c h e = Acked -> exists n, is_ok (h n) = true /\ r_out (retry c h e) = h n.
Proof. exact retry_acked_only_if_handled. Qed.

(** float64: with a rounding oracle obeying the two IEEE properties (representable values are
    exact, relative error <= 2^-53) the Go computation of incrementCurrentInterval equals the
    exact-rational model whenever the Multiplier is a positive dyadic n/2^p (every float64 is
    dyadic), cur * n < 2^53 and MaxInterval * 2^p < 2^53 *)
Theorem C12_float64_incr_exact : forall rnd, rnd_ok rnd -> forall c (np d : positive),
  mult c = Z.pos np # d -> (exists p, d = pow2 p) ->
  forall cur, 0 <= cur -> cur * Z.pos np < two53 ->
  0 <= max_interval c -> max_interval c * Z.pos d < two53 ->
  fl_incr_interval rnd c cur = incr_interval c cur.
Proof. exact fl_incr_exact. Qed.
(** outside that domain (and for the randomised value, which goes through several roundings) a
    rounded non-negative value below 2^52 ns truncates within 1 ns of the exact one: the +-1 ns the
    comparison tolerates *)
Theorem C12_float64_truncation_within_one : forall rnd (x : Q), rnd_ok rnd ->
  (0 <= x)%Q -> (x < inject_Z (2 ^ 52))%Q -> Z.abs (Qfloor (rnd x) - Qfloor x) <= 1.
Proof. exact rounded_trunc_close. Qed.

(** RandomizationFactor is not validated: for ANY factor >= 0 (also > 1) the value lies in
    [floor(cur(1-rf)), ceil(cur(1+rf))]; a negative draw does not delay *)
Theorem C12_randomization_any_factor : forall (rf rnd : Q) (cur : Z),
  (0 <= rf)%Q -> 0 <= cur -> (0 <= rnd)%Q -> (rnd < 1)%Q ->
  delay_lo rf cur <= rand_value rf rnd cur <= delay_hi rf cur.
Proof. exact rand_value_bounds_any_rf. Qed.

(** the Logger is handed, call after call, the error of the re-invocation that just failed
    (1..f in order) — never an earlier attempt's *)
Theorem C12_logger_gets_last_error : forall c h e, has_log c = true ->
  log_errs h (r_trace (retry c h e))
  = map (fun k => snd (h k)) (seq 1 (failed_retries h (r_trace (retry c h e)))).
Proof. exact retry_log_errs. Qed.

(** MaxElapsedTime / cancellation under the fair-select contract (at most K races lost to a
    ready timer): once Done is ready at most K + 1 more iterations are entered — K retries, none
    after a wait, and the one that gives up.  (The unconditional statement stays
    C12_max_elapsed_gives_up_partial: the code leaves it to select's coin.) *)
Theorem C12_gives_up_within_K_after_done : forall c h e K, env_ok c h e = true ->
  (lost_races (t_done c e) (r_waits (retry c h e)) <= K)%nat ->
  (length (filter (fun it => ctx_ready_at (t_done c e) (w_tnb it)) (r_waits (retry c h e))) <= K + 1)%nat
  /\ forall it, In it (r_waits (retry c h e)) -> ctx_ready_at (t_done c e) (w_tnb it) = true ->
       w_ctx it = false -> w_wait it <= 0.
Proof. exact retry_gives_up_within_K. Qed.

Print Assumptions C12_first_success_wins.
Print Assumptions C12_attempt_bound.
Print Assumptions C12_attempt_bound_nonpositive.
Print Assumptions C12_last_error_kept.
Print Assumptions C12_error_is_last_attempts.
Print Assumptions C12_never_invents_success.
Print Assumptions C12_exhausted_returns_last_error.
Print Assumptions C12_hook_sequence.
Print Assumptions C12_backoff_lower_bound.
Print Assumptions C12_retry_starts_after_wait.
Print Assumptions C12_backoff_schedule_closed_form.
Print Assumptions C12_backoff_truncation_bound.
Print Assumptions C12_truncation_error_sum.
Print Assumptions C12_truncation_error_sum_mult_one.
Print Assumptions C12_config_initial_above_max.
Print Assumptions C12_config_negative_multiplier.
Print Assumptions C12_config_zero_multiplier.
Print Assumptions C12_config_fractional_multiplier.
Print Assumptions C12_config_negative_max_elapsed.
Print Assumptions C12_wait_respected_any_config.
Print Assumptions C12_delay_interval_tight.
Print Assumptions C12_early_exit_only_on_ctx.
Print Assumptions C12_gives_up_when_context_ends.
Print Assumptions C12_max_elapsed_gives_up_partial.
Print Assumptions C12_model_accepted.
Print Assumptions C12_in_router_error_nacked.
Print Assumptions C12_in_router_success.
Print Assumptions C12_in_router_acked_only_if_handled.
Print Assumptions C12_float64_incr_exact.
Print Assumptions C12_float64_truncation_within_one.
Print Assumptions C12_randomization_any_factor.
Print Assumptions C12_gives_up_within_K_after_done.
Print Assumptions C12_logger_gets_last_error.
Print Assumptions C12_retry_after_context_end_only_without_wait.
Print Assumptions C12_zero_wait_race_count.
Print Assumptions C12_gives_up_within_K_zero_waits.
Print Assumptions C12_interleaving_independent.
Print Assumptions C12_concurrent_messages_are_independent_runs.
Print Assumptions C12_shared_backoff_independence_refuted.

(** non-vacuity: MaxRetries 3, 5 ms doubling capped at 15 ms, no randomisation; the handler
    fails three times and then returns message 31 *)
Example C12_witness :
  let c := Cfg 3 5 15 2 0 0 true false in
  let h := fun k => if (k <? 3)%nat then ([], 7%N) else ([31%N], 0%N) in
  let e := Env 0 1 0 0 None None (fun k => Sel 0 (Z.of_nat k * 100 - 100) 0 false 99 1) in
  cfg_ok c /\ env_ok c h e = true /\
  retry c h e = Run ([31%N], 0%N) 301
    [ECall 0 0 1; ECall 1 100 101; EHook 1 5; ECall 2 200 201; EHook 2 10; ECall 3 300 301]
    [WItem 1 5 5 1 1 100 false; WItem 2 10 10 101 101 200 false; WItem 3 15 15 201 201 300 false].
Proof. split; [|split]; vm_compute; intuition discriminate. Qed.

(** MaxRetries = 0 (outside the property's guard): the code still retries once *)
Example C12_max_retries_zero_retries_once :
  let c := Cfg 0 5 15 2 0 0 true false in
  let e := Env 0 1 0 0 None None (fun k => Sel 0 0 0 false 5 1) in
  calls (r_trace (retry c (fun _ => ([], 7%N)) e)) = [0; 1]%nat
  /\ r_out (retry c (fun _ => ([], 7%N)) e) = ([], 7%N).
Proof. split; reflexivity. Qed.

(** cancellation during the second wait: the error of the second attempt is returned together
    with what that attempt produced *)
Example C12_cancel_witness :
  let c := Cfg 5 10 100 2 0 0 true false in
  let h := fun k => ([N.of_nat k], 7%N) in
  let e := Env 0 1 0 0 (Some 20) None
             (fun k => match k with 1%nat => Sel 0 0 0 false 10 1 | _ => Sel 0 11 0 true 8 0 end) in
  env_ok c h e = true /\ r_out (retry c h e) = ([1%N], 7%N) /\ r_tret (retry c h e) = 20
  /\ calls (r_trace (retry c h e)) = [0; 1]%nat.
Proof. repeat split; vm_compute; reflexivity. Qed.

(** the race behind the PARTIAL label: MaxElapsedTime = 10 has long passed (elapsed 100, 300, 500),
    Done is closed, every NextBackOff returns Stop — and a valid select still takes the timer
    case each time, so all MaxRetries = 3 retries are made without waiting *)
Example C12_max_elapsed_race_witness :
  let c := Cfg 3 5 15 2 10 0 true false in
  let h := fun _ => ([], 7%N) in
  let e := Env 0 1 0 0 None (Some 0)
             (fun k => Sel 100 (Z.of_nat k * 200 - 100) 0 false 0 100) in
  env_ok c h e = true
  /\ hooks (r_trace (retry c h e)) = [(1, -1); (2, -1); (3, -1)]
  /\ attempts (r_trace (retry c h e)) = 4%nat.
Proof. repeat split; vm_compute; reflexivity. Qed.

(** the truncation error is NOT bounded by the number of steps: Initial 3 ns, Multiplier 3/2
    gives 3,4,6,9,13,19,28 — after 6 steps 28 < 3 x 1.5^6 - 6 = 28.17.. (the geometric sum
    geom (3/2) 6 = 20.78.. is the bound that holds) *)
Example C12_truncation_error_exceeds_k :
  let c := Cfg 8 3 1000000 (3#2) 0 0 true false in
  map (cur_at c) [1;2;3;4;5;6;7]%nat = [3;4;6;9;13;19;28]
  /\ (inject_Z (cur_at c 7) < inject_Z (initial c) * mult c ^ 6 - 6)%Q.
Proof. split; [reflexivity|vm_compute; reflexivity]. Qed.

(** a negative InitialInterval (rf = 0): NextBackOff returns trunc(-3 + rnd) = -2, the interval "grows" to -6: no delay ever *)
Example C12_negative_initial_interval :
  let c := Cfg 2 (-3) 10 2 0 0 true false in
  let e := Env 0 1 0 0 None None (fun k => Sel 0 (Z.of_nat k - 1) (1#2) false 0 1) in
  env_ok c (fun _ => ([], 7%N)) e = true
  /\ hooks (r_trace (retry c (fun _ => ([], 7%N)) e)) = [(1, -2); (2, -5)].
Proof. split; vm_compute; reflexivity. Qed.

(** the zero-value configuration Retry{MaxRetries: 3}: every back-off is 0 (Multiplier 0 x 0);
    the handler cancels the context in the first attempt; a valid environment in which the select
    loses the race twice and then gives up: two "late" retries, accepted for K >= 2 only *)
Example C12_zero_backoff_race_witness :
  let c := Cfg 3 0 0 0 0 0 true false in
  let h := fun _ => ([], 7%N) in
  let e := Env 0 1 0 0 (Some 1) None
             (fun k => Sel 0 (Z.of_nat k - 1) 0 (3 <=? k)%nat 0 1) in
  env_ok c h e = true
  /\ hooks (r_trace (retry c h e)) = [(1, 0); (2, 0)]
  /\ lost_races (t_done c e) (r_waits (retry c h e)) = 2%nat
  /\ late_ok 1 (obs_of e (retry c h e)) = false /\ late_ok 2 (obs_of e (retry c h e)) = true.
Proof. repeat split; vm_compute; reflexivity. Qed.
