(** C19 — simple middlewares change only what they document and only during the call.
    Model: Simple/Model.v (Timeout, CorrelationID, Recoverer, IgnoreErrors, InstantAck, Throttle,
    closed CircuitBreaker, DelayOnError and the attempt loop of Retry as transformers of handlers
    over an explicit message state), Simple/Throttle.v (ticker clock model), acceptor
    Simple/Monitor.v.  In the per-middleware theorems [h] is ANY handler, hence any inner chain;
    in the composition theorems the handler is ANY script and the chain ANY list.
    [repaired] = the code after the two fix: commits, [pinned] = before (D2, D3). *)
From WM Require Import Base.Prelude Simple.Model Simple.Monitor Simple.Throttle
  Simple.ThrottleCtx Simple.Proofs Simple.ThrottleProofs Simple.ThrottleCtxProofs Simple.DelayProofs Simple.ComposeProofs Simple.AcceptProofs Simple.Deadline Simple.DeadlineProofs Corr.C19 Simple.ChainAcceptProofs Simple.Extra Corr.C19x Simple.ExtraProofs Simple.InRouter Simple.InRouterProofs Simple.TimingAcceptProofs.

(** Timeout: the result is the handler's; during the call ... *)
Theorem C19_timeout_transparent : forall d (h : handler) w,
  let r := mw_sem repaired (MTimeout d) h w in
  let i := h (with_deadline d w) in
  snd r = snd i
  /\ m_ctx (w_msg (fst r)) = m_ctx (w_msg w)
  /\ m_meta (w_msg (fst r)) = m_meta (w_msg (fst i))
  /\ m_base_done (w_msg (fst r)) = m_base_done (w_msg (fst i))
  /\ m_settle (w_msg (fst r)) = m_settle (w_msg (fst i))
  /\ w_calls (fst r) = w_calls (fst i) /\ w_trace (fst r) = w_trace (fst i).
Proof. exact timeout_frame. Qed.
(** ... a deadline no later than the timeout is visible, and nothing else differs *)
Theorem C19_timeout_deadline_visible : forall d w,
  (exists dl, v_deadline (view (w_msg (with_deadline d w))) = Some dl /\ (dl <= d)%Z)
  /\ v_done (view (w_msg (with_deadline d w))) = v_done (view (w_msg w))
  /\ v_meta (view (w_msg (with_deadline d w))) = v_meta (view (w_msg w))
  /\ v_settle (view (w_msg (with_deadline d w))) = v_settle (view (w_msg w)).
Proof. exact timeout_deadline_visible. Qed.

(** CorrelationID: same message state, same error / panic, same outputs in the same order ... *)
Theorem C19_correlation_transparent : forall v (h : handler) w,
  let r := mw_sem v MCorrelation h w in
  fst r = fst (h w)
  /\ rkind (snd r) = rkind (snd (h w))
  /\ outs_of (snd r) = map (corr_out (mget K_CORR (m_meta (w_msg (fst (h w)))))) (outs_of (snd (h w)))
  /\ outs_ok true (mget K_CORR (m_meta (w_msg (fst (h w))))) (outs_of (snd r)) (outs_of (snd (h w))) = true.
Proof. exact correlation_frame. Qed.
(** ... each with the id copied if it lacks one, never overwritten, nothing else touched *)
Theorem C19_correlation_never_overwrites : forall id (m : omsg),
  match corr_out id (OMsg m) with
  | OMsg m' =>
      o_id m' = o_id m /\ o_uuid m' = o_uuid m /\ o_payload m' = o_payload m
      /\ (forall k, k <> K_CORR -> mget k (o_meta m') = mget k (o_meta m))
      /\ (is_empty (mget K_CORR (o_meta m)) = false -> o_meta m' = o_meta m)
      /\ (is_empty (mget K_CORR (o_meta m)) = true -> mget K_CORR (o_meta m') = id)
  | OSelf => False
  end /\ corr_out id OSelf = OSelf.
Proof. exact correlation_per_output. Qed.

(** Recoverer: a panic becomes an error carrying the value (nil included), nothing escapes,
    everything else passes *)
Theorem C19_recoverer_never_escapes : forall v (h : handler) w,
  fst (mw_sem v MRecoverer h w) = fst (h w)
  /\ match snd (h w) with
     | Panic p => snd (mw_sem v MRecoverer h w) = Fail [] (ERecovered p)
     | r => snd (mw_sem v MRecoverer h w) = r
     end
  /\ (forall p, snd (mw_sem v MRecoverer h w) <> Panic p).
Proof. exact recoverer_never_escapes. Qed.

(** IgnoreErrors: listed errors (by the text of their pkg/errors cause) become success with the
    same outputs; everything else passes *)
Theorem C19_ignore_errors_transparent : forall v l (h : handler) w,
  fst (mw_sem v (MIgnore l) h w) = fst (h w)
  /\ match snd (h w) with
     | Fail outs e => snd (mw_sem v (MIgnore l) h w) =
                      if in_texts (cause_text e) l then Ret outs else Fail outs e
     | r => snd (mw_sem v (MIgnore l) h w) = r
     end.
Proof. exact ignore_errors_frame. Qed.
Theorem C19_ignore_errors_by_cause : forall t u e,
  cause_text (EWrapCause t e) = cause_text e /\ cause_text (EWrapStd u e) = Some u
  /\ (forall v l, in_texts (cause_text (ERecovered v)) l = false).
Proof. exact ignore_errors_cause. Qed.

(** InstantAck: the handler runs on the already acknowledged message (a previous Nack stays) *)
Theorem C19_instant_ack_before_call : forall v (h : handler) w,
  mw_sem v MInstantAck h w = h (acked w)
  /\ m_settle (w_msg (acked w)) <> Unsettled
  /\ (m_settle (w_msg w) = Unsettled -> m_settle (w_msg (acked w)) = Acked)
  /\ (m_settle (w_msg w) <> Unsettled -> m_settle (w_msg (acked w)) = m_settle (w_msg w))
  /\ m_meta (w_msg (acked w)) = m_meta (w_msg w) /\ m_ctx (w_msg (acked w)) = m_ctx (w_msg w)
  /\ m_base_done (w_msg (acked w)) = m_base_done (w_msg w).
Proof. exact instant_ack_frame. Qed.

(** Throttle and the closed CircuitBreaker change nothing ... *)
Theorem C19_throttle_breaker_transparent : forall v (h : handler) w,
  mw_sem v MThrottle h w = h w /\ mw_sem v MBreaker h w = h w.
Proof. exact throttle_breaker_transparent. Qed.
(** ... and handler starts through one Throttle are no faster than the rate: for every period,
    arrival pattern and ticker state, two starts with k starts between them are >= k periods apart *)
Theorem C19_throttle_rate : forall p, (0 < p)%Z -> forall arr tk prev, t_buf tk = false -> (prev < t_next tk)%Z ->
  spaced p 0 (throttle_run p tk prev arr) = true.
Proof. exact throttle_spaced. Qed.
(** ... whatever the contexts of the messages are (alive, already done, ending while waiting): the
    wait receives from the ticker only *)
Theorem C19_throttle_rate_any_context : forall p, (0 < p)%Z -> forall reqs tk prev,
  t_buf tk = false -> (prev < t_next tk)%Z ->
  spaced p 0 (throttle_run_ctx false p tk prev reqs) = true.
Proof. exact throttle_spaced_any_context. Qed.
(** sensitivity: a wait that also gives up on msg.Context().Done() does not have the property *)
Theorem C19_throttle_ctx_watching_wait_breaks_rate : exists p reqs, (0 < p)%Z /\
  throttle_run_ctx true p (new_ticker 0 p) 0 reqs = [0; 0; 0]%Z
  /\ spaced p 0 (throttle_run_ctx true p (new_ticker 0 p) 0 reqs) = false
  /\ spaced p 0 (throttle_run_ctx false p (new_ticker 0 p) 0 reqs) = true.
Proof. exact ctx_watching_wait_breaks_rate. Qed.
Theorem C19_throttle_rate_meaning : forall p slack l, spaced p slack l = true ->
  forall i k x y, nth_error l i = Some x -> nth_error l (i + S k) = Some y -> (Z.of_nat k * p <= y - x + slack)%Z.
Proof. exact spaced_meaning. Qed.
Theorem C19_throttle_window : forall p, (0 < p)%Z -> forall arr t0 n x y,
  let starts := throttle_run p (new_ticker t0 p) t0 arr in
  nth_error starts 0 = Some x -> nth_error starts (S n) = Some y -> (Z.of_nat n * p <= y - x)%Z.
Proof. exact throttle_window. Qed.

(** DelayOnError: result untouched; a failure rewrites the two delay keys and nothing else; a
    success (or a panic) leaves the message untouched *)
Theorem C19_delay_transparent : forall v c (h : handler) w,
  let r := mw_sem v (MDelay c) h w in
  snd r = snd (h w)
  /\ match snd (h w) with
     | Fail _ _ =>
         mget K_DFOR (m_meta (w_msg (fst r))) = MDur (next_delay v c (mget K_DFOR (m_meta (w_msg (fst (h w))))))
         /\ mget K_DUNTIL (m_meta (w_msg (fst r))) = (let d := next_delay v c (mget K_DFOR (m_meta (w_msg (fst (h w))))) in MUntil d d)
         /\ (forall k, k <> K_DFOR -> k <> K_DUNTIL ->
             mget k (m_meta (w_msg (fst r))) = mget k (m_meta (w_msg (fst (h w)))))
         /\ m_ctx (w_msg (fst r)) = m_ctx (w_msg (fst (h w)))
         /\ m_base_done (w_msg (fst r)) = m_base_done (w_msg (fst (h w)))
         /\ m_settle (w_msg (fst r)) = m_settle (w_msg (fst (h w)))
         /\ w_calls (fst r) = w_calls (fst (h w)) /\ w_trace (fst r) = w_trace (fst (h w))
     | _ => fst r = fst (h w)
     end.
Proof. exact delay_frame. Qed.
(** over any sequence of invocations on the same message: the key holds the value after as many
    steps as there were failures; for a message without a parsable delay that is [sched] *)
Theorem C19_delay_counts_failures : forall v c (h : handler),
  (forall w, mget K_DFOR (m_meta (w_msg (fst (h w)))) = mget K_DFOR (m_meta (w_msg w))) ->
  forall n w,
  mget K_DFOR (m_meta (w_msg (fst (run_calls (mw_sem v (MDelay c) h) n w))))
  = dval v c (mget K_DFOR (m_meta (w_msg w))) (count_fail (map fst (snd (run_calls (mw_sem v (MDelay c) h) n w)))).
Proof. exact delay_run. Qed.
Theorem C19_delay_fresh_message : forall v c init j, (forall d, init <> MDur d) ->
  dval v c init (S j) = MDur (sched v c (S j)).
Proof. exact dval_sched. Qed.
(** the schedule: (j+1)-th consecutive failure => min(Initial * (num/den)^j, Max), fractional
    multipliers included, whenever the products are whole nanoseconds *)
Theorem C19_delay_schedule : forall c c0, (0 < d_den c)%Z -> (d_den c <= d_num c)%Z -> (0 <= c0)%Z -> (d_init c <= d_max c)%Z ->
  forall j r, d_init c = (c0 * pw (d_den c) (j + r))%Z ->
  sched repaired c (S j) = Z.min (c0 * pw (d_den c) r * pw (d_num c) j) (d_max c)
  /\ ((c0 * pw (d_den c) r * pw (d_num c) j) * pw (d_den c) j = d_init c * pw (d_num c) j)%Z.
Proof. exact sched_closed_full. Qed.
(** in general (products rounded down to whole ns at every step): within [0, Max], never above
    Initial * (num/den)^j, never shrinking *)
Theorem C19_delay_schedule_bounds : forall c, (0 < d_den c)%Z -> (d_den c <= d_num c)%Z -> (0 <= d_init c)%Z -> (d_init c <= d_max c)%Z ->
  forall j, (0 <= sched repaired c (S j) <= d_max c)%Z
            /\ (sched repaired c (S j) * pw (d_den c) j <= d_init c * pw (d_num c) j)%Z
            /\ (sched repaired c (S j) <= sched repaired c (S (S j)))%Z.
Proof. exact sched_bounds. Qed.
(** D2: false of the pinned code (Multiplier truncated to an integer: 3/2 -> 1, the delay never grows) *)
Theorem C19_delay_schedule_refuted : exists c c0 j r,
  (0 < d_den c)%Z /\ (d_den c <= d_num c)%Z /\ (0 <= c0)%Z /\ (d_init c <= d_max c)%Z
  /\ d_init c = (c0 * pw (d_den c) (j + r))%Z
  /\ sched pinned c (S j) <> Z.min (c0 * pw (d_den c) r * pw (d_num c) j) (d_max c)
  /\ sched pinned c (S j) = d_init c.
Proof. exact sched_closed_refuted. Qed.

(** the effect ends with the call: after ANY chain (any number of Retries included) around any
    script the message context is the context before, and as alive as before unless the handler
    itself cancelled it *)
Theorem C19_effect_ends_with_call : forall mws s w,
  let w' := fst (stack repaired mws (scripted s) w) in
  m_ctx (w_msg w') = m_ctx (w_msg w)
  /\ (never_cancels s -> ctx_done (w_msg w') = ctx_done (w_msg w)
                         /\ v_same (view (w_msg w')) = v_same (view (w_msg w))
                         /\ v_deadline (view (w_msg w')) = v_deadline (view (w_msg w))).
Proof. exact effect_ends_with_call. Qed.
(** D3: false of the pinned Timeout *)
Theorem C19_effect_ends_with_call_refuted : exists mws s w,
  never_cancels s /\ ctx_done (w_msg w) = false
  /\ ctx_done (w_msg (fst (stack pinned mws (scripted s) w))) = true
  /\ m_ctx (w_msg (fst (stack pinned mws (scripted s) w))) <> m_ctx (w_msg w).
Proof. exact effect_ends_with_call_refuted. Qed.

(** a chain of simple middlewares calls the handler exactly as the handler is called, and its
    error / panic value is the handler's but for Recoverer / IgnoreErrors in the chain *)
Theorem C19_chain_result : forall v mws, forallb is_simple mws = true -> forall s w,
  w_calls (fst (stack v mws (scripted s) w)) = w_calls (fst (scripted s w))
  /\ rkind (snd (stack v mws (scripted s) w)) = eff mws (rkind (snd (scripted s w))).
Proof. exact chain_result. Qed.

(** composition with Retry: same number of attempts (and kind of result) as the bare Retry *)
Theorem C19_composes_with_retry : forall maxr inner s w, forallb is_simple inner = true ->
  let a := mw_sem repaired (MRetry maxr) (stack repaired inner (scripted s)) w in
  let b := mw_sem repaired (MRetry maxr) (scripted (map_res (effo inner) s)) w in
  w_calls (fst a) = w_calls (fst b) /\ rkind (snd a) = rkind (snd b).
Proof. exact composes_with_retry. Qed.
Theorem C19_composes_with_retry_same_handler : forall maxr inner s w, forallb is_simple inner = true ->
  forallb (fun m => negb (changes_result m)) inner = true ->
  w_calls (fst (mw_sem repaired (MRetry maxr) (stack repaired inner (scripted s)) w))
  = w_calls (fst (mw_sem repaired (MRetry maxr) (scripted s) w)).
Proof. exact composes_with_retry_same. Qed.
(** D3: false of the pinned code: Retry{3}(Timeout(h)), h failing: 1 call instead of 4 *)
Theorem C19_composes_with_retry_refuted : exists maxr inner s w, forallb is_simple inner = true
  /\ w_calls (fst (mw_sem pinned (MRetry maxr) (stack pinned inner (scripted s)) w)) = 1%nat
  /\ w_calls (fst (mw_sem pinned (MRetry maxr) (scripted (map_res (effo inner) s)) w)) = 4%nat.
Proof. exact composes_with_retry_refuted. Qed.

(** Retry in the MIDDLE of a chain: [outer (Retry (inner h))] makes the attempts of the bare Retry
    around the handler carrying inner's documented effects, and returns [eff outer] of its kind of
    result (the layers pushed by outer Timeouts are alive while the loop reads the context) *)
Theorem C19_composes_with_retry_middle : forall outer maxr inner s w,
  forallb is_simple outer = true -> forallb is_simple inner = true ->
  let Y := stack repaired (outer ++ MRetry maxr :: inner) (scripted s) w in
  let B := mw_sem repaired (MRetry maxr) (scripted (map_res (effo inner) s)) w in
  w_calls (fst Y) = w_calls (fst B) /\ rkind (snd Y) = eff outer (rkind (snd B)).
Proof. exact composes_with_retry_middle. Qed.
Theorem C19_composes_with_retry_middle_same_handler : forall outer maxr inner s w,
  forallb is_simple outer = true -> forallb is_simple inner = true ->
  forallb (fun m => negb (changes_result m)) inner = true ->
  w_calls (fst (stack repaired (outer ++ MRetry maxr :: inner) (scripted s) w))
  = w_calls (fst (mw_sem repaired (MRetry maxr) (scripted s) w)).
Proof. exact composes_with_retry_middle_same. Qed.

(** THE tie between the theorems and the check: for EVERY chain (any length, any order, Retry
    anywhere), every script and every starting message, what the repaired model does is accepted
    by [accept] — the function checks/c19.py evaluates on what the real middlewares did.  (Chains
    with a second Retry inside the first are outside the acceptor: it returns true for them.) *)
Theorem C19_model_accepted : forall mws s w0,
  let '(tr, r, v) := observe (stack repaired mws (scripted s)) w0 in
  accept mws s w0 tr r v = true.
Proof. exact model_accepted. Qed.

(** a deadline visible during the call, over the clock model of Simple/Deadline.v (any delays before
    each middleware, timers firing late but never early): a handler blocking on Done() under a
    chain whose Timeouts are all >= dmin observes it no earlier than dmin after the chain was
    called and no earlier than the visible Deadline(), which itself is >= call time + dmin; with at
    least one Timeout it does observe it *)
Theorem C19_deadline_lower_bound : forall t0 c lat late dmin,
  (forall d, In d (timeouts c) -> (dmin <= d)%Z) ->
  (forall e, attempt t0 c lat late = Some e ->
     (t0 + dmin <= e)%Z /\ exists D, earliest (snd (enter t0 c lat [])) = Some D /\ (D <= e)%Z /\ (t0 + dmin <= D)%Z)
  /\ (timeouts c <> [] -> exists e, attempt t0 c lat late = Some e).
Proof. exact deadline_lower_bound. Qed.
(** under Retry every blocking attempt takes at least dmin of its own: the observed times pass the
    predicate the check evaluates, and n of them take at least n * dmin *)
Theorem C19_deadline_attempts : forall dmin c, (forall d, In d (timeouts c) -> (dmin <= d)%Z) ->
  forall n t0 lats lates waits, block_ok t0 dmin 0 (attempts n t0 c lats lates waits) = true.
Proof. exact attempts_block_ok. Qed.
Theorem C19_deadline_attempts_meaning : forall dmin slack, (0 <= slack)%Z -> forall dones prev,
  block_ok prev dmin slack dones = true ->
  (prev + Z.of_nat (length dones) * (dmin - slack) <= last dones prev)%Z.
Proof. exact block_ok_total. Qed.

(** a message that arrives with a deadline already on its context: under any chain of simple
    middlewares the handler sees the earlier of that deadline and the chain's Timeouts (never a
    later one), and after the call the message has exactly the deadline it came with *)
Theorem C19_arriving_deadline : forall mws s w, forallb is_simple mws = true ->
  let seen := view (entry_msg mws (w_msg w)) in
  w_trace (fst (stack repaired mws (scripted s) w)) = w_trace w ++ [ECall (w_calls w) seen]
  /\ v_deadline seen = dl_min (m_base_dl (w_msg w)) (min_deadline (push_layers mws (m_ctx (w_msg w))))
  /\ (forall b, m_base_dl (w_msg w) = Some b -> exists d, v_deadline seen = Some d /\ (d <= b)%Z)
  /\ m_base_dl (w_msg (fst (stack repaired mws (scripted s) w))) = m_base_dl (w_msg w)
  /\ v_deadline (view (w_msg (fst (stack repaired mws (scripted s) w)))) = v_deadline (view (w_msg w)).
Proof. exact arriving_deadline. Qed.

(** the acceptor the check evaluates on a whole case (Corr/C19.v [accept_invs] = [accept] on every
    invocation of the chain on the same message object, each judged from the message as it was
    observed before it) accepts every run of the repaired model: every chain (any length, any
    order, Retry anywhere), every script, every message on its original context, every number of
    invocations.  With this the chain acceptor is no longer a trusted oracle. *)
Theorem C19_chain_model_accepted : forall mws s m0 n, m_ctx m0 = [] ->
  accept_invs mws s (init_world m0) (model_invs (stack repaired mws (scripted s)) n (init_world m0)) = true.
Proof. exact chain_model_accepted. Qed.
Theorem C19_case_model_accepted : forall c, m_ctx (k_init c) = [] ->
  c19_violates (C19 (k_mws c) (k_script c) (k_init c) (c19_model repaired c)) = false.
Proof. exact case_model_accepted. Qed.

(** Duplicator (duplicator.go): around a scripted handler the handler runs a second time iff the
    first call succeeded; on success both outputs in order, otherwise the error / panic of the call
    that failed and no outputs *)
Theorem C19_duplicator_twice : forall s w,
  let c1 := nth_last default_call s (w_calls w) in
  let c2 := nth_last default_call s (S (w_calls w)) in
  let r := x_sem XDup (scripted s) w in
  match c_res c1 with
  | Ret o1 => w_calls (fst r) = S (S (w_calls w))
              /\ snd r = match c_res c2 with Ret o2 => Ret (o1 ++ o2) | Fail _ e => Fail [] e | Panic p => Panic p end
  | Fail _ e => w_calls (fst r) = S (w_calls w) /\ snd r = Fail [] e
  | Panic p => w_calls (fst r) = S (w_calls w) /\ snd r = Panic p
  end.
Proof. exact duplicator_twice. Qed.
(** RandomFail / RandomPanic (randomfail.go): transparent when the draw misses; when it hits the
    handler is not called, the message is untouched and the result is the fixed error / panic *)
Theorem C19_random_fail_panic_frame : forall h w,
  x_sem (XRandFail false) h w = h w /\ x_sem (XRandPanic false) h w = h w
  /\ x_sem (XRandFail true) h w = (w, Fail [] (EBase T_RFAIL))
  /\ x_sem (XRandPanic true) h w = (w, Panic (PStr T_RPANIC)).
Proof. exact random_frame. Qed.
(** composition: [pre (X (post h))], X one of the three, pre / post any chains of simple
    middlewares: as many handler calls as X alone makes, its kind of result through [eff pre], and
    the message context afterwards is the context before *)
Theorem C19_extra_chain_result : forall pre x post s w,
  forallb is_simple pre = true -> forallb is_simple post = true ->
  w_calls (fst (xstack repaired pre x post s w)) = w_calls (fst (x_sem x (scripted (map_res (effo post) s)) w))
  /\ rkind (snd (xstack repaired pre x post s w)) = eff pre (rkind (snd (x_sem x (scripted (map_res (effo post) s)) w)))
  /\ m_ctx (w_msg (fst (xstack repaired pre x post s w))) = m_ctx (w_msg w).
Proof. exact x_chain_result. Qed.
(** the acceptor the check evaluates on these cases accepts every run of the model *)
Theorem C19_extra_model_accepted : forall pre x post s w0,
  forallb is_simple pre = true -> forallb is_simple post = true ->
  let '(tr, r, v) := observe (xstack repaired pre x post s) w0 in
  x_accept pre x post s w0 tr r v = true.
Proof. exact x_accepted. Qed.
Theorem C19_extra_case_model_accepted : forall c,
  forallb is_simple (x_pre c) = true -> forallb is_simple (x_post c) = true -> m_ctx (x_init c) = [] ->
  x_violates (XC (x_pre c) (x_xs c) (x_post c) (x_script c) (x_init c) (x_model repaired c)) = false.
Proof. exact x_case_model_accepted. Qed.

(** Recoverer in front of the Router (C02 model [handle]): a handler that panics without having
    settled the message reaches the Router as an error without outputs, so the Router Nacks and
    publishes nothing *)
Theorem C19_recoverer_router_nacks : forall pk pb v (h : handler) w p,
  m_settle (w_msg w) = Unsettled -> snd (h w) = Panic p -> m_settle (w_msg (fst (h w))) = Unsettled ->
  chain_in_router (mw_sem v MRecoverer h) w = RH.CR RH.PreNone (RH.Fail [])
  /\ MM.st (fst (RH.handle pk pb (chain_in_router (mw_sem v MRecoverer h) w))) = Nacked
  /\ RH.publishes (snd (RH.handle pk pb (chain_in_router (mw_sem v MRecoverer h) w))) = [].
Proof. exact recoverer_router_nacks. Qed.
(** InstantAck anywhere in a chain of simple middlewares in front of the Router: the message ends
    Acked whatever the handler returns and whatever the publisher does *)
Theorem C19_instant_ack_router_acks : forall pk pb outer inner s w,
  forallb is_simple outer = true -> forallb is_simple inner = true -> m_settle (w_msg w) = Unsettled ->
  MM.st (fst (RH.handle pk pb (chain_in_router (stack repaired (outer ++ MInstantAck :: inner) (scripted s)) w))) = Acked.
Proof. exact instant_ack_router_acks. Qed.

(** the timing acceptors the check evaluates (Corr/C19.v) never reject what the clock models do *)
Theorem C19_throttle_model_accepted : forall p slack, (0 < p)%Z -> (0 <= slack)%Z -> forall arr t0,
  thr_violates (Thr p slack (throttle_run p (new_ticker t0 p) t0 arr)) = false.
Proof. exact thr_model_accepted. Qed.
Theorem C19_throttle_count_model_accepted : forall p, (0 < p)%Z -> forall arr t0,
  let starts := throttle_run p (new_ticker t0 p) t0 arr in
  thr_count_violates p (Z.of_nat (length starts)) t0 (last starts t0) = false.
Proof. exact thr_count_model_accepted. Qed.
Theorem C19_deadline_model_accepted : forall c dmin slack, timeouts c <> [] -> (forall d, In d (timeouts c) -> (dmin <= d)%Z) ->
  (0 <= slack)%Z -> forall n lats lates waits,
  dl_violates (DL dmin slack (attempts n 0 c lats lates waits) n) = false.
Proof. exact dl_model_accepted. Qed.

Print Assumptions C19_timeout_transparent.
Print Assumptions C19_throttle_model_accepted.
Print Assumptions C19_throttle_count_model_accepted.
Print Assumptions C19_deadline_model_accepted.
Print Assumptions C19_duplicator_twice.
Print Assumptions C19_random_fail_panic_frame.
Print Assumptions C19_extra_chain_result.
Print Assumptions C19_extra_model_accepted.
Print Assumptions C19_extra_case_model_accepted.
Print Assumptions C19_recoverer_router_nacks.
Print Assumptions C19_instant_ack_router_acks.
Print Assumptions C19_chain_model_accepted.
Print Assumptions C19_case_model_accepted.
Print Assumptions C19_arriving_deadline.
Print Assumptions C19_deadline_lower_bound.
Print Assumptions C19_deadline_attempts.
Print Assumptions C19_deadline_attempts_meaning.
Print Assumptions C19_composes_with_retry_middle.
Print Assumptions C19_composes_with_retry_middle_same_handler.
Print Assumptions C19_model_accepted.
Print Assumptions C19_timeout_deadline_visible.
Print Assumptions C19_correlation_transparent.
Print Assumptions C19_correlation_never_overwrites.
Print Assumptions C19_recoverer_never_escapes.
Print Assumptions C19_ignore_errors_transparent.
Print Assumptions C19_ignore_errors_by_cause.
Print Assumptions C19_instant_ack_before_call.
Print Assumptions C19_throttle_breaker_transparent.
Print Assumptions C19_throttle_rate.
Print Assumptions C19_throttle_rate_any_context.
Print Assumptions C19_throttle_ctx_watching_wait_breaks_rate.
Print Assumptions C19_throttle_rate_meaning.
Print Assumptions C19_throttle_window.
Print Assumptions C19_delay_transparent.
Print Assumptions C19_delay_counts_failures.
Print Assumptions C19_delay_fresh_message.
Print Assumptions C19_delay_schedule.
Print Assumptions C19_delay_schedule_bounds.
Print Assumptions C19_delay_schedule_refuted.
Print Assumptions C19_effect_ends_with_call.
Print Assumptions C19_effect_ends_with_call_refuted.
Print Assumptions C19_chain_result.
Print Assumptions C19_composes_with_retry.
Print Assumptions C19_composes_with_retry_same_handler.
Print Assumptions C19_composes_with_retry_refuted.

(** non-vacuity: Retry{3} around Timeout around DelayOnError{100, 1000, 3/2} around a handler that
    fails twice and then succeeds: three attempts, each sees a deadline and a live context, the
    delay went 100 -> 150, the context is back *)
Example C19_witness :
  let '(w, r) := stack repaired [MRetry 3; MTimeout 5; MDelay (DCfg 100 1000 3 2)]
                   (scripted [Call [] (Fail [] (EBase 7)); Call [] (Fail [] (EBase 7)); Call [] (Ret [OSelf])])
                   (init_world (MSt [] [] false Unsettled None)) in
  w_calls w = 3%nat /\ r = Ret [OSelf] /\ m_ctx (w_msg w) = []
  /\ mget K_DFOR (m_meta (w_msg w)) = MDur 150
  /\ map (fun e => match e with ECall _ v => (v_done v, v_deadline v) | _ => (true, None) end) (w_trace w)
     = [(false, Some 5%Z); (false, Some 5%Z); (true, None); (false, Some 5%Z)].
Proof. vm_compute. repeat split. Qed.
(** the hypotheses of the schedule theorem are satisfiable with a fractional multiplier *)
Example C19_schedule_witness :
  sched repaired (DCfg 400 100000 3 2) 3 = 900%Z /\ sched pinned (DCfg 400 100000 3 2) 3 = 400%Z.
Proof. vm_compute. split; reflexivity. Qed.
