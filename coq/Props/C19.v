(** C19 — simple middlewares change only what they document and only during the call. *)
From WM Require Import Base.Prelude Simple.Model Simple.Monitor Simple.Proofs.

Theorem C19_recoverer_never_escapes : forall v (h : handler) w,
  match snd (h w) with
  | Panic p => snd (mw_sem v MRecoverer h w) = Fail [] (ERecovered p)
  | r => snd (mw_sem v MRecoverer h w) = r
  end /\ (forall p, snd (mw_sem v MRecoverer h w) <> Panic p).
Proof. exact recoverer_never_escapes. Qed.
Print Assumptions C19_recoverer_never_escapes.
