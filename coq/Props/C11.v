(** C11 — Persistent GoChannel replays the whole topic to every subscription exactly once.
    Models: GoChannel/Reg.v (which (publication, subscription) pairs get a Sender: publish
    snapshot or persistent replay) and GoChannel/Sub.v (what one Sender does). *)
From WM Require Import Base.Prelude Message.Model GoChannel.Sub GoChannel.SubProofs
                       GoChannel.Reg GoChannel.RegWitness GoChannel.RegLocks GoChannel.RegInv GoChannel.RegSend.

(** THE theorem.  Persistent mode, every schedule of any number of Publish / Subscribe / cancel /
    Close calls: a registered subscription has EXACTLY ONE Sender for every message of its topic
    whose snapshot was taken - whether the message was published before the Subscribe (replayed
    from the log), during it (the Publish waits behind the Subscribe's write lock + topic lock) or
    after it (in the publish snapshot).  Never zero (none missed), never two (none doubled). *)
Theorem C11_exactly_one_sender_per_message : forall pers blk fx ls x k p,
  let s := grun (ginit pers blk fx) ls in
  persistent s = true -> In x (subs s k) -> In p (sent s) -> ptopic s p = k ->
  nsenders s p x = 1.
Proof. exact persistent_exactly_one. Qed.
Print Assumptions C11_exactly_one_sender_per_message.

(** in any mode: at most one *)
Theorem C11_at_most_one_sender : forall pers blk fx ls p x,
  nsenders (grun (ginit pers blk fx) ls) p x <= 1.
Proof. exact sender_unique. Qed.
Print Assumptions C11_at_most_one_sender.


(** a Sender whose subscriber always Acks delivers exactly one copy: a second copy exists only
    after a Nack of the first *)
Theorem C11_one_copy_per_sender_when_acking : forall (cap0 : nat) (fx : bool) (ls : list label),
  let s := srun (sinit cap0 fx) ls in
  forall c1 c2, c1 < c2 -> c2 < next s ->
  c_thr (copies s c1) = c_thr (copies s c2) -> c_st (copies s c1) = Nacked.
Proof. exact no_duplicate_without_nack. Qed.
Print Assumptions C11_one_copy_per_sender_when_acking.

(** sanity run of the registry: message 1 published before, message 2 during (the Publish
    blocks behind the Subscribe's write lock) and message 3 after a persistent Subscribe: the
    subscription gets exactly one Sender for each *)
Theorem C11_replay_witness :
  let s := grun (ginit true false true)
             ([GPublish 0 0 [1]] ++ repeat (GT 0) 8 ++
              [GSubscribe 5 0; GS_ 5; GS_ 5; GS_ 5; GS_ 5; GS_ 5] ++
              [GPublish 1 0 [2]; GT 1; GT 1] ++
              repeat (GS_ 5) 5 ++ repeat (GT 1) 8 ++
              [GPublish 2 0 [3]] ++ repeat (GT 2) 8) in
  map (fun p => nsenders s p 5) [1; 2; 3] = [1; 1; 1] /\ sb s 5 = SDone 0
  /\ Reg.thr s 1 = PDone true /\ Reg.thr s 2 = PDone true.
Proof. exact replay_once. Qed.
Print Assumptions C11_replay_witness.

(** ** Round "proofs": the two layers composed *)
From Coq Require Permutation.
From WM Require GoChannel.SubOnce GoChannel.Monitor GoChannel.MonitorSound GoChannel.ReplayCompose.

(** "every subscription receives every message of the topic exactly once" over BOTH layers, in the
    vocabulary of the acceptor ([Monitor.count_recv] on the API history of subscription x): the
    registry gives (p, x) exactly one Sender; that Sender is the [LSpawn] of the per-subscription
    model (glue: the publications spawned on x are a permutation of those that have a Sender for
    x); with a consumer that always Acks p is never received twice, and it is received exactly
    once when its Sender has returned and x was never cancelled / closed. *)
Theorem C11_replay_exactly_once_composed : forall pers blk fx gls x k cap0 fa ls p,
  let g := grun (ginit pers blk fx) gls in
  let a := srun (sinit cap0 fa) ls in
  let h := MonitorSound.trace x (sinit cap0 fa) ls in
  Permutation.Permutation (MonitorSound.spawn_pubs ls) (ReplayCompose.sender_pubs g x) ->
  persistent g = true -> In x (subs g k) -> SubOnce.no_nack ls = true ->
  In p (sent g) -> ptopic g p = k ->
  nsenders g p x = 1
  /\ In p (MonitorSound.spawn_pubs ls)
  /\ Monitor.count_recv h x p <= 1
  /\ (closing a = false -> forall t, Sub.thr a t = Sub.SDone p -> Monitor.count_recv h x p = 1).
Proof. exact ReplayCompose.replay_exactly_once_composed. Qed.
Print Assumptions C11_replay_exactly_once_composed.

(** any mode, any subscription: with an acking consumer nothing is received twice *)
Theorem C11_replay_at_most_once_composed : forall pers blk fx gls x cap0 fa ls p,
  let g := grun (ginit pers blk fx) gls in
  Permutation.Permutation (MonitorSound.spawn_pubs ls) (ReplayCompose.sender_pubs g x) ->
  SubOnce.no_nack ls = true ->
  Monitor.count_recv (MonitorSound.trace x (sinit cap0 fa) ls) x p <= 1.
Proof. exact ReplayCompose.replay_at_most_once_composed. Qed.
Print Assumptions C11_replay_at_most_once_composed.

(** the Layer A half on its own: an acking consumer, one Sender per publication *)
Theorem C11_acking_exactly_once : forall x cap0 fx ls,
  SubOnce.no_nack ls = true -> NoDup (MonitorSound.spawn_pubs ls) ->
  forall t p, closing (srun (sinit cap0 fx) ls) = false ->
  Sub.thr (srun (sinit cap0 fx) ls) t = Sub.SDone p ->
  Monitor.count_recv (MonitorSound.trace x (sinit cap0 fx) ls) x p = 1
  /\ exists c, c < next (srun (sinit cap0 fx) ls)
       /\ c_thr (copies (srun (sinit cap0 fx) ls) c) = t
       /\ c_pub (copies (srun (sinit cap0 fx) ls) c) = p
       /\ c_recv (copies (srun (sinit cap0 fx) ls) c) = true
       /\ c_st (copies (srun (sinit cap0 fx) ls) c) = Acked.
Proof. exact SubOnce.acking_exactly_once. Qed.
Print Assumptions C11_acking_exactly_once.

(** ** Round "proofs 2": in the composed system (GoChannel/Compose.v) the glue is a theorem *)
From WM Require GoChannel.Compose GoChannel.ComposeLive.
(** persistent Pub/Sub, composed with one send protocol per subscription: a registered
    subscription has exactly one Sender in the registry for every message of its topic whose
    snapshot was taken, and that Sender is a started thread of the subscription's own instance,
    which is a run of the per-subscription model *)
Theorem C11_replay_sender_in_instance : forall pers blk fx caps fa cls x k p,
  let c := Compose.crun (Compose.cinit pers blk fx caps fa) cls in
  persistent (Compose.cg c) = true -> In x (subs (Compose.cg c) k) ->
  In p (sent (Compose.cg c)) -> ptopic (Compose.cg c) p = k ->
  nsenders (Compose.cg c) p x = 1 /\ Sub.thr (Compose.ci c x) p <> Sub.SNone
  /\ srun (sinit (caps x) fa) (Compose.sub_labels x (Compose.cinit pers blk fx caps fa) cls)
     = Compose.ci c x.
Proof. exact ComposeLive.replay_sender_in_instance. Qed.
Print Assumptions C11_replay_sender_in_instance.

(** ** Round "proofs 3": exactly once in the composition, in the acceptor's vocabulary *)
From WM Require GoChannel.ComposeTrace.
(** every composed run in which the consumer of x never Nacks: no publication is received twice
    by x; and in a persistent Pub/Sub, for a registered x and a message p of its topic whose
    snapshot was taken, there is exactly one Sender, it is a started thread of x's instance, and
    once it has returned (x not closing) the history of x contains exactly one receipt of p -
    [Monitor.count_recv ... = 1] is the test [Monitor.mon_persistent_replay] applies.  No glue
    hypothesis: the Permutation of [C11_replay_exactly_once_composed] is a theorem here. *)
Theorem C11_replay_count_sound_composed : forall pers blk fx caps fa cls x k p,
  let c := Compose.crun (Compose.cinit pers blk fx caps fa) cls in
  let h := MonitorSound.trace x (sinit (caps x) fa)
             (Compose.sub_labels x (Compose.cinit pers blk fx caps fa) cls) in
  ComposeTrace.consumer_acks cls x = true ->
  Monitor.count_recv h x p <= 1
  /\ (persistent (Compose.cg c) = true -> In x (subs (Compose.cg c) k) ->
      In p (sent (Compose.cg c)) -> ptopic (Compose.cg c) p = k ->
      nsenders (Compose.cg c) p x = 1 /\ Sub.thr (Compose.ci c x) p <> Sub.SNone
      /\ (closing (Compose.ci c x) = false -> (exists q, Sub.thr (Compose.ci c x) p = Sub.SDone q) ->
          Monitor.count_recv h x p = 1)).
Proof. exact ComposeTrace.replay_exactly_once_in_composition. Qed.
Print Assumptions C11_replay_count_sound_composed.
