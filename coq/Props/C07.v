(** C07 — GoChannel Close and subscription cancel always terminate safely.
    Models: GoChannel/Sub.v (Layer A), GoChannel/Reg.v (Layer B), Decorator/Pump.v (the
    MessageTransform subscriber decorator in front of a subscription). *)
From WM Require Import Base.Prelude Message.Model GoChannel.Sub GoChannel.SubProofs
                       GoChannel.Reg GoChannel.RegWitness.

(** per subscription: for every buffer size, any number of Senders, every consumer behaviour,
    every moment of the cancel/Close and every schedule - no send on a closed channel, no
    double close of s.closing or of the output channel *)
Theorem C07_subscription_never_panics : forall cap0 fx ls, Sub.panicked (srun (sinit cap0 fx) ls) = false.
Proof. exact sub_no_panic. Qed.
Print Assumptions C07_subscription_never_panics.

(** per subscription (absence of deadlock; termination itself is the measure argument of the
    registry layer): once the teardown of a subscription has been woken (context cancelled or
    Pub/Sub closing) it is never stuck - either it can step itself, or the Sender that holds the
    sending lock can: unread channel, unsettled message, Nack in progress notwithstanding *)
Theorem C07_teardown_never_stuck_partial : forall cap0 fx ls,
  let s := srun (sinit cap0 fx) ls in
  match Sub.td s with
  | TSignal | TLocked | TExit => sstep s LTdStep <> None
  | TWant =>
      sstep s LTdStep <> None
      \/ exists t, sending s = Some (OSender t)
                   /\ (sstep s (LStep t) <> None \/ sstep s (LSeeClosing t) <> None)
  | _ => True
  end.
Proof. exact teardown_never_stuck. Qed.
Print Assumptions C07_teardown_never_stuck_partial.

(** "without panic ... whatever publishers are doing ... persistent mode" is FALSE of the pinned
    code (D7): a persistent Publish that passed the closed check runs after Close set the log to
    nil - assignment to entry in nil map.  Witness schedule, replayed on the implementation. *)
Theorem C07_no_panic_refuted : Reg.panicked (grun (ginit true false false) d7_schedule) = true.
Proof. exact d7_panics. Qed.
Print Assumptions C07_no_panic_refuted.

(** the same schedule on the repaired Publish: no panic, Publish returns *)
Theorem C07_no_panic_fixed_witness :
  let s := grun (ginit true false true) (d7_schedule ++ [GT 0; GT 0; GT 0; GT 0]) in
  Reg.panicked s = false /\ Reg.thr s 0 = PDone true.
Proof. exact d7_fixed. Qed.
Print Assumptions C07_no_panic_fixed_witness.
