(** C07 — GoChannel Close and subscription cancel always terminate safely.
    Models: GoChannel/Sub.v (Layer A), GoChannel/Reg.v (Layer B), Decorator/Pump.v (the
    MessageTransform subscriber decorator in front of a subscription). *)
From WM Require Import Base.Prelude Message.Model GoChannel.Sub GoChannel.SubProofs
                       GoChannel.Reg GoChannel.RegWitness GoChannel.RegLocks GoChannel.RegInv GoChannel.RegSend GoChannel.RegLive.
From WM Require Decorator.Pump Decorator.PumpProofs GoChannel.SubInvX GoChannel.SubLive.

(** per subscription: for every buffer size, any number of Senders, every consumer behaviour,
    every moment of the cancel/Close and every schedule - no send on a closed channel, no
    double close of s.closing or of the output channel *)
Theorem C07_subscription_never_panics : forall cap0 fx ls, Sub.panicked (srun (sinit cap0 fx) ls) = false.
Proof. exact sub_no_panic. Qed.
Print Assumptions C07_subscription_never_panics.

(** per subscription (absence of deadlock; termination itself is the measure argument of the
    registry layer): once the teardown of a subscription has been woken (context cancelled or
    Pub/Sub closing) it is never stuck - either it can step itself, or the Sender that holds the
    sending lock can: unread channel, unsettled message, Nack in progress notwithstanding *)
Theorem C07_teardown_never_stuck_partial : forall cap0 fx ls,
  let s := srun (sinit cap0 fx) ls in
  match Sub.td s with
  | TSignal | TLocked | TExit => sstep s Sub.LTdStep <> None
  | TWant =>
      sstep s Sub.LTdStep <> None
      \/ exists t, sending s = Some (OSender t)
                   /\ (sstep s (Sub.LStep t) <> None \/ sstep s (Sub.LSeeClosing t) <> None)
  | _ => True
  end.
Proof. exact teardown_never_stuck. Qed.
Print Assumptions C07_teardown_never_stuck_partial.

(** ... and it TERMINATES: once the teardown has been woken, every run of steps that needs neither
    the consumer (receive, Ack, Nack, hand-off) nor a new Sender is at most [measure] steps long
    (a Sender's jump back to the loop head is paid for by the consumer's Nack), and where such a
    run cannot be extended the teardown is done, s.closing and the output channel are closed
    (exactly once: no panic), the sending lock is free and every Sender that was started has
    returned - for every buffer size, every earlier history [ls0], both loop variants, whatever
    the scheduler does *)
Theorem C07_teardown_terminates : forall cap0 fx ls0 ls s',
  let s := srun (sinit cap0 fx) ls0 in
  let T := SubLive.spawned ls0 in
  SubLive.woken (Sub.td s) = true -> forallb SubLive.quiet ls = true -> sreplay s ls = Some s' ->
  length ls + SubLive.measure T s' <= SubLive.measure T s
  /\ ((forall l, SubLive.quiet l = true -> sstep s' l = None) -> SubLive.finished s').
Proof. exact SubLive.teardown_terminates. Qed.
Print Assumptions C07_teardown_terminates.

(** "without panic ... whatever publishers are doing ... persistent mode" is FALSE of the pinned
    code (D7): a persistent Publish that passed the closed check runs after Close set the log to
    nil - assignment to entry in nil map.  Witness schedule, replayed on the implementation. *)
Theorem C07_no_panic_refuted : Reg.panicked (grun (ginit true false false) d7_schedule) = true.
Proof. exact d7_panics. Qed.
Print Assumptions C07_no_panic_refuted.

(** the same schedule on the repaired Publish: no panic, Publish returns *)
Theorem C07_no_panic_fixed_witness :
  let s := grun (ginit true false true) (d7_schedule ++ [GT 0; GT 0; GT 0; GT 0]) in
  Reg.panicked s = false /\ Reg.thr s 0 = Reg.PDone true.
Proof. exact d7_fixed. Qed.
Print Assumptions C07_no_panic_fixed_witness.

(** ** Registry layer, all schedules, any number of Publish / Subscribe / cancel / Close calls *)

(** after the D7 repair the registry never panics: no "cannot remove subscriber, not found",
    no negative WaitGroup counter, no double close of g.closing, no nil-map write - persistent
    or not, blocking or not *)
Theorem C07_registry_never_panics : forall pers blk ls, Reg.panicked (grun (ginit pers blk true) ls) = false.
Proof. exact reg_no_panic. Qed.
Print Assumptions C07_registry_never_panics.

(** "After Close has returned ...": the Pub/Sub is closed, no subscription is registered, every
    teardown that was started is past wg.Done() (so every output channel is closed - Layer A) *)
Theorem C07_after_close : forall pers blk fx ls t,
  let s := grun (ginit pers blk fx) ls in
  Reg.thr s t = Reg.CDone ->
  closed s = true /\ Reg.wg s = 0 /\ (forall k, subs s k = [])
  /\ (forall x, Reg.td s x = DNone \/ td_post (Reg.td s x) = true).
Proof. exact after_close. Qed.
Print Assumptions C07_after_close.

(** "... Publish and Subscribe return an error" *)
Theorem C07_publish_after_close_fails : forall s t k ms s',
  closed s = true -> Reg.thr s t = PCheck k ms -> gstep s (GT t) = Some s' -> Reg.thr s' t = Reg.PDone false.
Proof. exact after_close_publish. Qed.
Print Assumptions C07_publish_after_close_fails.
Theorem C07_subscribe_after_close_fails : forall s x k s',
  closed s = true -> sb s x = SCheck k -> gstep s (GS_ x) = Some s' -> sb s' x = SFail.
Proof. exact after_close_subscribe. Qed.
Print Assumptions C07_subscribe_after_close_fails.

(** Close, cancel and every concurrent Publish / Subscribe terminate (non-blocking mode; in
    blocking mode it is false: C05_blocking_returns_refuted): as long as anything is busy some
    internal step of a started thread is enabled (no deadlock) ... *)
Theorem C07_registry_no_deadlock : forall pers fx ls,
  let s := grun (ginit pers false fx) ls in
  busy s -> exists l, internal l = true /\ en s l
            /\ match l with
               | GT t => In t (allthr s)
               | GS_ x | GD x => In x (allsubs s)
               | _ => False
               end.
Proof. exact reg_progress. Qed.
Print Assumptions C07_registry_no_deadlock.

(** ... and every internal step strictly decreases a measure: every run of internal steps from a
    reachable state is at most [measure s] long, and where it stops nothing is busy - whatever
    the scheduler does, no fairness assumed *)
Theorem C07_registry_terminates : forall pers fx ls ils s',
  let s := grun (ginit pers false fx) ls in
  forallb internal ils = true -> greplay s ils = Some s' ->
  length ils + measure s' <= measure s
  /\ ((forall l, internal l = true -> ~ en s' l) -> ~ busy s').
Proof. exact reg_terminates. Qed.
Print Assumptions C07_registry_terminates.

(** ** The MessageTransform subscriber decorator in front of a subscription (Decorator/Pump.v) *)

(** the decorated channel is closed at most once, the WaitGroup never goes negative *)
Theorem C07_decorator_never_panics : forall fx ls, Pump.panicked (Pump.prun (Pump.pinit fx) ls) = false.
Proof. exact PumpProofs.pump_no_panic. Qed.
Print Assumptions C07_decorator_never_panics.

(** FALSE of the pinned decorator (D8): one message parked in the Pump.pump, nobody reads: Close
    waits for the Pump.pump, the Pump.pump for the consumer; after a cancel the decorated channel is never
    closed.  Witnesses replayed on the implementation. *)
Theorem C07_decorated_close_refuted :
  let s := Pump.prun (Pump.pinit false) PumpProofs.d8_schedule in
  Pump.closer s = Pump.CWait /\ Pump.pump s = Pump.PSend 1 /\ Pump.can_move s = false /\ Pump.out_closed s = false /\ Pump.panicked s = false.
Proof. exact PumpProofs.d8_close_hangs. Qed.
Print Assumptions C07_decorated_close_refuted.
Theorem C07_decorated_cancel_refuted :
  let s := Pump.prun (Pump.pinit false) PumpProofs.d8_cancel_schedule in
  Pump.ctx_done s = true /\ Pump.pump s = Pump.PSend 1 /\ Pump.can_move s = false /\ Pump.out_closed s = false.
Proof. exact PumpProofs.d8_cancel_never_closes. Qed.
Print Assumptions C07_decorated_cancel_refuted.

(** the repaired decorator: while a Close is in progress, or after a cancel, and the Pump.pump has not
    finished, something can move WITHOUT the consumer reading and without a new message ... *)
Theorem C07_decorated_close_never_stuck : forall ls,
  let s := Pump.prun (Pump.pinit true) ls in
  (match Pump.closer s with Pump.CInner | Pump.CSignal | Pump.CWait => True | _ => False end
   \/ (Pump.ctx_done s = true /\ Pump.pump s <> Pump.PDone)) ->
  Pump.can_move s = true.
Proof. exact PumpProofs.fixed_close_never_stuck. Qed.
Print Assumptions C07_decorated_close_never_stuck.

(** ... and every such step decreases a measure: Close / cancel terminate *)
Theorem C07_decorated_internal_steps_terminate : forall s l s',
  In l Pump.internal_labels -> Pump.pstep s l = Some s' -> PumpProofs.measure s' < PumpProofs.measure s.
Proof. exact PumpProofs.internal_step_decreases. Qed.
Print Assumptions C07_decorated_internal_steps_terminate.

(** the D8 schedule on the repaired decorator runs to completion, the parked message is Pump.dropped *)
Example C07_decorated_close_fixed_witness :
  let s := Pump.prun (Pump.pinit true) (PumpProofs.d8_schedule ++ [Pump.LSeeClosing; Pump.LPump; Pump.LPump; Pump.LPump; Pump.LCloseStep]) in
  Pump.closer s = Pump.CDone /\ Pump.pump s = Pump.PDone /\ Pump.out_closed s = true /\ Pump.dropped s = [1] /\ Pump.panicked s = false.
Proof. exact PumpProofs.d8_fixed_witness. Qed.

(** ** Round "proofs 3": every Close call can always go on - any mode *)
From WM Require GoChannel.RegLive GoChannel.RegClose GoChannel.Compose GoChannel.ComposeLive GoChannel.ComposeClose.

(** registry, ANY mode (blocking too), all schedules: while a Close call has started and not
    returned some internal step is enabled - the D9 deadlock of blocking mode cannot hold up a
    Close, because a Publish waiting for Acks sees g.closing.  With the measure of the registry
    (every internal step decreases it, any mode) every maximal run of internal steps ends with
    the Close returned. *)
Theorem C07_close_never_stuck : forall pers blk fx ls t,
  let s := grun (ginit pers blk fx) ls in
  RegClose.tp_closing (Reg.thr s t) = true -> RegLive.Prog s.
Proof. exact RegClose.close_never_stuck. Qed.
Print Assumptions C07_close_never_stuck.
(** once g.closing is closed nothing at all is stuck, in any mode *)
Theorem C07_closing_progress : forall pers blk fx ls,
  let s := grun (ginit pers blk fx) ls in
  gclosing s = true -> RegLive.busy s -> RegLive.Prog s.
Proof. exact RegClose.closing_progress. Qed.
Print Assumptions C07_closing_progress.
(** the same in the composed system (registry x one send protocol per subscription, s.Close()
    of the teardown synchronised): the enabled step is registry-internal, a teardown's or
    Sender's own step, or a consumer step *)
Theorem C07_close_never_stuck_composed : forall pers blk fx caps fa cls t,
  let c := Compose.crun (Compose.cinit pers blk fx caps fa) cls in
  RegClose.tp_closing (Reg.thr (Compose.cg c) t) = true -> ComposeLive.CProg c.
Proof. exact ComposeClose.close_never_stuck_composed. Qed.
Print Assumptions C07_close_never_stuck_composed.
