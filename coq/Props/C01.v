(** C01 — End-to-end at-least-once through Router pipelines under faults.

    Model: Pipeline/Model.v — k stages (ANY k), topic 0 -> stage 0 -> topic 1 -> ... -> topic k;
    a stage = a GoChannel subscription (publication pending until one copy is Acked, a fresh
    copy per attempt, one in flight) + the Router's handleMessage ([rt_handle] = C02's
    [RouterHandle.handle]) + a fault script (per stage and call number: handler error, handler
    panic, publish error/panic after the next topic accepted the first j outputs).
    Quantifiers: every k, every handler function [hf] (any fan-out, also 0), every list of
    successfully published source messages, every fault script, every schedule [ls]
    (which pending publication of which stage is attempted next; labels that are not enabled
    are skipped, so [ls] ranges over all interleavings). *)
From WM Require Import Base.Prelude Message.Model Handler.RouterHandle Handler.RouterProofs
     GoChannel.Reg GoChannel.RegSend GoChannel.Sub GoChannel.SubProofs
     Pipeline.TopicModel Pipeline.TopicRefine
     Pipeline.Model Pipeline.Proofs Pipeline.Final Pipeline.SubLink Pipeline.ImmModel Pipeline.ImmProofs Pipeline.CtxModel Pipeline.CtxProofs GoChannel.SubCtx
     Corr.C01 Pipeline.Example Pipeline.ProductModel Pipeline.ProductProofs Pipeline.ProductExample.

From WM Require GoChannel.Compose Pipeline.ComposeRefine.

From WM Require Router.Wiring Router.WiringSpec Pipeline.OwnProofs.

Section C01.
  Context {M : Type}.
  Variable hf : nat -> M -> list M.
  Variable eqbM : M -> M -> bool.
  Hypothesis eqbM_spec : forall x y, eqbM x y = true <-> x = y.
  Notation run k sc srcs ls := (prun hf eqbM rt_handle k sc (pinit srcs) ls).

  (** everything arriving at the final topic (and everything at any topic, everything any
      handler ever saw) descends from a successfully published source message, through the
      handlers' own outputs - nothing invented, lineage preserved *)
  Theorem C01_nothing_invented : forall k sc srcs ls,
    let st := run k sc srcs ls in
    (forall y, In y (topic st k) -> In y (expected_sink hf k srcs))
    /\ sink_sound hf eqbM k srcs (topic st k) = true
    /\ forall (lin : M -> N), (forall s m o, In o (hf s m) -> lin o = lin m) ->
       (forall t m, In m (topic st t) -> exists x, In x srcs /\ lin m = lin x)
       /\ (forall d, In d (dlog st) -> exists x, In x srcs /\ lin (d_msg d) = lin x).
  Proof. exact (nothing_invented hf eqbM eqbM_spec). Qed.

  (** a stage Acks a delivered copy only after the next topic accepted every output of it (and
      after Publish returned); every fault ends in a Nack, never in an unsettled copy *)
  Theorem C01_ack_only_after_next_accepted : forall k sc srcs ls,
    let st := run k sc srcs ls in
    log_ok hf eqbM (dlog st) = true
    /\ forall d, In d (dlog st) ->
       (d_final d = Acked ->
          d_fwd d = hf (d_stage d) (d_msg d) /\ ack_after_publish (d_tr d) false = true)
       /\ (d_final d = Acked \/ d_final d = Nacked)
       /\ (d_final d = Acked -> d_fault d = FNone \/ hf (d_stage d) (d_msg d) = [])
       /\ (d_fault d = FNone -> d_final d = Acked)
       /\ d_fault d = sc (d_stage d) (d_call d).
  Proof. exact (ack_only_after_next_accepted hf eqbM eqbM_spec). Qed.

  (** until it is Acked the publication stays with its topic, i.e. it is redelivered *)
  Theorem C01_pending_until_acked : forall k sc st s m st',
    pstep hf eqbM rt_handle k sc st (s, m) = Some st' ->
    exists d, dlog st' = dlog st ++ [d] /\ d_stage d = s /\ d_msg d = m
              /\ (d_final d <> Acked -> In m (topic st' s)).
  Proof. exact (pending_until_acked hf eqbM eqbM_spec). Qed.

  (** ... and it IS redelivered: a Nacked attempt is followed by another attempt of the same
      message at the same stage or its publication is still pending; at quiescence every
      Nacked attempt has been followed up *)
  Theorem C01_redelivered_until_acked : forall k sc srcs ls,
    let st := run k sc srcs ls in
    (forall d, In d (unfollowed eqbM (dlog st)) -> In (d_msg d) (topic st (d_stage d)))
    /\ (quiescentb k st = true -> redelivery_ok eqbM (dlog st) = true).
  Proof. exact (redelivered_until_acked hf eqbM eqbM_spec). Qed.

  (** redelivery is IMMEDIATE (C05's one-in-flight seen from the pipeline): [pstep_imm] = [pstep]
      with the guard "while the last attempt of stage s ended in a Nack - its Sender still holds the
      sending lock - only the same message can be attempted at s".  Every guarded run is a run
      (so every theorem above holds of it), passes the monitor [immediate_ok], is finite under every
      scheduler, and is never blocked by the guard while something is pending *)
  Theorem C01_guarded_run_is_run : forall k sc ls st,
    prun_imm hf eqbM rt_handle k sc st ls
    = prun hf eqbM rt_handle k sc st (taken_imm hf eqbM rt_handle k sc st ls).
  Proof. exact (prun_imm_prun hf eqbM). Qed.

  Theorem C01_redelivery_is_immediate : forall k sc srcs ls,
    immediate_ok eqbM (dlog (prun_imm hf eqbM rt_handle k sc (pinit srcs) ls)) = true.
  Proof. exact (immediate_run hf eqbM eqbM_spec). Qed.

  Theorem C01_at_least_once_immediate : forall k sc srcs ls, eventually_clean k sc ->
    let st := prun_imm hf eqbM rt_handle k sc (pinit srcs) ls in
    Acc (psucc_imm hf eqbM k sc) st
    /\ (quiescentb k st = false -> exists l, pstep_imm hf eqbM rt_handle k sc st l <> None)
    /\ (quiescentb k st = true ->
          (forall y, In y (expected_sink hf k srcs) -> In y (topic st k))
          /\ sink_complete hf eqbM k srcs (topic st k) = true).
  Proof. exact (at_least_once_imm hf eqbM eqbM_spec). Qed.

  (** context-aware handlers (a handler fails when the context of its copy is already done at
      entry - what handlers with I/O or a Timeout middleware do): the pipeline under the context
      oracle [cl] is the pipeline under the script [sc_ctx cl sc]; at least once holds when the
      script is eventually fault-free and the delivery contexts are (eventually) live *)
  Theorem C01_at_least_once_context_aware : forall k cl sc srcs ls, eventually_clean k sc ->
    (exists B, forall s c, s < k -> B <= c -> cl s c = true) ->
    let st := prun hf eqbM rt_handle k (sc_ctx cl sc) (pinit srcs) ls in
    Acc (psucc hf eqbM rt_handle k (sc_ctx cl sc)) st
    /\ (quiescentb k st = false -> exists l, pstep hf eqbM rt_handle k (sc_ctx cl sc) st l <> None)
    /\ (quiescentb k st = true ->
          (forall y, In y (expected_sink hf k srcs) -> In y (topic st k))
          /\ sink_complete hf eqbM k srcs (topic st k) = true).
  Proof. exact (at_least_once_ctx hf eqbM eqbM_spec). Qed.

  (** the acceptors are linked to the model: the model trace the correspondence check compares the
      implementation with (strict replay of the observed schedule on the guarded model, under any
      script - in particular the context-aware script [sc_ctx cl sc] of the observed context
      oracle) passes every monitor that judges the implementation *)
  Theorem C01_replayed_model_accepted : forall k sc srcs ls st,
    preplay_imm hf eqbM rt_handle k sc (pinit srcs) ls = Some st ->
    log_ok hf eqbM (dlog st) = true
    /\ sink_sound hf eqbM k srcs (topic st k) = true
    /\ immediate_ok eqbM (dlog st) = true
    /\ (quiescentb k st = true -> sink_complete hf eqbM k srcs (topic st k) = true
                                  /\ redelivery_ok eqbM (dlog st) = true).
  Proof. exact (replayed_model_accepted hf eqbM eqbM_spec). Qed.

  (** never lost: at every moment every expected arrival is at the final topic or has a
      pending ancestor at some topic *)
  Theorem C01_never_lost : forall k sc srcs ls,
    let st := run k sc srcs ls in
    forall y, In y (expected_sink hf k srcs) ->
      In y (topic st k)
      \/ exists t m, t < k /\ In m (topic st t) /\ In y (desc hf (k - t) t m).
  Proof. exact (never_lost hf eqbM eqbM_spec). Qed.

  (** at least once: if the script has finitely many faults per stage, then from every
      reachable state every run is finite whatever the scheduler does ([Acc]), the pipeline
      stops only when nothing is pending, and then every descendant of every source message
      has arrived at the final topic *)
  Theorem C01_at_least_once : forall k sc srcs ls, eventually_clean k sc ->
    let st := run k sc srcs ls in
    Acc (psucc hf eqbM rt_handle k sc) st
    /\ (quiescentb k st = false -> exists l, pstep hf eqbM rt_handle k sc st l <> None)
    /\ (quiescentb k st = true -> forall l, pstep hf eqbM rt_handle k sc st l = None)
    /\ (quiescentb k st = true ->
          (forall y, In y (expected_sink hf k srcs) -> In y (topic st k))
          /\ sink_complete hf eqbM k srcs (topic st k) = true)
    /\ exists ls', quiescentb k (prun hf eqbM rt_handle k sc st ls') = true.
  Proof. exact (at_least_once hf eqbM eqbM_spec). Qed.

  (** in the words of the property: handlers that forward (at least one output, lineage kept)
      => every successfully published source message reaches the final topic *)
  Theorem C01_every_source_reaches_the_sink : forall k sc srcs ls (lin : M -> N),
    (forall s m o, In o (hf s m) -> lin o = lin m) -> (forall s m, hf s m <> []) ->
    let st := run k sc srcs ls in
    quiescentb k st = true ->
    forall x, In x srcs -> exists y, In y (topic st k) /\ lin y = lin x.
  Proof. exact (every_source_reaches_the_sink hf eqbM eqbM_spec). Qed.

  (** duplicates: at quiescence the number of arrivals is EXACTLY the expected number plus the
      descendants of what publish-side faults let through before failing; without
      publish-side faults there are none *)
  Theorem C01_duplicates_exact : forall k sc srcs ls,
    let st := run k sc srcs ls in
    (quiescentb k st = true ->
       length (topic st k) = length (expected_sink hf k srcs) + dup_budget hf k (dlog st))
    /\ ((forall s c j pn, sc s c <> FPub j pn) -> dup_budget hf k (dlog st) = 0).
  Proof. exact (duplicates_exact hf eqbM eqbM_spec). Qed.

  (** the model passes the monitors that judge the implementation *)
  Theorem C01_model_accepted : forall k sc srcs ls,
    let st := run k sc srcs ls in
    log_ok hf eqbM (dlog st) = true
    /\ sink_sound hf eqbM k srcs (topic st k) = true
    /\ (quiescentb k st = true -> sink_complete hf eqbM k srcs (topic st k) = true)
    /\ (quiescentb k st = true -> redelivery_ok eqbM (dlog st) = true).
  Proof. exact (model_accepted hf eqbM eqbM_spec). Qed.
End C01.

(** GoChannel delivers EVERY copy - redeliveries included - with a live context (C04), so for
    GoChannel the oracle is constantly true and a context-aware pipeline is the pipeline; a stage
    whose redeliveries kept arriving with a dead context would be a fault that never stops *)
Theorem C01_delivery_context_is_live : forall cap0 fx ls, let s := srun (sinit cap0 fx) ls in
  (forall t p c s', Sub.thr s t = SSend p c -> sstep s (LHandoff t) = Some s' ->
     ctx_live s c = true /\ ctx_live s' c = true)
  /\ (forall c b s', buf s = c :: b -> closing s = false -> sstep s LRecv = Some s' ->
     ctx_live s c = true /\ ctx_live s' c = true).
Proof. exact delivery_ctx_live. Qed.

Theorem C01_live_contexts_change_nothing : forall cl sc, (forall s c, cl s c = true) ->
  forall s c, sc_ctx cl sc s c = sc s c.
Proof. exact sc_ctx_live. Qed.

Theorem C01_dead_contexts_never_stop : forall k cl sc s, s < k ->
  (forall B, exists c, B <= c /\ cl s c = false) -> ~ eventually_clean k (sc_ctx cl sc).
Proof. exact dead_contexts_never_clean. Qed.

(** ** the PRODUCT (Pipeline/ProductModel.v): k GoChannel topics, each the composition registry x
    send loop with one always-registered subscription and started from a fresh GoChannel, the final
    topic, the source publisher, and one Router step ([rt_handle]) per delivered copy.  Every run
    of this composition maps to a run of the abstract pipeline model (forward simulation [XR]: the
    pending publications of every GoChannel topic, as messages, plus the unpublished sources are a
    permutation of the abstract topic; same final topic up to order, same call counters, same log of
    Router steps), so the safety theorems hold of the composition *)
Section C01_product.
  Context {M : Type}.
  Variable hf : nat -> M -> list M.
  Variable eqbM : M -> M -> bool.
  Hypothesis eqbM_spec : forall a b, eqbM a b = true <-> a = b.
  Variables (x : Reg.subid) (k : nat) (sc : script) (srcs : list M) (dflt : M).
  Hypothesis k_pos : 0 < k.
  Variables (pers blk fx : bool) (cap0 : nat) (sfx : bool).
  Notation fresh := (xinit (fun _ => cinit pers blk fx cap0 sfx) dflt).
  Notation xrun_ ls := (xrun hf x k sc srcs fresh ls).

  Theorem C01_product_refines : forall ls,
    exists pls, XR x k srcs (xrun_ ls) (prun hf eqbM rt_handle k sc (pinit srcs) pls).
  Proof. exact (fresh_product_refines hf eqbM eqbM_spec x k sc srcs dflt k_pos pers blk fx cap0 sfx). Qed.

  Theorem C01_product_nothing_invented : forall ls y,
    In y (xsink (xrun_ ls)) -> In y (expected_sink hf k srcs).
  Proof. exact (fresh_product_nothing_invented hf eqbM eqbM_spec x k sc srcs dflt k_pos pers blk fx cap0 sfx). Qed.

  Theorem C01_product_ack_only_after_next_accepted : forall ls,
    log_ok hf eqbM (xlog (xrun_ ls)) = true
    /\ forall d, In d (xlog (xrun_ ls)) ->
         (d_final d = Acked -> d_fwd d = hf (d_stage d) (d_msg d)
                               /\ ack_after_publish (d_tr d) false = true)
         /\ (d_final d = Acked \/ d_final d = Nacked).
  Proof. exact (fresh_product_ack_only_after_next_accepted hf eqbM eqbM_spec x k sc srcs dflt k_pos pers blk fx cap0 sfx). Qed.

  Theorem C01_product_never_lost : forall ls y, In y (expected_sink hf k srcs) ->
    In y (xsink (xrun_ ls))
    \/ exists t m, t < k /\ In m (xpending x (xrun_ ls) t ++ extra srcs (xrun_ ls) t)
                   /\ In y (desc hf (k - t) t m).
  Proof. exact (fresh_product_never_lost hf eqbM eqbM_spec x k sc srcs dflt k_pos pers blk fx cap0 sfx). Qed.

  (** liveness, PARTIAL: finitely many Router steps in every run of the composition, whatever
      happens in between; missing: finiteness of the steps between two Router steps (finite
      environment + a progress measure for the composed topic while it is not closing) *)
  Theorem C01_product_router_steps_finite_partial : forall ls, eventually_clean k sc ->
    Acc (hsucc hf x k sc srcs) (xrun_ ls).
  Proof. exact (fresh_product_router_steps_finite_partial hf eqbM eqbM_spec x k sc srcs dflt k_pos pers blk fx cap0 sfx). Qed.
End C01_product.
Print Assumptions C01_product_refines.
Print Assumptions C01_product_nothing_invented.
Print Assumptions C01_product_ack_only_after_next_accepted.
Print Assumptions C01_product_never_lost.
Print Assumptions C01_product_router_steps_finite_partial.

(** non-vacuity of the product: registration, Publish, hand-over, Nack, redelivery, Ack *)
Example C01_product_witness :
  xsink px_run = [(3%N, [0%N]); (3%N, [1%N])]
  /\ map (fun d => (d_call d, d_final d)) (xlog px_run) = [(0, Nacked); (1, Acked)]
  /\ abs 0 (xtop px_run 0) = [] /\ xnsrc px_run = 1.
Proof. exact product_witness. Qed.

(** ** the topic interface is satisfied by the REAL composed GoChannel model (GoChannel/Compose.v:
    registry x one send protocol per subscription, with every teardown, Close of other clients,
    persistent replay and blocking wait).  For a subscription x that is not cancelled while the
    Pub/Sub is not closed ([x_alive] labels), whatever all other subscriptions, publishers and
    teardowns do: every step is the abstract topic step [glab] names ([gabs] = publications with a
    Sender for x and no Acked copy) *)
Theorem C01_gochannel_refines_topic_step : forall x c l c', ComposeRefine.GInv x c ->
  ComposeRefine.x_alive x l = true -> Compose.cstep c l = Some c' ->
  ComposeRefine.GInv x c'
  /\ tstep (ComposeRefine.gabs x c) (ComposeRefine.glab x c l c') = Some (ComposeRefine.gabs x c').
Proof. exact ComposeRefine.compose_refines_step. Qed.

Theorem C01_gochannel_refines_topic : forall x pers blk fx caps fa ls,
  let c0 := Compose.cinit pers blk fx caps fa in
  treplay [] (ComposeRefine.gtrace x c0 ls)
  = Some (ComposeRefine.gabs x (ComposeRefine.grun_alive x c0 ls)).
Proof. exact ComposeRefine.compose_topic_refines. Qed.

(** no loss before the Ack *)
Theorem C01_gochannel_no_loss_before_ack : forall x c l c' p, ComposeRefine.GInv x c ->
  ComposeRefine.x_alive x l = true -> Compose.cstep c l = Some c' -> In p (ComposeRefine.gabs x c) ->
  In p (ComposeRefine.gabs x c')
  \/ exists cc, l = Compose.CSub x (LAck cc) /\ c_st (copies (Compose.ci c x) cc) = Unsettled
                /\ c_pub (copies (Compose.ci c x) cc) = p.
Proof. exact ComposeRefine.compose_no_loss_before_ack. Qed.

(** redelivery after a Nack: the Sender's next two steps are enabled in the composed system and
    offer a fresh, unsettled copy of the same publication *)
Theorem C01_gochannel_redelivers_after_nack : forall x c t p cc, ComposeRefine.GInv x c ->
  Sub.thr (Compose.ci c x) t = SWait p cc -> c_st (copies (Compose.ci c x) cc) = Nacked ->
  exists c1, Compose.cstep c (Compose.CSub x (LSeeNacked t)) = Some c1
    /\ exists c2, Compose.cstep c1 (Compose.CSub x (LStep t)) = Some c2
       /\ Sub.thr (Compose.ci c2 x) t = SSend p (next (Compose.ci c x))
       /\ c_pub (copies (Compose.ci c2 x) (next (Compose.ci c x))) = p
       /\ c_st (copies (Compose.ci c2 x) (next (Compose.ci c x))) = Unsettled.
Proof. exact ComposeRefine.compose_redelivers_after_nack. Qed.

Theorem C01_gochannel_one_in_flight : forall x c, ComposeRefine.GInv x c ->
  length (outstanding (Compose.ci c x)) <= 1.
Proof. exact ComposeRefine.compose_one_in_flight. Qed.
Print Assumptions C01_gochannel_refines_topic_step.
Print Assumptions C01_gochannel_refines_topic.
Print Assumptions C01_gochannel_no_loss_before_ack.
Print Assumptions C01_gochannel_redelivers_after_nack.
Print Assumptions C01_gochannel_one_in_flight.

(** ** middleware ownership on the pipeline's Router(s) (C09's statement, used as a C01 monitor): what
    the wiring model enters for a handler - the router-level middlewares and the handler's OWN, in
    registration order - is accepted by [mw_own_ok], and an accepted call entered no middleware of
    another handler, whatever that handler's name (the empty name included): no foreign
    error-swallowing / instant-ack middleware can decide about a stage's message *)
Theorem C01_middleware_ownership_model_accepted : forall regs name,
  mw_own_ok (regs, name, map Wiring.r_id (WiringSpec.effective name regs)) = true.
Proof. exact OwnProofs.mw_own_model_accepted. Qed.

Theorem C01_middleware_ownership_sound : forall regs name ran, mw_own_ok (regs, name, ran) = true ->
  forall id, In id ran ->
  exists r, In r regs /\ Wiring.r_id r = id
            /\ (Wiring.r_router r = true \/ Wiring.r_hname r = name).
Proof. exact OwnProofs.mw_own_sound. Qed.
Print Assumptions C01_middleware_ownership_model_accepted.
Print Assumptions C01_middleware_ownership_sound.

(** the fairness hypothesis is satisfiable: every finite script has it *)
Theorem C01_finite_scripts_are_fair : forall k (l : list (list fault)), eventually_clean k (sc_of l).
Proof. exact sc_of_eventually_clean. Qed.

(** the topic abstraction is what the detailed per-subscription model of pubsub.go does: after
    n Nacks and one Ack the Sender has made exactly n+1 fresh copies of its publication, all
    but the last Nacked, and has left the loop; and it never makes a further copy *)
Theorem C01_topic_attempt_loop : forall cap0 fx p nacks,
  let s := srun (spawned cap0 fx p) (attempts 0 0 nacks) in
  sreplay (spawned cap0 fx p) (attempts 0 0 nacks) = Some s
  /\ next s = S nacks
  /\ (forall c, c < nacks -> copies s c = CP p 0 Nacked true true)
  /\ copies s nacks = CP p 0 Acked true true
  /\ thr s 0 = SExit p /\ outstanding s = [].
Proof. exact attempt_loop. Qed.

Theorem C01_topic_resends_only_after_nack : forall cap0 fx ls,
  let s := srun (sinit cap0 fx) ls in
  forall c1 c2, c1 < c2 -> c2 < next s -> c_thr (copies s c1) = c_thr (copies s c2) ->
  c_st (copies s c1) = Nacked.
Proof. exact no_duplicate_without_nack. Qed.

(** ** the topic abstraction is a THEOREM about the two GoChannel layers (Pipeline/TopicModel.v:
    Layer B = the registry of pubsub.go over all topics, threads and subscriptions, composed with
    Layer A = the send loop of subscription x; no cancel / teardown of x, no Close).  [abs] = the
    publications that have a Sender for x and no Acked copy.  Every step of the composed system is
    the abstract topic step [lab] names: a registry step = the topic accepts exactly the
    publications that got a Sender; the consumer's Ack of an unsettled copy = the publication
    leaves; its Nack = it stays; everything else = nothing. *)
Theorem C01_topic_refines_step : forall x st l st', CInv x st -> cstep x st l = Some st' ->
  CInv x st' /\ tstep (abs x st) (lab x st l st') = Some (abs x st').
Proof. exact crefine_step. Qed.

Theorem C01_topic_refines : forall x pers blk fx cap0 sfx ls,
  let st0 := cinit pers blk fx cap0 sfx in
  treplay [] (ctrace x st0 ls) = Some (abs x (crun x st0 ls)).
Proof. exact topic_refines. Qed.

(** Layer B gives exactly one Sender per accepted publication: the composition never blocks the
    registry ([sender_unique]), and the snapshot step of Publish hands x the publication iff x is
    registered on that topic ([snapshot_complete]) *)
Theorem C01_topic_spawn_enabled : forall x st bl g', CInv x st -> b_label_ok x bl = true ->
  gstep (fst st) bl = Some g' -> cstep x st (CB bl) <> None.
Proof. exact spawn_enabled. Qed.

Theorem C01_topic_accept_on_publish : forall x g t k p rem g', RegSend.Inv g ->
  Reg.thr g t = PSend k (p :: rem) -> gstep g (GT t) = Some g' ->
  pubs_of x (grown g g') = if mem x (subs g k) then [p] else [].
Proof. exact accept_on_publish. Qed.

(** Layer A: every unsettled copy is a copy of a pending publication, and at most one is in flight *)
Theorem C01_topic_unsettled_copy_is_pending : forall x g a c, SInv a -> Cpl x g a -> c < next a ->
  c_st (copies a c) = Unsettled -> In (c_pub (copies a c)) (abs x (g, a)).
Proof. exact unsettled_pending. Qed.

Theorem C01_topic_one_in_flight : forall x st, CInv x st -> length (outstanding (snd st)) <= 1.
Proof. exact topic_one_in_flight. Qed.

(** from publication ids to the message lists of the pipeline model: under any labelling the
    abstract Ack is the model's [remove_first], up to the order of the list *)
Theorem C01_topic_ack_is_remove_first : forall (M : Type) (eqbM : M -> M -> bool),
  (forall a b, eqbM a b = true <-> a = b) -> forall (f : Reg.pubid -> M) p pend,
  NoDup pend -> In p pend ->
  exists rest, remove_first eqbM (f p) (map f pend) = Some rest
               /\ Permutation.Permutation rest (map f (filter (fun q => negb (Nat.eqb q p)) pend)).
Proof. exact @topic_list_ack. Qed.

Print Assumptions C01_nothing_invented.
Print Assumptions C01_ack_only_after_next_accepted.
Print Assumptions C01_pending_until_acked.
Print Assumptions C01_redelivered_until_acked.
Print Assumptions C01_guarded_run_is_run.
Print Assumptions C01_redelivery_is_immediate.
Print Assumptions C01_at_least_once_immediate.
Print Assumptions C01_at_least_once_context_aware.
Print Assumptions C01_delivery_context_is_live.
Print Assumptions C01_live_contexts_change_nothing.
Print Assumptions C01_dead_contexts_never_stop.
Print Assumptions C01_replayed_model_accepted.
Print Assumptions C01_never_lost.
Print Assumptions C01_at_least_once.
Print Assumptions C01_every_source_reaches_the_sink.
Print Assumptions C01_duplicates_exact.
Print Assumptions C01_model_accepted.
Print Assumptions C01_finite_scripts_are_fair.
Print Assumptions C01_topic_attempt_loop.
Print Assumptions C01_topic_resends_only_after_nack.
Print Assumptions C01_topic_refines_step.
Print Assumptions C01_topic_refines.
Print Assumptions C01_topic_spawn_enabled.
Print Assumptions C01_topic_accept_on_publish.
Print Assumptions C01_topic_unsettled_copy_is_pending.
Print Assumptions C01_topic_one_in_flight.
Print Assumptions C01_topic_ack_is_remove_first.

(** non-vacuity (Pipeline/Example.v): 2 stages, stage 0 fans out to 2; sources 7 and 8; the first
    attempt of stage 0 fails in Publish after the next topic accepted 1 of 2 outputs, the second
    attempt of stage 1 panics.  Both sources arrive with both descendants, (7,[0]) arrives twice,
    and the duplicate is exactly the budget of the publish-side fault. *)
Example C01_witness :
  let st := prun (chf ex_fans) cm_eqb rt_handle 2 (sc_of ex_script) (pinit [(7%N, []); (8%N, [])]) ex_sched in
  topic st 2 = [(7, [0; 0]); (7, [0; 0]); (7, [1; 0]); (8, [1; 0]); (8, [0; 0])]%N
  /\ quiescentb 2 st = true
  /\ map (fun d => (d_stage d, d_call d, d_final d)) (dlog st)
     = [(0, 0, Nacked); (1, 0, Acked); (0, 1, Acked); (1, 1, Nacked); (1, 2, Acked); (1, 3, Acked);
        (0, 2, Acked); (1, 4, Acked); (1, 5, Acked)]
  /\ dup_budget (chf ex_fans) 2 (dlog st) = 1
  /\ length (expected_sink (chf ex_fans) 2 [(7%N, []); (8%N, [])]) = 4.
Proof. exact c01_witness. Qed.

(** ** Round proofs 5: the steps BETWEEN two Router steps of the product are bounded, and every run of
    the CLOSED product (only the topics' own Sender / hand-over / receive steps and Router steps:
    no other clients) under an eventually-clean fault script is finite.  The bound comes from the
    Sender-side measure of GoChannel/SubMeasure.v: [nu T a = 2 * measure T a + |buf a|] decreases on
    every inner step of a topic's send loop; [nux] is its sum over the topics. *)
From WM Require GoChannel.SubMeasure Pipeline.ProductTerm Pipeline.ProductTerm2.

Theorem C01_topic_inner_steps_bounded : forall T ls,
  Forall (fun l => ProductTerm.inner l = true) ls ->
  forall a, SubInvX.SX a -> SubLive.covers T a -> ProductTerm.scount a ls <= ProductTerm.nu T a.
Proof. exact ProductTerm.inner_run_bounded. Qed.

Theorem C01_product_between_steps_bounded : forall (M : Type) (hf : nat -> M -> list M) x k sc srcs ls,
  Forall (fun l => ProductTerm.between l = true) ls ->
  forall xs, ProductTerm.BInv x k xs ->
  ProductTerm.xcount hf x k sc srcs xs ls <= ProductTerm.nux x k xs.
Proof. exact @ProductTerm.between_run_bounded. Qed.

(** PARTIAL with respect to "... and ends with every source message on the final topic": finiteness
    is proved for every scheduler; that a closed product which cannot step any more is quiescent
    (a non-empty [abs] has an enabled Sender step or a received unsettled copy for the Router) is
    the progress half - p-REG's SubProgress.SProg for one instance - and is not lifted here *)
Theorem C01_product_terminates_closed_partial : forall (M : Type) (hf : nat -> M -> list M) (eqbM : M -> M -> bool),
  (forall a b : M, eqbM a b = true <-> a = b) -> forall x k sc srcs, 0 < k -> eventually_clean k sc ->
  forall xs st, XR x k srcs xs st -> ProductTerm2.XXInv k xs ->
  Acc (ProductTerm2.csucc hf x k sc srcs) xs.
Proof. exact @ProductTerm2.closed_product_terminates_partial. Qed.
Print Assumptions C01_topic_inner_steps_bounded.
Print Assumptions C01_product_between_steps_bounded.
Print Assumptions C01_product_terminates_closed_partial.

(** ** Round proofs 6: the "ends complete" half of the product's termination, GIVEN quiescence: when no
    GoChannel topic of a product run has a pending publication any more and every source message has
    been published, every descendant of every source message is on the final topic.  NOT proved
    (so there is no [C01_product_terminates_closed]): that a closed product state in which no
    topic-inner step and no Router step is enabled IS quiescent.  Lifting [SubProgress.sub_progress]
    needs two coupling invariants the composition does not carry yet ("a publication with a Sender
    for x has a started thread", "a returned Sender has an Acked copy") and, for a Router step of a
    middle stage, that a registry label sequence publishing the outputs to the next topic is
    enabled (a Publish-progress statement about Reg.v in every reachable registry state). *)
From WM Require Pipeline.ProductDone.
Theorem C01_product_quiescent_is_complete : forall (M : Type) (hf : nat -> M -> list M) (eqbM : M -> M -> bool),
  (forall a b : M, eqbM a b = true <-> a = b) ->
  forall x k sc srcs dflt, 0 < k -> forall pers blk fx cap0 sfx ls,
  let xs := xrun hf x k sc srcs (xinit (fun _ => cinit pers blk fx cap0 sfx) dflt) ls in
  ProductDone.xquiescent x k srcs xs ->
  forall y, In y (expected_sink hf k srcs) -> In y (xsink xs).
Proof. exact @ProductDone.product_quiescent_complete. Qed.
Print Assumptions C01_product_quiescent_is_complete.
