(** C20 — proofs about Decor/MwStack.v *)
From WM Require Import Base.Prelude Message.Model Decor.Model Decor.MwStack.

Definition rloop (f : list hout -> hout * list hout * list hlabel) :=
  fix loop (k : nat) (script : list hout) : hout * list hout * list hlabel :=
    let '(r, s', o) := f script in
    match r, k with
    | HErr, S k' => let '(r2, s2, o2) := loop k' s' in (r2, s2, o ++ o2)
    | _, _ => (r, s', o)
    end.

Lemma heval_retry dedup n st active h script :
  heval dedup (LR n :: st) active h script = rloop (heval dedup st active h) n script.
Proof. reflexivity. Qed.

Lemma rloop_ext f g : (forall s, f s = g s) -> forall k s, rloop f k s = rloop g k s.
Proof.
  intros H. induction k as [|k IH]; intros s; simpl; rewrite H; destruct (g s) as [[r s'] o]; [reflexivity|].
  destruct r; try reflexivity. rewrite IH. reflexivity.
Qed.

(** the repaired middleware on any chain = the chain with every inner application removed *)
Lemma heval_erase h : forall st active script,
  heval true st active h script = heval true (erase_inner active st) active h script.
Proof.
  induction st as [|l st IH]; intros active script; [reflexivity|]. destruct l as [|n].
  - destruct active; simpl.
    + apply IH.
    + rewrite IH. reflexivity.
  - cbn [erase_inner]. rewrite !heval_retry. apply rloop_ext. intros s. apply IH.
Qed.

(** on a chain without inner applications the repaired and the pinned middleware agree *)
Lemma heval_erased_pinned h : forall st active script,
  heval true (erase_inner active st) active h script = heval false (erase_inner active st) active h script.
Proof.
  induction st as [|l st IH]; intros active script; [reflexivity|]. destruct l as [|n].
  - destruct active; simpl.
    + apply IH.
    + rewrite IH. reflexivity.
  - cbn [erase_inner]. rewrite !heval_retry. apply rloop_ext. intros s. apply IH.
Qed.

Lemma heval_idempotent h st script :
  heval true st false h script = heval false (erase_inner false st) false h script.
Proof. rewrite heval_erase. apply heval_erased_pinned. Qed.

Lemma hrun_idempotent h st : forall top script,
  hrun true st h top script = hrun false (erase_inner false st) h top script.
Proof.
  induction top as [|t IH]; intros script; [reflexivity|]. simpl.
  rewrite heval_idempotent. destruct (heval false (erase_inner false st) false h script) as [[r s'] o].
  rewrite IH. reflexivity.
Qed.

(** inside an active application nothing is observed, whatever the chain *)
Lemma rloop_silent f : (forall s, snd (f s) = []) -> forall k s, snd (rloop f k s) = [].
Proof.
  intros H. induction k as [|k IH]; intros s; simpl; specialize (H s); destruct (f s) as [[r s'] o]; simpl in H; subst o; [destruct r; reflexivity|].
  destruct r; try reflexivity. specialize (IH s'). destruct (rloop f k s') as [[r2 s2] o2]. simpl in *. exact IH.
Qed.

Lemma heval_active_silent h : forall st script, snd (heval true st true h script) = [].
Proof.
  induction st as [|l st IH]; intros script; [reflexivity|]. destruct l as [|n].
  - simpl. apply IH.
  - rewrite heval_retry. apply rloop_silent. apply IH.
Qed.

(** k applications, Retry anywhere between them: ONE observation per invocation of the chain,
    labelled with the outcome of that invocation (error and panic are failures) *)
Lemma heval_once h st script :
  snd (heval true (LM :: st) false h script)
  = [(h, success_label true (fst (fst (heval true st true h script))))].
Proof.
  simpl. pose proof (heval_active_silent h st script) as S.
  destruct (heval true st true h script) as [[r s'] o]. simpl in *. subst o. reflexivity.
Qed.

(** the pinned middleware: two applications, one invocation, two observations *)
Lemma heval_pinned_twice : snd (heval false [LM; LM] false 5%N [HOk]) = [(5%N, true); (5%N, true)].
Proof. reflexivity. Qed.

(** Retry OUTSIDE the applications is unaffected: every attempt is an invocation and is observed *)
Lemma heval_retry_outside : snd (heval true [LR 2; LM; LM] false 5%N [HErr; HErr; HOk])
                            = [(5%N, false); (5%N, false); (5%N, true)].
Proof. reflexivity. Qed.
(** Retry BETWEEN two applications: the outer one observes the invocation once, with its final outcome *)
Lemma heval_retry_between : snd (heval true [LM; LR 2; LM] false 5%N [HErr; HErr; HOk]) = [(5%N, true)].
Proof. reflexivity. Qed.

(** ** overlapping invocations: any interleaving counts like the invocations one after the other *)
Lemma list_sum_app' a b : list_sum (a ++ b) = list_sum a + list_sum b.
Proof. induction a; simpl; [reflexivity|]. rewrite IHa. lia. Qed.

Lemma list_sum_cons' x l : list_sum (x :: l) = x + list_sum l.
Proof. reflexivity. Qed.

Lemma interleave_measure {A} (f : list A -> nat) :
  f [] = 0 -> (forall x l, f (x :: l) = f [x] + f l) ->
  forall ls L, interleave ls L -> f L = list_sum (map f ls).
Proof.
  intros F0 Fc ls L H. induction H as [ls HF | pre x l post L H IH].
  - rewrite F0. induction HF as [|l ls -> _ IHl]; simpl; [reflexivity|]. rewrite F0, <- IHl. reflexivity.
  - rewrite Fc, IH, !map_app, !list_sum_app'. simpl. rewrite (Fc x l). lia.
Qed.

Lemma interleave_count (ls : list (list hlabel)) L l :
  interleave ls L -> hcount l L = list_sum (map (hcount l) ls).
Proof.
  apply (interleave_measure (hcount l)); [reflexivity|].
  intros x r. unfold hcount. simpl. destruct (hlabel_eqb l x); reflexivity.
Qed.

Lemma interleave_length {A} (ls : list (list A)) L : interleave ls L -> length L = list_sum (map (@length A) ls).
Proof. apply (interleave_measure (@length A)); reflexivity. Qed.

(** any number of applications (the chain starts with one), Retry anywhere inside, any number of
    overlapping invocations, ANY interleaving: exactly one observation per invocation, and per label
    the count of the invocations run one after the other *)
Lemma conc_one_each h st scripts L :
  interleave (conc_logs true (LM :: st) h scripts) L ->
  length L = length scripts
  /\ forall l, hcount l L = list_sum (map (hcount l) (conc_logs true (LM :: st) h scripts)).
Proof.
  intros H. split; [|intros l; apply interleave_count; exact H].
  rewrite (interleave_length _ _ H). unfold conc_logs. rewrite map_map. clear H.
  induction scripts as [|s r IH]; [reflexivity|].
  rewrite map_cons, list_sum_cons', heval_once, IH. reflexivity.
Qed.
