(** C20 — proofs about the subscriber side of Decor/Model.v *)
From WM Require Import Base.Prelude Message.Model Decor.Model Decor.Monitor Decor.Proofs.

(** * one pass through the stack *)
Definition slabel_of (stk : list sdec) (m : smsg) : N * N :=
  (or_default no_handler (sm_hname m), or_default (first_smetrics_name stk) (sm_sname m)).

Lemma spass_cons d stk m : spass (d :: stk) m = slayer d (spass stk m).
Proof. reflexivity. Qed.

(** transforms: each once, innermost first; content, settlement state and names untouched *)
Lemma spass_untouched stk m :
  sm_rest (spass stk m) = sm_rest m /\ sm_st (spass stk m) = sm_st m
  /\ sm_hname (spass stk m) = sm_hname m /\ sm_sname (spass stk m) = sm_sname m
  /\ sm_trail (spass stk m) = sm_trail m ++ rev (stransform_tags stk).
Proof.
  induction stk as [|d stk IH]; [simpl; rewrite app_nil_r; auto|].
  rewrite spass_cons. destruct IH as (A1 & A2 & A3 & A4 & A5).
  destruct d as [t|n]; simpl.
  - rewrite A5, <- app_assoc. auto.
  - destruct (sm_mark (spass stk m)); simpl; auto.
Qed.

Lemma spass_marked stk m : sm_mark m = true ->
  sm_mark (spass stk m) = true /\ sm_watch (spass stk m) = sm_watch m.
Proof.
  intros H. induction stk as [|d stk IH]; [auto|]. rewrite spass_cons. destruct IH as [A1 A2].
  destruct d as [t|n]; simpl; [auto|]. rewrite A1. auto.
Qed.

Lemma first_smetrics_name_cons_has d stk :
  has_smetrics stk = true -> first_smetrics_name (d :: stk) = first_smetrics_name stk.
Proof.
  unfold first_smetrics_name, has_smetrics. intros H.
  assert (E : flat_map (fun d => match d with SMetrics n => [n] | _ => [] end) stk <> []).
  { induction stk as [|x stk IH]; simpl in *; [discriminate|]. destruct x; simpl in *; [auto|discriminate]. }
  simpl. rewrite rev_app_distr.
  destruct (rev (flat_map (fun d => match d with SMetrics n => [n] | _ => [] end) stk)) eqn:R.
  - exfalso. apply E. apply (f_equal (@rev N)) in R. rewrite rev_involutive in R. exact R.
  - simpl. destruct d; simpl; rewrite ?app_nil_r; reflexivity.
Qed.

Lemma first_smetrics_name_cons_none n stk :
  has_smetrics stk = false -> first_smetrics_name (SMetrics n :: stk) = n.
Proof.
  unfold first_smetrics_name, has_smetrics. intros H.
  assert (E : flat_map (fun d => match d with SMetrics n => [n] | _ => [] end) stk = []).
  { induction stk as [|x stk IH]; simpl in *; [reflexivity|]. destruct x; simpl in *; [auto|discriminate]. }
  simpl. rewrite E. reflexivity.
Qed.

(** an unmarked message: the innermost metrics decorator registers one watcher, all others see the mark *)
Lemma spass_unmarked stk m : sm_mark m = false ->
  if has_smetrics stk
  then sm_mark (spass stk m) = true /\ sm_watch (spass stk m) = sm_watch m ++ [slabel_of stk m]
  else sm_mark (spass stk m) = false /\ sm_watch (spass stk m) = sm_watch m.
Proof.
  intros H. induction stk as [|d stk IH]; [simpl; auto|].
  rewrite spass_cons.
  destruct (spass_untouched stk m) as (_ & _ & U3 & U4 & _).
  destruct d as [t|n].
  - assert (E : has_smetrics (STransform t :: stk) = has_smetrics stk) by reflexivity. rewrite E.
    destruct (has_smetrics stk) eqn:HS; simpl.
    + unfold slabel_of. rewrite first_smetrics_name_cons_has by exact HS. exact IH.
    + exact IH.
  - assert (E : has_smetrics (SMetrics n :: stk) = true) by reflexivity. rewrite E.
    destruct (has_smetrics stk) eqn:HS; simpl.
    + destruct IH as [A1 A2]. rewrite A1. unfold slabel_of.
      rewrite first_smetrics_name_cons_has by exact HS. auto.
    + destruct IH as [A1 A2]. rewrite A1. simpl. rewrite A2, U3, U4. unfold slabel_of.
      rewrite first_smetrics_name_cons_none by exact HS. auto.
Qed.

(** * heap lemmas *)
Lemma nth_error_set_nth_same {A} (h : list A) i v x : nth_error h i = Some x -> nth_error (set_nth h i v) i = Some v.
Proof. revert i. induction h as [|a h IH]; intros [|i] H; simpl in *; try discriminate; auto. Qed.
Lemma nth_error_set_nth_other {A} (h : list A) i j v : i <> j -> nth_error (set_nth h i v) j = nth_error h j.
Proof. revert i j. induction h as [|a h IH]; intros [|i] [|j] H; simpl; auto; try congruence. Qed.
Lemma set_nth_length {A} (h : list A) i v : length (set_nth h i v) = length h.
Proof. revert i. induction h as [|a h IH]; intros [|i]; simpl; auto. Qed.

Lemma obs_of_app i a b : obs_of i (a ++ b) = obs_of i a ++ obs_of i b.
Proof. unfold obs_of. apply filter_app. Qed.

Lemma flush_facts j m :
  sm_st (fst (flush j m)) = sm_st m /\ sm_hname (fst (flush j m)) = sm_hname m
  /\ sm_sname (fst (flush j m)) = sm_sname m /\ sm_mark (fst (flush j m)) = sm_mark m
  /\ sm_rest (fst (flush j m)) = sm_rest m /\ sm_trail (fst (flush j m)) = sm_trail m.
Proof. unfold flush. destruct (st (sm_st m)); simpl; auto 10. Qed.

Lemma flush_other i j m : i <> j -> obs_of i (snd (flush j m)) = [].
Proof.
  intros H. unfold flush, obs_of.
  destruct (st (sm_st m)); simpl; [reflexivity| |];
    induction (sm_watch m) as [|w ws IH]; simpl; auto;
    destruct (Nat.eqb j i) eqn:E; [apply Nat.eqb_eq in E; congruence | exact IH |
                                   apply Nat.eqb_eq in E; congruence | exact IH].
Qed.

Lemma flush_same i m :
  match st (sm_st m) with
  | Unsettled => flush i m = (m, [])
  | Acked => sm_watch (fst (flush i m)) = [] /\ obs_of i (snd (flush i m)) = map (fun w => (i, fst w, snd w, true)) (sm_watch m)
  | Nacked => sm_watch (fst (flush i m)) = [] /\ obs_of i (snd (flush i m)) = map (fun w => (i, fst w, snd w, false)) (sm_watch m)
  end.
Proof.
  unfold flush, obs_of. destruct (st (sm_st m)); simpl; [reflexivity| |]; split; auto;
    induction (sm_watch m) as [|w ws IH]; simpl; auto; rewrite Nat.eqb_refl, IH; reflexivity.
Qed.

(** * the per-object counting invariant *)
Definition objinv (stk : list sdec) (i : nat) (emitted : bool) (m : smsg) (obs : list sobs) : Prop :=
  let lbl := slabel_of stk m in
  if emitted then
    sm_mark m = true /\
    match st (sm_st m) with
    | Unsettled => sm_watch m = [lbl] /\ obs_of i obs = []
    | Acked => sm_watch m = [] /\ obs_of i obs = [(i, fst lbl, snd lbl, true)]
    | Nacked => sm_watch m = [] /\ obs_of i obs = [(i, fst lbl, snd lbl, false)]
    end
  else sm_mark m = false /\ sm_watch m = [] /\ obs_of i obs = [].

Definition emits_now (w : sworld) (o : sop) (i : nat) : bool :=
  match o with
  | SoEmit j => Nat.eqb j i && Nat.eqb (sw_closes w) 0
  | _ => false
  end.

Definition settle_now (o : sop) (i : nat) (s : mstate) : mstate :=
  match o with
  | SoSettle j ack => if Nat.eqb i j then fst (step s (if ack then OpAck else OpNack)) else s
  | _ => s
  end.

Lemma slabel_of_names stk m m' : sm_hname m' = sm_hname m -> sm_sname m' = sm_sname m -> slabel_of stk m' = slabel_of stk m.
Proof. unfold slabel_of. intros -> ->. reflexivity. Qed.

Lemma step_settled s o : st s <> Unsettled -> fst (step s o) = s.
Proof. destruct s as [[] ? ? ?], o; simpl; intros H; try reflexivity; exfalso; apply H; reflexivity. Qed.

Lemma step_unsettled_ack s : st s = Unsettled -> st (fst (step s OpAck)) = Acked.
Proof. destruct s as [[] a ? ?]; simpl; intros H; try discriminate. destruct (close_chan a). reflexivity. Qed.
Lemma step_unsettled_nack s : st s = Unsettled -> st (fst (step s OpNack)) = Nacked.
Proof. destruct s as [[] ? n ?]; simpl; intros H; try discriminate. destruct (close_chan n). reflexivity. Qed.

Lemma sstep_obj stk w o i m e :
  has_smetrics stk = true ->
  nth_error (sw_heap w) i = Some m ->
  objinv stk i e m (sw_obs w) ->
  exists m', nth_error (sw_heap (sstep stk w o)) i = Some m'
             /\ sm_hname m' = sm_hname m /\ sm_sname m' = sm_sname m
             /\ sm_st m' = settle_now o i (sm_st m)
             /\ objinv stk i (e || emits_now w o i) m' (sw_obs (sstep stk w o)).
Proof.
  intros HS Hn Hinv. destruct o as [j|j ack|].
  - (* emit *)
    simpl. destruct (Nat.eq_dec j i) as [->|Hne].
    + rewrite Hn, Nat.eqb_refl. destruct (sw_closes w) eqn:Hc; simpl.
      * destruct (spass_untouched stk m) as (U1 & U2 & U3 & U4 & U5).
        destruct (flush i (spass stk m)) as [m2 ob] eqn:Hf. simpl.
        pose proof (flush_facts i (spass stk m)) as (F1 & F2 & F3 & F4 & _). rewrite Hf in *. simpl in *.
        exists m2. rewrite (nth_error_set_nth_same _ _ _ _ Hn).
        repeat split; try congruence.
        rewrite orb_true_r. unfold objinv in *.
        rewrite (slabel_of_names stk m m2) by congruence.
        pose proof (flush_same i (spass stk m)) as FS. rewrite Hf in FS. simpl in FS.
        rewrite obs_of_app. rewrite F1, U2, F4. rewrite U2 in FS.
        destruct e.
        -- destruct Hinv as [Hm Hrest]. destruct (spass_marked stk m Hm) as [M1 M2].
           split; [exact M1|].
           destruct (st (sm_st m)).
           ++ inversion FS; subst. rewrite app_nil_r. rewrite M2. exact Hrest.
           ++ destruct FS as [W O]. rewrite O, M2, W. destruct Hrest as [Hw Ho]. rewrite Hw, Ho. simpl. auto.
           ++ destruct FS as [W O]. rewrite O, M2, W. destruct Hrest as [Hw Ho]. rewrite Hw, Ho. simpl. auto.
        -- destruct Hinv as (Hm & Hw & Ho). pose proof (spass_unmarked stk m Hm) as SU. rewrite HS in SU.
           destruct SU as [M1 M2]. split; [exact M1|]. rewrite Hw in M2. simpl in M2.
           destruct (st (sm_st m)).
           ++ inversion FS; subst. rewrite app_nil_r, Ho. auto.
           ++ destruct FS as [W O]. rewrite O, M2, W, Ho. simpl. auto.
           ++ destruct FS as [W O]. rewrite O, M2, W, Ho. simpl. auto.
      * exists m. rewrite orb_false_r. auto.
    + assert (E : Nat.eqb j i = false) by (apply Nat.eqb_neq; exact Hne). rewrite E. simpl. rewrite orb_false_r.
      destruct (nth_error (sw_heap w) j) as [mj|] eqn:Hj; [|exists m; auto].
      destruct (sw_closes w); [|exists m; auto].
      destruct (flush j (spass stk mj)) as [m2 ob] eqn:Hf. simpl.
      exists m. rewrite nth_error_set_nth_other by exact Hne. repeat split; auto.
      unfold objinv in *. rewrite obs_of_app.
      pose proof (flush_other i j (spass stk mj) (not_eq_sym Hne)) as FO. rewrite Hf in FO. simpl in FO.
      rewrite FO, app_nil_r. exact Hinv.
  - (* settle *)
    simpl. rewrite orb_false_r. destruct (Nat.eq_dec i j) as [<-|Hne].
    + rewrite Hn, Nat.eqb_refl.
      destruct (step (sm_st m) (if ack then OpAck else OpNack)) as [s' r] eqn:Hs.
      destruct (flush i (set_st m s')) as [m2 ob] eqn:Hf. simpl.
      pose proof (flush_facts i (set_st m s')) as (F1 & F2 & F3 & F4 & _). rewrite Hf in *. simpl in *.
      exists m2. rewrite (nth_error_set_nth_same _ _ _ _ Hn). repeat split; auto.
      unfold objinv in *. rewrite (slabel_of_names stk m m2) by congruence.
      pose proof (flush_same i (set_st m s')) as FS. rewrite Hf in FS. simpl in FS.
      rewrite obs_of_app, F1, F4.
      destruct (st (sm_st m)) eqn:Hst.
      * (* was unsettled: this call decides *)
        assert (Hs' : st s' = if ack then Acked else Nacked).
        { replace s' with (fst (step (sm_st m) (if ack then OpAck else OpNack))) by (rewrite Hs; reflexivity).
          destruct ack; [apply step_unsettled_ack | apply step_unsettled_nack]; exact Hst. }
        rewrite Hs' in *. destruct e.
        -- destruct Hinv as [Hm [Hw Ho]]. split; [exact Hm|].
           destruct ack; destruct FS as [W O]; rewrite W, O, Hw, Ho; simpl; auto.
        -- destruct Hinv as (Hm & Hw & Ho). split; [exact Hm|].
           destruct ack; destruct FS as [W O]; rewrite W, O, Hw, Ho; simpl; auto.
      * assert (Hs2 : s' = sm_st m) by (replace s' with (fst (step (sm_st m) (if ack then OpAck else OpNack))) by (rewrite Hs; reflexivity);
                                  apply step_settled; congruence).
        rewrite Hs2 in *. rewrite Hst in *. destruct FS as [W O]. rewrite W, O.
        destruct e.
        -- destruct Hinv as [Hm [Hw Ho]]. rewrite Hw, Ho. simpl. auto.
        -- destruct Hinv as (Hm & Hw & Ho). rewrite Hw, Ho. simpl. auto.
      * assert (Hs2 : s' = sm_st m) by (replace s' with (fst (step (sm_st m) (if ack then OpAck else OpNack))) by (rewrite Hs; reflexivity);
                                  apply step_settled; congruence).
        rewrite Hs2 in *. rewrite Hst in *. destruct FS as [W O]. rewrite W, O.
        destruct e.
        -- destruct Hinv as [Hm [Hw Ho]]. rewrite Hw, Ho. simpl. auto.
        -- destruct Hinv as (Hm & Hw & Ho). rewrite Hw, Ho. simpl. auto.
    + assert (E : Nat.eqb i j = false) by (apply Nat.eqb_neq; exact Hne). rewrite E.
      destruct (nth_error (sw_heap w) j) as [mj|] eqn:Hj; [|exists m; auto].
      destruct (step (sm_st mj) (if ack then OpAck else OpNack)) as [s' r].
      destruct (flush j (set_st mj s')) as [m2 ob] eqn:Hf. simpl.
      exists m. rewrite nth_error_set_nth_other by auto. repeat split; auto.
      unfold objinv in *. rewrite obs_of_app.
      pose proof (flush_other i j (set_st mj s') Hne) as FO. rewrite Hf in FO. simpl in FO.
      rewrite FO, app_nil_r. exact Hinv.
  - simpl. rewrite orb_false_r. exists m. auto.
Qed.

(** * whole runs *)
Lemma sstep_closes stk w o :
  sw_closes (sstep stk w o) = match o with SoClose => S (sw_closes w) | _ => sw_closes w end.
Proof.
  destruct o as [j|j ack|]; simpl; [| |reflexivity].
  - destruct (nth_error (sw_heap w) j); [|reflexivity]. destruct (sw_closes w) eqn:E; [|auto].
    destruct (flush j (spass stk s)). simpl. auto.
  - destruct (nth_error (sw_heap w) j); [|reflexivity].
    destruct (step (sm_st s) (if ack then OpAck else OpNack)). destruct (flush j (set_st s m)). reflexivity.
Qed.

(** every Close reaches the wrapped subscriber exactly once *)
Lemma srun_closes stk ops : forall w,
  sw_closes (fold_left (sstep stk) ops w) = sw_closes w + count_closes ops.
Proof.
  induction ops as [|o ops IH]; intros w; [unfold count_closes; simpl; lia|].
  simpl fold_left. rewrite IH, sstep_closes. unfold count_closes. destruct o; simpl; lia.
Qed.

Lemma run_cons_fst s o l : fst (run s (o :: l)) = fst (run (fst (step s o)) l).
Proof. simpl. destruct (step s o) as [s1 r]. simpl. destruct (run s1 l). reflexivity. Qed.

Lemma settle_now_run i o s ops :
  fst (run (settle_now o i s) (settle_ops i ops)) = fst (run s (settle_ops i (o :: ops))).
Proof.
  unfold settle_ops. cbn [flat_map]. destruct o as [j|j ack|]; cbn [settle_now app]; try reflexivity.
  destruct (Nat.eqb i j); cbn [app]; [|reflexivity].
  rewrite run_cons_fst. reflexivity.
Qed.

Definition emitted_in (c0 : nat) (i : nat) (ops : list sop) : bool :=
  Nat.eqb c0 0 && existsb (Nat.eqb i) (emitted_before_close ops).

Lemma emitted_in_step stk w o i ops e :
  e || emits_now w o i || emitted_in (sw_closes (sstep stk w o)) i ops
  = e || emitted_in (sw_closes w) i (o :: ops).
Proof.
  rewrite sstep_closes. unfold emitted_in, emits_now. destruct o as [j|j ack|]; simpl.
  - rewrite (Nat.eqb_sym j i). destruct e, (Nat.eqb i j), (Nat.eqb (sw_closes w) 0); reflexivity.
  - destruct e; simpl; reflexivity.
  - destruct e, (Nat.eqb (sw_closes w) 0); reflexivity.
Qed.

Lemma srun_obj stk : has_smetrics stk = true -> forall ops w i m e,
  nth_error (sw_heap w) i = Some m ->
  objinv stk i e m (sw_obs w) ->
  exists m', nth_error (sw_heap (fold_left (sstep stk) ops w)) i = Some m'
             /\ sm_hname m' = sm_hname m /\ sm_sname m' = sm_sname m
             /\ sm_st m' = fst (run (sm_st m) (settle_ops i ops))
             /\ objinv stk i (e || emitted_in (sw_closes w) i ops) m' (sw_obs (fold_left (sstep stk) ops w)).
Proof.
  intros HS. induction ops as [|o ops IH]; intros w i m e Hn Hinv.
  - exists m. simpl. unfold emitted_in. simpl. rewrite andb_false_r, orb_false_r. auto.
  - destruct (sstep_obj stk w o i m e HS Hn Hinv) as (m1 & N1 & H1 & S1 & St1 & I1).
    destruct (IH (sstep stk w o) i m1 _ N1 I1) as (m' & N' & H' & S' & St' & I').
    exists m'. simpl fold_left. repeat split; try congruence.
    + rewrite St', St1. apply settle_now_run.
    + rewrite emitted_in_step in I'. exact I'.
Qed.

(** every delivered and settled message is counted exactly once, with the label of the settlement
    that won; nothing else is counted — for every stack that contains the metrics decorator at
    least once, every op sequence *)
Lemma received_counted_once stk heap ops i m :
  has_smetrics stk = true -> nth_error heap i = Some m -> sfresh m = true ->
  obs_of i (sw_obs (srun stk heap ops)) =
  if existsb (Nat.eqb i) (emitted_before_close ops) then
    match st (final_state m i ops) with
    | Unsettled => []
    | Acked => [(i, fst (slabel_of stk m), snd (slabel_of stk m), true)]
    | Nacked => [(i, fst (slabel_of stk m), snd (slabel_of stk m), false)]
    end
  else [].
Proof.
  intros HS Hn Hf. unfold sfresh in Hf. apply andb_true_iff in Hf as [Hm Hw].
  apply negb_true_iff in Hm. destruct (sm_watch m) eqn:Ew; [|discriminate].
  assert (I0 : objinv stk i false m []) by (unfold objinv; auto).
  destruct (srun_obj stk HS ops (SW heap [] [] 0 []) i m false Hn I0) as (m' & N' & H' & S' & St' & I').
  unfold srun. simpl in I'. unfold emitted_in in I'. simpl in I'. unfold final_state. rewrite <- St'.
  unfold objinv in I'. rewrite (slabel_of_names stk m m') in I' by congruence.
  destruct (existsb (Nat.eqb i) (emitted_before_close ops)).
  - destruct I' as [_ I']. destruct (st (sm_st m')); destruct I' as [_ I']; exact I'.
  - destruct I' as (_ & _ & I'). exact I'.
Qed.

(** settling the received message is settling the wrapped subscriber's message: the object's
    state is the C03 machine run on exactly the Ack/Nack calls made on it, for every stack;
    its content is never touched *)
Lemma sstep_state stk w o i m :
  nth_error (sw_heap w) i = Some m ->
  exists m', nth_error (sw_heap (sstep stk w o)) i = Some m'
             /\ sm_st m' = settle_now o i (sm_st m) /\ sm_rest m' = sm_rest m.
Proof.
  intros Hn. destruct o as [j|j ack|]; simpl; [| |exists m; auto].
  - destruct (Nat.eq_dec j i) as [->|Hne].
    + rewrite Hn. destruct (sw_closes w); [|exists m; auto].
      destruct (spass_untouched stk m) as (U1 & U2 & _).
      pose proof (flush_facts i (spass stk m)) as (F1 & _ & _ & _ & F5 & _).
      destruct (flush i (spass stk m)) as [m2 ob]. simpl in *.
      exists m2. rewrite (nth_error_set_nth_same _ _ _ _ Hn). repeat split; congruence.
    + destruct (nth_error (sw_heap w) j) as [mj|]; [|exists m; auto].
      destruct (sw_closes w); [|exists m; auto].
      destruct (flush j (spass stk mj)). simpl. exists m. rewrite nth_error_set_nth_other by exact Hne. auto.
  - destruct (Nat.eq_dec i j) as [<-|Hne].
    + rewrite Hn, Nat.eqb_refl.
      destruct (step (sm_st m) (if ack then OpAck else OpNack)) as [s' r].
      pose proof (flush_facts i (set_st m s')) as (F1 & _ & _ & _ & F5 & _).
      destruct (flush i (set_st m s')) as [m2 ob]. simpl in *.
      exists m2. rewrite (nth_error_set_nth_same _ _ _ _ Hn). auto.
    + assert (E : Nat.eqb i j = false) by (apply Nat.eqb_neq; exact Hne). rewrite E.
      destruct (nth_error (sw_heap w) j) as [mj|]; [|exists m; auto].
      destruct (step (sm_st mj) (if ack then OpAck else OpNack)) as [s' r].
      destruct (flush j (set_st mj s')). simpl. exists m. rewrite nth_error_set_nth_other by auto. auto.
Qed.

Lemma srun_state_gen stk ops : forall w i m,
  nth_error (sw_heap w) i = Some m ->
  exists m', nth_error (sw_heap (fold_left (sstep stk) ops w)) i = Some m'
             /\ sm_st m' = fst (run (sm_st m) (settle_ops i ops)) /\ sm_rest m' = sm_rest m.
Proof.
  induction ops as [|o ops IH]; intros w i m Hn.
  - exists m. auto.
  - destruct (sstep_state stk w o i m Hn) as (m1 & N1 & S1 & R1).
    destruct (IH (sstep stk w o) i m1 N1) as (m' & N' & S' & R').
    exists m'. simpl fold_left. repeat split; try congruence.
    rewrite S', S1. apply settle_now_run.
Qed.

Lemma srun_state stk heap ops i m :
  nth_error heap i = Some m ->
  exists m', nth_error (sw_heap (srun stk heap ops)) i = Some m'
             /\ sm_st m' = final_state m i ops /\ sm_rest m' = sm_rest m.
Proof. intros Hn. apply (srun_state_gen stk ops (SW heap [] [] 0 []) i m Hn). Qed.

Lemma srun_closes_total stk heap ops : sw_closes (srun stk heap ops) = count_closes ops.
Proof. unfold srun. rewrite srun_closes. reflexivity. Qed.

(** the first settlement wins, through any stack: C03's law for the wrapped object *)
Lemma final_state_first_wins m i ops :
  st (sm_st m) = Unsettled ->
  st (final_state m i ops) = match settle_ops i ops with
                             | [] => Unsettled
                             | OpAck :: _ => Acked
                             | OpNack :: _ => Nacked
                             | _ :: _ => st (final_state m i ops)
                             end.
Proof.
  intros H. unfold final_state.
  assert (K : forall l s, st s <> Unsettled -> Forall (fun o => o = OpAck \/ o = OpNack) l -> fst (run s l) = s).
  { induction l as [|o l IHl]; intros s Hs Hf; [reflexivity|].
    rewrite run_cons_fst. inversion Hf; subst. rewrite (step_settled s o Hs). apply IHl; assumption. }
  assert (F : Forall (fun o => o = OpAck \/ o = OpNack) (settle_ops i ops)).
  { unfold settle_ops. apply Forall_forall. intros x Hx. apply in_flat_map in Hx as (o & _ & Hx).
    destruct o as [j|j ack|]; simpl in Hx; try contradiction.
    destruct (Nat.eqb i j); simpl in Hx; [|contradiction]. destruct Hx as [<-|[]]. destruct ack; auto. }
  destruct (settle_ops i ops) as [|o l]; [exact H|].
  inversion F; subst. rewrite run_cons_fst.
  destruct H2 as [-> | ->].
  - rewrite K; [apply step_unsettled_ack; exact H | rewrite step_unsettled_ack by exact H; discriminate | assumption].
  - rewrite K; [apply step_unsettled_nack; exact H | rewrite step_unsettled_nack by exact H; discriminate | assumption].
Qed.

(** * delivery order *)
Lemma valid_emits_len (h h' : list smsg) ops : length h = length h' -> valid_emits h ops = valid_emits h' ops.
Proof.
  intros H. unfold valid_emits. apply filter_ext. intros i.
  destruct (nth_error h i) eqn:E1, (nth_error h' i) eqn:E2; try reflexivity.
  - apply nth_error_None in E2. assert (nth_error h i <> None) by congruence. apply nth_error_Some in H0. lia.
  - apply nth_error_None in E1. assert (nth_error h' i <> None) by congruence. apply nth_error_Some in H0. lia.
Qed.

Lemma sstep_heap_len stk w o : length (sw_heap (sstep stk w o)) = length (sw_heap w).
Proof.
  destruct o as [j|j ack|]; simpl; [| |reflexivity].
  - destruct (nth_error (sw_heap w) j); [|reflexivity]. destruct (sw_closes w); [|reflexivity].
    destruct (flush j (spass stk s)). simpl. apply set_nth_length.
  - destruct (nth_error (sw_heap w) j); [|reflexivity].
    destruct (step (sm_st s) (if ack then OpAck else OpNack)). destruct (flush j (set_st s m)). simpl. apply set_nth_length.
Qed.

Lemma valid_emits_emit h j ops :
  valid_emits h (SoEmit j :: ops) = (match nth_error h j with Some _ => [j] | None => [] end) ++ valid_emits h ops.
Proof. unfold valid_emits. simpl. destruct (nth_error h j); reflexivity. Qed.
Lemma valid_emits_settle h j a ops : valid_emits h (SoSettle j a :: ops) = valid_emits h ops.
Proof. reflexivity. Qed.
Lemma valid_emits_close h ops : valid_emits h (SoClose :: ops) = [].
Proof. reflexivity. Qed.

(** the consumer receives exactly the objects the wrapped subscriber sent before Close, in order *)
Lemma srun_out_gen stk ops : forall w,
  map fst (sw_out (fold_left (sstep stk) ops w))
  = map fst (sw_out w) ++ (if Nat.eqb (sw_closes w) 0 then valid_emits (sw_heap w) ops else []).
Proof.
  induction ops as [|o ops IH]; intros w.
  - simpl. unfold valid_emits. simpl. destruct (Nat.eqb (sw_closes w) 0); rewrite app_nil_r; reflexivity.
  - simpl fold_left. rewrite IH, sstep_closes.
    rewrite (valid_emits_len _ _ ops (sstep_heap_len stk w o)).
    destruct o as [j|j ack|].
    + rewrite valid_emits_emit. simpl sstep.
      destruct (nth_error (sw_heap w) j) eqn:Ej.
      * destruct (sw_closes w) eqn:Ec; simpl.
        -- destruct (flush j (spass stk s)). simpl. rewrite map_app, <- app_assoc. reflexivity.
        -- reflexivity.
      * reflexivity.
    + rewrite valid_emits_settle. simpl sstep.
      destruct (nth_error (sw_heap w) j); [|reflexivity].
      destruct (step (sm_st s) (if ack then OpAck else OpNack)). destruct (flush j (set_st s m)). reflexivity.
    + rewrite valid_emits_close. simpl. destruct (Nat.eqb (sw_closes w) 0); reflexivity.
Qed.

Lemma srun_out stk heap ops : map fst (sw_out (srun stk heap ops)) = valid_emits heap ops.
Proof. unfold srun. rewrite srun_out_gen. reflexivity. Qed.

(** what is delivered is the wrapped subscriber's object after one pass through the stack *)
Lemma sstep_out stk w i m :
  nth_error (sw_heap w) i = Some m -> sw_closes w = 0 ->
  sw_out (sstep stk w (SoEmit i)) = sw_out w ++ [(i, spass stk m)].
Proof. intros H C. simpl. rewrite H, C. destruct (flush i (spass stk m)). reflexivity. Qed.
