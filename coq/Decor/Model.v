(** C20 — model of the Pub/Sub decorators (no proofs here):
      message/decorator.go            MessageTransformPublisherDecorator / MessageTransformSubscriberDecorator
      components/delay/delay.go       For, Until, Message (the stamp)
      components/delay/publisher.go   publisher.Publish / applyDelay / Close
      components/metrics/publisher.go PublisherPrometheusMetricsDecorator.Publish / Close
      components/metrics/subscriber.go recordMetrics (+ builder.go DecorateSubscriber)
      components/metrics/handler.go   HandlerPrometheusMetricsMiddleware.Middleware
      components/metrics/ctx.go       publishObserved / subscribeObserved marks
      components/metrics/labels.go    labelsFromCtx
    Decorators are stream transformers over message OBJECTS: a message object is a record that
    carries everything the decorators read or write (delay metadata, the delay in its context,
    the metrics marks in its context, the names the Router put in its context); identity is the
    position in a heap.  Settlement of a received message is the C03 machine (Message/Model.v).
    Prometheus is a log of observations (label tuples); a counter / histogram sample count is the
    number of occurrences of the label tuple in the log. *)
From WM Require Import Base.Prelude Message.Model.

(** * delay values (components/delay/delay.go) *)

(** [d_sec] = Unix seconds of Delay.time (what time.RFC3339 keeps), [d_dur] = Delay.duration in ns *)
Record delay := D { d_sec : Z; d_dur : Z }.

Definition ns_per_s : Z := 1000000000%Z.
Definition max_dur : Z := 9223372036854775807%Z.
Definition min_dur : Z := (-9223372036854775808)%Z.
(** time.Time.Sub saturates *)
Definition sat (x : Z) : Z := Z.max min_dur (Z.min max_dur x).

(** delay.For(d) at clock reading [now] (ns since the epoch): time = now + d, duration = d *)
Definition mk_for (now d : Z) : delay := D ((now + d) / ns_per_s)%Z d.
(** delay.Until(t): time = t, duration = t.Sub(now) *)
Definition mk_until (now t : Z) : delay := D (t / ns_per_s)%Z (sat (t - now)%Z).

(** value of one of the two delay metadata keys, canonicalised by key *)
Inductive mval :=
| MAbsent                (* key not in the metadata *)
| MEmpty                 (* key present with value "" *)
| MRaw (id : N)          (* some other string *)
| MDur (ns : Z)          (* _watermill_delayed_for: a time.Duration string *)
| MTime (sec : Z).       (* _watermill_delayed_until: an RFC 3339 time *)

(** Metadata.Get(k) != "" *)
Definition nonempty (v : mval) : bool :=
  match v with MAbsent | MEmpty => false | _ => true end.

(** what the DefaultDelayGenerator answers for a message *)
Inductive genres := GDelay (d : delay) | GErr (e : N).

(** * publisher side *)

Record pmsg := PM {
  pm_id : N;                 (* object number *)
  pm_rest : N;               (* digest of UUID, payload and all other metadata *)
  pm_trail : list N;         (* tags of the transforms applied so far, in order *)
  pm_for : mval;
  pm_until : mval;
  pm_ctx : option delay;     (* delay.WithContext on the message context *)
  pm_gen : genres;           (* the generator's answer for this message, if asked *)
  pm_mark : bool;            (* publishObserved in the message context *)
  pm_hname : N;              (* handler_name in the context, 0 = unset *)
  pm_pname : N               (* publisher_name in the context, 0 = unset *)
}.

Definition e_nodelay : N := 1%N.      (* errors.New("message doesn't have a delay set") *)
Definition no_handler : N := 2%N.     (* "<no handler>" *)
Definition e_panic : N := 3%N.        (* not an error value: the wrapped publisher's Publish PANICKED; as a
                                         script answer / call result it means "the call ended in that panic" *)

Inductive source := SrcCtx | SrcGen.
Inductive decision :=
| Keep                               (* metadata already present: untouched *)
| Stamp (s : source) (d : delay)
| Reject (e : N)                     (* generator error / no delay available *)
| PassBare.                          (* no delay, AllowNoDelay *)

(** applyDelay as a total decision function (publisher.go l.54-83) *)
Definition decide (hasgen allow : bool) (m : pmsg) : decision :=
  if nonempty (pm_for m) then Keep
  else match pm_ctx m with
       | Some d => Stamp SrcCtx d
       | None =>
           if hasgen then
             match pm_gen m with GDelay d => Stamp SrcGen d | GErr e => Reject e end
           else if allow then PassBare else Reject e_nodelay
       end.

(** delay.Message: both keys from the same Delay value *)
Definition stamp (d : delay) (m : pmsg) : pmsg :=
  PM (pm_id m) (pm_rest m) (pm_trail m) (MDur (d_dur d)) (MTime (d_sec d))
     (pm_ctx m) (pm_gen m) (pm_mark m) (pm_hname m) (pm_pname m).

Definition apply_decision (dc : decision) (m : pmsg) : pmsg :=
  match dc with Stamp _ d => stamp d m | _ => m end.

Definition gen_called (hasgen : bool) (m : pmsg) : bool :=
  negb (nonempty (pm_for m)) && match pm_ctx m with None => hasgen | Some _ => false end.

Definition add_trail (tag : N) (m : pmsg) : pmsg :=
  PM (pm_id m) (pm_rest m) (pm_trail m ++ [tag]) (pm_for m) (pm_until m)
     (pm_ctx m) (pm_gen m) (pm_mark m) (pm_hname m) (pm_pname m).

Definition set_mark (m : pmsg) : pmsg :=
  PM (pm_id m) (pm_rest m) (pm_trail m) (pm_for m) (pm_until m)
     (pm_ctx m) (pm_gen m) true (pm_hname m) (pm_pname m).

Inductive pevent :=
| EvGen (topic id : N)                     (* DefaultDelayGenerator called with (topic, message) *)
| EvInner (topic : N) (batch : list pmsg). (* the wrapped publisher's Publish, with the messages as they are then *)

(** (handler_name, publisher_name, success) of publish_time_seconds *)
Definition plabel := (N * N * bool)%type.

Inductive pdec :=
| PTransform (tag : N)                     (* transform appends [tag] to the trail *)
| PDelay (hasgen allow : bool)             (* delay.NewPublisher(_, PublisherConfig{gen?, AllowNoDelay}) *)
| PMetrics (name : N).                     (* DecoratePublisher; [name] = StructName of what it wraps *)

(** the loop of delay.publisher.Publish: the first rejection aborts; messages before it stay stamped *)
Fixpoint delay_batch (hasgen allow : bool) (topic : N) (msgs : list pmsg)
  : list pevent * list pmsg * option N :=
  match msgs with
  | [] => ([], [], None)
  | m :: rest =>
      let ev := if gen_called hasgen m then [EvGen topic (pm_id m)] else [] in
      match decide hasgen allow m with
      | Reject e => (ev, m :: rest, Some e)
      | dc =>
          let '(ev', rest', r) := delay_batch hasgen allow topic rest in
          (ev ++ ev', apply_decision dc m :: rest', r)
      end
  end.

Definition or_default (d v : N) : N := if N.eqb v 0%N then d else v.

(** labels of the publish observation: from the FIRST message's context *)
Definition pub_label (name : N) (m0 : pmsg) (res : option N) : plabel :=
  (or_default no_handler (pm_hname m0), or_default name (pm_pname m0),
   match res with None => true | Some _ => false end).

(** variant of the success label: [fixed = false] is the code as pinned, whose deferred observer
    sees err == nil while a panic of the wrapped publisher propagates (the pattern of D11) *)
Definition pub_success (fixed : bool) (res : option N) : bool :=
  match res with
  | None => true
  | Some e => N.eqb e e_panic && negb fixed
  end.
Definition pub_label_v (fixed : bool) (name : N) (m0 : pmsg) (res : option N) : plabel :=
  (or_default no_handler (pm_hname m0), or_default name (pm_pname m0), pub_success fixed res).

Record pout := PO {
  po_script : list (option N);   (* what is left of the inner publisher's script *)
  po_ev : list pevent;
  po_obs : list plabel;
  po_msgs : list pmsg;           (* the message objects after the call *)
  po_res : option N              (* None = nil, Some e = error e *)
}.

(** one Publish call through a decorator stack (outermost first) onto a scripted publisher whose
    k-th call answers with the k-th script entry (accept when the script is exhausted) *)
Fixpoint publish (st : list pdec) (script : list (option N)) (topic : N) (msgs : list pmsg) : pout :=
  match st with
  | [] => PO (tl script) [EvInner topic msgs] [] msgs (hd None script)
  | PTransform tag :: st' => publish st' script topic (map (add_trail tag) msgs)
  | PDelay g a :: st' =>
      let '(ev, msgs', r) := delay_batch g a topic msgs in
      match r with
      | Some e => PO script ev [] msgs' (Some e)
      | None =>
          let o := publish st' script topic msgs' in
          PO (po_script o) (ev ++ po_ev o) (po_obs o) (po_msgs o) (po_res o)
      end
  | PMetrics name :: st' =>
      match msgs with
      | [] => publish st' script topic []                        (* empty batch: not observed *)
      | m0 :: _ =>
          let o := publish st' script topic (map set_mark msgs) in
          if pm_mark m0 then o                                   (* mark read BEFORE marking *)
          else PO (po_script o) (po_ev o) (po_obs o ++ [pub_label name m0 (po_res o)])
                  (po_msgs o) (po_res o)
      end
  end.

(** Close of a publisher stack: every layer forwards to what it wraps; result = inner result *)
Fixpoint pclose {A} (st : list A) (inner : option N) : nat * option N :=
  match st with
  | [] => (1%nat, inner)            (* the wrapped publisher/subscriber's own Close *)
  | _ :: st' => pclose st' inner    (* a decorator: return d.inner.Close() *)
  end.

(** ** sequences of Publish calls over a heap of message objects *)
Record pcall := PC { pc_topic : N; pc_batch : list nat }.

Definition read {A} (heap : list A) (idx : list nat) : list (nat * A) :=
  flat_map (fun i => match nth_error heap i with Some m => [(i, m)] | None => [] end) idx.

Fixpoint set_nth {A} (heap : list A) (i : nat) (v : A) : list A :=
  match heap, i with
  | [], _ => []
  | _ :: t, O => v :: t
  | h :: t, S i' => h :: set_nth t i' v
  end.

Fixpoint write {A} (heap : list A) (idx : list nat) (vs : list A) : list A :=
  match idx, vs with
  | i :: idx', v :: vs' => write (set_nth heap i v) idx' vs'
  | _, _ => heap
  end.

Record pstate := PS {
  ps_heap : list pmsg; ps_script : list (option N);
  ps_ev : list pevent; ps_obs : list plabel; ps_res : list (option N)
}.

Definition pstep (st : list pdec) (s : pstate) (c : pcall) : pstate :=
  let b := read (ps_heap s) (pc_batch c) in
  let o := publish st (ps_script s) (pc_topic c) (map snd b) in
  PS (write (ps_heap s) (map fst b) (po_msgs o)) (po_script o)
     (ps_ev s ++ po_ev o) (ps_obs s ++ po_obs o) (ps_res s ++ [po_res o]).

Definition prun (st : list pdec) (heap : list pmsg) (script : list (option N)) (calls : list pcall) : pstate :=
  fold_left (pstep st) calls (PS heap script [] [] []).

(** ** derived notions the theorems talk about *)
Definition transform_tags (st : list pdec) : list N :=
  flat_map (fun d => match d with PTransform t => [t] | _ => [] end) st.

Definition inner_calls (ev : list pevent) : list (N * list pmsg) :=
  flat_map (fun e => match e with EvInner t b => [(t, b)] | _ => [] end) ev.

(** does the call get as far as a metrics layer (no delay layer above it rejects)? *)
Fixpoint reaches_metrics (st : list pdec) (msgs : list pmsg) : bool :=
  match st with
  | [] => false
  | PTransform tag :: st' => reaches_metrics st' (map (add_trail tag) msgs)
  | PDelay g a :: st' =>
      let '(_, msgs', r) := delay_batch g a 0%N msgs in
      match r with Some _ => false | None => reaches_metrics st' msgs' end
  | PMetrics _ :: _ => true
  end.

(** what the delay layers of the stack make of the batch: the first rejection, if any *)
Fixpoint stack_reject (st : list pdec) (msgs : list pmsg) : option N :=
  match st with
  | [] => None
  | PTransform tag :: st' => stack_reject st' (map (add_trail tag) msgs)
  | PDelay g a :: st' =>
      let '(_, msgs', r) := delay_batch g a 0%N msgs in
      match r with Some e => Some e | None => stack_reject st' msgs' end
  | PMetrics _ :: st' => stack_reject st' (map set_mark msgs)
  end.

(** the first rejection of one delay layer over a batch, if any *)
Fixpoint first_reject (hasgen allow : bool) (msgs : list pmsg) : option N :=
  match msgs with
  | [] => None
  | m :: r => match decide hasgen allow m with Reject e => Some e | _ => first_reject hasgen allow r end
  end.

(** what the whole stack makes of one message of a batch that is not rejected *)
Definition layer_final (d : pdec) (m : pmsg) : pmsg :=
  match d with
  | PTransform t => add_trail t m
  | PDelay g a => apply_decision (decide g a m) m
  | PMetrics _ => set_mark m
  end.
Definition stack_final (st : list pdec) (m : pmsg) : pmsg := fold_left (fun m d => layer_final d m) st m.

(** the observation records of a model run, call by call *)
Definition fresh_batch (msgs : list pmsg) : bool :=
  match msgs with [] => false | m0 :: _ => negb (pm_mark m0) end.

Definition has_delay (m : pmsg) : bool := nonempty (pm_for m).

(** * subscriber side *)

Record smsg := SM {
  sm_rest : N;                   (* digest of UUID, payload, metadata *)
  sm_trail : list N;             (* transform tags, in order of application *)
  sm_mark : bool;                (* subscribeObserved in the context *)
  sm_watch : list (N * N);       (* goroutines waiting for the settlement: (handler_name, subscriber_name) *)
  sm_st : mstate;                (* Ack/Nack state machine of the object (C03) *)
  sm_hname : N; sm_sname : N     (* names in the context, 0 = unset *)
}.

Inductive sdec := STransform (tag : N) | SMetrics (name : N).

Definition slayer (d : sdec) (m : smsg) : smsg :=
  match d with
  | STransform t => SM (sm_rest m) (sm_trail m ++ [t]) (sm_mark m) (sm_watch m) (sm_st m) (sm_hname m) (sm_sname m)
  | SMetrics name =>
      if sm_mark m then m
      else SM (sm_rest m) (sm_trail m) true
              (sm_watch m ++ [(or_default no_handler (sm_hname m), or_default name (sm_sname m))])
              (sm_st m) (sm_hname m) (sm_sname m)
  end.

(** stack outermost first: the message passes the innermost decorator first *)
Definition spass (st : list sdec) (m : smsg) : smsg := fold_right slayer m st.

(** (object, handler_name, subscriber_name, acked) of subscriber_messages_received_total *)
Definition sobs := (nat * N * N * bool)%type.

(** the waiting goroutines fire once the message is settled *)
Definition flush (i : nat) (m : smsg) : smsg * list sobs :=
  match st (sm_st m) with
  | Unsettled => (m, [])
  | Acked => (SM (sm_rest m) (sm_trail m) (sm_mark m) [] (sm_st m) (sm_hname m) (sm_sname m),
              map (fun w => (i, fst w, snd w, true)) (sm_watch m))
  | Nacked => (SM (sm_rest m) (sm_trail m) (sm_mark m) [] (sm_st m) (sm_hname m) (sm_sname m),
               map (fun w => (i, fst w, snd w, false)) (sm_watch m))
  end.

Inductive sop :=
| SoEmit (i : nat)                 (* the wrapped subscriber sends object i; the consumer reads it *)
| SoSettle (i : nat) (ack : bool)  (* the consumer calls Ack / Nack on what it received *)
| SoClose.                         (* Close() of the decorated subscriber *)

Record sworld := SW {
  sw_heap : list smsg;
  sw_out : list (nat * smsg);      (* what the consumer received, in order, as it was then *)
  sw_obs : list sobs;
  sw_closes : nat;                 (* Close calls that reached the wrapped subscriber *)
  sw_rets : list res               (* results of the Ack/Nack calls *)
}.

Definition set_st (m : smsg) (s : mstate) : smsg :=
  SM (sm_rest m) (sm_trail m) (sm_mark m) (sm_watch m) s (sm_hname m) (sm_sname m).

Definition sstep (stk : list sdec) (w : sworld) (o : sop) : sworld :=
  match o with
  | SoEmit i =>
      match nth_error (sw_heap w) i, sw_closes w with
      | Some m, O =>
          let m1 := spass stk m in
          let '(m2, ob) := flush i m1 in
          SW (set_nth (sw_heap w) i m2) (sw_out w ++ [(i, m1)]) (sw_obs w ++ ob) (sw_closes w) (sw_rets w)
      | _, _ => w                    (* closed: the wrapped subscriber's channel is closed *)
      end
  | SoSettle i ack =>
      match nth_error (sw_heap w) i with
      | Some m =>
          let '(s', r) := step (sm_st m) (if ack then OpAck else OpNack) in
          let '(m2, ob) := flush i (set_st m s') in
          SW (set_nth (sw_heap w) i m2) (sw_out w) (sw_obs w ++ ob) (sw_closes w) (sw_rets w ++ [r])
      | None => w
      end
  | SoClose => SW (sw_heap w) (sw_out w) (sw_obs w) (S (sw_closes w)) (sw_rets w)
  end.

Definition srun (stk : list sdec) (heap : list smsg) (ops : list sop) : sworld :=
  fold_left (sstep stk) ops (SW heap [] [] O []).

(** specification-side projections of an op list *)
Fixpoint emitted_before_close (ops : list sop) : list nat :=
  match ops with
  | [] => []
  | SoEmit i :: r => i :: emitted_before_close r
  | SoSettle _ _ :: r => emitted_before_close r
  | SoClose :: _ => []
  end.
Definition settle_ops (i : nat) (ops : list sop) : list op :=
  flat_map (fun o => match o with
                     | SoSettle j ack => if Nat.eqb i j then [if ack then OpAck else OpNack] else []
                     | _ => [] end) ops.
Definition count_closes (ops : list sop) : nat :=
  length (filter (fun o => match o with SoClose => true | _ => false end) ops).
Definition stransform_tags (st : list sdec) : list N :=
  flat_map (fun d => match d with STransform t => [t] | _ => [] end) st.
Definition has_smetrics (st : list sdec) : bool :=
  existsb (fun d => match d with SMetrics _ => true | _ => false end) st.
Definition sfresh (m : smsg) : bool :=
  negb (sm_mark m) && match sm_watch m with [] => true | _ => false end.
Definition obs_of (i : nat) (obs : list sobs) : list sobs :=
  filter (fun o => Nat.eqb (fst (fst (fst o))) i) obs.

(** * handler middleware (components/metrics/handler.go) *)

Inductive hout := HOk | HErr | HPanic.
(** [fixed = false]: the code as pinned — the deferred observer sees err == nil while the panic
    propagates (D11); [fixed = true]: a panicking handler is recorded as a failure *)
Definition success_label (fixed : bool) (o : hout) : bool :=
  match o with HOk => true | HErr => false | HPanic => negb fixed end.
Definition hlabel := (N * bool)%type.     (* (handler_name, success) *)
(** the middleware applied [layers] times around one handler: every layer observes *)
Definition mw_obs (fixed : bool) (layers : nat) (c : N * hout) : list hlabel :=
  repeat (fst c, success_label fixed (snd c)) layers.
Definition run_mw (fixed : bool) (layers : nat) (calls : list (N * hout)) : list hlabel :=
  flat_map (mw_obs fixed layers) calls.

Definition hlabel_eqb (a b : hlabel) : bool := N.eqb (fst a) (fst b) && Bool.eqb (snd a) (snd b).
Definition hcount (l : hlabel) (obs : list hlabel) : nat := length (filter (hlabel_eqb l) obs).
(** the specification: invocations of handler [h] whose outcome is "succeeded = s" *)
Definition hspec (l : hlabel) (calls : list (N * hout)) : nat :=
  length (filter (fun c => N.eqb (fst c) (fst l)
                           && Bool.eqb (match snd c with HOk => true | _ => false end) (snd l)) calls).
