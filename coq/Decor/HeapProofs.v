(** C20 — proofs about the in-place model of Publish (Decor/Heap.v): batches that may hold the
    same object several times. *)
From WM Require Import Base.Prelude Message.Model Decor.Model Decor.Heap Decor.Monitor Decor.Proofs Decor.SubProofs.

Lemma map_set_nth {B} (g : pmsg -> B) h i m v :
  nth_error h i = Some m -> g v = g m -> map g (set_nth h i v) = map g h.
Proof.
  revert i. induction h as [|a h IH]; intros [|i] H E; simpl in *; try discriminate.
  - inversion H; subst. rewrite E. reflexivity.
  - rewrite (IH i H E). reflexivity.
Qed.

Lemma hmap_pres {B} (g : pmsg -> B) f idx : (forall m, g (f m) = g m) ->
  forall h, map g (hmap f idx h) = map g h.
Proof.
  intros Hf. induction idx as [|i r IH]; intros h; simpl; [reflexivity|].
  destruct (nth_error h i) as [m|] eqn:E; [|apply IH].
  rewrite IH. apply (map_set_nth g h i m); auto.
Qed.

Lemma map_hreads {B} (g : pmsg -> B) h idx :
  map g (hreads h idx) = flat_map (fun i => match nth_error (map g h) i with Some x => [x] | None => [] end) idx.
Proof.
  unfold hreads. induction idx as [|i r IH]; simpl; [reflexivity|].
  rewrite map_app, IH, nth_error_map. destruct (nth_error h i); reflexivity.
Qed.

Lemma hreads_same {B} (g : pmsg -> B) h h' idx : map g h = map g h' -> map g (hreads h idx) = map g (hreads h' idx).
Proof. intros H. rewrite !map_hreads, H. reflexivity. Qed.

Definition dbh_ev (x : list pevent * list pmsg * option N) := fst (fst x).
Definition dbh_heap (x : list pevent * list pmsg * option N) := snd (fst x).
Definition dbh_res (x : list pevent * list pmsg * option N) := snd x.

Lemma delay_batch_h_shape g a t idx : forall h,
  map pm_id (dbh_heap (delay_batch_h g a t idx h)) = map pm_id h
  /\ map pm_rest (dbh_heap (delay_batch_h g a t idx h)) = map pm_rest h
  /\ map pm_mark (dbh_heap (delay_batch_h g a t idx h)) = map pm_mark h
  /\ inner_calls (dbh_ev (delay_batch_h g a t idx h)) = [].
Proof.
  induction idx as [|i r IH]; intros h; simpl; [auto|].
  destruct (nth_error h i) as [m|] eqn:E; [|apply IH].
  assert (Hev : inner_calls (if gen_called g m then [EvGen t (pm_id m)] else []) = [])
    by (destruct (gen_called g m); reflexivity).
  assert (K : forall dc, map pm_id (set_nth h i (apply_decision dc m)) = map pm_id h
                         /\ map pm_rest (set_nth h i (apply_decision dc m)) = map pm_rest h
                         /\ map pm_mark (set_nth h i (apply_decision dc m)) = map pm_mark h).
  { intros dc. repeat split; apply (map_set_nth _ h i m _ E); destruct dc; reflexivity. }
  destruct (decide g a m) eqn:D;
    try (destruct (IH (set_nth h i (apply_decision (decide g a m) m))) as (A1 & A2 & A3 & A4);
         destruct (K (decide g a m)) as (K1 & K2 & K3); rewrite D in *;
         destruct (delay_batch_h g a t r _) as [[ev' h'] res]; unfold dbh_heap, dbh_ev in *; simpl in *;
         rewrite inner_calls_app, Hev, A4; repeat split; congruence).
  unfold dbh_heap, dbh_ev. simpl. auto.
Qed.

(** transparency as coded, for ANY batch of positions (repetitions allowed): identities and
    contents of all objects are untouched; the wrapped publisher is called at most once; if it is
    called, it gets the same positions in the same order on the same topic, sees the objects as
    they are after the call, and its answer comes back unchanged; if not, the result is an error
    and the script is untouched *)
Lemma publish_h_shape st : forall script topic idx h,
  map pm_id (ho_heap (publish_h st script topic idx h)) = map pm_id h
  /\ map pm_rest (ho_heap (publish_h st script topic idx h)) = map pm_rest h
  /\ ((inner_calls (ho_ev (publish_h st script topic idx h)) = []
       /\ (exists e, ho_res (publish_h st script topic idx h) = Some e)
       /\ ho_script (publish_h st script topic idx h) = script)
      \/ (inner_calls (ho_ev (publish_h st script topic idx h))
          = [(topic, hreads (ho_heap (publish_h st script topic idx h)) idx)]
          /\ ho_res (publish_h st script topic idx h) = hd None script
          /\ ho_script (publish_h st script topic idx h) = tl script)).
Proof.
  induction st as [|d st IH]; intros script topic idx h.
  - simpl. repeat split. right. auto.
  - destruct d as [tag|g a|name].
    + simpl. destruct (IH script topic idx (hmap (add_trail tag) idx h)) as (A1 & A2 & A3).
      rewrite A1, A2, !hmap_pres by reflexivity. auto.
    + simpl. destruct (delay_batch_h_shape g a topic idx h) as (D1 & D2 & _ & D4).
      destruct (delay_batch_h g a topic idx h) as [[ev h'] r]. unfold dbh_heap, dbh_ev in *. simpl in *.
      destruct r as [e|]; simpl.
      * repeat split; auto. left. repeat split; eauto.
      * destruct (IH script topic idx h') as (A1 & A2 & A3). rewrite A1, A2, D1, D2. repeat split.
        rewrite inner_calls_app, D4. exact A3.
    + simpl. destruct (hreads h idx) as [|m0 ms] eqn:R; [apply IH|].
      destruct (IH script topic idx (hmap set_mark idx h)) as (A1 & A2 & A3).
      rewrite !hmap_pres in A1, A2 by reflexivity.
      destruct (pm_mark m0); simpl; auto.
Qed.

(** so the acceptor for batches with repeated objects accepts every call of the in-place model *)
Lemma publish_h_call_ok_dup st script topic idx h :
  call_ok_dup (PObs topic (hreads h idx) (ho_ev (publish_h st script topic idx h)) (hd None script)
                    (ho_res (publish_h st script topic idx h))
                    (hreads (ho_heap (publish_h st script topic idx h)) idx)) = true.
Proof.
  unfold call_ok_dup. simpl.
  destruct (publish_h_shape st script topic idx h) as (A1 & A2 & A3).
  assert (S : same_objects (hreads h idx) (hreads (ho_heap (publish_h st script topic idx h)) idx) = true).
  { apply same_objects_of; apply hreads_same; auto. }
  rewrite S. simpl. destruct A3 as [(B1 & (e & B2) & _) | (B1 & B2 & _)].
  - rewrite B1, B2. reflexivity.
  - rewrite B1, B2. rewrite N.eqb_refl, S, optN_eqb_refl, (list_eqb_refl pmsg_eqb pmsg_eqb_refl). reflexivity.
Qed.

