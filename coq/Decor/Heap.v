(** C20 — one Publish call IN PLACE on a heap of message objects (no proofs here).
    [Decor/Model.v publish] passes the batch by value, which is what the Go code does only as long
    as no *Message occurs twice in the batch.  Go passes pointers: a transform, a stamp or a mark
    applied to the first occurrence is visible at the second.  Here the batch is a list of heap
    positions and every layer mutates the heap, exactly as coded:
      transform loop  (message/decorator.go l.76-79): transform(messages[i]) for every POSITION
      delay loop      (delay/publisher.go l.42-47):   applyDelay(messages[i]) for every position;
                                                      the second occurrence already carries the stamp
      metrics         (metrics/publisher.go):          mark read from position 0, then all marked. *)
From WM Require Import Base.Prelude Message.Model Decor.Model.

Definition hget (h : list pmsg) (i : nat) : option pmsg := nth_error h i.

(** positions that exist (Publish is only ever handed real objects) *)
Definition hvalid (h : list pmsg) (idx : list nat) : list nat :=
  filter (fun i => match nth_error h i with Some _ => true | None => false end) idx.

Definition hreads (h : list pmsg) (idx : list nat) : list pmsg :=
  flat_map (fun i => match nth_error h i with Some m => [m] | None => [] end) idx.

(** for i := range messages { f(messages[i]) } *)
Fixpoint hmap (f : pmsg -> pmsg) (idx : list nat) (h : list pmsg) : list pmsg :=
  match idx with
  | [] => h
  | i :: r => match nth_error h i with
              | Some m => hmap f r (set_nth h i (f m))
              | None => hmap f r h
              end
  end.

Fixpoint delay_batch_h (hasgen allow : bool) (topic : N) (idx : list nat) (h : list pmsg)
  : list pevent * list pmsg * option N :=
  match idx with
  | [] => ([], h, None)
  | i :: r =>
      match nth_error h i with
      | None => delay_batch_h hasgen allow topic r h
      | Some m =>
          let ev := if gen_called hasgen m then [EvGen topic (pm_id m)] else [] in
          match decide hasgen allow m with
          | Reject e => (ev, h, Some e)
          | dc =>
              let '(ev', h', res) := delay_batch_h hasgen allow topic r (set_nth h i (apply_decision dc m)) in
              (ev ++ ev', h', res)
          end
      end
  end.

Record hpout := HO {
  ho_script : list (option N); ho_ev : list pevent; ho_obs : list plabel;
  ho_heap : list pmsg; ho_res : option N
}.

Fixpoint publish_h (st : list pdec) (script : list (option N)) (topic : N) (idx : list nat) (h : list pmsg) : hpout :=
  match st with
  | [] => HO (tl script) [EvInner topic (hreads h idx)] [] h (hd None script)
  | PTransform tag :: st' => publish_h st' script topic idx (hmap (add_trail tag) idx h)
  | PDelay g a :: st' =>
      let '(ev, h', r) := delay_batch_h g a topic idx h in
      match r with
      | Some e => HO script ev [] h' (Some e)
      | None =>
          let o := publish_h st' script topic idx h' in
          HO (ho_script o) (ev ++ ho_ev o) (ho_obs o) (ho_heap o) (ho_res o)
      end
  | PMetrics name :: st' =>
      match hreads h idx with
      | [] => publish_h st' script topic idx h
      | m0 :: _ =>
          let o := publish_h st' script topic idx (hmap set_mark idx h) in
          if pm_mark m0 then o
          else HO (ho_script o) (ho_ev o) (ho_obs o ++ [pub_label name m0 (ho_res o)]) (ho_heap o) (ho_res o)
      end
  end.

Definition pstep_h (st : list pdec) (s : pstate) (c : pcall) : pstate :=
  let o := publish_h st (ps_script s) (pc_topic c) (pc_batch c) (ps_heap s) in
  PS (ho_heap o) (ho_script o) (ps_ev s ++ ho_ev o) (ps_obs s ++ ho_obs o) (ps_res s ++ [ho_res o]).

Definition prun_h (st : list pdec) (heap : list pmsg) (script : list (option N)) (calls : list pcall) : pstate :=
  fold_left (pstep_h st) calls (PS heap script [] [] []).
