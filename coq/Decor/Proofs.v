(** C20 — proofs about Decor/Model.v and Decor/Monitor.v *)
From WM Require Import Base.Prelude Message.Model Decor.Model Decor.Monitor.

Lemma pclose_once {A} (st : list A) r : pclose st r = (1, r).
Proof. induction st; simpl; auto. Qed.
