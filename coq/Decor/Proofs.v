(** C20 — proofs about Decor/Model.v and Decor/Monitor.v *)
From WM Require Import Base.Prelude Message.Model Decor.Model Decor.Monitor.

(** * Close *)
Lemma pclose_once {A} (st : list A) r : pclose st r = (1, r).
Proof. induction st; simpl; auto. Qed.

(** * handler middleware *)
Lemma hcount_app l a b : hcount l (a ++ b) = hcount l a + hcount l b.
Proof. unfold hcount. rewrite filter_app, app_length. reflexivity. Qed.

Lemma hcount_repeat l x n : hcount l (repeat x n) = if hlabel_eqb l x then n else 0.
Proof.
  unfold hcount. induction n; simpl.
  - destruct (hlabel_eqb l x); reflexivity.
  - destruct (hlabel_eqb l x) eqn:E; simpl; rewrite IHn; reflexivity.
Qed.

(** k layers: every invocation is observed k times with the label of its outcome *)
Lemma run_mw_layers fixed k calls l :
  hcount l (run_mw fixed k calls)
  = k * length (filter (fun c => hlabel_eqb l (fst c, success_label fixed (snd c))) calls).
Proof.
  induction calls as [|c calls IH]; simpl.
  - unfold hcount. simpl. lia.
  - rewrite hcount_app, IH. unfold mw_obs. rewrite hcount_repeat.
    destruct (hlabel_eqb l (fst c, success_label fixed (snd c))); simpl; lia.
Qed.

Lemma hlabel_eqb_sym a b : hlabel_eqb a b = hlabel_eqb b a.
Proof. unfold hlabel_eqb. rewrite N.eqb_sym. f_equal. destruct (snd a), (snd b); reflexivity. Qed.

Lemma hspec_filter l calls :
  hspec l calls = length (filter (fun c => hlabel_eqb l (fst c, success_label true (snd c))) calls).
Proof.
  unfold hspec. f_equal. apply filter_ext. intros [h o]. unfold hlabel_eqb. simpl.
  rewrite (N.eqb_sym h). f_equal. destruct o, (snd l); reflexivity.
Qed.

(** the repaired middleware, applied once: every invocation counted exactly once, success="true"
    exactly for the invocations that returned without error (panics are failures) *)
Lemma mw_counted_once calls l : hcount l (run_mw true 1 calls) = hspec l calls.
Proof. rewrite run_mw_layers, hspec_filter. lia. Qed.

Lemma mw_counted_layers k calls l : hcount l (run_mw true k calls) = k * hspec l calls.
Proof. rewrite run_mw_layers, hspec_filter. reflexivity. Qed.

(** the pinned code (D11): a panic is recorded as a success *)
Lemma mw_panic_refuted :
  exists calls l, hcount l (run_mw false 1 calls) <> hspec l calls.
Proof. exists [(5%N, HPanic)], (5%N, true). vm_compute. discriminate. Qed.

(** applied twice, every invocation is counted twice (known finding) *)
Lemma mw_twice_refuted :
  exists calls l, hcount l (run_mw true 2 calls) <> hspec l calls.
Proof. exists [(5%N, HOk)], (5%N, true). vm_compute. discriminate. Qed.

(** the acceptor the check evaluates accepts exactly tables that carry the specified counts;
    the model's table for one layer of the repaired middleware is accepted *)
Lemma mw_monitor_sound calls tab :
  (forall l, lookup hlabel_eqb l tab = hcount l (run_mw true 1 calls)) ->
  mw_monitor calls tab = true.
Proof.
  intros H. unfold mw_monitor. apply andb_true_iff. split; apply forallb_forall; intros x _;
    apply Nat.eqb_eq; rewrite H; apply mw_counted_once.
Qed.

(** * delay: the precedence function *)
Lemma decide_metadata g a m : nonempty (pm_for m) = true -> decide g a m = Keep.
Proof. unfold decide. intros ->. reflexivity. Qed.

Lemma decide_ctx g a m d : nonempty (pm_for m) = false -> pm_ctx m = Some d -> decide g a m = Stamp SrcCtx d.
Proof. unfold decide. intros -> ->. reflexivity. Qed.

Lemma decide_gen a m : nonempty (pm_for m) = false -> pm_ctx m = None ->
  decide true a m = match pm_gen m with GDelay d => Stamp SrcGen d | GErr e => Reject e end.
Proof. unfold decide. intros -> ->. reflexivity. Qed.

Lemma decide_none a m : nonempty (pm_for m) = false -> pm_ctx m = None ->
  decide false a m = if a then PassBare else Reject e_nodelay.
Proof. unfold decide. intros -> ->. reflexivity. Qed.

Lemma stamp_both d m :
  pm_for (stamp d m) = MDur (d_dur d) /\ pm_until (stamp d m) = MTime (d_sec d)
  /\ nonempty (pm_for (stamp d m)) = true.
Proof. simpl. auto. Qed.

Lemma apply_unstamped g a m : (forall s d, decide g a m <> Stamp s d) -> apply_decision (decide g a m) m = m.
Proof. destruct (decide g a m); simpl; intros H; try reflexivity. exfalso. eapply H. reflexivity. Qed.

Lemma stack_stamp_keep st m : nonempty (pm_for m) = true -> stack_stamp st m = m.
Proof.
  unfold stack_stamp. induction st as [|d st IH]; simpl; intros H; [reflexivity|].
  destruct d; try (apply IH; exact H).
  rewrite decide_metadata by exact H. simpl. apply IH. exact H.
Qed.

(** at most one stamp, whatever the stack: the result is the message itself or the message
    stamped once, and then it carried no (non-empty) delay before *)
Lemma stack_stamp_once st m :
  stack_stamp st m = m \/ exists d, stack_stamp st m = stamp d m /\ nonempty (pm_for m) = false.
Proof.
  unfold stack_stamp. induction st as [|x st IH]; simpl; [left; reflexivity|].
  destruct x; try apply IH.
  destruct (decide hasgen allow m) eqn:E; simpl; try apply IH.
  right. exists d. split.
  - apply (stack_stamp_keep st (stamp d m)). reflexivity.
  - unfold decide in E. destruct (nonempty (pm_for m)); [discriminate|reflexivity].
Qed.

(** delayed-until = clock + delayed-for *)
Lemma for_agrees now d : d_sec (mk_for now d) = ((now + d_dur (mk_for now d)) / ns_per_s)%Z.
Proof. reflexivity. Qed.

Lemma until_agrees now t : (min_dur <= t - now <= max_dur)%Z ->
  d_sec (mk_until now t) = ((now + d_dur (mk_until now t)) / ns_per_s)%Z.
Proof.
  intros H. unfold mk_until, sat. simpl. f_equal.
  rewrite Z.min_r by lia. rewrite Z.max_r by lia. lia.
Qed.

Lemma agree_within_sound t0 t1 now d :
  (t0 <= now <= t1)%Z -> d_sec d = ((now + d_dur d) / ns_per_s)%Z -> agree_within t0 t1 d = true.
Proof.
  intros H E. unfold agree_within. rewrite E. apply andb_true_iff.
  split; apply Z.leb_le; apply Z.div_le_mono; unfold ns_per_s; lia.
Qed.

(** * publisher stacks *)
Definition db_msgs (x : list pevent * list pmsg * option N) := snd (fst x).
Definition db_res (x : list pevent * list pmsg * option N) := snd x.
Definition db_ev (x : list pevent * list pmsg * option N) := fst (fst x).

Lemma delay_batch_spec g a t msgs :
  db_res (delay_batch g a t msgs) = first_reject g a msgs
  /\ (first_reject g a msgs = None ->
      db_msgs (delay_batch g a t msgs) = map (fun m => apply_decision (decide g a m) m) msgs).
Proof.
  induction msgs as [|m r IH]; simpl; [auto|].
  destruct IH as [H1 H2].
  destruct (decide g a m) eqn:E; simpl;
    try (destruct (delay_batch g a t r) as [[ev' r'] res]; unfold db_res, db_msgs in *; simpl in *;
         split; [exact H1 | intros H; rewrite H2 by exact H; reflexivity]).
  split; [reflexivity | discriminate].
Qed.

Lemma delay_batch_notopic g a t t' msgs :
  db_msgs (delay_batch g a t msgs) = db_msgs (delay_batch g a t' msgs)
  /\ db_res (delay_batch g a t msgs) = db_res (delay_batch g a t' msgs).
Proof.
  induction msgs as [|m r IH]; simpl; [auto|].
  destruct IH as [H1 H2].
  destruct (decide g a m) eqn:E; simpl;
    try (destruct (delay_batch g a t r) as [[ev1 r1] res1]; destruct (delay_batch g a t' r) as [[ev2 r2] res2];
         unfold db_res, db_msgs in *; simpl in *; subst; auto).
  all: auto.
Qed.

Lemma delay_batch_ids g a t msgs :
  map pm_id (db_msgs (delay_batch g a t msgs)) = map pm_id msgs
  /\ map pm_rest (db_msgs (delay_batch g a t msgs)) = map pm_rest msgs.
Proof.
  induction msgs as [|m r IH]; simpl; [auto|].
  destruct IH as [H1 H2].
  destruct (decide g a m) eqn:E; simpl;
    try (destruct (delay_batch g a t r) as [[ev1 r1] res1]; unfold db_msgs in *; simpl in *;
         rewrite H1, H2; auto).
  all: auto.
Qed.

Lemma inner_calls_app a b : inner_calls (a ++ b) = inner_calls a ++ inner_calls b.
Proof. unfold inner_calls. apply flat_map_app. Qed.

Lemma delay_batch_no_inner g a t msgs : inner_calls (db_ev (delay_batch g a t msgs)) = [].
Proof.
  induction msgs as [|m r IH]; simpl; [reflexivity|].
  assert (Hev : inner_calls (if gen_called g m then [EvGen t (pm_id m)] else []) = [])
    by (destruct (gen_called g m); reflexivity).
  destruct (decide g a m) eqn:E; simpl;
    try (destruct (delay_batch g a t r) as [[ev1 r1] res1]; unfold db_ev in *; simpl in *;
         rewrite inner_calls_app, Hev, IH; reflexivity).
  unfold db_ev. simpl. exact Hev.
Qed.

Lemma stack_final_cons d st m : stack_final (d :: st) m = stack_final st (layer_final d m).
Proof. reflexivity. Qed.

Lemma map_stack_final_cons d st msgs :
  map (stack_final (d :: st)) msgs = map (stack_final st) (map (layer_final d) msgs).
Proof. rewrite map_map. reflexivity. Qed.

(** transparency of one Publish call: either a delay layer rejects (no call of the wrapped
    publisher, that error, script untouched) or there is exactly one call, with the topic, the whole
    batch as the layers leave it, and the wrapped publisher's answer is returned unchanged *)
Lemma publish_spec st : forall script topic msgs,
  match stack_reject st msgs with
  | Some e => inner_calls (po_ev (publish st script topic msgs)) = []
              /\ po_res (publish st script topic msgs) = Some e
              /\ po_script (publish st script topic msgs) = script
  | None => inner_calls (po_ev (publish st script topic msgs)) = [(topic, po_msgs (publish st script topic msgs))]
            /\ po_res (publish st script topic msgs) = hd None script
            /\ po_script (publish st script topic msgs) = tl script
            /\ po_msgs (publish st script topic msgs) = map (stack_final st) msgs
  end.
Proof.
  induction st as [|d st IH]; intros script topic msgs.
  - simpl. repeat split. symmetry. apply map_id.
  - destruct d as [tag|g a|name].
    + simpl. specialize (IH script topic (map (add_trail tag) msgs)).
      destruct (stack_reject st (map (add_trail tag) msgs)); [exact IH|].
      destruct IH as (H1 & H2 & H3 & H4). repeat split; auto.
      rewrite H4, map_map. reflexivity.
    + simpl.
      destruct (delay_batch_notopic g a topic 0%N msgs) as [Hm Hr].
      pose proof (delay_batch_no_inner g a topic msgs) as Hi.
      pose proof (delay_batch_spec g a topic msgs) as [Hs1 Hs2].
      destruct (delay_batch g a topic msgs) as [[ev msgs'] r].
      destruct (delay_batch g a 0%N msgs) as [[ev0 msgs0] r0].
      unfold db_msgs, db_res, db_ev in *. simpl in *. subst msgs0 r0.
      destruct r as [e|]; simpl.
      * repeat split; auto.
      * specialize (IH script topic msgs').
        destruct (stack_reject st msgs'); simpl.
        -- destruct IH as (H1 & H2 & H3). rewrite inner_calls_app, Hi, H1. auto.
        -- destruct IH as (H1 & H2 & H3 & H4). rewrite inner_calls_app, Hi, H1. repeat split; auto.
           rewrite H4, Hs2 by (symmetry; exact Hs1). rewrite map_map. reflexivity.
    + destruct msgs as [|m0 r].
      * simpl. specialize (IH script topic []). simpl in IH.
        destruct (stack_reject st []); [exact IH|].
        destruct IH as (H1 & H2 & H3 & H4). repeat split; auto.
      * cbn [publish stack_reject].
        specialize (IH script topic (map set_mark (m0 :: r))).
        assert (E : forall o : pout,
                   (if pm_mark m0 then o else
                      PO (po_script o) (po_ev o) (po_obs o ++ [pub_label name m0 (po_res o)]) (po_msgs o) (po_res o))
                   = PO (po_script o) (po_ev o)
                        (if pm_mark m0 then po_obs o else po_obs o ++ [pub_label name m0 (po_res o)])
                        (po_msgs o) (po_res o))
          by (intros [? ? ? ? ?]; destruct (pm_mark m0); reflexivity).
        rewrite E. simpl po_ev. simpl po_res. simpl po_script. simpl po_msgs.
        destruct (stack_reject st (map set_mark (m0 :: r))); [exact IH|].
        destruct IH as (H1 & H2 & H3 & H4). repeat split; auto.
        etransitivity; [exact H4|]. rewrite map_map. reflexivity.
Qed.

(** what the layers do to one message: identity, content, context are untouched; the trail grows
    by the stack's transform tags in order; the delay metadata is [stack_stamp] *)
Lemma layer_final_untouched d m :
  pm_id (layer_final d m) = pm_id m /\ pm_rest (layer_final d m) = pm_rest m
  /\ pm_ctx (layer_final d m) = pm_ctx m /\ pm_gen (layer_final d m) = pm_gen m
  /\ pm_hname (layer_final d m) = pm_hname m /\ pm_pname (layer_final d m) = pm_pname m.
Proof. destruct d as [t|g a|n]; simpl; auto 10. destruct (decide g a m); simpl; auto 10. Qed.

Lemma stack_final_untouched st : forall m,
  pm_id (stack_final st m) = pm_id m /\ pm_rest (stack_final st m) = pm_rest m
  /\ pm_ctx (stack_final st m) = pm_ctx m /\ pm_gen (stack_final st m) = pm_gen m
  /\ pm_hname (stack_final st m) = pm_hname m /\ pm_pname (stack_final st m) = pm_pname m.
Proof.
  induction st as [|d st IH]; intros m; [simpl; auto 10|].
  rewrite stack_final_cons.
  destruct (IH (layer_final d m)) as (A1 & A2 & A3 & A4 & A5 & A6).
  destruct (layer_final_untouched d m) as (B1 & B2 & B3 & B4 & B5 & B6).
  repeat split; congruence.
Qed.

Lemma stack_final_trail st : forall m, pm_trail (stack_final st m) = pm_trail m ++ transform_tags st.
Proof.
  induction st as [|d st IH]; intros m; [simpl; symmetry; apply app_nil_r|].
  rewrite stack_final_cons, IH. destruct d as [t|g a|n]; simpl.
  - rewrite <- app_assoc. reflexivity.
  - destruct (decide g a m); reflexivity.
  - reflexivity.
Qed.

Definition deq (a b : pmsg) : Prop :=
  pm_for a = pm_for b /\ pm_until a = pm_until b /\ pm_ctx a = pm_ctx b /\ pm_gen a = pm_gen b.

Lemma decide_deq g a m1 m2 : deq m1 m2 -> decide g a m1 = decide g a m2.
Proof. intros (H1 & H2 & H3 & H4). unfold decide. rewrite H1, H3, H4. reflexivity. Qed.

Lemma stack_final_stamp st : forall m1 m2, deq m1 m2 -> deq (stack_final st m1) (stack_stamp st m2).
Proof.
  induction st as [|d st IH]; intros m1 m2 H; [exact H|].
  rewrite stack_final_cons. unfold stack_stamp. simpl. apply IH.
  destruct d as [t|g a|n]; simpl.
  - exact H.
  - rewrite (decide_deq g a m1 m2 H).
    destruct H as (H1 & H2 & H3 & H4).
    destruct (decide g a m2); simpl; repeat split; auto.
  - exact H.
Qed.

Lemma stack_final_delay st m :
  pm_for (stack_final st m) = pm_for (stack_stamp st m)
  /\ pm_until (stack_final st m) = pm_until (stack_stamp st m).
Proof.
  destruct (stack_final_stamp st m m) as (H1 & H2 & _); [repeat split|]. auto.
Qed.

(** the objects of the batch stay the same objects with the same content, whatever happens *)
Lemma publish_ids st : forall script topic msgs,
  map pm_id (po_msgs (publish st script topic msgs)) = map pm_id msgs
  /\ map pm_rest (po_msgs (publish st script topic msgs)) = map pm_rest msgs.
Proof.
  induction st as [|d st IH]; intros script topic msgs; [simpl; auto|].
  destruct d as [tag|g a|name].
  - simpl. destruct (IH script topic (map (add_trail tag) msgs)) as [H1 H2].
    rewrite H1, H2, !map_map. auto.
  - simpl. pose proof (delay_batch_ids g a topic msgs) as [D1 D2].
    destruct (delay_batch g a topic msgs) as [[ev msgs'] r]. unfold db_msgs in *. simpl in *.
    destruct r; simpl; [auto|].
    destruct (IH script topic msgs') as [H1 H2]. rewrite H1, H2. auto.
  - destruct msgs as [|m0 r]; [apply (IH script topic [])|].
    cbn [publish].
    destruct (IH script topic (map set_mark (m0 :: r))) as [H1 H2].
    rewrite !map_map in H1, H2.
    destruct (pm_mark m0); simpl po_msgs; auto.
Qed.

(** ** the publish metric of one call *)
Lemma first_metrics_name_skip d st :
  (forall n, d <> PMetrics n) -> first_metrics_name (d :: st) = first_metrics_name st.
Proof. intros H. destruct d; try reflexivity. exfalso. eapply H. reflexivity. Qed.

Lemma publish_obs st : forall script topic msgs,
  po_obs (publish st script topic msgs) =
  match msgs with
  | [] => []
  | m0 :: _ => if reaches_metrics st msgs && negb (pm_mark m0)
               then [pub_label (first_metrics_name st) m0 (po_res (publish st script topic msgs))]
               else []
  end.
Proof.
  induction st as [|d st IH]; intros script topic msgs.
  - simpl. destruct msgs; reflexivity.
  - destruct d as [tag|g a|name].
    + simpl. rewrite IH. destruct msgs as [|m0 r]; [reflexivity|]. simpl.
      rewrite first_metrics_name_skip by discriminate. reflexivity.
    + simpl.
      destruct (delay_batch_notopic g a topic 0%N msgs) as [Hm Hr].
      pose proof (delay_batch_spec g a topic msgs) as [Hs1 Hs2].
      destruct (delay_batch g a topic msgs) as [[ev msgs'] r].
      destruct (delay_batch g a 0%N msgs) as [[ev0 msgs0] r0].
      unfold db_msgs, db_res in *. simpl in *. subst msgs0 r0.
      destruct r as [e|]; simpl.
      * destruct msgs; reflexivity.
      * rewrite IH. rewrite Hs2 by (symmetry; exact Hs1).
        destruct msgs as [|m0 rest]; [reflexivity|]. simpl.
        rewrite first_metrics_name_skip by discriminate.
        assert (E : pm_mark (apply_decision (decide g a m0) m0) = pm_mark m0
                    /\ forall n x, pub_label n (apply_decision (decide g a m0) m0) x = pub_label n m0 x)
          by (destruct (decide g a m0); simpl; auto).
        destruct E as [E1 E2]. rewrite E1, E2. reflexivity.
    + destruct msgs as [|m0 r].
      * simpl. rewrite IH. reflexivity.
      * cbn [publish]. pose proof (IH script topic (map set_mark (m0 :: r))) as H.
        simpl map in H. cbn [pm_mark set_mark negb] in H. rewrite andb_false_r in H.
        simpl map. cbn [reaches_metrics]. simpl andb.
        destruct (pm_mark m0); simpl.
        -- exact H.
        -- rewrite H. reflexivity.
Qed.

(** ** reflexivity of the comparison functions *)
Lemma list_eqb_refl {A} (eqb : A -> A -> bool) : (forall x, eqb x x = true) -> forall l, list_eqb eqb l l = true.
Proof. intros H l. induction l; simpl; [reflexivity|]. rewrite H, IHl. reflexivity. Qed.
Lemma delay_eqb_refl d : delay_eqb d d = true.
Proof. unfold delay_eqb. rewrite !Z.eqb_refl. reflexivity. Qed.
Lemma mval_eqb_refl v : mval_eqb v v = true.
Proof. destruct v; simpl; auto using N.eqb_refl, Z.eqb_refl. Qed.
Lemma genres_eqb_refl v : genres_eqb v v = true.
Proof. destruct v; simpl; auto using N.eqb_refl, delay_eqb_refl. Qed.
Lemma optN_eqb_refl v : optN_eqb v v = true.
Proof. destruct v; simpl; auto using N.eqb_refl. Qed.
Lemma pmsg_eqb_refl m : pmsg_eqb m m = true.
Proof.
  unfold pmsg_eqb. rewrite !N.eqb_refl, (list_eqb_refl N.eqb N.eqb_refl), !mval_eqb_refl, genres_eqb_refl, Bool.eqb_reflx.
  destruct (pm_ctx m); simpl; [rewrite delay_eqb_refl|]; reflexivity.
Qed.

Lemma same_objects_of a b : map pm_id a = map pm_id b -> map pm_rest a = map pm_rest b -> same_objects a b = true.
Proof. intros H1 H2. unfold same_objects. rewrite H1, H2, !(list_eqb_refl N.eqb N.eqb_refl). reflexivity. Qed.

(** every Publish call of the model is accepted by the acceptor the check runs on the
    implementation's calls *)
Lemma publish_call_ok st script topic msgs :
  call_ok st (PObs topic msgs (po_ev (publish st script topic msgs)) (hd None script)
                   (po_res (publish st script topic msgs)) (po_msgs (publish st script topic msgs))) = true.
Proof.
  unfold call_ok. simpl.
  destruct (publish_ids st script topic msgs) as [I1 I2].
  rewrite (same_objects_of msgs _ (eq_sym I1) (eq_sym I2)). simpl.
  pose proof (publish_spec st script topic msgs) as H.
  destruct (stack_reject st msgs) as [e|].
  - destruct H as (H1 & H2 & H3). rewrite H1, H2. simpl. apply N.eqb_refl.
  - destruct H as (H1 & H2 & H3 & H4). rewrite H1, H2.
    rewrite N.eqb_refl, (same_objects_of msgs _ (eq_sym I1) (eq_sym I2)), optN_eqb_refl,
      (list_eqb_refl pmsg_eqb pmsg_eqb_refl). simpl.
    rewrite H4, !map_map.
    rewrite (map_ext (fun x => pm_trail (stack_final st x)) (fun m => pm_trail m ++ transform_tags st))
      by (intros; apply stack_final_trail).
    rewrite (map_ext (fun x => pm_for (stack_final st x)) (fun m => pm_for (stack_stamp st m)))
      by (intros; apply stack_final_delay).
    rewrite (map_ext (fun x => pm_until (stack_final st x)) (fun m => pm_until (stack_stamp st m)))
      by (intros; apply stack_final_delay).
    rewrite (list_eqb_refl (list_eqb N.eqb) (list_eqb_refl N.eqb N.eqb_refl)),
      !(list_eqb_refl mval_eqb mval_eqb_refl). reflexivity.
Qed.

(** ** sequences of calls *)
Lemma spec_pub_obs_cons st c cs : spec_pub_obs st (c :: cs) = spec_pub_obs st [c] ++ spec_pub_obs st cs.
Proof. unfold spec_pub_obs. simpl. rewrite app_nil_r. reflexivity. Qed.

Lemma prun_obs st calls : forall s,
  ps_obs (fold_left (pstep st) calls s) = ps_obs s ++ spec_pub_obs st (pobs_run st s calls).
Proof.
  induction calls as [|c cs IH]; intros s; [simpl; symmetry; apply app_nil_r|].
  cbn [fold_left pobs_run]. rewrite IH, spec_pub_obs_cons.
  unfold pstep at 1. cbn [ps_obs]. rewrite <- app_assoc. f_equal. f_equal.
  unfold spec_pub_obs. cbn [flat_map c_before c_res]. rewrite app_nil_r. apply publish_obs.
Qed.

Lemma prun_calls_ok st calls : forall s, forallb (call_ok st) (pobs_run st s calls) = true.
Proof.
  induction calls as [|c cs IH]; intros s; simpl; [reflexivity|].
  rewrite IH, andb_true_r. apply publish_call_ok.
Qed.

(** counts only depend on the log *)
Lemma pub_monitor_model st heap script calls tab :
  counts_agree plabel_eqb tab (ps_obs (prun st heap script calls)) = true ->
  pub_monitor st (pobs_run st (PS heap script [] [] []) calls) tab = true.
Proof.
  intros H. unfold pub_monitor. rewrite prun_calls_ok. simpl.
  unfold prun in H. rewrite prun_obs in H. exact H.
Qed.

(** ** the delay layer over a batch: atomic *)
Lemma delay_layer_rejects g a st msgs e :
  first_reject g a msgs = Some e -> stack_reject (PDelay g a :: st) msgs = Some e.
Proof.
  intros H. simpl. pose proof (delay_batch_spec g a 0%N msgs) as [Hs _].
  destruct (delay_batch g a 0%N msgs) as [[ev m'] r]. unfold db_res in Hs. simpl in Hs.
  rewrite Hs, H. reflexivity.
Qed.

Lemma delay_layer_passes g a st msgs :
  first_reject g a msgs = None ->
  stack_reject (PDelay g a :: st) msgs = stack_reject st (map (fun m => apply_decision (decide g a m) m) msgs).
Proof.
  intros H. simpl. pose proof (delay_batch_spec g a 0%N msgs) as [Hs Hm].
  destruct (delay_batch g a 0%N msgs) as [[ev m'] r]. unfold db_res, db_msgs in *. simpl in *.
  rewrite Hs, H. rewrite Hm by exact H. reflexivity.
Qed.

(** no generator, no AllowNoDelay: one message without any delay and nothing is published *)
Lemma no_delay_rejected a msgs m :
  a = false -> In m msgs -> nonempty (pm_for m) = false -> pm_ctx m = None ->
  first_reject false a msgs = Some e_nodelay.
Proof.
  intros -> Hin Hf Hc. induction msgs as [|x r IH]; [contradiction|]. simpl.
  unfold decide at 1. destruct (nonempty (pm_for x)) eqn:Ex.
  - destruct Hin as [->|Hin]; [congruence|]. apply IH. exact Hin.
  - destruct (pm_ctx x) eqn:Cx.
    + destruct Hin as [->|Hin]; [congruence|]. apply IH. exact Hin.
    + reflexivity.
Qed.

(** AllowNoDelay without a generator never rejects; a message without a delay goes out bare *)
Lemma allow_never_rejects msgs : first_reject false true msgs = None.
Proof.
  induction msgs as [|x r IH]; [reflexivity|]. simpl. unfold decide at 1.
  destruct (nonempty (pm_for x)); [exact IH|]. destruct (pm_ctx x); exact IH.
Qed.

(** ** the stamp does not depend on any clock reading at stamping time *)
Lemma stamp_until_exact c t m :
  pm_until (stamp (mk_until c t) m) = MTime (t / ns_per_s)%Z
  /\ pm_for (stamp (mk_until c t) m) = MDur (sat (t - c)%Z).
Proof. split; reflexivity. Qed.
Lemma stamp_for_exact c d m :
  pm_until (stamp (mk_for c d) m) = MTime ((c + d) / ns_per_s)%Z
  /\ pm_for (stamp (mk_for c d) m) = MDur d.
Proof. split; reflexivity. Qed.
