(** C20 — the publish metric of the in-place model (Decor/Heap.v) for ALL batches, also those that
    hold the same object several times: a simulation between the in-place run and the by-value run
    that ignores the transform trail (the only thing repetition changes). *)
From WM Require Import Base.Prelude Message.Model Decor.Model Decor.Heap Decor.Monitor Decor.Proofs Decor.SubProofs Decor.HeapProofs Decor.HeapRefine.

Definition untrail (m : pmsg) : pmsg :=
  PM (pm_id m) (pm_rest m) [] (pm_for m) (pm_until m) (pm_ctx m) (pm_gen m) (pm_mark m) (pm_hname m) (pm_pname m).

(** the "settle" function of one delay layer on a message that is not rejected; idempotent *)
Definition dsettle (g a : bool) (m : pmsg) : pmsg := apply_decision (decide g a m) m.

Lemma decide_untrail g a m : decide g a (untrail m) = decide g a m.
Proof. reflexivity. Qed.

Lemma untrail_dsettle g a m : untrail (dsettle g a m) = dsettle g a (untrail m).
Proof. unfold dsettle. rewrite decide_untrail. destruct (decide g a m); reflexivity. Qed.

Lemma dsettle_idem g a m : dsettle g a (dsettle g a m) = dsettle g a m.
Proof.
  unfold dsettle. destruct (decide g a m) eqn:D; cbn [apply_decision]; try (rewrite D; reflexivity).
  rewrite (decide_metadata g a (stamp d m)) by reflexivity. reflexivity.
Qed.

Lemma dsettle_not_reject g a m : (forall e, decide g a m <> Reject e) -> forall e, decide g a (dsettle g a m) <> Reject e.
Proof.
  unfold dsettle. intros H e. destruct (decide g a m) eqn:D; cbn [apply_decision]; try (rewrite D; discriminate).
  - rewrite (decide_metadata g a (stamp d m)) by reflexivity. discriminate.
  - exfalso. eapply H. reflexivity.
Qed.

Lemma first_reject_untrail g a l l' : map untrail l = map untrail l' -> first_reject g a l = first_reject g a l'.
Proof.
  revert l'. induction l as [|m l IH]; intros [|m' l'] H; try discriminate; [reflexivity|].
  cbn [map] in H.
  assert (H1 : untrail m = untrail m') by (exact (f_equal (hd (untrail m)) H)).
  assert (H2 : map untrail l = map untrail l') by (exact (f_equal (@tl pmsg) H)).
  cbn [first_reject].
  change (decide g a m) with (decide g a (untrail m)). change (decide g a m') with (decide g a (untrail m')).
  rewrite H1. destruct (decide g a (untrail m')); auto.
Qed.

(** ** in-place loops with an idempotent function read back as a map, repetitions or not *)
Lemma hmap_length f idx : forall h, length (hmap f idx h) = length h.
Proof.
  induction idx as [|i r IH]; intros h; simpl; [reflexivity|].
  destruct (nth_error h i); rewrite IH; [apply set_nth_length | reflexivity].
Qed.

Lemma hmap_point f idx : (forall m, f (f m) = f m) -> forall h i m,
  nth_error h i = Some m ->
  nth_error (hmap f idx h) i = Some (if existsb (Nat.eqb i) idx then f m else m).
Proof.
  intros Hf. induction idx as [|j r IH]; intros h i m E; simpl; [exact E|].
  destruct (nth_error h j) as [mj|] eqn:Ej.
  - destruct (Nat.eq_dec i j) as [->|Hne].
    + rewrite Nat.eqb_refl. simpl. rewrite Ej in E. inversion E; subst mj.
      rewrite (IH (set_nth h j (f m)) j (f m)) by (apply (nth_error_set_nth_same _ _ _ _ Ej)).
      rewrite Hf. destruct (existsb (Nat.eqb j) r); reflexivity.
    + assert (Nat.eqb i j = false) by (apply Nat.eqb_neq; exact Hne). rewrite H. simpl.
      apply IH. rewrite nth_error_set_nth_other by (intros K; apply Hne; symmetry; exact K). exact E.
  - assert (Nat.eqb i j = false).
    { apply Nat.eqb_neq. intros ->. congruence. }
    rewrite H. simpl. apply IH. exact E.
Qed.

Lemma hreads_hmap_idem f idx : (forall m, f (f m) = f m) -> forall h,
  hreads (hmap f idx h) idx = map f (hreads h idx).
Proof.
  intros Hf h. unfold hreads.
  assert (G : forall sub, (forall i, In i sub -> In i idx) ->
            flat_map (fun i => match nth_error (hmap f idx h) i with Some m => [m] | None => [] end) sub
            = map f (flat_map (fun i => match nth_error h i with Some m => [m] | None => [] end) sub)).
  { induction sub as [|i sub IHs]; intros Hs; [reflexivity|]. simpl. rewrite map_app, IHs by (intros; apply Hs; right; assumption).
    f_equal. destruct (nth_error h i) as [m|] eqn:E.
    - rewrite (hmap_point f idx Hf h i m E).
      assert (X : existsb (Nat.eqb i) idx = true).
      { apply existsb_exists. exists i. split; [apply Hs; left; reflexivity | apply Nat.eqb_refl]. }
      rewrite X. reflexivity.
    - assert (nth_error (hmap f idx h) i = None).
      { apply nth_error_None. rewrite hmap_length. apply nth_error_None. exact E. }
      rewrite H. reflexivity. }
  apply G. auto.
Qed.

(** ** the delay loop in place = the settle function at every listed position (no rejection) *)
Lemma first_reject_after_settle g a h i0 m0 r :
  nth_error h i0 = Some m0 -> (forall e, decide g a m0 <> Reject e) ->
  first_reject g a (hreads (set_nth h i0 (dsettle g a m0)) r) = first_reject g a (hreads h r).
Proof.
  intros E NR. induction r as [|j r IH]; [reflexivity|].
  destruct (Nat.eq_dec j i0) as [->|Hne].
  - rewrite (hreads_cons _ i0 r _ (nth_error_set_nth_same _ _ _ _ E)), (hreads_cons h i0 r m0 E).
    cbn [first_reject]. rewrite IH.
    pose proof (dsettle_not_reject g a m0 NR) as NR'.
    destruct (decide g a (dsettle g a m0)) eqn:D1, (decide g a m0) eqn:D2; try reflexivity;
      try (exfalso; eapply NR'; reflexivity); try (exfalso; eapply NR; reflexivity).
  - unfold hreads in *. cbn [flat_map]. rewrite nth_error_set_nth_other by (intros K; apply Hne; symmetry; exact K).
    destruct (nth_error h j) as [mj|]; [|exact IH]. cbn [app first_reject]. rewrite IH. reflexivity.
Qed.

Lemma delay_batch_h_settle g a t idx : forall h, hvalid_all h idx ->
  dbh_res (delay_batch_h g a t idx h) = first_reject g a (hreads h idx)
  /\ (first_reject g a (hreads h idx) = None ->
      dbh_heap (delay_batch_h g a t idx h) = hmap (dsettle g a) idx h).
Proof.
  induction idx as [|i r IH]; intros h V; [simpl; auto|]. inversion V; subst.
  destruct (valid_some h i H1) as [m E]. rewrite (hreads_cons h i r m E).
  cbn [delay_batch_h hmap first_reject]. rewrite E.
  destruct (decide g a m) eqn:D;
    try (assert (NR : forall e, decide g a m <> Reject e) by (intros e; rewrite D; discriminate);
         assert (V' : hvalid_all (set_nth h i (dsettle g a m)) r)
           by (eapply hvalid_len; [|exact H2]; symmetry; apply set_nth_length);
         destruct (IH _ V') as [A1 A2];
         rewrite (first_reject_after_settle g a h i m r E NR) in A1, A2;
         unfold dsettle in *; rewrite D in *; cbn [apply_decision] in *;
         destruct (delay_batch_h g a t r _) as [[ev' h'] res];
         unfold dbh_res, dbh_heap in *; cbn [fst snd] in *; split; [exact A1 | exact A2]).
  unfold dbh_res, dbh_heap. cbn [fst snd]. split; [reflexivity | discriminate].
Qed.

(** ** the simulation *)
Lemma untrail_nil l l' : map untrail l = map untrail l' ->
  match l, l' with
  | [], [] => True
  | m :: _, m' :: _ => untrail m = untrail m'
  | _, _ => False
  end.
Proof. destruct l, l'; simpl; intros H; try discriminate; auto. exact (f_equal (hd (untrail p)) H). Qed.

Lemma publish_h_simulates st : forall script topic idx h msgs,
  hvalid_all h idx -> map untrail (hreads h idx) = map untrail msgs ->
  ho_obs (publish_h st script topic idx h) = po_obs (publish st script topic msgs)
  /\ ho_res (publish_h st script topic idx h) = po_res (publish st script topic msgs)
  /\ ho_script (publish_h st script topic idx h) = po_script (publish st script topic msgs).
Proof.
  induction st as [|d st IH]; intros script topic idx h msgs V R; [simpl; auto|].
  destruct d as [tag|g a|name].
  - cbn [publish_h publish]. apply IH.
    + eapply hvalid_len; [|exact V]. symmetry. apply hmap_length.
    + transitivity (map untrail msgs); [|rewrite map_map; apply map_ext; reflexivity].
      rewrite <- R. apply hreads_same. apply hmap_pres. reflexivity.
  - cbn [publish_h publish].
    destruct (delay_batch_h_settle g a topic idx h V) as [S1 S2].
    pose proof (delay_batch_spec g a topic msgs) as [B1 B2].
    rewrite (first_reject_untrail g a _ _ R) in S1, S2.
    destruct (delay_batch_h g a topic idx h) as [[ev1 h1] r1].
    destruct (delay_batch g a topic msgs) as [[ev2 ms2] r2].
    unfold dbh_res, dbh_heap, db_res, db_msgs in *. cbn [fst snd] in *.
    rewrite <- B1 in S1. subst r1.
    destruct r2 as [e|]; [simpl; auto|].
    specialize (S2 (eq_sym B1)). specialize (B2 (eq_sym B1)). subst h1 ms2.
    assert (V1 : hvalid_all (hmap (dsettle g a) idx h) idx)
      by (eapply hvalid_len; [|exact V]; symmetry; apply hmap_length).
    assert (R1 : map untrail (hreads (hmap (dsettle g a) idx h) idx)
                 = map untrail (map (fun m => apply_decision (decide g a m) m) msgs)).
    { rewrite (hreads_hmap_idem _ idx (dsettle_idem g a)), !map_map.
      rewrite (map_ext (fun x => untrail (dsettle g a x)) (fun x => dsettle g a (untrail x))) by (intros; apply untrail_dsettle).
      rewrite (map_ext (fun x => untrail (apply_decision (decide g a x) x)) (fun x => dsettle g a (untrail x))) by (intros; apply untrail_dsettle).
      rewrite <- !(map_map untrail (dsettle g a)), R. reflexivity. }
    destruct (IH script topic idx _ _ V1 R1) as (A1 & A2 & A3). simpl. auto.
  - cbn [publish_h publish].
    pose proof (untrail_nil _ _ R) as HN.
    destruct (hreads h idx) as [|m0h msh] eqn:RH, msgs as [|m0 ms] eqn:RM; try contradiction.
    + apply IH; [exact V | rewrite RH; reflexivity].
    + assert (V1 : hvalid_all (hmap set_mark idx h) idx)
        by (eapply hvalid_len; [|exact V]; symmetry; apply hmap_length).
      assert (R1 : map untrail (hreads (hmap set_mark idx h) idx) = map untrail (map set_mark (m0 :: ms))).
      { rewrite (hreads_hmap_idem set_mark idx (fun m => eq_refl)), RH, !map_map.
        rewrite (map_ext (fun x => untrail (set_mark x)) (fun x => set_mark (untrail x))) by reflexivity.
        rewrite <- !(map_map untrail set_mark), R. reflexivity. }
      destruct (IH script topic idx _ _ V1 R1) as (A1 & A2 & A3).
      assert (EM : pm_mark m0h = pm_mark m0) by (exact (f_equal pm_mark HN)).
      assert (EL : forall r, pub_label name m0h r = pub_label name m0 r).
      { intros r. unfold pub_label. rewrite (f_equal pm_hname HN : pm_hname m0h = pm_hname m0),
          (f_equal pm_pname HN : pm_pname m0h = pm_pname m0). reflexivity. }
      rewrite EM. destruct (pm_mark m0); simpl; rewrite ?A1, ?A2, ?A3, ?EL; auto.
Qed.

(** ** the publish metric of one in-place call, any batch: one observation iff the call reaches a
    metrics layer with a non-empty batch whose FIRST position holds an uncounted object *)
Lemma reaches_metrics_refl_note : True. Proof. exact I. Qed.

Lemma publish_h_obs st script topic idx h : hvalid_all h idx ->
  ho_obs (publish_h st script topic idx h) =
  match hreads h idx with
  | [] => []
  | m0 :: _ => if reaches_metrics st (hreads h idx) && negb (pm_mark m0)
               then [pub_label (first_metrics_name st) m0 (ho_res (publish_h st script topic idx h))]
               else []
  end.
Proof.
  intros V. destruct (publish_h_simulates st script topic idx h (hreads h idx) V eq_refl) as (A1 & A2 & _).
  rewrite A1, A2. apply publish_obs.
Qed.

(** ** every in-place run is accepted by the acceptor the check evaluates — ALL batches *)
Lemma in_hreads h r i m : In i r -> nth_error h i = Some m -> In m (hreads h r).
Proof.
  unfold hreads. induction r as [|j r IH]; intros Hin E; [contradiction|]. simpl. apply in_or_app.
  destruct Hin as [->|Hin]; [left; rewrite E; left; reflexivity | right; apply IH; assumption].
Qed.

Lemma nodup_of_snapshot h idx : hvalid_all h idx -> has_dup (hreads h idx) = false -> NoDup idx.
Proof.
  unfold has_dup. intros V H. apply negb_false_iff in H.
  induction idx as [|i r IH]; [constructor|]. inversion V; subst.
  destruct (valid_some h i H2) as [m E]. rewrite (hreads_cons h i r m E) in H. simpl in H.
  apply andb_true_iff in H as [Hn Hr]. apply negb_true_iff in Hn. constructor; [|apply IH; assumption].
  intros Hin. pose proof (in_hreads h r i m Hin E) as Hm.
  assert (X : existsb (N.eqb (pm_id m)) (map pm_id (hreads h r)) = true).
  { apply existsb_exists. exists (pm_id m). split; [apply in_map; exact Hm | apply N.eqb_refl]. }
  congruence.
Qed.

Lemma publish_h_call_ok_all st script topic idx h : hvalid_all h idx ->
  call_ok_any st (PObs topic (hreads h idx) (ho_ev (publish_h st script topic idx h)) (hd None script)
                       (ho_res (publish_h st script topic idx h))
                       (hreads (ho_heap (publish_h st script topic idx h)) idx)) = true.
Proof.
  intros V. destruct (has_dup (hreads h idx)) eqn:D.
  - unfold call_ok_any. cbn [c_before]. rewrite D. apply publish_h_call_ok_dup.
  - apply publish_h_call_ok_any; [apply (nodup_of_snapshot h idx V D) | exact V].
Qed.

Definition valid_calls (n : nat) (calls : list pcall) : Prop :=
  Forall (fun c => Forall (fun i => i < n) (pc_batch c)) calls.

Lemma pstep_h_len st s c : length (ps_heap (pstep_h st s c)) = length (ps_heap s).
Proof.
  unfold pstep_h. cbn [ps_heap].
  destruct (publish_h_shape st (ps_script s) (pc_topic c) (pc_batch c) (ps_heap s)) as (A & _).
  apply (f_equal (@length N)) in A. rewrite !map_length in A. exact A.
Qed.

Lemma prun_h_calls_ok_all st calls : forall s, valid_calls (length (ps_heap s)) calls ->
  forallb (call_ok_any st) (pobs_run_h st s calls) = true.
Proof.
  induction calls as [|c cs IH]; intros s H; [reflexivity|]. inversion H as [|? ? V Hr]; subst.
  cbn [pobs_run_h forallb]. rewrite (publish_h_call_ok_all st _ _ _ _ V). simpl.
  apply IH. unfold valid_calls. rewrite pstep_h_len. exact Hr.
Qed.

Lemma prun_h_obs_all st calls : forall s, valid_calls (length (ps_heap s)) calls ->
  ps_obs (fold_left (pstep_h st) calls s) = ps_obs s ++ spec_pub_obs st (pobs_run_h st s calls).
Proof.
  induction calls as [|c cs IH]; intros s H; [simpl; symmetry; apply app_nil_r|].
  inversion H as [|? ? V Hr]; subst.
  cbn [fold_left pobs_run_h]. rewrite IH by (unfold valid_calls; rewrite pstep_h_len; exact Hr).
  rewrite spec_pub_obs_cons. unfold pstep_h at 1. cbn [ps_obs]. rewrite <- app_assoc. f_equal. f_equal.
  unfold spec_pub_obs. cbn [flat_map c_before c_res]. rewrite app_nil_r. apply publish_h_obs. exact V.
Qed.

Lemma pub_monitor_any_model_all st heap script calls tab :
  valid_calls (length heap) calls ->
  counts_agree plabel_eqb tab (ps_obs (prun_h st heap script calls)) = true ->
  pub_monitor_any st (pobs_run_h st (PS heap script [] [] []) calls) tab = true.
Proof.
  intros G H. unfold pub_monitor_any.
  rewrite (prun_h_calls_ok_all st calls (PS heap script [] [] []) G). simpl.
  unfold prun_h in H. rewrite (prun_h_obs_all st calls (PS heap script [] [] []) G) in H. exact H.
Qed.
