(** C20 — the transform trail of the in-place model (Decor/Heap.v) when a batch repeats an object:
    each transform layer runs once per position. *)
From WM Require Import Base.Prelude Message.Model Decor.Model Decor.Heap Decor.Monitor Decor.Proofs Decor.SubProofs Decor.HeapProofs Decor.HeapRefine Decor.HeapCount.

Lemma count_nat_cons i j r : count_nat i (j :: r) = (if Nat.eqb i j then S (count_nat i r) else count_nat i r).
Proof. unfold count_nat. simpl. destruct (Nat.eqb i j); reflexivity. Qed.

Lemma iter_succ_r' {A} (f : A -> A) n x : Nat.iter (S n) f x = Nat.iter n f (f x).
Proof. induction n as [|n IH]; [reflexivity|]. simpl in *. rewrite IH. reflexivity. Qed.

(** the loop "for i := range messages { f(messages[i]) }" applies f to an object once per position *)
Lemma hmap_iter f idx : forall h i m, nth_error h i = Some m ->
  nth_error (hmap f idx h) i = Some (Nat.iter (count_nat i idx) f m).
Proof.
  induction idx as [|j r IH]; intros h i m E; [exact E|]. cbn [hmap]. rewrite count_nat_cons.
  destruct (nth_error h j) as [mj|] eqn:Ej.
  - destruct (Nat.eq_dec i j) as [->|Hne].
    + rewrite Nat.eqb_refl. rewrite Ej in E. inversion E; subst mj.
      rewrite (IH (set_nth h j (f m)) j (f m)) by (apply (nth_error_set_nth_same _ _ _ _ Ej)).
      rewrite iter_succ_r'. reflexivity.
    + assert (X : Nat.eqb i j = false) by (apply Nat.eqb_neq; exact Hne). rewrite X.
      apply IH. rewrite nth_error_set_nth_other by (intros K; apply Hne; symmetry; exact K). exact E.
  - assert (X : Nat.eqb i j = false) by (apply Nat.eqb_neq; intros ->; congruence). rewrite X. apply IH. exact E.
Qed.

Lemma repeat_snoc {A} (t : A) k : repeat t k ++ [t] = t :: repeat t k.
Proof. induction k as [|k IH]; simpl; [reflexivity|]. rewrite IH. reflexivity. Qed.

Lemma iter_add_trail t k m : pm_trail (Nat.iter k (add_trail t) m) = pm_trail m ++ repeat t k.
Proof.
  induction k as [|k IH]; simpl; [symmetry; apply app_nil_r|].
  rewrite IH, <- app_assoc, repeat_snoc. reflexivity.
Qed.

Lemma iter_pres_trail f k m : (forall x, pm_trail (f x) = pm_trail x) -> pm_trail (Nat.iter k f m) = pm_trail m.
Proof. intros H. induction k as [|k IH]; simpl; [reflexivity|]. rewrite H. exact IH. Qed.

Definition tag_block (k : nat) (tags : list N) : list N := concat (map (fun t => repeat t k) tags).

(** a call that reaches the wrapped publisher: every object of the heap has been through every
    transform of the stack once per position it occupies in the batch (0 times if it is not in it) *)
Lemma publish_h_trails st : forall script topic idx h,
  hvalid_all h idx ->
  inner_calls (ho_ev (publish_h st script topic idx h)) <> [] ->
  forall i m, nth_error h i = Some m ->
  exists m', nth_error (ho_heap (publish_h st script topic idx h)) i = Some m'
             /\ pm_trail m' = pm_trail m ++ tag_block (count_nat i idx) (transform_tags st).
Proof.
  induction st as [|d st IH]; intros script topic idx h V NE i m E.
  - exists m. simpl. unfold tag_block. simpl. rewrite app_nil_r. auto.
  - destruct d as [tag|g a|name].
    + cbn [publish_h] in *.
      assert (V1 : hvalid_all (hmap (add_trail tag) idx h) idx)
        by (eapply hvalid_len; [|exact V]; symmetry; apply hmap_length).
      pose proof (hmap_iter (add_trail tag) idx h i m E) as E1.
      destruct (IH script topic idx _ V1 NE i _ E1) as (m' & N' & T').
      exists m'. split; [exact N'|]. rewrite T', iter_add_trail. unfold tag_block. simpl.
      rewrite <- app_assoc. reflexivity.
    + cbn [publish_h] in *.
      destruct (delay_batch_h_settle g a topic idx h V) as [S1 S2].
      destruct (delay_batch_h_shape g a topic idx h) as (_ & _ & _ & D4).
      destruct (delay_batch_h g a topic idx h) as [[ev1 h1] r1].
      unfold dbh_res, dbh_heap, dbh_ev in *. cbn [fst snd] in *.
      destruct r1 as [e|].
      * exfalso. apply NE. simpl. exact D4.
      * specialize (S2 (eq_sym S1)). subst h1.
        simpl in NE. rewrite inner_calls_app, D4 in NE. simpl in NE.
        assert (V1 : hvalid_all (hmap (dsettle g a) idx h) idx)
          by (eapply hvalid_len; [|exact V]; symmetry; apply hmap_length).
        pose proof (hmap_iter (dsettle g a) idx h i m E) as E1.
        destruct (IH script topic idx _ V1 NE i _ E1) as (m' & N' & T').
        exists m'. simpl. split; [exact N'|]. rewrite T'.
        rewrite iter_pres_trail; [reflexivity|].
        intros x. unfold dsettle. destruct (decide g a x); reflexivity.
    + cbn [publish_h] in *. destruct (hreads h idx) as [|m0 ms] eqn:R.
      * destruct (IH script topic idx h V NE i m E) as (m' & N' & T'). exists m'. auto.
      * assert (V1 : hvalid_all (hmap set_mark idx h) idx)
          by (eapply hvalid_len; [|exact V]; symmetry; apply hmap_length).
        pose proof (hmap_iter set_mark idx h i m E) as E1.
        assert (NE1 : inner_calls (ho_ev (publish_h st script topic idx (hmap set_mark idx h))) <> [])
          by (destruct (pm_mark m0); exact NE).
        destruct (IH script topic idx _ V1 NE1 i _ E1) as (m' & N' & T').
        exists m'. split; [destruct (pm_mark m0); exact N'|].
        rewrite T', iter_pres_trail by reflexivity. reflexivity.
Qed.

(** ** from positions to identities: objects have distinct ids *)
Lemma id_inj h i j m mj :
  NoDup (map pm_id h) -> nth_error h i = Some m -> nth_error h j = Some mj -> pm_id m = pm_id mj -> i = j.
Proof.
  intros ND Ei Ej E. rewrite NoDup_nth_error in ND. apply ND.
  - rewrite map_length. apply nth_error_Some. congruence.
  - rewrite !nth_error_map, Ei, Ej. simpl. congruence.
Qed.

Lemma occ_count h idx i m :
  NoDup (map pm_id h) -> hvalid_all h idx -> nth_error h i = Some m ->
  occ (pm_id m) (map pm_id (hreads h idx)) = count_nat i idx.
Proof.
  intros ND V E. induction idx as [|j r IH]; [reflexivity|]. inversion V; subst.
  destruct (valid_some h j H1) as [mj Ej]. rewrite (hreads_cons h j r mj Ej), count_nat_cons.
  unfold occ in *. simpl. specialize (IH H2).
  destruct (Nat.eqb i j) eqn:X.
  - apply Nat.eqb_eq in X. subst j. rewrite Ej in E. inversion E; subst mj.
    rewrite N.eqb_refl. simpl. rewrite IH. reflexivity.
  - destruct (N.eqb (pm_id m) (pm_id mj)) eqn:Y; [|exact IH].
    apply N.eqb_eq in Y. apply Nat.eqb_neq in X. exfalso. apply X. eapply id_inj; eauto.
Qed.

Lemma trails_snapshot st script topic idx h :
  NoDup (map pm_id h) -> hvalid_all h idx ->
  inner_calls (ho_ev (publish_h st script topic idx h)) <> [] ->
  forall sub, hvalid_all h sub ->
  map pm_trail (hreads (ho_heap (publish_h st script topic idx h)) sub)
  = map (fun m => pm_trail m ++ tag_block (occ (pm_id m) (map pm_id (hreads h idx))) (transform_tags st))
        (hreads h sub).
Proof.
  intros ND V NE. induction sub as [|i r IH]; intros Vs; [reflexivity|]. inversion Vs; subst.
  destruct (valid_some h i H1) as [m E].
  destruct (publish_h_trails st script topic idx h V NE i m E) as (m' & N' & T').
  rewrite (hreads_cons _ i r m' N'), (hreads_cons h i r m E). simpl.
  rewrite IH by exact H2. rewrite T', (occ_count h idx i m ND V E). reflexivity.
Qed.

Lemma publish_h_trail_ok st script topic idx h :
  NoDup (map pm_id h) -> hvalid_all h idx ->
  trail_ok_dup st (PObs topic (hreads h idx) (ho_ev (publish_h st script topic idx h)) (hd None script)
                        (ho_res (publish_h st script topic idx h))
                        (hreads (ho_heap (publish_h st script topic idx h)) idx)) = true.
Proof.
  intros ND V. unfold trail_ok_dup. cbn [c_ev c_before].
  destruct (publish_h_shape st script topic idx h) as (_ & _ & [(B1 & _) | (B1 & _)]).
  - rewrite B1. reflexivity.
  - pose proof (trails_snapshot st script topic idx h ND V) as T.
    rewrite B1 in *. rewrite (T ltac:(discriminate) idx V).
    apply (list_eqb_refl (list_eqb N.eqb) (list_eqb_refl N.eqb N.eqb_refl)).
Qed.

(** ** whole runs: the complete acceptor accepts every in-place run *)
Lemma pstep_h_ids st s c : map pm_id (ps_heap (pstep_h st s c)) = map pm_id (ps_heap s).
Proof.
  unfold pstep_h. cbn [ps_heap].
  destruct (publish_h_shape st (ps_script s) (pc_topic c) (pc_batch c) (ps_heap s)) as (A & _). exact A.
Qed.

Lemma prun_h_trails_ok st calls : forall s,
  NoDup (map pm_id (ps_heap s)) -> valid_calls (length (ps_heap s)) calls ->
  forallb (trail_ok_dup st) (pobs_run_h st s calls) = true.
Proof.
  induction calls as [|c cs IH]; intros s ND H; [reflexivity|]. inversion H as [|? ? V Hr]; subst.
  cbn [pobs_run_h forallb]. rewrite (publish_h_trail_ok st _ _ _ _ ND V). simpl.
  apply IH; [rewrite pstep_h_ids; exact ND | unfold valid_calls; rewrite pstep_h_len; exact Hr].
Qed.

Lemma pub_monitor_full_model st heap script calls tab :
  NoDup (map pm_id heap) -> valid_calls (length heap) calls ->
  counts_agree plabel_eqb tab (ps_obs (prun_h st heap script calls)) = true ->
  pub_monitor_full st (pobs_run_h st (PS heap script [] [] []) calls) tab = true.
Proof.
  intros ND G H. unfold pub_monitor_full.
  rewrite (pub_monitor_any_model_all st heap script calls tab G H).
  rewrite (prun_h_trails_ok st calls (PS heap script [] [] []) ND G). reflexivity.
Qed.
