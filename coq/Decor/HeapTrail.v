(** C20 — the transform trail of the in-place model (Decor/Heap.v) when a batch repeats an object:
    each transform layer runs once per position. *)
From WM Require Import Base.Prelude Message.Model Decor.Model Decor.Heap Decor.Monitor Decor.Proofs Decor.SubProofs Decor.HeapProofs Decor.HeapRefine Decor.HeapCount.

Lemma count_nat_cons i j r : count_nat i (j :: r) = (if Nat.eqb i j then S (count_nat i r) else count_nat i r).
Proof. unfold count_nat. simpl. destruct (Nat.eqb i j); reflexivity. Qed.

Lemma iter_succ_r' {A} (f : A -> A) n x : Nat.iter (S n) f x = Nat.iter n f (f x).
Proof. induction n as [|n IH]; [reflexivity|]. simpl in *. rewrite IH. reflexivity. Qed.

(** the loop "for i := range messages { f(messages[i]) }" applies f to an object once per position *)
Lemma hmap_iter f idx : forall h i m, nth_error h i = Some m ->
  nth_error (hmap f idx h) i = Some (Nat.iter (count_nat i idx) f m).
Proof.
  induction idx as [|j r IH]; intros h i m E; [exact E|]. cbn [hmap]. rewrite count_nat_cons.
  destruct (nth_error h j) as [mj|] eqn:Ej.
  - destruct (Nat.eq_dec i j) as [->|Hne].
    + rewrite Nat.eqb_refl. rewrite Ej in E. inversion E; subst mj.
      rewrite (IH (set_nth h j (f m)) j (f m)) by (apply (nth_error_set_nth_same _ _ _ _ Ej)).
      rewrite iter_succ_r'. reflexivity.
    + assert (X : Nat.eqb i j = false) by (apply Nat.eqb_neq; exact Hne). rewrite X.
      apply IH. rewrite nth_error_set_nth_other by (intros K; apply Hne; symmetry; exact K). exact E.
  - assert (X : Nat.eqb i j = false) by (apply Nat.eqb_neq; intros ->; congruence). rewrite X. apply IH. exact E.
Qed.

Lemma repeat_snoc {A} (t : A) k : repeat t k ++ [t] = t :: repeat t k.
Proof. induction k as [|k IH]; simpl; [reflexivity|]. rewrite IH. reflexivity. Qed.

Lemma iter_add_trail t k m : pm_trail (Nat.iter k (add_trail t) m) = pm_trail m ++ repeat t k.
Proof.
  induction k as [|k IH]; simpl; [symmetry; apply app_nil_r|].
  rewrite IH, <- app_assoc, repeat_snoc. reflexivity.
Qed.

Lemma iter_pres_trail f k m : (forall x, pm_trail (f x) = pm_trail x) -> pm_trail (Nat.iter k f m) = pm_trail m.
Proof. intros H. induction k as [|k IH]; simpl; [reflexivity|]. rewrite H. exact IH. Qed.

Definition tag_block (k : nat) (tags : list N) : list N := concat (map (fun t => repeat t k) tags).

(** a call that reaches the wrapped publisher: every object of the heap has been through every
    transform of the stack once per position it occupies in the batch (0 times if it is not in it) *)
Lemma publish_h_trails st : forall script topic idx h,
  hvalid_all h idx ->
  inner_calls (ho_ev (publish_h st script topic idx h)) <> [] ->
  forall i m, nth_error h i = Some m ->
  exists m', nth_error (ho_heap (publish_h st script topic idx h)) i = Some m'
             /\ pm_trail m' = pm_trail m ++ tag_block (count_nat i idx) (transform_tags st).
Proof.
  induction st as [|d st IH]; intros script topic idx h V NE i m E.
  - exists m. simpl. unfold tag_block. simpl. rewrite app_nil_r. auto.
  - destruct d as [tag|g a|name].
    + cbn [publish_h] in *.
      assert (V1 : hvalid_all (hmap (add_trail tag) idx h) idx)
        by (eapply hvalid_len; [|exact V]; symmetry; apply hmap_length).
      pose proof (hmap_iter (add_trail tag) idx h i m E) as E1.
      destruct (IH script topic idx _ V1 NE i _ E1) as (m' & N' & T').
      exists m'. split; [exact N'|]. rewrite T', iter_add_trail. unfold tag_block. simpl.
      rewrite <- app_assoc. reflexivity.
    + cbn [publish_h] in *.
      destruct (delay_batch_h_settle g a topic idx h V) as [S1 S2].
      destruct (delay_batch_h_shape g a topic idx h) as (_ & _ & _ & D4).
      destruct (delay_batch_h g a topic idx h) as [[ev1 h1] r1].
      unfold dbh_res, dbh_heap, dbh_ev in *. cbn [fst snd] in *.
      destruct r1 as [e|].
      * exfalso. apply NE. simpl. exact D4.
      * specialize (S2 (eq_sym S1)). subst h1.
        simpl in NE. rewrite inner_calls_app, D4 in NE. simpl in NE.
        assert (V1 : hvalid_all (hmap (dsettle g a) idx h) idx)
          by (eapply hvalid_len; [|exact V]; symmetry; apply hmap_length).
        pose proof (hmap_iter (dsettle g a) idx h i m E) as E1.
        destruct (IH script topic idx _ V1 NE i _ E1) as (m' & N' & T').
        exists m'. simpl. split; [exact N'|]. rewrite T'.
        rewrite iter_pres_trail; [reflexivity|].
        intros x. unfold dsettle. destruct (decide g a x); reflexivity.
    + cbn [publish_h] in *. destruct (hreads h idx) as [|m0 ms] eqn:R.
      * destruct (IH script topic idx h V NE i m E) as (m' & N' & T'). exists m'. auto.
      * assert (V1 : hvalid_all (hmap set_mark idx h) idx)
          by (eapply hvalid_len; [|exact V]; symmetry; apply hmap_length).
        pose proof (hmap_iter set_mark idx h i m E) as E1.
        assert (NE1 : inner_calls (ho_ev (publish_h st script topic idx (hmap set_mark idx h))) <> [])
          by (destruct (pm_mark m0); exact NE).
        destruct (IH script topic idx _ V1 NE1 i _ E1) as (m' & N' & T').
        exists m'. split; [destruct (pm_mark m0); exact N'|].
        rewrite T', iter_pres_trail by reflexivity. reflexivity.
Qed.
