(** C20 — which label values every observation carries (components/metrics/labels.go labelsFromCtx +
    the fallbacks in publisher.go l.33-38, subscriber.go l.31-36, handler.go l.45-47), for messages
    consumed / published inside a Router (names in the message context) and outside (no names). *)
From WM Require Import Base.Prelude Message.Model Decor.Model Decor.Monitor Decor.Proofs Decor.SubProofs.

Lemma or_default_unset d : or_default d 0%N = d.
Proof. reflexivity. Qed.
Lemma or_default_set d v : v <> 0%N -> or_default d v = v.
Proof. unfold or_default. intros H. destruct (N.eqb v 0) eqn:E; [apply N.eqb_eq in E; contradiction | reflexivity]. Qed.

(** publish_time_seconds: every observation of a Publish call through any stack is labelled from the
    FIRST message of the batch: handler_name = the name in its context, "<no handler>" if there is none;
    publisher_name = the name in its context, else the struct name of what the OUTERMOST metrics
    decorator wraps; success = the call returned nil *)
Lemma publish_labels st script topic msgs l :
  In l (po_obs (publish st script topic msgs)) ->
  exists m0 rest, msgs = m0 :: rest
    /\ fst (fst l) = or_default no_handler (pm_hname m0)
    /\ snd (fst l) = or_default (first_metrics_name st) (pm_pname m0)
    /\ snd l = match po_res (publish st script topic msgs) with None => true | Some _ => false end.
Proof.
  rewrite publish_obs. destruct msgs as [|m0 rest]; [contradiction|].
  destruct (reaches_metrics st (m0 :: rest) && negb (pm_mark m0)); [|contradiction].
  intros [<-|[]]. exists m0, rest. repeat split.
Qed.

(** inside a Router the names come from the context the Router put on the produced messages: never
    "<no handler>", never a decorator's own struct name — also when the decorator is applied twice *)
Lemma publish_labels_in_router st script topic m0 rest l :
  pm_hname m0 <> 0%N -> pm_pname m0 <> 0%N ->
  In l (po_obs (publish st script topic (m0 :: rest))) ->
  fst (fst l) = pm_hname m0 /\ snd (fst l) = pm_pname m0.
Proof.
  intros Hh Hp Hin. destruct (publish_labels _ _ _ _ _ Hin) as (m & r & E & L1 & L2 & _).
  inversion E; subst m r. rewrite L1, L2, !or_default_set by assumption. auto.
Qed.

(** outside a Router (no names in the context) *)
Lemma publish_labels_standalone st script topic m0 rest l :
  pm_hname m0 = 0%N -> pm_pname m0 = 0%N ->
  In l (po_obs (publish st script topic (m0 :: rest))) ->
  fst (fst l) = no_handler /\ snd (fst l) = first_metrics_name st.
Proof.
  intros Hh Hp Hin. destruct (publish_labels _ _ _ _ _ Hin) as (m & r & E & L1 & L2 & _).
  inversion E; subst m r. rewrite L1, L2, Hh, Hp. auto.
Qed.

(** subscriber_messages_received_total: the increment for object i carries handler_name /
    subscriber_name from the object's context, else "<no handler>" / the struct name of what the
    INNERMOST metrics decorator wraps; acked / nacked = the settlement that won *)
Lemma received_labels stk heap ops i m o :
  has_smetrics stk = true -> nth_error heap i = Some m -> sfresh m = true ->
  In o (obs_of i (sw_obs (srun stk heap ops))) ->
  fst (fst (sobs_label o)) = or_default no_handler (sm_hname m)
  /\ snd (fst (sobs_label o)) = or_default (first_smetrics_name stk) (sm_sname m)
  /\ snd (sobs_label o) = match st (final_state m i ops) with Acked => true | _ => false end.
Proof.
  intros HS E F. rewrite (received_counted_once stk heap ops i m HS E F).
  destruct (existsb (Nat.eqb i) (emitted_before_close ops)); [|contradiction].
  destruct (st (final_state m i ops)); [contradiction| |]; intros [<-|[]]; unfold slabel_of; auto.
Qed.

(** handler_execution_time_seconds: handler_name is the name in the message context AS IS — there is
    no "<no handler>" fallback in the middleware (outside a Router the label is the empty string) *)
Lemma handler_labels fixed k calls l :
  In l (run_mw fixed k calls) -> exists c, In c calls /\ fst l = fst c /\ snd l = success_label fixed (snd c).
Proof.
  unfold run_mw. intros H. apply in_flat_map in H as (c & Hc & Hl). exists c. split; [exact Hc|].
  unfold mw_obs in Hl. apply repeat_spec in Hl. subst l. auto.
Qed.
