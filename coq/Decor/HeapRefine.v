(** C20 — the in-place model of Publish (Decor/Heap.v) coincides with the by-value model
    (Decor/Model.v) whenever the batch does not repeat a position: every theorem about [publish]
    / [pstep] / [prun] is a theorem about the in-place model for such batches. *)
From WM Require Import Base.Prelude Message.Model Decor.Model Decor.Heap Decor.Monitor Decor.Proofs Decor.SubProofs Decor.HeapProofs.

Definition hvalid_all (h : list pmsg) (idx : list nat) : Prop := Forall (fun i => i < length h) idx.

Lemma valid_some (h : list pmsg) i : i < length h -> exists m, nth_error h i = Some m.
Proof. intros H. destruct (nth_error h i) eqn:E; [eauto|]. apply nth_error_None in E. lia. Qed.

Lemma write_length {A} idx : forall (h : list A) vs, length (write h idx vs) = length h.
Proof. induction idx as [|i r IH]; intros h [|v vs]; simpl; auto. rewrite IH. apply set_nth_length. Qed.

Lemma nth_error_write_other {A} idx : forall (h : list A) vs j, ~ In j idx -> nth_error (write h idx vs) j = nth_error h j.
Proof.
  induction idx as [|i r IH]; intros h [|v vs] j H; simpl; auto.
  rewrite IH by (intros K; apply H; right; exact K).
  apply nth_error_set_nth_other. intros ->. apply H. left. reflexivity.
Qed.

Lemma hreads_ext h h' idx : (forall j, In j idx -> nth_error h j = nth_error h' j) -> hreads h idx = hreads h' idx.
Proof.
  unfold hreads. induction idx as [|i r IH]; intros H; simpl; [reflexivity|].
  rewrite (H i (or_introl eq_refl)), IH; [reflexivity|]. intros j Hj. apply H. right. exact Hj.
Qed.

Lemma hreads_cons h i r m : nth_error h i = Some m -> hreads h (i :: r) = m :: hreads h r.
Proof. intros H. unfold hreads. simpl. rewrite H. reflexivity. Qed.

Lemma hreads_length h idx : hvalid_all h idx -> length (hreads h idx) = length idx.
Proof.
  induction idx as [|i r IH]; intros H; [reflexivity|]. inversion H; subst.
  destruct (valid_some h i H2) as [m E]. rewrite (hreads_cons h i r m E). simpl. rewrite IH; auto.
Qed.

Lemma set_nth_same_val {A} (h : list A) i m : nth_error h i = Some m -> set_nth h i m = h.
Proof. revert i. induction h as [|a h IH]; intros [|i] H; simpl in *; try discriminate; [congruence|]. rewrite IH; auto. Qed.

Lemma set_nth_twice {A} (h : list A) i x y : set_nth (set_nth h i x) i y = set_nth h i y.
Proof. revert i. induction h as [|a h IH]; intros [|i]; simpl; auto. rewrite IH. reflexivity. Qed.

Lemma set_nth_comm {A} (h : list A) i j x y : i <> j -> set_nth (set_nth h j x) i y = set_nth (set_nth h i y) j x.
Proof. revert i j. induction h as [|a h IH]; intros [|i] [|j] H; simpl; auto; try congruence. rewrite IH; auto. Qed.

Lemma set_nth_write {A} idx : forall (h : list A) vs i v, ~ In i idx ->
  set_nth (write h idx vs) i v = write (set_nth h i v) idx vs.
Proof.
  induction idx as [|j r IH]; intros h [|a vs] i v H; simpl; auto.
  rewrite IH by (intros K; apply H; right; exact K).
  rewrite set_nth_comm; [reflexivity|]. intros ->. apply H. left. reflexivity.
Qed.

Lemma write_write {A} idx : NoDup idx -> forall (h : list A) a b,
  length a = length idx -> length b = length idx -> write (write h idx a) idx b = write h idx b.
Proof.
  induction 1 as [|i r Hi Hr IH]; intros h a b La Lb; [destruct a, b; reflexivity|].
  destruct a as [|a0 a]; [discriminate|]. destruct b as [|b0 b]; [discriminate|]. simpl in *.
  rewrite set_nth_write by exact Hi. rewrite set_nth_twice. apply IH; lia.
Qed.

Lemma hvalid_len (h h' : list pmsg) idx : length h = length h' -> hvalid_all h idx -> hvalid_all h' idx.
Proof. unfold hvalid_all. intros <-. auto. Qed.

Lemma hreads_write idx : NoDup idx -> forall h vs, hvalid_all h idx -> length vs = length idx ->
  hreads (write h idx vs) idx = vs.
Proof.
  induction 1 as [|i r Hi Hr IH]; intros h vs V L; [destruct vs; [reflexivity|discriminate]|].
  destruct vs as [|v vs]; [discriminate|]. inversion V; subst. simpl write.
  assert (E : nth_error (write (set_nth h i v) r vs) i = Some v).
  { rewrite nth_error_write_other by exact Hi. destruct (valid_some h i H1) as [m Em].
    apply (nth_error_set_nth_same _ _ _ _ Em). }
  rewrite (hreads_cons _ i r v E). f_equal. apply IH.
  - eapply hvalid_len; [|exact H2]. symmetry. apply set_nth_length.
  - simpl in L. lia.
Qed.

Lemma write_hreads idx : NoDup idx -> forall h, hvalid_all h idx -> write h idx (hreads h idx) = h.
Proof.
  induction 1 as [|i r Hi Hr IH]; intros h V; [reflexivity|]. inversion V; subst.
  destruct (valid_some h i H1) as [m E]. rewrite (hreads_cons h i r m E). simpl.
  rewrite (set_nth_same_val h i m E). apply IH. exact H2.
Qed.

Lemma hmap_write f idx : NoDup idx -> forall h, hvalid_all h idx ->
  hmap f idx h = write h idx (map f (hreads h idx)).
Proof.
  induction 1 as [|i r Hi Hr IH]; intros h V; [reflexivity|]. inversion V; subst.
  destruct (valid_some h i H1) as [m E]. rewrite (hreads_cons h i r m E). simpl. rewrite E.
  rewrite IH by (eapply hvalid_len; [|exact H2]; symmetry; apply set_nth_length).
  f_equal. f_equal. apply hreads_ext. intros j Hj. apply nth_error_set_nth_other. intros ->. contradiction.
Qed.

Lemma delay_batch_length g a t msgs : length (db_msgs (delay_batch g a t msgs)) = length msgs.
Proof.
  pose proof (delay_batch_ids g a t msgs) as [H _]. apply (f_equal (@length N)) in H.
  rewrite !map_length in H. exact H.
Qed.

Lemma delay_batch_h_refines g a t idx : NoDup idx -> forall h, hvalid_all h idx ->
  dbh_ev (delay_batch_h g a t idx h) = db_ev (delay_batch g a t (hreads h idx))
  /\ dbh_res (delay_batch_h g a t idx h) = db_res (delay_batch g a t (hreads h idx))
  /\ dbh_heap (delay_batch_h g a t idx h) = write h idx (db_msgs (delay_batch g a t (hreads h idx))).
Proof.
  induction 1 as [|i r Hi Hr IH]; intros h V; [simpl; auto|]. inversion V; subst.
  destruct (valid_some h i H1) as [m E]. rewrite (hreads_cons h i r m E). simpl. rewrite E.
  assert (R : forall v, hreads (set_nth h i v) r = hreads h r).
  { intros v. apply hreads_ext. intros j Hj. apply nth_error_set_nth_other. intros ->. contradiction. }
  assert (V' : forall v, hvalid_all (set_nth h i v) r)
    by (intros v; eapply hvalid_len; [|exact H2]; symmetry; apply set_nth_length).
  destruct (decide g a m) eqn:D; simpl;
    try (destruct (IH (set_nth h i (apply_decision (decide g a m) m)) (V' _)) as (A1 & A2 & A3);
         rewrite R in A1, A2, A3; rewrite D in A1, A2, A3; simpl in A1, A2, A3;
         destruct (delay_batch_h g a t r _) as [[ev1 h1] r1];
         destruct (delay_batch g a t (hreads h r)) as [[ev2 m2] r2];
         unfold dbh_ev, dbh_res, dbh_heap, db_ev, db_res, db_msgs in *; simpl in *; subst; auto).
  unfold dbh_ev, dbh_res, dbh_heap, db_ev, db_res, db_msgs. simpl. repeat split.
  rewrite (set_nth_same_val h i m E). symmetry. apply write_hreads; assumption.
Qed.

Lemma publish_length st script topic msgs : length (po_msgs (publish st script topic msgs)) = length msgs.
Proof.
  pose proof (publish_ids st script topic msgs) as [H _]. apply (f_equal (@length N)) in H.
  rewrite !map_length in H. exact H.
Qed.

(** the refinement: no repeated position in the batch => in place = by value, written back *)
Lemma publish_h_refines st : forall script topic idx h, NoDup idx -> hvalid_all h idx ->
  ho_script (publish_h st script topic idx h) = po_script (publish st script topic (hreads h idx))
  /\ ho_ev (publish_h st script topic idx h) = po_ev (publish st script topic (hreads h idx))
  /\ ho_obs (publish_h st script topic idx h) = po_obs (publish st script topic (hreads h idx))
  /\ ho_res (publish_h st script topic idx h) = po_res (publish st script topic (hreads h idx))
  /\ ho_heap (publish_h st script topic idx h) = write h idx (po_msgs (publish st script topic (hreads h idx))).
Proof.
  induction st as [|d st IH]; intros script topic idx h ND V.
  - simpl. repeat split. symmetry. apply write_hreads; assumption.
  - assert (STEP : forall ms1, length ms1 = length idx ->
              let h1 := write h idx ms1 in
              ho_script (publish_h st script topic idx h1) = po_script (publish st script topic ms1)
              /\ ho_ev (publish_h st script topic idx h1) = po_ev (publish st script topic ms1)
              /\ ho_obs (publish_h st script topic idx h1) = po_obs (publish st script topic ms1)
              /\ ho_res (publish_h st script topic idx h1) = po_res (publish st script topic ms1)
              /\ ho_heap (publish_h st script topic idx h1) = write h idx (po_msgs (publish st script topic ms1))).
    { intros ms1 L h1.
      assert (V1 : hvalid_all h1 idx) by (eapply hvalid_len; [|exact V]; symmetry; apply write_length).
      destruct (IH script topic idx h1 ND V1) as (A1 & A2 & A3 & A4 & A5).
      unfold h1 in *. rewrite (hreads_write idx ND h ms1 V L) in *.
      repeat split; auto. rewrite A5. apply write_write; [exact ND | exact L |].
      rewrite publish_length. exact L. }
    destruct d as [tag|g a|name].
    + simpl. rewrite (hmap_write _ idx ND h V).
      apply STEP. rewrite map_length. apply hreads_length. exact V.
    + simpl. destruct (delay_batch_h_refines g a topic idx ND h V) as (D1 & D2 & D3).
      pose proof (delay_batch_length g a topic (hreads h idx)) as DL.
      destruct (delay_batch_h g a topic idx h) as [[ev1 h1] r1].
      destruct (delay_batch g a topic (hreads h idx)) as [[ev2 ms2] r2].
      unfold dbh_ev, dbh_res, dbh_heap, db_ev, db_res, db_msgs in *. simpl in *. subst ev1 r1 h1.
      destruct r2 as [e|]; simpl; [auto 10|].
      destruct (STEP ms2) as (A1 & A2 & A3 & A4 & A5); [rewrite DL; apply hreads_length; exact V|].
      rewrite A1, A2, A3, A4, A5. auto 10.
    + simpl. destruct (hreads h idx) as [|m0 ms] eqn:R.
      * assert (idx = []).
        { pose proof (hreads_length h idx V) as L. rewrite R in L. destruct idx; [reflexivity|discriminate]. }
        subst idx. destruct (IH script topic [] h ND V) as (A1 & A2 & A3 & A4 & A5). simpl in *. auto 10.
      * rewrite (hmap_write _ idx ND h V). rewrite R.
        destruct (STEP (map set_mark (m0 :: ms))) as (A1 & A2 & A3 & A4 & A5).
        { rewrite map_length, <- R. apply hreads_length. exact V. }
        simpl map in *.
        destruct (pm_mark m0); simpl; rewrite ?A1, ?A2, ?A3, ?A4, ?A5; auto 10.
Qed.

(** a call over a heap: [pstep_h] = [pstep] when the batch repeats nothing (and names real objects) *)
Lemma read_valid h idx : hvalid_all h idx -> map snd (read h idx) = hreads h idx /\ map fst (read h idx) = idx.
Proof.
  unfold read, hreads. induction idx as [|i r IH]; intros V; [auto|]. inversion V; subst.
  destruct (valid_some h i H1) as [m E]. simpl. rewrite E. simpl.
  destruct (IH H2) as [A B]. rewrite A, B. auto.
Qed.

Lemma pstep_h_refines st s c :
  NoDup (pc_batch c) -> hvalid_all (ps_heap s) (pc_batch c) -> pstep_h st s c = pstep st s c.
Proof.
  intros ND V. unfold pstep_h, pstep.
  destruct (read_valid (ps_heap s) (pc_batch c) V) as [R1 R2]. rewrite R1, R2.
  destruct (publish_h_refines st (ps_script s) (pc_topic c) (pc_batch c) (ps_heap s) ND V) as (A1 & A2 & A3 & A4 & A5).
  rewrite A1, A2, A3, A4, A5. reflexivity.
Qed.

Lemma pstep_heap_len st s c : length (ps_heap (pstep st s c)) = length (ps_heap s).
Proof. unfold pstep. simpl. apply write_length. Qed.

Lemma prun_h_refines st calls : forall s,
  Forall (fun c => NoDup (pc_batch c) /\ Forall (fun i => i < length (ps_heap s)) (pc_batch c)) calls ->
  fold_left (pstep_h st) calls s = fold_left (pstep st) calls s.
Proof.
  induction calls as [|c cs IH]; intros s H; [reflexivity|]. inversion H as [|? ? [ND V] Hr]; subst.
  simpl. rewrite (pstep_h_refines st s c ND V). apply IH.
  eapply Forall_impl; [|exact Hr]. cbv beta. intros x [A B]. split; [exact A|].
  rewrite (pstep_heap_len st s c). exact B.
Qed.

(** ** acceptance of the in-place model by the acceptor the check runs *)
Lemma publish_h_call_ok_any st script topic idx h : NoDup idx -> hvalid_all h idx ->
  call_ok_any st (PObs topic (hreads h idx) (ho_ev (publish_h st script topic idx h)) (hd None script)
                       (ho_res (publish_h st script topic idx h))
                       (hreads (ho_heap (publish_h st script topic idx h)) idx)) = true.
Proof.
  intros ND V. unfold call_ok_any. cbn [c_before].
  destruct (has_dup (hreads h idx)); [apply publish_h_call_ok_dup|].
  destruct (publish_h_refines st script topic idx h ND V) as (A1 & A2 & A3 & A4 & A5).
  rewrite A2, A4, A5.
  rewrite (hreads_write idx ND h _ V) by (rewrite publish_length; apply hreads_length; exact V).
  apply publish_call_ok.
Qed.

Definition good_calls (n : nat) (calls : list pcall) : Prop :=
  Forall (fun c => NoDup (pc_batch c) /\ Forall (fun i => i < n) (pc_batch c)) calls.

Lemma pstep_h_heap_len st s c : NoDup (pc_batch c) -> hvalid_all (ps_heap s) (pc_batch c) ->
  length (ps_heap (pstep_h st s c)) = length (ps_heap s).
Proof. intros ND V. rewrite (pstep_h_refines st s c ND V). apply pstep_heap_len. Qed.

Lemma prun_h_calls_ok st calls : forall s, good_calls (length (ps_heap s)) calls ->
  forallb (call_ok_any st) (pobs_run_h st s calls) = true.
Proof.
  induction calls as [|c cs IH]; intros s H; [reflexivity|]. inversion H as [|? ? [ND V] Hr]; subst.
  cbn [pobs_run_h forallb]. rewrite (publish_h_call_ok_any st _ _ _ _ ND V). simpl.
  apply IH. unfold good_calls. rewrite (pstep_h_heap_len st s c ND V). exact Hr.
Qed.

Lemma pobs_run_h_refines st calls : forall s, good_calls (length (ps_heap s)) calls ->
  pobs_run_h st s calls = pobs_run st s calls.
Proof.
  induction calls as [|c cs IH]; intros s H; [reflexivity|]. inversion H as [|? ? [ND V] Hr]; subst.
  cbn [pobs_run_h pobs_run].
  destruct (read_valid (ps_heap s) (pc_batch c) V) as [R1 _].
  destruct (publish_h_refines st (ps_script s) (pc_topic c) (pc_batch c) (ps_heap s) ND V) as (A1 & A2 & A3 & A4 & A5).
  rewrite R1, A2, A4, A5.
  rewrite (hreads_write _ ND _ _ V) by (rewrite publish_length; apply hreads_length; exact V).
  f_equal. rewrite (pstep_h_refines st s c ND V). apply IH.
  unfold good_calls. rewrite pstep_heap_len. exact Hr.
Qed.

(** every run of the in-place model whose batches repeat nothing is accepted by [pub_monitor_any] *)
Lemma pub_monitor_any_model st heap script calls tab :
  good_calls (length heap) calls ->
  counts_agree plabel_eqb tab (ps_obs (prun_h st heap script calls)) = true ->
  pub_monitor_any st (pobs_run_h st (PS heap script [] [] []) calls) tab = true.
Proof.
  intros G H. unfold pub_monitor_any.
  rewrite (prun_h_calls_ok st calls (PS heap script [] [] []) G). simpl.
  rewrite (pobs_run_h_refines st calls (PS heap script [] [] []) G).
  unfold prun_h in H. rewrite (prun_h_refines st calls (PS heap script [] [] [])) in H by exact G.
  rewrite prun_obs in H. exact H.
Qed.

(** ** a wrapped publisher that panics *)
Lemma pub_label_is_fixed n m r : pub_label n m r = pub_label_v true n m r.
Proof. unfold pub_label, pub_label_v, pub_success. destruct r; [rewrite andb_false_r|]; reflexivity. Qed.

(** the panic comes back out of every stack that lets the batch through ... *)
Lemma publish_panic_escapes st script topic msgs :
  stack_reject st msgs = None -> hd None script = Some e_panic ->
  po_res (publish st script topic msgs) = Some e_panic.
Proof.
  intros H1 H2. pose proof (publish_spec st script topic msgs) as S. rewrite H1 in S.
  destruct S as (_ & S & _). congruence.
Qed.

(** ... and is a failure for the (repaired) metrics decorator, a success for the pinned one *)
Lemma pub_panic_labels : pub_success true (Some e_panic) = false /\ pub_success false (Some e_panic) = true.
Proof. split; reflexivity. Qed.
