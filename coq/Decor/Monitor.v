(** C20 — the property as executable acceptors over what a decorated publisher / subscriber /
    handler was OBSERVED to do (no proofs here).  The theorems in Decor/Proofs.v show that every
    behaviour of the model is accepted; the check evaluates the same functions on the behaviour
    of the implementation. *)
From WM Require Import Base.Prelude Message.Model Decor.Model Decor.Heap.

(** ** decidable equalities *)
Definition delay_eqb (a b : delay) : bool := Z.eqb (d_sec a) (d_sec b) && Z.eqb (d_dur a) (d_dur b).
Definition mval_eqb (a b : mval) : bool :=
  match a, b with
  | MAbsent, MAbsent | MEmpty, MEmpty => true
  | MRaw x, MRaw y => N.eqb x y
  | MDur x, MDur y => Z.eqb x y
  | MTime x, MTime y => Z.eqb x y
  | _, _ => false
  end.
Definition genres_eqb (a b : genres) : bool :=
  match a, b with
  | GDelay x, GDelay y => delay_eqb x y
  | GErr x, GErr y => N.eqb x y
  | _, _ => false
  end.
Definition optN_eqb := option_eqb N.eqb.
Definition pmsg_eqb (a b : pmsg) : bool :=
  N.eqb (pm_id a) (pm_id b) && N.eqb (pm_rest a) (pm_rest b) && list_eqb N.eqb (pm_trail a) (pm_trail b)
  && mval_eqb (pm_for a) (pm_for b) && mval_eqb (pm_until a) (pm_until b)
  && option_eqb delay_eqb (pm_ctx a) (pm_ctx b) && genres_eqb (pm_gen a) (pm_gen b)
  && Bool.eqb (pm_mark a) (pm_mark b) && N.eqb (pm_hname a) (pm_hname b) && N.eqb (pm_pname a) (pm_pname b).
Definition pevent_eqb (a b : pevent) : bool :=
  match a, b with
  | EvGen t i, EvGen t' i' => N.eqb t t' && N.eqb i i'
  | EvInner t b, EvInner t' b' => N.eqb t t' && list_eqb pmsg_eqb b b'
  | _, _ => false
  end.
Definition plabel_eqb (a b : plabel) : bool :=
  N.eqb (fst (fst a)) (fst (fst b)) && N.eqb (snd (fst a)) (snd (fst b)) && Bool.eqb (snd a) (snd b).

(** a gathered metric family: label tuple -> sample count; compared with a log of observations *)
Section Counts.
  Context {L : Type} (eqb : L -> L -> bool).
  Definition count (l : L) (obs : list L) : nat := length (filter (eqb l) obs).
  Definition lookup (l : L) (tab : list (L * nat)) : nat :=
    fold_right (fun e acc => if eqb l (fst e) then (snd e + acc)%nat else acc) O tab.
  (** every label of the table and every label of the log has the same count in both *)
  Definition counts_agree (tab : list (L * nat)) (obs : list L) : bool :=
    forallb (fun e => Nat.eqb (lookup (fst e) tab) (count (fst e) obs)) tab
    && forallb (fun l => Nat.eqb (lookup l tab) (count l obs)) obs.
End Counts.

(** ** publisher side *)

(** the delay metadata the stack's delay layers leave on a message that is not rejected *)
Definition stack_stamp (st : list pdec) (m : pmsg) : pmsg :=
  fold_left (fun m d => match d with
                        | PDelay g a => apply_decision (decide g a m) m
                        | _ => m end) st m.

Definition first_metrics_name (st : list pdec) : N :=
  hd 0%N (flat_map (fun d => match d with PMetrics n => [n] | _ => [] end) st).

(** one observed Publish call on the decorated publisher *)
Record pobs := PObs {
  c_topic : N;
  c_before : list pmsg;        (* the batch as handed to Publish *)
  c_ev : list pevent;          (* generator calls and wrapped-publisher calls it caused, in order *)
  c_answer : option N;         (* what the wrapped publisher answers to its next call *)
  c_res : option N;            (* what Publish returned *)
  c_after : list pmsg          (* the same objects after the call *)
}.

Definition same_objects (a b : list pmsg) : bool :=
  list_eqb N.eqb (map pm_id a) (map pm_id b) && list_eqb N.eqb (map pm_rest a) (map pm_rest b).

(** transparency + delay clauses for one call:
    - at most one call of the wrapped publisher; none exactly when a delay layer rejects, and then
      that layer's error is returned; otherwise one call with the same topic, the same objects in
      the same order, and the wrapped publisher's answer is returned unchanged;
    - each transform ran exactly once on every message, outermost first;
    - the delay metadata of every forwarded message is what the precedence function prescribes;
    - uuid/payload/other metadata, the context delay and the context names are never touched. *)
Definition call_ok (st : list pdec) (c : pobs) : bool :=
  let calls := inner_calls (c_ev c) in
  same_objects (c_before c) (c_after c)
  && match stack_reject st (c_before c) with
     | Some e => match calls with [] => true | _ => false end && optN_eqb (c_res c) (Some e)
     | None =>
         match calls with
         | [(t, b)] =>
             N.eqb t (c_topic c) && same_objects (c_before c) b
             && optN_eqb (c_res c) (c_answer c)
             && list_eqb (list_eqb N.eqb) (map pm_trail b)
                  (map (fun m => pm_trail m ++ transform_tags st) (c_before c))
             && list_eqb mval_eqb (map pm_for b) (map (fun m => pm_for (stack_stamp st m)) (c_before c))
             && list_eqb mval_eqb (map pm_until b) (map (fun m => pm_until (stack_stamp st m)) (c_before c))
             && list_eqb pmsg_eqb b (c_after c)
         | _ => false
         end
     end.

(** a batch that contains the same object more than once: every layer works on the shared
    object once per POSITION (Decor/Heap.v).  The acceptor then demands what stays true as coded:
    same objects before and after; at most one call of the wrapped publisher, and that call gets the
    same objects in the same order on the same topic, as they are after the call; its answer comes
    back unchanged; without a call the result is an error *)
Fixpoint nodupb (l : list N) : bool :=
  match l with [] => true | x :: r => negb (existsb (N.eqb x) r) && nodupb r end.
Definition has_dup (ms : list pmsg) : bool := negb (nodupb (map pm_id ms)).

Definition call_ok_dup (c : pobs) : bool :=
  same_objects (c_before c) (c_after c)
  && match inner_calls (c_ev c) with
     | [] => match c_res c with Some _ => true | None => false end
     | [(t, b)] => N.eqb t (c_topic c) && same_objects (c_before c) b
                   && optN_eqb (c_res c) (c_answer c) && list_eqb pmsg_eqb b (c_after c)
     | _ => false
     end.

Definition call_ok_any (st : list pdec) (c : pobs) : bool :=
  if has_dup (c_before c) then call_ok_dup c else call_ok st c.

(** the publish observations the property prescribes for a sequence of calls: one per call that
    reaches a metrics layer with a non-empty batch whose first object was not counted before *)
Definition spec_pub_obs (st : list pdec) (cs : list pobs) : list plabel :=
  flat_map (fun c =>
    match c_before c with
    | m0 :: _ => if reaches_metrics st (c_before c) && negb (pm_mark m0)
                 then [pub_label (first_metrics_name st) m0 (c_res c)] else []
    | [] => [] end) cs.

Definition pub_monitor (st : list pdec) (cs : list pobs) (tab : list (plabel * nat)) : bool :=
  forallb (call_ok st) cs && counts_agree plabel_eqb tab (spec_pub_obs st cs).

(** the acceptor the check runs: [call_ok] for ordinary batches, [call_ok_dup] for batches with a
    repeated object *)
Definition pub_monitor_any (st : list pdec) (cs : list pobs) (tab : list (plabel * nat)) : bool :=
  forallb (call_ok_any st) cs && counts_agree plabel_eqb tab (spec_pub_obs st cs).

(** ** subscriber side *)
Definition slabel := (N * N * bool)%type.
Definition slabel_eqb (a b : slabel) : bool :=
  N.eqb (fst (fst a)) (fst (fst b)) && N.eqb (snd (fst a)) (snd (fst b)) && Bool.eqb (snd a) (snd b).
Definition sobs_label (o : sobs) : slabel := (snd (fst (fst o)), snd (fst o), snd o).

Definition settle_eqb (a b : settle) : bool :=
  match a, b with Unsettled, Unsettled | Acked, Acked | Nacked, Nacked => true | _, _ => false end.

Definition first_smetrics_name (st : list sdec) : N :=
  hd 0%N (rev (flat_map (fun d => match d with SMetrics n => [n] | _ => [] end) st)).

(** final settlement of object i: the C03 machine run on the settle calls made on it *)
Definition final_state (m : smsg) (i : nat) (ops : list sop) : mstate :=
  fst (run (sm_st m) (settle_ops i ops)).

Fixpoint seq_from (n len : nat) : list nat :=
  match len with O => [] | S l => n :: seq_from (S n) l end.

(** counter increments the property prescribes: one per object that was delivered and is settled *)
Definition spec_sub_obs (st : list sdec) (heap : list smsg) (ops : list sop) : list slabel :=
  if has_smetrics st then
    flat_map (fun i =>
      match nth_error heap i with
      | Some m =>
          if existsb (Nat.eqb i) (emitted_before_close ops) then
            match Message.Model.st (final_state m i ops) with
            | Unsettled => []
            | Acked => [(or_default no_handler (sm_hname m), or_default (first_smetrics_name st) (sm_sname m), true)]
            | Nacked => [(or_default no_handler (sm_hname m), or_default (first_smetrics_name st) (sm_sname m), false)]
            end
          else []
      | None => [] end) (seq_from 0 (length heap))
  else [].

(** what was observed on a decorated subscriber *)
Record sseen := SSeen {
  s_out : list (nat * N * list N);   (* received: (object, digest, trail), in order *)
  s_final : list settle;             (* settlement of every WRAPPED-subscriber object at the end *)
  s_closes : nat;                    (* Close calls seen by the wrapped subscriber *)
  s_close_rets : list (option N * option N);  (* per Close: the wrapped subscriber's answer, what Close returned *)
  s_tab : list (slabel * nat)
}.

Definition valid_emits (heap : list smsg) (ops : list sop) : list nat :=
  filter (fun i => match nth_error heap i with Some _ => true | None => false end) (emitted_before_close ops).

Definition count_nat (i : nat) (l : list nat) : nat := length (filter (Nat.eqb i) l).

(** the k-th delivery of an object has been through every transform k times (innermost first);
    uuid / payload / other metadata are never touched *)
Fixpoint trails_ok (tags : list N) (heap : list smsg) (outs : list (nat * N * list N)) (seen : list nat) : bool :=
  match outs with
  | [] => true
  | x :: r =>
      let i := fst (fst x) in
      match nth_error heap i with
      | Some m => N.eqb (snd (fst x)) (sm_rest m)
                  && list_eqb N.eqb (snd x) (sm_trail m ++ concat (repeat tags (S (count_nat i seen))))
                  && trails_ok tags heap r (i :: seen)
      | None => false
      end
  end.

Definition sub_monitor (st : list sdec) (heap : list smsg) (ops : list sop) (o : sseen) : bool :=
  (* same objects, same order, each transform once per delivery, content untouched *)
  list_eqb Nat.eqb (map (fun x => fst (fst x)) (s_out o)) (valid_emits heap ops)
  && trails_ok (rev (stransform_tags st)) heap (s_out o) []
  (* settling the received message settles the wrapped subscriber's message: first call wins *)
  && list_eqb settle_eqb (s_final o)
       (map (fun i => match nth_error heap i with
                      | Some m => Message.Model.st (final_state m i ops) | None => Unsettled end)
            (seq_from 0 (length heap)))
  (* every Close reaches the wrapped subscriber once and returns its answer *)
  && Nat.eqb (s_closes o) (count_closes ops)
  && forallb (fun x => optN_eqb (snd (pclose st (fst x))) (snd x)) (s_close_rets o)
  && Nat.eqb (length (s_close_rets o)) (count_closes ops)
  && counts_agree slabel_eqb (s_tab o) (spec_sub_obs st heap ops).

(** ** handler middleware *)
Definition mw_monitor (calls : list (N * hout)) (tab : list (hlabel * nat)) : bool :=
  forallb (fun e => Nat.eqb (lookup hlabel_eqb (fst e) tab) (hspec (fst e) calls)) tab
  && forallb (fun c => let l := (fst c, match snd c with HOk => true | _ => false end) in
                       Nat.eqb (lookup hlabel_eqb l tab) (hspec l calls)) calls.

(** ** delay.For / delay.Until: delayed-until = clock + delayed-for, for a clock reading
    between the two brackets taken around the call *)
Definition agree_within (t0 t1 : Z) (d : delay) : bool :=
  Z.leb ((t0 + d_dur d) / ns_per_s) (d_sec d) && Z.leb (d_sec d) ((t1 + d_dur d) / ns_per_s).

(** ** the observation records a model run produces (what the harness records of a real run) *)
Fixpoint pobs_run (st : list pdec) (s : pstate) (calls : list pcall) : list pobs :=
  match calls with
  | [] => []
  | c :: cs =>
      let b := map snd (read (ps_heap s) (pc_batch c)) in
      let o := publish st (ps_script s) (pc_topic c) b in
      PObs (pc_topic c) b (po_ev o) (hd None (ps_script s)) (po_res o) (po_msgs o)
      :: pobs_run st (pstep st s c) cs
  end.

(** the observation records of an in-place model run (Decor/Heap.v) *)
Fixpoint pobs_run_h (st : list pdec) (s : pstate) (calls : list pcall) : list pobs :=
  match calls with
  | [] => []
  | c :: cs =>
      let o := publish_h st (ps_script s) (pc_topic c) (pc_batch c) (ps_heap s) in
      PObs (pc_topic c) (hreads (ps_heap s) (pc_batch c)) (ho_ev o) (hd None (ps_script s)) (ho_res o)
           (hreads (ho_heap o) (pc_batch c))
      :: pobs_run_h st (pstep_h st s c) cs
  end.

(** ** the trail when a batch repeats an object: every transform layer runs once per POSITION, so an
    object that occurs k times in the batch has been through every transform k times (k = 1 is the
    ordinary case).  Judged on the call of the wrapped publisher, for every call that reaches it. *)
Definition occ (x : N) (l : list N) : nat := length (filter (N.eqb x) l).
Definition trail_ok_dup (st : list pdec) (c : pobs) : bool :=
  match inner_calls (c_ev c) with
  | [(_, b)] =>
      list_eqb (list_eqb N.eqb) (map pm_trail b)
        (map (fun m => pm_trail m
                       ++ concat (map (fun t => repeat t (occ (pm_id m) (map pm_id (c_before c)))) (transform_tags st)))
             (c_before c))
  | _ => true
  end.

(** the complete acceptor the check runs on publisher cases *)
Definition pub_monitor_full (st : list pdec) (cs : list pobs) (tab : list (plabel * nat)) : bool :=
  pub_monitor_any st cs tab && forallb (trail_ok_dup st) cs.
