(** C20 — the three metric families of a Router with AddPrometheusRouterMetrics, per consumed
    message, by composition with C02's [handle] (Handler/RouterHandle.v): what the Router does with
    the message decides the subscriber counter (acked / nacked) and the publish observation.
    Definitions first (used by Corr/C20.v), the composed theorems below. *)
From WM Require Import Base.Prelude Message.Model Handler.RouterHandle Decor.Model Decor.Monitor.

(** one consumed message: the handler's outcome, how many messages it returned, and what the
    handler's (wrapped) publisher does with them: accepts, returns an error, or PANICS *)
Record rmsg := RMsg { rm_out : hout; rm_nouts : nat; rm_pub : pubbeh }.

Definition rm_chain (m : rmsg) : chain_result N :=
  CR PreNone (match rm_out m with
              | HOk => Ret (repeat 0%N (rm_nouts m))
              | HErr => Fail []
              | HPanic => Panic end).
Definition rm_handle (m : rmsg) := handle PubReal (rm_pub m) (rm_chain m).

(** subscriber_messages_received_total: one increment, acked iff the Router acked *)
Definition rm_sobs (h s : N) (m : rmsg) : list slabel :=
  [(h, s, settle_eqb (st (fst (rm_handle m))) Acked)].
(** publish_time_seconds: one observation per Publish call the Router made; a call that returned
    an error OR panicked is a failure (the repaired decorator) *)
Definition rm_pobs (h p : N) (m : rmsg) : list plabel :=
  flat_map (fun e => match e with
                     | HPublishRet ok => [(h, p, ok)]
                     | HPublishPanic => [(h, p, false)]
                     | _ => [] end) (snd (rm_handle m)).

(** ** composed theorems *)

(** the handler's outputs hit a publisher that panics: the Router nacks (C02), the subscriber
    counter says nacked, the publish metric records exactly one FAILED call, and the handler metric
    (run_mw) still says success — the handler itself returned without error *)
Lemma router_publisher_panics h s p n :
  let m := RMsg HOk (S n) PubPanic in
  st (fst (rm_handle m)) = Nacked
  /\ rm_sobs h s m = [(h, s, false)]
  /\ rm_pobs h p m = [(h, p, false)]
  /\ run_mw true 1 [(h, rm_out m)] = [(h, true)].
Proof. cbv. auto. Qed.

(** in general: acked iff C02's [handled_ok]; one publish observation iff the handler returned a
    non-empty output without error, successful iff the publisher accepted *)
Lemma router_metrics_spec h s p m :
  rm_sobs h s m = [(h, s, handled_ok PubReal (rm_pub m) (rm_chain m))]
  /\ rm_pobs h p m = match rm_out m, rm_nouts m with
                     | HOk, S _ => [(h, p, match rm_pub m with PubAccept => true | _ => false end)]
                     | _, _ => []
                     end.
Proof.
  destruct m as [o n pb]. destruct o, n as [|n], pb; cbv; auto.
Qed.
