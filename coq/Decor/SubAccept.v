(** C20 — the subscriber acceptor [sub_monitor] accepts every run of the model (list level):
    delivery order, trail accumulation over re-deliveries, final settlements, Close, and the
    aggregated counter table. *)
From WM Require Import Base.Prelude Message.Model Decor.Model Decor.Monitor Decor.Proofs Decor.SubProofs.

(** * counting: tables only depend on the per-label counts of the log *)
Section CountLemmas.
  Context {L : Type} (eqb : L -> L -> bool).
  Hypothesis eqb_spec : forall a b, eqb a b = true <-> a = b.

  Lemma count_app l (a b : list L) : count eqb l (a ++ b) = count eqb l a + count eqb l b.
  Proof. unfold count. rewrite filter_app, app_length. reflexivity. Qed.

  Lemma count_pos_in l (a : list L) : count eqb l a <> 0 -> In l a.
  Proof.
    unfold count. induction a as [|x a IH]; simpl; [congruence|].
    destruct (eqb l x) eqn:E; [apply eqb_spec in E; auto | auto].
  Qed.

  Lemma in_count_pos l (a : list L) : In l a -> count eqb l a <> 0.
  Proof.
    unfold count. induction a as [|x a IH]; simpl; [contradiction|].
    intros [->|H].
    - assert (E : eqb l l = true) by (apply eqb_spec; reflexivity). rewrite E. simpl. discriminate.
    - destruct (eqb l x); simpl; auto.
  Qed.

  Lemma counts_agree_transfer tab (a b : list L) :
    (forall l, count eqb l a = count eqb l b) ->
    counts_agree eqb tab a = true -> counts_agree eqb tab b = true.
  Proof.
    intros H. unfold counts_agree. intros Hc. apply andb_true_iff in Hc as [H1 H2].
    apply andb_true_iff. split.
    - rewrite forallb_forall in *. intros e He. rewrite <- H. apply H1. exact He.
    - rewrite forallb_forall in *. intros l Hl. rewrite <- H. apply H2.
      apply count_pos_in. rewrite H. apply in_count_pos. exact Hl.
  Qed.
End CountLemmas.

Lemma slabel_eqb_spec a b : slabel_eqb a b = true <-> a = b.
Proof.
  destruct a as [[a1 a2] a3], b as [[b1 b2] b3]. unfold slabel_eqb. simpl.
  rewrite !andb_true_iff, !N.eqb_eq, Bool.eqb_true_iff.
  split; [intros [[-> ->] ->]; reflexivity | intros E; inversion E; auto].
Qed.

(** * sums over index ranges *)
Fixpoint sumf (f : nat -> nat) (l : list nat) : nat :=
  match l with [] => 0 | i :: r => f i + sumf f r end.

Lemma sumf_ext f g l : (forall i, In i l -> f i = g i) -> sumf f l = sumf g l.
Proof. induction l as [|i r IH]; simpl; intros H; [reflexivity|]. rewrite H, IH; auto. Qed.

Lemma sumf_zero l : sumf (fun _ => 0) l = 0.
Proof. induction l; simpl; auto. Qed.

Lemma sumf_plus f g l : sumf (fun i => f i + g i) l = sumf f l + sumf g l.
Proof. induction l as [|i r IH]; simpl; [reflexivity|]. rewrite IH. lia. Qed.

Lemma in_seq_from i s len : In i (seq_from s len) <-> s <= i < s + len.
Proof.
  revert s. induction len as [|len IH]; intros s; simpl; [lia|]. rewrite IH. lia.
Qed.

Lemma sumf_indicator j d s len :
  sumf (fun i => if Nat.eqb j i then d else 0) (seq_from s len)
  = if (s <=? j) && (j <? s + len) then d else 0.
Proof.
  revert s. induction len as [|len IH]; intros s; simpl.
  - destruct (s <=? j) eqn:A, (j <? s + 0) eqn:B; simpl; try reflexivity.
    apply Nat.leb_le in A. apply Nat.ltb_lt in B. lia.
  - rewrite IH. destruct (Nat.eqb j s) eqn:E.
    + apply Nat.eqb_eq in E. subst j.
      replace (S s <=? s) with false by (symmetry; apply Nat.leb_gt; lia). simpl.
      replace (s <=? s) with true by (symmetry; apply Nat.leb_le; lia).
      replace (s <? s + S len) with true by (symmetry; apply Nat.ltb_lt; lia). simpl. lia.
    + apply Nat.eqb_neq in E.
      destruct (s <=? j) eqn:A, (S s <=? j) eqn:A', (j <? s + S len) eqn:B, (j <? S s + len) eqn:B'; simpl; try reflexivity;
        repeat match goal with
               | H : (_ <=? _) = true |- _ => apply Nat.leb_le in H
               | H : (_ <=? _) = false |- _ => apply Nat.leb_gt in H
               | H : (_ <? _) = true |- _ => apply Nat.ltb_lt in H
               | H : (_ <? _) = false |- _ => apply Nat.ltb_ge in H
               end; lia.
Qed.

Lemma count_flat_map {L} (eqb : L -> L -> bool) l (g : nat -> list L) idx :
  count eqb l (flat_map g idx) = sumf (fun i => count eqb l (g i)) idx.
Proof. induction idx as [|i r IH]; simpl; [reflexivity|]. rewrite count_app, IH. reflexivity. Qed.

Definition oidx (o : sobs) : nat := fst (fst (fst o)).

(** the log, label by label, is the sum over the objects of the object's own observations *)
Lemma count_partition l n (obs : list sobs) :
  Forall (fun o => oidx o < n) obs ->
  count slabel_eqb l (map sobs_label obs)
  = sumf (fun i => count slabel_eqb l (map sobs_label (obs_of i obs))) (seq_from 0 n).
Proof.
  induction obs as [|o obs IH]; intros H.
  - simpl. unfold count. simpl. rewrite sumf_zero. reflexivity.
  - inversion H as [|? ? Ho Hr]; subst. specialize (IH Hr).
    set (d := if slabel_eqb l (sobs_label o) then 1 else 0).
    assert (E1 : count slabel_eqb l (map sobs_label (o :: obs)) = d + count slabel_eqb l (map sobs_label obs)).
    { unfold count, d. simpl. destruct (slabel_eqb l (sobs_label o)); reflexivity. }
    rewrite E1, IH. symmetry.
    rewrite (sumf_ext (fun i => count slabel_eqb l (map sobs_label (obs_of i (o :: obs))))
                      (fun i => (if Nat.eqb (oidx o) i then d else 0)
                                + count slabel_eqb l (map sobs_label (obs_of i obs)))).
    + rewrite sumf_plus, sumf_indicator. simpl.
      replace (oidx o <? n) with true by (symmetry; apply Nat.ltb_lt; exact Ho). reflexivity.
    + intros i _. unfold obs_of. simpl. fold (oidx o).
      destruct (Nat.eqb (oidx o) i); [|reflexivity].
      unfold count, d. simpl. destruct (slabel_eqb l (sobs_label o)); reflexivity.
Qed.

(** * every observation belongs to an object of the heap *)
Lemma flush_idx j m : Forall (fun o => oidx o = j) (snd (flush j m)).
Proof.
  unfold flush. destruct (st (sm_st m)); simpl; [constructor| |];
    induction (sm_watch m); simpl; constructor; auto.
Qed.

Lemma srun_heap_len stk ops : forall w, length (sw_heap (fold_left (sstep stk) ops w)) = length (sw_heap w).
Proof. induction ops as [|o ops IH]; intros w; simpl; [reflexivity|]. rewrite IH. apply sstep_heap_len. Qed.

Lemma sstep_obs_bound stk w o :
  Forall (fun x => oidx x < length (sw_heap w)) (sw_obs w) ->
  Forall (fun x => oidx x < length (sw_heap (sstep stk w o))) (sw_obs (sstep stk w o)).
Proof.
  intros H. rewrite sstep_heap_len. destruct o as [j|j ack|]; simpl; [| |exact H].
  - destruct (nth_error (sw_heap w) j) as [m|] eqn:E; [|exact H].
    destruct (sw_closes w); [|exact H].
    pose proof (flush_idx j (spass stk m)) as F. destruct (flush j (spass stk m)) as [m2 ob]. simpl in *.
    apply Forall_app. split; [exact H|].
    assert (j < length (sw_heap w)) by (apply nth_error_Some; congruence).
    eapply Forall_impl; [|exact F]. simpl. intros a ->. assumption.
  - destruct (nth_error (sw_heap w) j) as [m|] eqn:E; [|exact H].
    destruct (step (sm_st m) (if ack then OpAck else OpNack)) as [s' r].
    pose proof (flush_idx j (set_st m s')) as F. destruct (flush j (set_st m s')) as [m2 ob]. simpl in *.
    apply Forall_app. split; [exact H|].
    assert (j < length (sw_heap w)) by (apply nth_error_Some; congruence).
    eapply Forall_impl; [|exact F]. simpl. intros a ->. assumption.
Qed.

Lemma srun_obs_bound stk ops : forall w,
  Forall (fun x => oidx x < length (sw_heap w)) (sw_obs w) ->
  Forall (fun x => oidx x < length (sw_heap w)) (sw_obs (fold_left (sstep stk) ops w)).
Proof.
  induction ops as [|o ops IH]; intros w H; simpl; [exact H|].
  rewrite <- (sstep_heap_len stk w o). apply IH. apply sstep_obs_bound. exact H.
Qed.

(** * a stack without the metrics decorator observes nothing *)
Definition quiet (w : sworld) : Prop :=
  (forall i m, nth_error (sw_heap w) i = Some m -> sm_mark m = false /\ sm_watch m = []) /\ sw_obs w = [].

Lemma flush_quiet j m : sm_watch m = [] ->
  sm_watch (fst (flush j m)) = [] /\ snd (flush j m) = [] /\ sm_mark (fst (flush j m)) = sm_mark m.
Proof. intros H. unfold flush. destruct (st (sm_st m)); simpl; rewrite ?H; auto. Qed.

Lemma nth_error_set_nth_cases {A} (h : list A) j v i x :
  nth_error (set_nth h j v) i = Some x -> (i = j /\ x = v) \/ (i <> j /\ nth_error h i = Some x).
Proof.
  intros H. destruct (Nat.eq_dec j i) as [->|Hne].
  - left. split; [reflexivity|].
    destruct (nth_error h i) eqn:E.
    + rewrite (nth_error_set_nth_same _ _ _ _ E) in H. congruence.
    + exfalso. apply nth_error_None in E. assert (nth_error (set_nth h i v) i <> None) by congruence.
      apply nth_error_Some in H0. rewrite set_nth_length in H0. lia.
  - right. rewrite nth_error_set_nth_other in H by exact Hne. auto.
Qed.

Lemma sstep_quiet stk w o : has_smetrics stk = false -> quiet w -> quiet (sstep stk w o).
Proof.
  intros HS [Hh Ho]. destruct o as [j|j ack|]; simpl; [| |split; assumption].
  - destruct (nth_error (sw_heap w) j) as [m|] eqn:E; [|split; assumption].
    destruct (sw_closes w); [|split; assumption].
    destruct (Hh j m E) as [Hm Hw].
    pose proof (spass_unmarked stk m Hm) as SU. rewrite HS in SU. destruct SU as [M1 M2]. rewrite Hw in M2.
    destruct (flush_quiet j (spass stk m) M2) as (Q1 & Q2 & Q3).
    destruct (flush j (spass stk m)) as [m2 ob]. simpl in *. subst ob. split.
    + intros i x Hx. apply nth_error_set_nth_cases in Hx as [[-> ->]|[_ Hx]]; [split; congruence | eauto].
    + rewrite Ho. reflexivity.
  - destruct (nth_error (sw_heap w) j) as [m|] eqn:E; [|split; assumption].
    destruct (Hh j m E) as [Hm Hw].
    destruct (step (sm_st m) (if ack then OpAck else OpNack)) as [s' r].
    destruct (flush_quiet j (set_st m s') Hw) as (Q1 & Q2 & Q3).
    destruct (flush j (set_st m s')) as [m2 ob]. simpl in *. subst ob. split.
    + intros i x Hx. apply nth_error_set_nth_cases in Hx as [[-> ->]|[_ Hx]]; [split; congruence | eauto].
    + rewrite Ho. reflexivity.
Qed.

Lemma srun_quiet stk ops : has_smetrics stk = false -> forall w, quiet w -> quiet (fold_left (sstep stk) ops w).
Proof. intros HS. induction ops as [|o ops IH]; intros w H; simpl; [exact H|]. apply IH. apply sstep_quiet; assumption. Qed.

Lemma sfresh_parts m : sfresh m = true -> sm_mark m = false /\ sm_watch m = [].
Proof.
  unfold sfresh. intros H. apply andb_true_iff in H as [H1 H2]. apply negb_true_iff in H1.
  destruct (sm_watch m); [auto|discriminate].
Qed.

(** * the aggregated table: label by label the model's log has the specified counts *)
Lemma srun_counts stk heap ops l :
  forallb sfresh heap = true ->
  count slabel_eqb l (map sobs_label (sw_obs (srun stk heap ops)))
  = count slabel_eqb l (spec_sub_obs stk heap ops).
Proof.
  intros Hf. rewrite forallb_forall in Hf. unfold spec_sub_obs.
  destruct (has_smetrics stk) eqn:HS.
  - rewrite (count_partition l (length heap)).
    + rewrite count_flat_map. apply sumf_ext. intros i Hi.
      apply in_seq_from in Hi. destruct (nth_error heap i) as [m|] eqn:E.
      * rewrite (received_counted_once stk heap ops i m HS E (Hf m (nth_error_In _ _ E))).
        unfold slabel_of. simpl.
        destruct (existsb (Nat.eqb i) (emitted_before_close ops)); [|reflexivity].
        destruct (st (final_state m i ops)); reflexivity.
      * apply nth_error_None in E. lia.
    + unfold srun. apply (srun_obs_bound stk ops (SW heap [] [] 0 [])). constructor.
  - assert (Q : quiet (srun stk heap ops)).
    { unfold srun. apply srun_quiet; [exact HS|]. split; [|reflexivity]. simpl.
      intros i m E. apply sfresh_parts. apply Hf. eapply nth_error_In. exact E. }
    destruct Q as [_ Q]. rewrite Q. reflexivity.
Qed.

(** * final settlements, as a list *)
Lemma list_eq_map_seq {A} (l : list A) (g : nat -> A) : forall s,
  (forall i x, nth_error l i = Some x -> g (s + i) = x) -> l = map g (seq_from s (length l)).
Proof.
  induction l as [|a l IH]; intros s H; simpl; [reflexivity|]. f_equal.
  - specialize (H 0 a eq_refl). rewrite Nat.add_0_r in H. auto.
  - apply IH. intros i x Hx. specialize (H (S i) x Hx). rewrite <- H. f_equal. lia.
Qed.

Lemma srun_finals stk heap ops :
  map (fun m => st (sm_st m)) (sw_heap (srun stk heap ops))
  = map (fun i => match nth_error heap i with
                  | Some m => st (final_state m i ops) | None => Unsettled end)
        (seq_from 0 (length heap)).
Proof.
  assert (Hlen : length (sw_heap (srun stk heap ops)) = length heap)
    by (unfold srun; rewrite srun_heap_len; reflexivity).
  rewrite <- Hlen. rewrite <- (map_length (fun m => st (sm_st m))).
  apply list_eq_map_seq. intros i x Hx. simpl.
  rewrite nth_error_map in Hx. destruct (nth_error (sw_heap (srun stk heap ops)) i) as [m'|] eqn:E; [|discriminate].
  simpl in Hx. inversion Hx; subst x.
  destruct (nth_error heap i) as [m|] eqn:E0.
  - destruct (srun_state stk heap ops i m E0) as (m'' & N'' & S'' & _). rewrite E in N''. inversion N''; subst. rewrite S''. reflexivity.
  - apply nth_error_None in E0. assert (nth_error (sw_heap (srun stk heap ops)) i <> None) by congruence.
    apply nth_error_Some in H. lia.
Qed.

(** * trail accumulation over re-deliveries *)
Lemma concat_repeat_comm {A} (t : list A) n : t ++ concat (repeat t n) = concat (repeat t n) ++ t.
Proof. induction n as [|n IH]; simpl; [rewrite app_nil_r; reflexivity|]. rewrite <- app_assoc, <- IH. reflexivity. Qed.

Lemma concat_repeat_snoc {A} (t : list A) n : concat (repeat t (S n)) = concat (repeat t n) ++ t.
Proof. simpl. apply concat_repeat_comm. Qed.

Definition proj_out (x : nat * smsg) : nat * N * list N := (fst x, sm_rest (snd x), sm_trail (snd x)).

(** every object of the current heap is the original one with the transforms applied once per
    delivery so far *)
Definition tracks (tags : list N) (heap0 : list smsg) (seen : list nat) (w : sworld) : Prop :=
  length (sw_heap w) = length heap0 /\
  forall i m, nth_error (sw_heap w) i = Some m ->
    exists m0, nth_error heap0 i = Some m0 /\ sm_rest m = sm_rest m0
               /\ sm_trail m = sm_trail m0 ++ concat (repeat tags (count_nat i seen)).

Lemma count_nat_cons_same i seen : count_nat i (i :: seen) = S (count_nat i seen).
Proof. unfold count_nat. simpl. rewrite Nat.eqb_refl. reflexivity. Qed.
Lemma count_nat_cons_other i j seen : i <> j -> count_nat i (j :: seen) = count_nat i seen.
Proof. intros H. unfold count_nat. simpl. apply Nat.eqb_neq in H. rewrite H. reflexivity. Qed.

Lemma srun_trails stk heap0 ops : forall w seen,
  tracks (rev (stransform_tags stk)) heap0 seen w ->
  exists news, sw_out (fold_left (sstep stk) ops w) = sw_out w ++ news
               /\ trails_ok (rev (stransform_tags stk)) heap0 (map proj_out news) seen = true.
Proof.
  set (tags := rev (stransform_tags stk)).
  induction ops as [|o ops IH]; intros w seen T.
  - exists []. simpl. rewrite app_nil_r. auto.
  - simpl fold_left. destruct T as [Tl Th]. destruct o as [j|j ack|].
    + simpl sstep. destruct (nth_error (sw_heap w) j) as [m|] eqn:E; [|apply IH; split; assumption].
      destruct (sw_closes w) eqn:Ec; [|apply IH; split; assumption].
      destruct (Th j m E) as (m0 & E0 & R0 & T0).
      destruct (spass_untouched stk m) as (U1 & _ & _ & _ & U5). fold tags in U5.
      pose proof (flush_facts j (spass stk m)) as (_ & _ & _ & _ & F5 & F6).
      destruct (flush j (spass stk m)) as [m2 ob] eqn:Hf. simpl in F5, F6.
      assert (T' : tracks tags heap0 (j :: seen)
                     (SW (set_nth (sw_heap w) j m2) (sw_out w ++ [(j, spass stk m)]) (sw_obs w ++ ob) (sw_closes w) (sw_rets w))).
      { split; simpl; [rewrite set_nth_length; exact Tl|].
        intros i x Hx. apply nth_error_set_nth_cases in Hx as [[-> ->]|[Hne Hx]].
        - exists m0. repeat split; [exact E0 | congruence |].
          rewrite F6, U5, T0, count_nat_cons_same, concat_repeat_snoc, app_assoc. reflexivity.
        - destruct (Th i x Hx) as (x0 & X0 & XR & XT). exists x0. repeat split; auto.
          rewrite count_nat_cons_other by exact Hne. exact XT. }
      rewrite Ec in T'.
      destruct (IH _ _ T') as (news & Hn & Hok). simpl in Hn.
      exists ((j, spass stk m) :: news). split.
      * rewrite Hn, <- app_assoc. reflexivity.
      * cbn [trails_ok map proj_out fst snd]. rewrite E0. rewrite U1, R0, N.eqb_refl. rewrite U5, T0, concat_repeat_snoc, app_assoc.
        rewrite (list_eqb_refl N.eqb N.eqb_refl). exact Hok.
    + simpl sstep. destruct (nth_error (sw_heap w) j) as [m|] eqn:E; [|apply IH; split; assumption].
      destruct (step (sm_st m) (if ack then OpAck else OpNack)) as [s' r].
      pose proof (flush_facts j (set_st m s')) as (_ & _ & _ & _ & F5 & F6).
      destruct (flush j (set_st m s')) as [m2 ob]. simpl in F5, F6.
      assert (T' : tracks tags heap0 seen
                     (SW (set_nth (sw_heap w) j m2) (sw_out w) (sw_obs w ++ ob) (sw_closes w) (sw_rets w ++ [r]))).
      { split; simpl; [rewrite set_nth_length; exact Tl|].
        intros i x Hx. apply nth_error_set_nth_cases in Hx as [[-> ->]|[Hne Hx]].
        - destruct (Th j m E) as (m0 & E0 & R0 & T0). exists m0. repeat split; congruence.
        - apply Th. exact Hx. }
      destruct (IH _ _ T') as (news & Hn & Hok). exists news. split; [exact Hn | exact Hok].
    + simpl sstep.
      assert (T' : tracks tags heap0 seen (SW (sw_heap w) (sw_out w) (sw_obs w) (S (sw_closes w)) (sw_rets w)))
        by (split; assumption).
      destruct (IH _ _ T') as (news & Hn & Hok). exists news. split; [exact Hn | exact Hok].
Qed.

(** * the acceptor accepts every run of the model *)
Definition sseen_of_run (stk : list sdec) (heap : list smsg) (ops : list sop)
           (crets : list (option N)) (tab : list (slabel * nat)) : sseen :=
  let w := srun stk heap ops in
  SSeen (map proj_out (sw_out w)) (map (fun m => st (sm_st m)) (sw_heap w)) (sw_closes w)
        (map (fun r => (r, snd (pclose stk r))) crets) tab.

Lemma settle_eqb_refl s : settle_eqb s s = true.
Proof. destruct s; reflexivity. Qed.

Lemma sub_monitor_model stk heap ops crets tab :
  forallb sfresh heap = true ->
  length crets = count_closes ops ->
  counts_agree slabel_eqb tab (map sobs_label (sw_obs (srun stk heap ops))) = true ->
  sub_monitor stk heap ops (sseen_of_run stk heap ops crets tab) = true.
Proof.
  intros Hf Hc Ht. unfold sub_monitor, sseen_of_run. cbn [s_out s_final s_closes s_close_rets s_tab].
  assert (G : counts_agree slabel_eqb tab (spec_sub_obs stk heap ops) = true).
  { eapply (counts_agree_transfer slabel_eqb slabel_eqb_spec); [|exact Ht].
    intros l. apply srun_counts. exact Hf. }
  rewrite G, andb_true_r.
  repeat (apply andb_true_iff; split).
  - rewrite map_map. simpl.
    rewrite (map_ext (fun x => fst (fst (proj_out x))) fst) by reflexivity.
    rewrite srun_out. apply (list_eqb_refl Nat.eqb Nat.eqb_refl).
  - assert (T : tracks (rev (stransform_tags stk)) heap [] (SW heap [] [] 0 [])).
    { split; [reflexivity|]. simpl. intros i m E. exists m. unfold count_nat. simpl. rewrite app_nil_r. auto. }
    destruct (srun_trails stk heap ops _ _ T) as (news & Hn & Hok). unfold srun. rewrite Hn. exact Hok.
  - rewrite srun_finals. apply (list_eqb_refl settle_eqb settle_eqb_refl).
  - rewrite srun_closes_total. apply Nat.eqb_refl.
  - apply forallb_forall. intros x Hx. apply in_map_iff in Hx as (r & <- & _). simpl. apply optN_eqb_refl.
  - rewrite map_length, Hc. apply Nat.eqb_refl.
Qed.

(** * a draining Close: what the wrapped subscriber hands out before its Close returns *)
Lemma ebc_before_close a post :
  count_closes a = 0 -> emitted_before_close (a ++ SoClose :: post) = emitted_before_close a.
Proof.
  unfold count_closes. induction a as [|o a IH]; simpl; intros H; [reflexivity|].
  destruct o; simpl in *; [rewrite IH by exact H; reflexivity | apply IH; exact H | discriminate].
Qed.

(** everything emitted up to the (first) Close of the wrapped subscriber — also what it hands out
    while its own Close is still running, which for the decorators is before Close — reaches the
    consumer, in order; nothing after it does *)
Lemma srun_out_until_close stk heap a post :
  count_closes a = 0 ->
  map fst (sw_out (srun stk heap (a ++ SoClose :: post))) = valid_emits heap a.
Proof.
  intros H. rewrite srun_out. unfold valid_emits. rewrite ebc_before_close by exact H. reflexivity.
Qed.

Lemma valid_emits_all heap a :
  count_closes a = 0 ->
  valid_emits heap a
  = filter (fun i => match nth_error heap i with Some _ => true | None => false end)
           (flat_map (fun o => match o with SoEmit i => [i] | _ => [] end) a).
Proof.
  intros H. unfold valid_emits. f_equal. unfold count_closes in H.
  induction a as [|o a IH]; simpl in *; [reflexivity|].
  destruct o; simpl in *; [rewrite IH by exact H; reflexivity | apply IH; exact H | discriminate].
Qed.
