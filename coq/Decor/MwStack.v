(** C20 — the metrics handler middleware inside a handler chain with Retry (no proofs here).
    A chain is a list of layers, outermost first, around a scripted handler whose successive
    INVOCATIONS answer with the successive script entries (HOk when the script is exhausted).
      LM    = HandlerPrometheusMetricsMiddleware.Middleware (components/metrics/handler.go)
      LR n  = middleware.Retry{MaxRetries: n} (n >= 1): re-invokes what it wraps after an error, at
              most n more times; a panic passes through
    [dedup = true] is the repaired middleware: an application that finds an enclosing application of
    the same middleware active for this invocation (mark in the message context, cleared on the way
    out) does not observe; [dedup = false] is the pinned one, every application observes. *)
From WM Require Import Base.Prelude Message.Model Decor.Model.

Inductive hlayer := LM | LR (n : nat).

Fixpoint heval (dedup : bool) (st : list hlayer) (active : bool) (h : N) (script : list hout)
  : hout * list hout * list hlabel :=
  match st with
  | [] => (hd HOk script, tl script, [])
  | LM :: st' =>
      if dedup && active then heval dedup st' active h script
      else let '(r, s', o) := heval dedup st' true h script in
           (r, s', o ++ [(h, success_label true r)])
  | LR n :: st' =>
      (fix loop (k : nat) (script : list hout) : hout * list hout * list hlabel :=
         let '(r, s', o) := heval dedup st' active h script in
         match r, k with
         | HErr, S k' => let '(r2, s2, o2) := loop k' s' in (r2, s2, o ++ o2)
         | _, _ => (r, s', o)
         end) n script
  end.

(** [top] invocations of the whole chain, one after the other *)
Fixpoint hrun (dedup : bool) (st : list hlayer) (h : N) (top : nat) (script : list hout) : list hlabel :=
  match top with
  | O => []
  | S t => let '(_, s', o) := heval dedup st false h script in o ++ hrun dedup st h t s'
  end.

(** the chain with every application of the middleware INSIDE another one removed: the reference
    "applied once" *)
Fixpoint erase_inner (inside : bool) (st : list hlayer) : list hlayer :=
  match st with
  | [] => []
  | LM :: st' => if inside then erase_inner true st' else LM :: erase_inner true st'
  | LR n :: st' => LR n :: erase_inner inside st'
  end.

(** ** overlapping invocations.  The mark of the repaired middleware is created per INVOCATION and lives in
    that invocation's message context, so concurrent invocations share nothing but the collector: the
    observation log of a concurrent run is some interleaving of the logs of the single invocations. *)
Inductive interleave {A : Type} : list (list A) -> list A -> Prop :=
| il_done : forall ls, Forall (fun l => l = []) ls -> interleave ls []
| il_step : forall pre x l post L,
    interleave (pre ++ l :: post) L -> interleave (pre ++ (x :: l) :: post) (x :: L).

Definition conc_logs (dedup : bool) (st : list hlayer) (h : N) (scripts : list (list hout)) : list (list hlabel) :=
  map (fun s => snd (heval dedup st false h s)) scripts.
