(** A concrete, total, injective codec for forwarder envelopes: it shows that the GLOBAL codec
    law assumed of encoding/json in the C17 theorems ([forall e, codec_ok_on enc dec san e]) is
    satisfiable — with [san] the identity and with a [san] that really alters a string.
    (A toy: self-delimiting binary numbers packed into one positive; nothing to do with JSON.) *)
From WM Require Import Base.Prelude Message.Model Handler.RouterHandle Relay.Model Relay.Proofs.
Open Scope N_scope.

(** [put_pos p k]: the bits of p, two constructors per bit, then an end marker, in front of k *)
Fixpoint put_pos (p : positive) (k : positive) : positive :=
  match p with
  | xH => xI k
  | xO p' => xO (xO (put_pos p' k))
  | xI p' => xO (xI (put_pos p' k))
  end.
Fixpoint get_pos (q : positive) : option (positive * positive) :=
  match q with
  | xI k => Some (xH, k)
  | xO (xO r) => match get_pos r with Some (p, k) => Some (xO p, k) | None => None end
  | xO (xI r) => match get_pos r with Some (p, k) => Some (xI p, k) | None => None end
  | _ => None
  end.
Lemma get_put_pos p : forall k, get_pos (put_pos p k) = Some (p, k).
Proof. induction p as [p IH|p IH|]; intros k; simpl; [rewrite IH| rewrite IH|]; reflexivity. Qed.

Definition put_N (n : N) (k : positive) : positive := put_pos (N.succ_pos n) k.
Definition get_N (q : positive) : option (N * positive) :=
  match get_pos q with Some (p, k) => Some (Pos.pred_N p, k) | None => None end.
Lemma get_put_N n k : get_N (put_N n k) = Some (n, k).
Proof. unfold get_N, put_N. rewrite get_put_pos. now rewrite N.pos_pred_succ. Qed.

Fixpoint put_pairs (l : meta) (k : positive) : positive :=
  match l with
  | [] => k
  | (a, b) :: l' => put_N a (put_N b (put_pairs l' k))
  end.
Fixpoint get_pairs (n : nat) (q : positive) : option (meta * positive) :=
  match n with
  | O => Some ([], q)
  | S n' =>
      match get_N q with
      | Some (a, q1) =>
          match get_N q1 with
          | Some (b, q2) =>
              match get_pairs n' q2 with Some (l, k) => Some ((a, b) :: l, k) | None => None end
          | None => None
          end
      | None => None
      end
  end.
Lemma get_put_pairs l : forall k, get_pairs (length l) (put_pairs l k) = Some (l, k).
Proof.
  induction l as [|[a b] l IH]; intros k; simpl; [reflexivity|].
  now rewrite !get_put_N, IH.
Qed.

(** nil map = 0, otherwise 1 + number of entries, then the entries *)
Definition put_ometa (m : option meta) (k : positive) : positive :=
  match m with
  | None => put_N 0 k
  | Some l => put_N (N.succ (N.of_nat (length l))) (put_pairs l k)
  end.
Definition get_ometa (q : positive) : option (option meta * positive) :=
  match get_N q with
  | Some (0, k) => Some (None, k)
  | Some (n, q1) =>
      match get_pairs (N.to_nat (N.pred n)) q1 with Some (l, k) => Some (Some l, k) | None => None end
  | None => None
  end.
Lemma get_put_ometa m k : get_ometa (put_ometa m k) = Some (m, k).
Proof.
  destruct m as [l|]; unfold get_ometa, put_ometa; rewrite get_put_N; [|reflexivity].
  destruct (N.succ (N.of_nat (length l))) eqn:E; [now apply N.succ_0_discr in E|].
  rewrite <- E, N.pred_succ, Nat2N.id, get_put_pairs. reflexivity.
Qed.

Definition toy_enc (e : envelope) : N :=
  Npos (put_N (e_topic e) (put_N (e_uuid e) (put_N (e_payload e) (put_ometa (e_meta e) xH)))).
Definition toy_dec (n : N) : option envelope :=
  match n with
  | 0 => None
  | Npos q =>
      match get_N q with
      | Some (t, q1) =>
          match get_N q1 with
          | Some (u, q2) =>
              match get_N q2 with
              | Some (p, q3) =>
                  match get_ometa q3 with
                  | Some (m, xH) => Some (Env t u p m)
                  | _ => None
                  end
              | None => None
              end
          | None => None
          end
      | None => None
      end
  end.

Lemma toy_dec_enc e : toy_dec (toy_enc e) = Some e.
Proof.
  destruct e as [t u p m]. unfold toy_dec, toy_enc. simpl.
  now rewrite !get_put_N, get_put_ometa.
Qed.

(** the global law, for ANY sanitiser: decode, then do to the strings what the sanitiser does
    (with the identity this is the plain codec on envelopes whose metadata has unique keys) *)
Definition toy_dec_san (san : N -> N) (n : N) : option envelope := option_map (san_env san) (toy_dec n).
Lemma toy_codec_global san : forall e, codec_ok_on toy_enc (toy_dec_san san) san e.
Proof. intros e. unfold codec_ok_on, toy_dec_san. now rewrite toy_dec_enc. Qed.

(** a sanitiser that alters exactly one string (7 becomes 8), never yields or changes "" *)
Definition w_san78 (s : N) : N := if s =? 7 then 8 else s.
Lemma w_san78_zero s : w_san78 s = 0 <-> s = 0.
Proof.
  unfold w_san78. destruct (s =? 7) eqn:E; [apply N.eqb_eq in E; subst; split; discriminate | tauto].
Qed.
Lemma w_san78_alters : w_san78 7 <> 7.
Proof. discriminate. Qed.
