(** Proofs about Relay/Model.v (property C17). *)
From WM Require Import Base.Prelude Message.Model Handler.RouterHandle Handler.RouterProofs Relay.Model.
Open Scope N_scope.

(** ** metadata lists *)
Definition keys (l : meta) : list N := map fst l.
Definition wf_meta (l : meta) : Prop := NoDup (keys l).
Definition wf_msg (m : msg) : Prop := wf_meta (content (mmeta m)).

Lemma meta_get_set_same k v l : meta_get k (meta_set k v l) = Some v.
Proof.
  induction l as [|[k' v'] l IH]; simpl.
  - now rewrite N.eqb_refl.
  - destruct (k' =? k) eqn:E; simpl; [now rewrite N.eqb_refl | now rewrite E].
Qed.

Lemma meta_get_set_other k k' v l : k' <> k -> meta_get k' (meta_set k v l) = meta_get k' l.
Proof.
  intros Hne. induction l as [|[k1 v1] l IH]; simpl.
  - destruct (k =? k') eqn:E; [apply N.eqb_eq in E; congruence | reflexivity].
  - destruct (k1 =? k) eqn:E; simpl.
    + apply N.eqb_eq in E. subst k1.
      destruct (k =? k') eqn:E'; [apply N.eqb_eq in E'; congruence | reflexivity].
    + destruct (k1 =? k'); [reflexivity | exact IH].
Qed.

Lemma meta_get_in k v l : wf_meta l -> In (k, v) l -> meta_get k l = Some v.
Proof.
  unfold wf_meta, keys. induction l as [|[k1 v1] l IH]; simpl; intros Hnd Hin; [contradiction|].
  inversion Hnd as [|? ? Hnotin Hnd']; subst.
  destruct Hin as [Heq | Hin].
  - inversion Heq; subst. now rewrite N.eqb_refl.
  - destruct (k1 =? k) eqn:E.
    + apply N.eqb_eq in E. subst k1. exfalso. apply Hnotin.
      change k with (fst (k, v)). now apply in_map.
    + now apply IH.
Qed.

Lemma meta_get_some_in k v l : meta_get k l = Some v -> In (k, v) l.
Proof.
  induction l as [|[k1 v1] l IH]; simpl; [discriminate|].
  destruct (k1 =? k) eqn:E.
  - apply N.eqb_eq in E. intros H. inversion H; subst. now left.
  - intros H. right. now apply IH.
Qed.

Lemma meta_set_in k v k' v' l : In (k', v') (meta_set k v l) -> (k' = k /\ v' = v) \/ In (k', v') l.
Proof.
  induction l as [|[k1 v1] l IH]; simpl.
  - intros [H|[]]. inversion H; subst. now left.
  - destruct (k1 =? k) eqn:E; simpl.
    + intros [H|H]; [inversion H; subst; now left | right; now right].
    + intros [H|H]; [right; now left|]. destruct (IH H) as [?|?]; [now left | right; now right].
Qed.

Lemma meta_set_keys_absent k v l : ~ In k (keys l) -> meta_set k v l = l ++ [(k, v)].
Proof.
  unfold keys. induction l as [|[k1 v1] l IH]; simpl; intros Hn; [reflexivity|].
  destruct (k1 =? k) eqn:E.
  - apply N.eqb_eq in E. exfalso. apply Hn. now left.
  - f_equal. apply IH. intros H. apply Hn. now right.
Qed.

Lemma meta_sub_refl l : wf_meta l -> meta_sub l l = true.
Proof.
  intros Hwf. unfold meta_sub. apply forallb_forall. intros [k v] Hin. simpl.
  rewrite (meta_get_in k v l Hwf Hin). simpl. apply N.eqb_refl.
Qed.

Lemma meta_eqb_refl l : wf_meta l -> meta_eqb l l = true.
Proof.
  intros Hwf. unfold meta_eqb. rewrite Nat.eqb_refl, (meta_sub_refl l Hwf). reflexivity.
Qed.

(** ** JSON sanitising is the identity on messages made of valid UTF-8 strings *)
Section San.
  Variable san : N -> N.

  Definition san_fixes_meta (l : meta) : Prop :=
    forall k v, In (k, v) l -> san k = k /\ san v = v.

  Lemma san_meta_id_gen l : forall acc,
    san_fixes_meta l -> NoDup (keys acc ++ keys l) ->
    fold_left (fun acc kv => meta_set (san (fst kv)) (san (snd kv)) acc) l acc = acc ++ l.
  Proof.
    induction l as [|[k v] l IH]; intros acc Hfix Hnd; simpl.
    - now rewrite app_nil_r.
    - destruct (Hfix k v (or_introl eq_refl)) as [Hk Hv]. rewrite Hk, Hv.
      assert (Hnk : ~ In k (keys acc)).
      { intros Hin. simpl in Hnd. apply NoDup_remove_2 in Hnd. apply Hnd.
        apply in_or_app. now left. }
      rewrite (meta_set_keys_absent k v acc Hnk).
      rewrite IH.
      + now rewrite <- app_assoc.
      + intros k' v' Hin. apply Hfix. now right.
      + unfold keys in *. rewrite map_app. simpl. rewrite <- app_assoc. exact Hnd.
  Qed.

  Lemma san_meta_id l : wf_meta l -> san_fixes_meta l -> san_meta san l = l.
  Proof. intros Hwf Hfix. unfold san_meta. now rewrite san_meta_id_gen. Qed.

  Definition san_fixes_msg (m : msg) : Prop :=
    san (uuid m) = uuid m /\ san_fixes_meta (content (mmeta m)).

  Lemma san_msg_id m : wf_msg m -> san_fixes_msg m -> san_msg san m = m.
  Proof.
    destruct m as [u p [l|]]; unfold san_msg, san_fixes_msg, wf_msg; simpl; intros Hwf [Hu Hfix].
    - now rewrite Hu, san_meta_id.
    - now rewrite Hu.
  Qed.
End San.

(** ** envelope codec: wrap then unwrap *)
Section Codec.
  Variable enc : envelope -> N.
  Variable dec : N -> option envelope.
  Variable san : N -> N.
  (** assumed of encoding/json on the envelopes it is used on (exercised by the correspondence
      run, not proved): Unmarshal (Marshal e) gives e with its strings sanitised; sanitising
      never yields or changes "" *)
  Definition codec_ok_on (e : envelope) : Prop := dec (enc e) = Some (san_env san e).
  Hypothesis san_zero : forall s, san s = 0 <-> s = 0.

  Lemma wrap_some t m p : wrap enc t m = Some p -> t <> 0 /\ p = enc (mk_env t m).
  Proof.
    unfold wrap, env_valid. simpl. destruct (t =? 0) eqn:E; simpl; [discriminate|].
    apply N.eqb_neq in E. intros H. inversion H. now split.
  Qed.

  (** wrap -> unwrap restores the topic and the message, up to what JSON does to strings *)
  Lemma unwrap_wrap t m p em : codec_ok_on (mk_env t m) ->
    wrap enc t m = Some p -> payload em = p -> unwrap dec em = Some (san t, san_msg san m).
  Proof.
    intros Hc Hw Hp. apply wrap_some in Hw as [Ht ->]. unfold unwrap. rewrite Hp, Hc.
    unfold env_valid, san_env. simpl.
    destruct (san t =? 0) eqn:E; [|reflexivity].
    apply N.eqb_eq in E. apply (proj1 (san_zero t)) in E. contradiction.
  Qed.

  Lemma unwrap_wrap_exact t m p em : codec_ok_on (mk_env t m) ->
    san t = t -> wf_msg m -> san_fixes_msg san m ->
    wrap enc t m = Some p -> payload em = p -> unwrap dec em = Some (t, m).
  Proof.
    intros Hc Ht Hwf Hfix Hw Hp. rewrite (unwrap_wrap t m p em Hc Hw Hp), Ht, san_msg_id; auto.
  Qed.

  (** an empty destination topic cannot be wrapped; anything else can *)
  Lemma wrap_none_iff t m : wrap enc t m = None <-> t = 0.
  Proof.
    unfold wrap, env_valid. simpl. destruct (t =? 0) eqn:E; simpl.
    - apply N.eqb_eq in E. split; [auto | reflexivity].
    - apply N.eqb_neq in E. split; [discriminate | contradiction].
  Qed.

  (** the Publisher decorator is all-or-nothing and keeps order *)
  Lemma wrap_all_spec t ms :
    wrap_all enc t ms = (if (t =? 0) && negb (match ms with [] => true | _ => false end) then None
                         else Some (map (fun m => enc (mk_env t m)) ms)).
  Proof.
    induction ms as [|m ms IH]; simpl; [now rewrite andb_false_r|].
    rewrite IH. unfold wrap, env_valid. simpl. destruct (t =? 0); simpl; reflexivity.
  Qed.

  Lemma fpub_publish_spec dflt cfg t ms :
    fpub_publish enc dflt cfg t ms =
    (if (t =? 0) && negb (match ms with [] => true | _ => false end) then None
     else Some (eff_topic dflt cfg, map (fun m => enc (mk_env t m)) ms)).
  Proof.
    unfold fpub_publish. rewrite wrap_all_spec.
    destruct ((t =? 0) && negb match ms with [] => true | _ => false end); reflexivity.
  Qed.

  (** everything published through the decorator unwraps to (topic, message) *)
  Lemma fpub_unwraps dflt cfg t ms ft ps :
    (forall m, In m ms -> codec_ok_on (mk_env t m)) ->
    fpub_publish enc dflt cfg t ms = Some (ft, ps) ->
    ft = eff_topic dflt cfg
    /\ Forall2 (fun m p => forall em, payload em = p -> unwrap dec em = Some (san t, san_msg san m)) ms ps.
  Proof.
    intros Hc. rewrite fpub_publish_spec.
    destruct ((t =? 0) && negb match ms with [] => true | _ => false end) eqn:E; [discriminate|].
    intros H. inversion H; subst. split; [reflexivity|].
    destruct ms as [|m0 ms0]; [constructor|].
    assert (Ht : (t =? 0) = false) by (destruct (t =? 0); [discriminate | reflexivity]).
    clear E H. revert Hc. generalize (m0 :: ms0). intros l. induction l as [|m l IH]; intros Hc; simpl; constructor.
    - intros em Hp. eapply unwrap_wrap; [apply Hc; now left| |exact Hp].
      unfold wrap, env_valid. simpl. now rewrite Ht.
    - apply IH. intros m' Hin. apply Hc. now right.
  Qed.

  (** a string that JSON alters is not restored: the relayed copy differs from what was published *)
  Lemma non_utf8_not_restored s : san s <> s -> (forall e, codec_ok_on e) ->
    exists t m p, wrap enc t m = Some p
                  /\ forall em, payload em = p -> unwrap dec em <> Some (t, m).
  Proof.
    intros Hs Hc. assert (Hs0 : s <> 0).
    { intros ->. apply Hs. now apply san_zero. }
    exists s, (Msg s 0 None), (enc (mk_env s (Msg s 0 None))). split.
    - unfold wrap, env_valid. simpl. destruct (s =? 0) eqn:E; [apply N.eqb_eq in E; contradiction | reflexivity].
    - intros em Hp. erewrite unwrap_wrap; [|apply Hc| |exact Hp].
      + intros H. injection H as H1 _. exact (Hs H1).
      + unfold wrap, env_valid. simpl. destruct (s =? 0) eqn:E; [apply N.eqb_eq in E; contradiction | reflexivity].
  Qed.
End Codec.

(** ** requeuer counter arithmetic *)
Lemma incr64_in64 z : in64 z -> in64 (incr64 z).
Proof.
  unfold in64, incr64, min64, max64. intros H.
  destruct (z =? 9223372036854775807)%Z eqn:E; [lia|]. apply Z.eqb_neq in E. lia.
Qed.
Lemma incr64_plus_one z : (z < max64)%Z -> incr64 z = (z + 1)%Z.
Proof.
  unfold incr64, max64. intros H. destruct (z =? 9223372036854775807)%Z eqn:E; [|reflexivity].
  apply Z.eqb_eq in E. lia.
Qed.

(** ** the components on a Router *)
Section Run.
  Variable dec : N -> option envelope.
  Variable atoi : N -> option Z.
  Variable itoa : Z -> N.
  Variable rk : N.

  Notation run := (run dec atoi itoa rk).
  Notation source_of := (source_of dec).
  Notation counter := (counter atoi rk).
  Notation requeued := (requeued atoi itoa rk).

  Ltac unfold_run :=
    unfold Model.run, handler_of, pubkind_of, rtopic_of, forward_handler, requeue_handler,
      passthrough_handler, inner_publish, Model.source_of; simpl.

  (** every case of every component, as far as the trace shape depends on it *)
  Ltac cases c i :=
    destruct c as [ab|tgt| |gen delay]; destruct i as [src m cd pb]; unfold_run;
    [ destruct (unwrap dec m) as [[t u]|]; [destruct pb | destruct ab]
    | destruct pb
    | destruct pb
    | destruct (0 <? delay)%Z, cd; simpl;
      try (destruct (gen m) as [t|]; [destruct (mmeta m) as [l|] eqn:Em; [destruct pb|]|]) ];
    simpl; try (match goal with H : mmeta _ = _ |- _ => rewrite H; simpl end).

  (** the handler runs once, the Router settles exactly once, as the last event, and there is
      at most one call on the destination *)
  Lemma run_shape c i :
    let tr := snd (run c i) in
    n_calls tr = 1%nat /\ n_settles tr = 1%nat /\ (length (pubs tr) <= 1)%nat
    /\ exists pre ack, tr = pre ++ [ESettle ack] /\ n_settles pre = 0%nat.
  Proof.
    cases c i; (split; [reflexivity|split; [reflexivity|split; [simpl; lia|]]]).
    all: first
      [ eexists [_], _; split; reflexivity
      | eexists [_; _], _; split; reflexivity
      | eexists [_; _; _], _; split; reflexivity
      | eexists [_; _; _; _], _; split; reflexivity ].
  Qed.

  (** where the relayed copy goes and what it is: one call, on the computed destination, with
      the source message (forwarder: the enveloped one; requeuer: counter raised), seen unsettled;
      no call at all when the message must not be relayed *)
  Definition relayed (c : comp) (m : msg) : msg :=
    match c with
    | CRequeuer _ _ => requeued m (content (mmeta m))
    | _ => m
    end.

  Lemma run_pubs c i :
    pubs (snd (run c i)) =
    match source_of c i with
    | Some (t, m) => [(t, [relayed c m], Unsettled)]
    | None => []
    end.
  Proof. cases c i; reflexivity. Qed.

  (** Ack iff the destination accepted the relayed copy (or the envelope is invalid and
      AckWhenCannotUnwrap is set); Nack in every other case; never left unsettled *)
  Definition should_ack (c : comp) (i : input) : bool :=
    match source_of c i with
    | Some _ => match i_pb i with PubAccept => true | _ => false end
    | None => match c with CForwarder true => true | _ => false end
    end.

  Lemma run_final c i : fst (run c i) = if should_ack c i then Acked else Nacked.
  Proof. unfold should_ack. cases c i; reflexivity. Qed.

  Lemma run_ack_iff c i :
    (fst (run c i) = Acked <-> should_ack c i = true)
    /\ (fst (run c i) = Nacked <-> should_ack c i = false).
  Proof. rewrite run_final. destruct (should_ack c i); split; split; congruence. Qed.

  (** the destination was called and did not accept: Nack *)
  Lemma run_nack_on_failure c i :
    source_of c i <> None -> i_pb i <> PubAccept -> fst (run c i) = Nacked.
  Proof.
    intros Hs Hp. rewrite run_final. unfold should_ack.
    destruct (source_of c i); [|congruence]. destruct (i_pb i); congruence.
  Qed.

  (** the Ack is the last event and comes after the destination's successful return *)
  Lemma run_ack_after_accept c i : ack_after_accept (snd (run c i)) false = true.
  Proof. cases c i; reflexivity. Qed.

  Lemma run_accepted c i : source_of c i <> None ->
    accepted (snd (run c i)) = match i_pb i with PubAccept => true | _ => false end.
  Proof. cases c i; intros H; try reflexivity; exfalso; now apply H. Qed.

  (** the destination's successful return is in the trace exactly when a relay was attempted and
      the destination accepted *)
  Lemma run_accepted_full c i :
    accepted (snd (run c i)) =
    match source_of c i with
    | Some _ => match i_pb i with PubAccept => true | _ => false end
    | None => false
    end.
  Proof. cases c i; reflexivity. Qed.

  (** acked after a relay: the destination's successful return is in the trace, before the Ack *)
  Lemma run_acked_was_accepted c i :
    source_of c i <> None -> fst (run c i) = Acked ->
    accepted (snd (run c i)) = true /\ ack_after_accept (snd (run c i)) false = true.
  Proof.
    intros Hs Ha. split; [|apply run_ack_after_accept]. rewrite run_accepted by assumption.
    rewrite run_final in Ha. unfold should_ack in Ha.
    destruct (source_of c i); [|congruence]. destruct (i_pb i); congruence.
  Qed.

  Lemma run_delay_ok c i : delay_ok c (snd (run c i)) = true.
  Proof.
    destruct c as [ab|tgt| |gen delay]; destruct i as [src m cd pb]; unfold_run.
    - destruct (unwrap dec m) as [[t u]|]; [destruct pb | destruct ab]; reflexivity.
    - destruct pb; reflexivity.
    - destruct pb; reflexivity.
    - unfold delay_ok. destruct (0 <? delay)%Z eqn:Ed, cd; simpl;
        try (destruct (gen m) as [t|]; [destruct (mmeta m) as [l|]; [destruct pb|]|]); simpl;
        rewrite ?Z.eqb_refl; reflexivity.
  Qed.

  (** *** what the requeuer does to the message *)
  Section Counter.
    (** assumed of strconv: Atoi returns ints, Atoi (Itoa z) = z, Atoi "" fails *)
    Hypothesis atoi_range : forall s z, atoi s = Some z -> in64 z.
    Hypothesis atoi_itoa : forall z, in64 z -> atoi (itoa z) = Some z.

    Lemma counter_in64 mm : in64 (counter mm).
    Proof.
      unfold Model.counter. destruct (atoi (get_str rk mm)) eqn:E; [eauto|].
      unfold in64, min64, max64. lia.
    Qed.

    Lemma requeued_identity m l : uuid (requeued m l) = uuid m /\ payload (requeued m l) = payload m.
    Proof. split; reflexivity. Qed.

    Lemma requeued_other_keys m l k : k <> rk ->
      meta_get k (content (mmeta (requeued m l))) = meta_get k l.
    Proof. intros H. simpl. now apply meta_get_set_other. Qed.

    Lemma requeued_counter m l :
      atoi (get_str rk (mmeta (requeued m l))) = Some (incr64 (counter (mmeta m))).
    Proof.
      unfold get_str. simpl. rewrite meta_get_set_same. apply atoi_itoa, incr64_in64, counter_in64.
    Qed.

    Lemma requeued_counter_plus_one m l : (counter (mmeta m) < max64)%Z ->
      atoi (get_str rk (mmeta (requeued m l))) = Some (counter (mmeta m) + 1)%Z.
    Proof. intros H. rewrite requeued_counter. now rewrite incr64_plus_one. Qed.

    Lemma counter_present mm v z : meta_get rk (content mm) = Some v -> atoi v = Some z -> counter mm = z.
    Proof. unfold Model.counter, get_str. intros -> ->. reflexivity. Qed.
    Lemma counter_malformed mm v : meta_get rk (content mm) = Some v -> atoi v = None -> counter mm = 0%Z.
    Proof. unfold Model.counter, get_str. intros -> ->. reflexivity. Qed.
    Lemma counter_missing mm : atoi 0 = None -> meta_get rk (content mm) = None -> counter mm = 0%Z.
    Proof. unfold Model.counter, get_str. intros H0 ->. now rewrite H0. Qed.

    Lemma msg_ok_requeued gen delay m l : mmeta m = Some l -> wf_meta l ->
      msg_ok atoi rk (CRequeuer gen delay) m (requeued m l) = true.
    Proof.
      intros Hm Hwf. unfold msg_ok. simpl. rewrite !N.eqb_refl. simpl. rewrite Hm. simpl.
      apply andb_true_iff. split; [apply andb_true_iff; split|].
      - unfold meta_sub_except. apply forallb_forall. intros [k v] Hin. simpl.
        destruct (k =? rk) eqn:E; [reflexivity|]. apply N.eqb_neq in E. simpl.
        rewrite meta_get_set_other by assumption. rewrite (meta_get_in k v l Hwf Hin). simpl. apply N.eqb_refl.
      - unfold meta_sub_except. apply forallb_forall. intros [k v] Hin. simpl.
        destruct (k =? rk) eqn:E; [reflexivity|]. apply N.eqb_neq in E. simpl.
        apply meta_set_in in Hin as [[Hk _]|Hin]; [contradiction|].
        rewrite (meta_get_in k v l Hwf Hin). simpl. apply N.eqb_refl.
      - unfold counter_ok. simpl. rewrite meta_get_set_same.
        rewrite atoi_itoa by (apply incr64_in64, counter_in64). simpl. apply Z.eqb_refl.
    Qed.

    (** the model passes the acceptor that judges implementation traces *)
    Lemma run_monitor c i :
      (forall t m, source_of c i = Some (t, m) -> wf_msg m) ->
      relay_monitor dec atoi rk c i (snd (run c i)) (fst (run c i)) = true.
    Proof.
      intros Hwf. unfold relay_monitor.
      destruct (run_shape c i) as (H1 & H2 & _). rewrite H1, H2, run_ack_after_accept, run_delay_ok. simpl.
      rewrite run_pubs, run_final. unfold should_ack.
      destruct (source_of c i) as [[t m]|] eqn:Es.
      - rewrite N.eqb_refl. simpl.
        rewrite run_accepted by congruence.
        assert (Hok : msg_ok atoi rk c m (relayed c m) = true).
        { specialize (Hwf t m eq_refl). destruct c as [ab|tgt| |gen delay]; simpl.
          1-3: unfold msg_ok; rewrite !N.eqb_refl; simpl; now apply meta_eqb_refl.
          destruct (mmeta m) as [l|] eqn:Em.
          - simpl. apply msg_ok_requeued; [exact Em|]. unfold wf_msg in Hwf. now rewrite Em in Hwf.
          - exfalso. unfold Model.source_of in Es.
            destruct ((0 <? delay)%Z && i_ctxdone i); [discriminate|].
            destruct (gen (i_msg i)); [|discriminate].
            destruct (mmeta (i_msg i)) eqn:Em'; [|discriminate]. inversion Es; subst. congruence. }
        rewrite Hok. simpl. destruct (i_pb i); reflexivity.
      - destruct c as [[|]|tgt| |gen delay]; reflexivity.
    Qed.
  End Counter.

  (** *** per component *)

  (** FanIn / FanOut: the very message that was consumed, to TargetTopic / the same topic *)
  Lemma passthrough_relays c i : (exists t, c = CFanIn t) \/ c = CFanOut ->
    pubs (snd (run c i)) = [(rtopic_of c i, [i_msg i], Unsettled)].
  Proof. intros [[t ->]| ->]; rewrite run_pubs; reflexivity. Qed.

  (** Forwarder: a valid envelope goes to the topic inside it, as the message inside it *)
  Lemma forward_valid ab i t u : unwrap dec (i_msg i) = Some (t, u) ->
    pubs (snd (run (CForwarder ab) i)) = [(t, [u], Unsettled)].
  Proof. intros H. rewrite run_pubs. simpl. now rewrite H. Qed.

  (** Forwarder: an invalid envelope is never forwarded and is settled as AckWhenCannotUnwrap says *)
  Lemma forward_invalid ab i : unwrap dec (i_msg i) = None ->
    pubs (snd (run (CForwarder ab) i)) = []
    /\ fst (run (CForwarder ab) i) = if ab then Acked else Nacked.
  Proof.
    intros H. rewrite run_pubs, run_final. unfold should_ack. simpl. rewrite H.
    split; [reflexivity | destruct ab; reflexivity].
  Qed.

  (** Requeuer: exactly when it relays, and what *)
  Lemma requeue_relays gen delay i :
    pubs (snd (run (CRequeuer gen delay) i)) =
    if (0 <? delay)%Z && i_ctxdone i then []
    else match gen (i_msg i), mmeta (i_msg i) with
         | Some t, Some l => [(t, [requeued (i_msg i) l], Unsettled)]
         | _, _ => []
         end.
  Proof.
    rewrite run_pubs. simpl. destruct ((0 <? delay)%Z && i_ctxdone i); [reflexivity|].
    destruct (gen (i_msg i)); [|reflexivity]. destruct (mmeta (i_msg i)) eqn:E; [|reflexivity].
    simpl. now rewrite E.
  Qed.

  (** a message whose Metadata map is nil is never requeued (Metadata.Set panics; the Router
      recovers and Nacks) although topic generation succeeded and the destination would accept *)
  Lemma requeue_nil_metadata gen delay i t :
    mmeta (i_msg i) = None -> gen (i_msg i) = Some t -> i_ctxdone i = false ->
    pubs (snd (run (CRequeuer gen delay) i)) = [] /\ fst (run (CRequeuer gen delay) i) = Nacked.
  Proof.
    intros Hm Hg Hc. rewrite run_pubs, run_final. unfold should_ack. simpl.
    rewrite Hm, Hg, Hc, andb_false_r. split; reflexivity.
  Qed.
End Run.

(** ** fan-in configuration, fan-out delivery *)
Lemma fanin_validate_sound sources target : fanin_validate sources target = true ->
  sources <> [] /\ target <> 0 /\ ~ In 0 sources /\ ~ In target sources.
Proof.
  unfold fanin_validate. intros H.
  apply andb_true_iff in H as [H H4]. apply andb_true_iff in H as [H H3]. apply andb_true_iff in H as [H1 H2].
  rewrite forallb_forall in H2, H4. repeat split.
  - destruct sources; [discriminate | congruence].
  - intros ->. discriminate.
  - intros Hin. specialize (H2 0 Hin). discriminate.
  - intros Hin. specialize (H4 target Hin). rewrite N.eqb_refl in H4. discriminate.
Qed.

Lemma fanout_deliver_spec n closed m :
  length (fanout_deliver n closed m) = (if closed then 0%nat else n)
  /\ Forall (fun m' => uuid m' = uuid m /\ payload m' = payload m
                       /\ content (mmeta m') = content (mmeta m)) (fanout_deliver n closed m).
Proof.
  unfold fanout_deliver. destruct closed; simpl; [split; [reflexivity | constructor]|].
  split; [apply repeat_length|]. apply Forall_forall. intros m' Hin.
  apply repeat_spec in Hin. subst m'. repeat split.
Qed.

(** ** compositions *)
Lemma Forall2_weaken {A B} (R1 R2 : A -> B -> Prop) :
  (forall a b, R1 a b -> R2 a b) -> forall l1 l2, Forall2 R1 l1 l2 -> Forall2 R2 l1 l2.
Proof. intros H l1 l2 HF. induction HF; constructor; auto. Qed.

Section EndToEnd.
  Variable enc : envelope -> N.
  Variable dec : N -> option envelope.
  Variable san : N -> N.
  Variable atoi : N -> option Z.
  Variable itoa : Z -> N.
  Variable rk : N.
  Hypothesis san_zero : forall s, san s = 0 <-> s = 0.

  (** Publisher.Publish(t, ms...) followed by the Forwarder consuming each enveloping message:
      every message goes to [t] (as JSON spells it), once, and is acked iff the destination took it;
      when JSON leaves the strings alone the relayed copy IS the published message *)
  Lemma forward_end_to_end dflt cfg t ms ft ps ab :
    (forall m, In m ms -> codec_ok_on enc dec san (mk_env t m)) ->
    fpub_publish enc dflt cfg t ms = Some (ft, ps) ->
    ft = eff_topic dflt cfg
    /\ Forall2 (fun m p => forall src em cd pb, payload em = p ->
         let r := run dec atoi itoa rk (CForwarder ab) (Inp src em cd pb) in
         pubs (snd r) = [(san t, [san_msg san m], Unsettled)]
         /\ (fst r = Acked <-> pb = PubAccept)
         /\ (san t = t -> wf_msg m -> san_fixes_msg san m -> pubs (snd r) = [(t, [m], Unsettled)])) ms ps.
  Proof.
    intros Hc H. destruct (fpub_unwraps enc dec san san_zero dflt cfg t ms ft ps Hc H) as [Hft HF].
    split; [exact Hft|]. eapply Forall2_weaken; [|exact HF]. clear Hc H HF. intros m p Hu src em cd pb Hp.
    specialize (Hu em Hp). cbv zeta.
    assert (Hpubs : pubs (snd (run dec atoi itoa rk (CForwarder ab) (Inp src em cd pb))) = [(san t, [san_msg san m], Unsettled)]).
    { now apply forward_valid. }
    split; [exact Hpubs|]. split.
    - rewrite run_final. unfold should_ack. simpl. rewrite Hu. simpl.
      destruct pb; split; intros; congruence.
    - intros Ht Hwf Hfix. rewrite Hpubs, Ht, san_msg_id by assumption. reflexivity.
  Qed.
End EndToEnd.

(** the fan-out model passes its acceptor *)
Lemma fanout_model_accepted src m n closed cd :
  wf_msg m ->
  fanout_monitor src m n closed (map (pair src) (fanout_deliver n closed m))
    (if closed then [] else [Unsettled])
    (fst (run (fun _ => None) (fun _ => None) (fun _ => 0) 0 CFanOut (Inp src m cd (fanout_pb closed)))) = true.
Proof.
  intros Hwf. unfold fanout_monitor, fanout_deliver. destruct closed; [reflexivity|].
  rewrite map_length, repeat_length, Nat.eqb_refl. simpl.
  rewrite !andb_true_r. apply forallb_forall. intros [t m'] Hin.
  apply in_map_iff in Hin as (x & Hx & Hin). apply repeat_spec in Hin. subst x. inversion Hx; subst.
  simpl. rewrite !N.eqb_refl. simpl. now apply meta_eqb_refl.
Qed.
