(** The envelope codec oracle of Relay/Model.v instantiated with the Gallina model of
    encoding/json on the forwarder envelope that property C16 proved correct (Value/Json.v:
    string escaping, base64, field mapping; only object framing [unframe] is left as an oracle).
    The relay model works on interned strings; [str_of] / [id_of] is the interning table (a
    bijection between string ids and byte strings, "" = 0).  Executable given the table; no
    proofs here. *)
From WM Require Import Base.Prelude Message.Model Handler.RouterHandle Relay.Model.
From WM Require Value.Model Value.Codec Value.Json.
Open Scope N_scope.

Section JsonCodec.
  Variable str_of : N -> list N.
  Variable id_of : list N -> N.
  Variable unframe : list N -> option (list (list N * list N)).

  Definition conc_meta (l : meta) : Value.Model.metadata :=
    map (fun kv => (str_of (fst kv), str_of (snd kv))) l.
  (** payload id 0 stands for the nil payload (the harness interns nil and empty alike) *)
  Definition conc_payload (p : N) : option (list N) := if p =? 0 then None else Some (str_of p).
  Definition conc_env (e : envelope) : Value.Codec.envelope :=
    Value.Codec.Env (str_of (e_topic e)) (str_of (e_uuid e)) (conc_payload (e_payload e))
                    (option_map conc_meta (e_meta e)).

  Definition abs_meta (l : Value.Model.metadata) : meta :=
    map (fun kv => (id_of (fst kv), id_of (snd kv))) l.
  Definition abs_payload (p : option (list N)) : N := match p with None => 0 | Some b => id_of b end.
  Definition abs_env (e : Value.Codec.envelope) : envelope :=
    Env (id_of (Value.Codec.e_dest e)) (id_of (Value.Codec.e_uuid e)) (abs_payload (Value.Codec.e_payload e))
        (option_map abs_meta (Value.Codec.e_meta e)).

  (** json.Marshal(envelope): the id of the text the encoder writes *)
  Definition json_enc (e : envelope) : N :=
    id_of (Value.Json.frame_obj (Value.Json.env_members (conc_env e))).
  (** json.Unmarshal(payload, &messageEnvelope{}) *)
  Definition json_dec (p : N) : option envelope :=
    option_map abs_env (Value.Json.jdec_env unframe (str_of p)).

  (** what C16's round-trip law asks of an envelope: valid UTF-8 strings, bytes < 256, unique
      metadata keys, and the framing assumption for the (at most two) objects written for it *)
  Definition json_ok (e : envelope) : Prop :=
    Value.Json.envelope_ok (conc_env e) /\ Value.Json.framing_ok unframe (conc_env e).
End JsonCodec.
