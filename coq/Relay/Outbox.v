(** The forwarder as an outbox, end to end, as ONE statement over the composed model:
      forwarder.Publisher (wrap, Relay/Model.v)  ->  an at-least-once source that redelivers a fresh
      copy after every Nack (GoChannel-like, Relay/Redelivery.v)  ->  Forwarder.forwardMessage on a
      Router (C02's [handle], through [run])  ->  the destination publisher.
    Liveness premise: among the destination's behaviours for the successive attempts there is an
    accepting one (without it nothing can be promised; the source keeps redelivering). *)
From WM Require Import Base.Prelude Message.Model Handler.RouterHandle
     Relay.Model Relay.Proofs Relay.Redelivery Relay.RedeliveryProofs Relay.JsonCodec Relay.JsonCodecProofs.
Open Scope N_scope.

Section Outbox.
  Variable dec : N -> option envelope.
  Variable atoi : N -> option Z.
  Variable itoa : Z -> N.
  Variable rk : N.

  Notation run := (run dec atoi itoa rk).
  Notation redeliver := (redeliver dec atoi itoa rk).

  (** no attempt acked: then every scripted attempt was made, and none of them ends in an Ack *)
  Lemma redeliver_none_acked c src obj beh :
    n_acked (fst (redeliver FreshCopy c src obj beh)) = 0%nat ->
    forall cd pb, In (cd, pb) beh -> fst (run c (Inp src (gochan_copy obj) cd pb)) <> Acked.
  Proof.
    induction beh as [|[cd0 pb0] rest IH]; simpl; [intros _ cd pb []|].
    destruct (fst (run c (Inp src (gochan_copy obj) cd0 pb0))) eqn:E; simpl.
    2: { unfold n_acked. simpl. rewrite E. simpl. discriminate. }
    all: destruct (Redelivery.redeliver dec atoi itoa rk FreshCopy c src obj rest) as [rs o]; simpl in *;
      unfold n_acked in *; simpl; rewrite E; simpl; intros Hn cd pb [Heq|Hin];
      [inversion Heq; subst; rewrite E; discriminate | now apply IH].
  Qed.

  (** at least once: if some attempt finds the message relayable and the destination accepting,
      the relayed copy of the original IS accepted (exactly once) and the message is acked *)
  Lemma redeliver_fresh_eventually c src obj beh t m :
    dest dec c src (gochan_copy obj) = Some (t, m) ->
    (exists cd, In (cd, PubAccept) beh /\ source_of dec c (Inp src (gochan_copy obj) cd PubAccept) <> None) ->
    let rs := fst (redeliver FreshCopy c src obj beh) in
    all_accepted rs = [(t, [relayed atoi itoa rk c m])] /\ n_acked rs = 1%nat.
  Proof.
    intros Hd (cd & Hin & Hs) rs.
    destruct (redeliver_fresh_spec dec atoi itoa rk c src obj beh t m Hd) as [H|[_ Hn]]; [exact H|].
    exfalso. apply (redeliver_none_acked c src obj beh Hn cd PubAccept Hin).
    apply (run_ack_iff dec atoi itoa rk). unfold should_ack.
    destruct (source_of dec c (Inp src (gochan_copy obj) cd PubAccept)); [reflexivity | congruence].
  Qed.

  (** in every attempt an Ack comes only after the destination's successful return *)
  Lemma redeliver_ack_after_accept c src obj beh :
    (forall cd pb, source_of dec c (Inp src (gochan_copy obj) cd pb) <> None) ->
    Forall (fun r => fst r = Acked -> accepted (snd r) = true /\ ack_after_accept (snd r) false = true)
           (fst (redeliver FreshCopy c src obj beh)).
  Proof.
    intros Hs. eapply Forall_impl; [|apply redeliver_fresh_attempts].
    intros r (cd & pb & _ & ->) Ha. apply run_acked_was_accepted; [apply Hs | exact Ha].
  Qed.
End Outbox.

Section OutboxForwarder.
  Variable enc : envelope -> N.
  Variable dec : N -> option envelope.
  Variable san : N -> N.
  Variable atoi : N -> option Z.
  Variable itoa : Z -> N.
  Variable rk : N.
  Hypothesis san_zero : forall s, san s = 0 <-> s = 0.

  (** THE end-to-end statement.  Publish ms to topic t through the forwarder's Publisher; the
      enveloping messages sit in the outbox topic ft; each is delivered to the Forwarder by an
      at-least-once source (fresh copy after every Nack), the destination behaving in any way that
      includes one accepting attempt.  Then for every published message: the destination accepted
      it on topic t, intact, exactly once (so: at least once, never twice); exactly one delivery of
      its envelope was acked, the last one; and in every delivery the Ack on the outbox comes only
      after the destination publish returned nil. *)
  Theorem outbox_at_least_once dflt cfg t ms ft ps ab :
    (forall m, In m ms -> codec_ok_on enc dec san (mk_env t m)) ->
    fpub_publish enc dflt cfg t ms = Some (ft, ps) ->
    ft = eff_topic dflt cfg
    /\ Forall2 (fun m p => forall (u : N) (md : option meta) (beh : list attempt),
         (exists cd, In (cd, PubAccept) beh) ->
         let rs := fst (redeliver dec atoi itoa rk FreshCopy (CForwarder ab) ft (Msg u p md) beh) in
         all_accepted rs = [(san t, [san_msg san m])]
         /\ n_acked rs = 1%nat
         /\ Forall (fun r => fst r <> Acked) (removelast rs)
         /\ Forall (fun r => fst r = Acked -> accepted (snd r) = true /\ ack_after_accept (snd r) false = true) rs
         /\ (san t = t -> wf_msg m -> san_fixes_msg san m -> all_accepted rs = [(t, [m])])) ms ps.
  Proof.
    intros Hc H. destruct (fpub_unwraps enc dec san san_zero dflt cfg t ms ft ps Hc H) as [Hft HF].
    split; [exact Hft|]. eapply Forall2_weaken; [|exact HF]. clear Hc H HF.
    intros m p Hu u md beh (cd & Hin). cbv zeta.
    assert (Hun : unwrap dec (gochan_copy (Msg u p md)) = Some (san t, san_msg san m)) by (apply Hu; reflexivity).
    assert (Hd : dest dec (CForwarder ab) ft (gochan_copy (Msg u p md)) = Some (san t, san_msg san m)) by exact Hun.
    assert (Hs : forall cd pb, source_of dec (CForwarder ab) (Inp ft (gochan_copy (Msg u p md)) cd pb) <> None).
    { intros cd0 pb0. unfold Model.source_of. simpl i_msg. rewrite Hun. discriminate. }
    destruct (redeliver_fresh_eventually dec atoi itoa rk (CForwarder ab) ft (Msg u p md) beh _ _ Hd
                (ex_intro _ cd (conj Hin (Hs cd PubAccept)))) as [Ha Hn].
    simpl relayed in Ha.
    split; [exact Ha|]. split; [exact Hn|]. split; [apply redeliver_ack_only_last|].
    split; [apply redeliver_ack_after_accept; exact Hs|].
    intros Ht Hwf Hfix. rewrite Ha, Ht, san_msg_id by assumption. reflexivity.
  Qed.
End OutboxForwarder.

(** the same on the real wire format (C16's JSON model), under [framing_ok] only *)
Theorem outbox_at_least_once_json str_of id_of unframe atoi itoa rk dflt cfg t ms ft ps ab :
  (forall n, id_of (str_of n) = n) -> (forall s, str_of (id_of s) = s) ->
  (forall m, In m ms -> json_ok str_of unframe (mk_env t m)) ->
  fpub_publish (json_enc str_of id_of) dflt cfg t ms = Some (ft, ps) ->
  ft = eff_topic dflt cfg
  /\ Forall2 (fun m p => forall (u : N) (md : option meta) (beh : list attempt),
       (exists cd, In (cd, PubAccept) beh) ->
       let rs := fst (redeliver (json_dec str_of id_of unframe) atoi itoa rk FreshCopy (CForwarder ab) ft (Msg u p md) beh) in
       all_accepted rs = [(t, [m])] /\ n_acked rs = 1%nat
       /\ Forall (fun r => fst r <> Acked) (removelast rs)
       /\ Forall (fun r => fst r = Acked -> accepted (snd r) = true /\ ack_after_accept (snd r) false = true) rs) ms ps.
Proof.
  intros H1 H2 Hok H.
  destruct (outbox_at_least_once (json_enc str_of id_of) (json_dec str_of id_of unframe) san_id atoi itoa rk
              san_id_zero dflt cfg t ms ft ps ab
              (fun m Hin => json_codec_ok str_of id_of unframe H1 H2 _ (Hok m Hin)) H) as [Hft HF].
  split; [exact Hft|]. clear H Hft.
  assert (Hok' : Forall (fun m => json_ok str_of unframe (mk_env t m)) ms) by (apply Forall_forall; exact Hok).
  clear Hok. induction HF as [|m p ms ps Hmp HF IH]; [constructor|].
  inversion Hok' as [|? ? Hm Hrest]; subst. constructor; [|now apply IH].
  intros u md beh Hb. destruct (Hmp u md beh Hb) as (_ & Hn & Hl & Haa & Hex). cbv zeta.
  split; [|repeat split; assumption].
  apply Hex; [reflexivity | apply (json_ok_wf str_of unframe (mk_env t m) Hm) |].
  split; [reflexivity|]. intros k v _. split; reflexivity.
Qed.
