(** Proofs about Relay/Config.v. *)
From WM Require Import Base.Prelude Message.Model Handler.RouterHandle Relay.Model Relay.Config.
Open Scope N_scope.

Lemma eff_topic_nonzero dflt t : dflt <> 0 -> eff_topic dflt t <> 0.
Proof. unfold eff_topic. destruct (t =? 0) eqn:E; [auto | now apply N.eqb_neq in E]. Qed.

(** the configuration NewForwarder works with always validates *)
Lemma fwd_defaults_valid dflt c : dflt <> 0 -> fwd_validate (fwd_set_defaults dflt c) = true.
Proof.
  intros H. unfold fwd_validate. simpl. apply negb_true_iff, N.eqb_neq. now apply eff_topic_nonzero.
Qed.

(** as given, a configuration is refused exactly when its forwarder topic is empty *)
Lemma fwd_validate_raw c : fwd_validate c = false <-> fc_topic c = 0.
Proof. unfold fwd_validate. rewrite negb_false_iff. apply N.eqb_eq. Qed.

(** defaults only fill what is missing, and applying them twice changes nothing *)
Lemma fwd_defaults_keep dflt c :
  (fc_topic c <> 0 -> fc_topic (fwd_set_defaults dflt c) = fc_topic c)
  /\ (fc_topic c = 0 -> fc_topic (fwd_set_defaults dflt c) = dflt)
  /\ (fc_timeout c <> 0%Z -> fc_timeout (fwd_set_defaults dflt c) = fc_timeout c)
  /\ (fc_timeout c = 0%Z -> fc_timeout (fwd_set_defaults dflt c) = default_close_timeout).
Proof.
  simpl. unfold eff_topic. repeat split; intros H.
  - apply N.eqb_neq in H. now rewrite H.
  - rewrite H. reflexivity.
  - apply Z.eqb_neq in H. now rewrite H.
  - rewrite H. reflexivity.
Qed.

Lemma fwd_defaults_idem dflt c : dflt <> 0 ->
  fwd_set_defaults dflt (fwd_set_defaults dflt c) = fwd_set_defaults dflt c.
Proof.
  intros H. unfold fwd_set_defaults. simpl. f_equal.
  - unfold eff_topic at 1. pose proof (eff_topic_nonzero dflt (fc_topic c) H) as Hn.
    apply N.eqb_neq in Hn. now rewrite Hn.
  - destruct (fc_timeout c =? 0)%Z eqn:E; [reflexivity | now rewrite E].
Qed.

(** NewForwarder never refuses a configuration, and the decorator publishes exactly where a
    Forwarder configured with the same topic listens *)
Lemma forwarder_new_spec dflt t d :
  fst (forwarder_new dflt (FCfg t d)) = NewOk
  /\ snd (forwarder_new dflt (FCfg t d)) = publisher_topic dflt t
  /\ (dflt <> 0 -> snd (forwarder_new dflt (FCfg t d)) <> 0).
Proof. repeat split. intros H. simpl. now apply eff_topic_nonzero. Qed.
