(** The composed system (Relay/Consumer.v) glued to Layer B of the GoChannel model (GoChannel/Reg.v,
    all schedules of Publish / Subscribe / cancel / Close) the way GoChannel/ReplayCompose.v does it:
    Layer B's Senders for subscription x ARE the LSpawn labels of the Layer A schedule (a permutation
    between their publications).  Layer B proves there is never a second Sender for the same
    (publication, subscription); so "the same Sender" in the redelivery theorems becomes "the same
    PUBLICATION": a published message is handed to the relay's destination successfully at most
    once, whatever Publish / Subscribe / Close do concurrently. *)
From Coq Require Import Permutation.
From WM Require Import Base.Prelude Message.Model Handler.RouterHandle
     Relay.Model Relay.Proofs Relay.Redelivery Relay.RedeliveryProofs Relay.OverGoChannel
     Relay.Consumer Relay.ConsumerProofs
     GoChannel.Sub GoChannel.SubProofs GoChannel.MonitorSound.
From WM Require GoChannel.Reg GoChannel.ReplayCompose.

Local Open Scope nat_scope.

Lemma y_run ls : forall s, SInv s -> Y s ls -> Y (srun s ls) [].
Proof.
  induction ls as [|l ls IH]; intros s I Hy; simpl; [exact Hy|].
  destruct (sstep s l) as [s'|] eqn:E.
  - apply IH; [eapply sstep_inv; eassumption | eapply y_step; eassumption].
  - apply IH; [exact I | eapply y_skip; eassumption].
Qed.

(** one Sender per publication: copies of the same publication belong to the same Sender *)
Lemma same_pub_same_sender cap0 fx ls : NoDup (spawn_pubs ls) ->
  let s := srun (sinit cap0 fx) ls in
  forall k1 k2, k1 < next s -> k2 < next s ->
  c_pub (copies s k1) = c_pub (copies s k2) -> c_thr (copies s k1) = c_thr (copies s k2).
Proof.
  intros Hnd s k1 k2 H1 H2 Hp.
  assert (Hy : Y s []) by (apply y_run; [apply sinv_init | now apply y_init]).
  apply (y_uniq _ _ Hy _ _ (c_pub (copies s k1))); [now apply (y_copy _ _ Hy) | rewrite Hp; now apply (y_copy _ _ Hy)].
Qed.

Section LayerB.
  Variable dec : N -> option envelope.
  Variable atoi : N -> option Z.
  Variable itoa : Z -> N.
  Variable rk : N.
  Variable c : comp.
  Variable src : N.
  Variable msg_of : pubid -> msg.
  Variable beh : cid -> attempt.

  (** per PUBLICATION: when a later copy of the same published message exists on this subscription,
      the relay nacked every earlier one and the destination accepted nothing of it *)
  Theorem composed_at_most_once_per_publication pers blk fxb gls x cap0 fx ls :
    let g := Reg.grun (Reg.ginit pers blk fxb) gls in
    let L := cproj dec atoi itoa rk c src msg_of beh (cinit cap0 fx) ls in
    let s := c_sub (crun dec atoi itoa rk c src msg_of beh (cinit cap0 fx) ls) in
    Permutation (spawn_pubs L) (ReplayCompose.sender_pubs g x) ->      (* glue, as in ReplayCompose.v *)
    forall k1 k2, k1 < k2 -> k2 < next s -> c_pub (copies s k1) = c_pub (copies s k2) ->
    c_st (copies s k1) = Nacked
    /\ accepted_pubs (relay_of dec atoi itoa rk c src msg_of beh s k1) = [].
  Proof.
    intros g L s Glue k1 k2 H12 H2 Hp.
    assert (Hnd : NoDup (spawn_pubs L)).
    { apply (Permutation_NoDup (Permutation_sym Glue)). apply ReplayCompose.sender_pubs_nodup. }
    apply (composed_at_most_once dec atoi itoa rk c src msg_of beh cap0 fx ls k1 k2 H12 H2).
    fold s. assert (Hs : s = srun (sinit cap0 fx) L) by (unfold s, L; now rewrite crun_is_srun).
    rewrite Hs in *. apply (same_pub_same_sender cap0 fx L Hnd); [lia | exact H2 | exact Hp].
  Qed.
End LayerB.
