(** The known finding of C17, stated exactly: what a Go string looks like after json.Marshal and
    json.Unmarshal, for EVERY byte string — not only valid UTF-8 (that case is C16's
    [unescape_escape]).  [sanitize] replaces every byte that does not start a well-formed UTF-8
    sequence by U+FFFD (EF BF BD) and keeps every well-formed sequence; the JSON model of
    Value/Json.v (imported, unchanged) reads back [sanitize s] for the text it wrote for [s];
    [sanitize s = s] exactly for valid UTF-8. *)
From WM Require Import Base.Prelude Value.Model Value.Codec Value.Json Value.JsonProofs.
Local Open Scope N_scope.

Definition san_step (s : list N) : list N * nat :=
  match s with
  | [] => ([], 1%nat)
  | _ => match rune_len s with O => (fffd_raw, 1%nat) | n => (firstn n s, n) end
  end.
(** strings.ToValidUTF8-like, but one U+FFFD PER ill-formed byte (what encoding/json does) *)
Definition sanitize (s : list N) : list N := walk san_step 0 s.

Lemma rune_len_ascii b r : N.ltb b 128 = true -> rune_len (b :: r) = 1%nat.
Proof. intros H. cbn [rune_len]. now rewrite H. Qed.

Lemma sanitize_nil : sanitize [] = [].
Proof. reflexivity. Qed.

(** one step of each walker at a well-formed sequence / at an ill-formed byte *)
Lemma sanitize_rune s n : rune_len s = S n ->
  sanitize s = firstn (S n) s ++ sanitize (skipn (S n) s).
Proof.
  intros H. destruct (rune_split s n H) as (Hl & _ & b0 & c & Hc & _).
  unfold sanitize. rewrite <- (firstn_skipn (S n) s) at 1. rewrite Hc.
  apply walk_chunk. rewrite <- Hc, firstn_skipn. unfold san_step.
  destruct s as [|x r]; [discriminate|]. rewrite H, Hl. reflexivity.
Qed.

Lemma sanitize_bad b r : rune_len (b :: r) = 0%nat -> sanitize (b :: r) = fffd_raw ++ sanitize r.
Proof.
  intros H. unfold sanitize. change (b :: r) with ([b] ++ r). apply walk_chunk.
  change (san_step (b :: r) = (fffd_raw, 1%nat)). unfold san_step. rewrite H. reflexivity.
Qed.

Lemma escape_bad b r : rune_len (b :: r) = 0%nat -> escape (b :: r) = fffd_esc ++ escape r.
Proof.
  intros H. unfold escape. change (b :: r) with ([b] ++ r). apply walk_chunk.
  change (esc_step (b :: r) = (fffd_esc, 1%nat)). unfold esc_step.
  destruct (N.ltb b 128) eqn:E; [rewrite (rune_len_ascii b r E) in H; discriminate|]. rewrite H. reflexivity.
Qed.

Lemma unesc_fffd X : unesc_step (fffd_esc ++ X) = Some (fffd_raw, length fffd_esc).
Proof. reflexivity. Qed.

(** ** every byte string: the decoder reads back the sanitised string *)
Theorem unescape_escape_any : forall s, unescape (escape s) = Some (sanitize s).
Proof.
  intros s. remember (length s) as k eqn:Hk. revert s Hk.
  induction k as [k IH] using lt_wf_ind. intros s Hk.
  destruct s as [|b r] eqn:Es; [reflexivity|]. rewrite <- Es in *.
  destruct (rune_len s) as [|n] eqn:Hn.
  - (* an ill-formed byte *)
    rewrite Es in *. rewrite (escape_bad b r Hn), (sanitize_bad b r Hn).
    unfold unescape. change fffd_esc with (92 :: [117; 102; 102; 102; 100]).
    rewrite (walk_opt_chunk unesc_step 92 [117; 102; 102; 102; 100] (escape r) fffd_raw (unesc_fffd (escape r))).
    assert (Hlen : (length r < k)%nat) by (subst k; simpl; lia).
    specialize (IH _ Hlen r eq_refl). unfold unescape in IH. rewrite IH. reflexivity.
  - (* a well-formed sequence: as in C16's unescape_escape *)
    pose proof (rune_split s n Hn) as (Hl & _ & b0 & c & Hc & _).
    pose proof (esc_step_rune s n Hn) as He.
    destruct (unesc_step_rune s n (escape (skipn (S n) s)) Hn) as [Hu Hne].
    assert (Hlen : (length (skipn (S n) s) < k)%nat).
    { rewrite skipn_length. pose proof (rune_len_le s). subst k. rewrite Es in *. simpl length in *. lia. }
    specialize (IH _ Hlen (skipn (S n) s) eq_refl).
    rewrite (sanitize_rune s n Hn).
    unfold escape, unescape in *.
    rewrite <- (firstn_skipn (S n) s) at 1. rewrite Hc in *.
    rewrite (walk_chunk esc_step b0 c _ _ He).
    destruct (esc_rune (b0 :: c)) as [|e0 ec] eqn:Er; [congruence|].
    rewrite (walk_opt_chunk unesc_step e0 ec _ _ Hu), IH. reflexivity.
Qed.

Theorem dec_str_enc_str_any s : dec_str (enc_str s) = Some (sanitize s).
Proof.
  unfold dec_str, enc_str. cbn [N.eqb Pos.eqb]. rewrite rev_unit. cbn [N.eqb Pos.eqb].
  rewrite rev_involutive. apply unescape_escape_any.
Qed.

(** ** exactly the valid UTF-8 strings are left alone *)
Lemma sanitize_valid : forall s, utf8_valid s = true -> sanitize s = s.
Proof.
  intros s Hv. pose proof (unescape_escape s Hv) as H1. rewrite unescape_escape_any in H1. injection H1 as H1. exact H1.
Qed.

Lemma sanitize_length_aux : forall k s, length s = k ->
  (length s <= length (sanitize s))%nat
  /\ (utf8_valid s = false -> (length s < length (sanitize s))%nat).
Proof.
  induction k as [k IH] using lt_wf_ind. intros s Hk.
  destruct s as [|b r] eqn:Es; [split; [simpl; lia | discriminate]|]. rewrite <- Es in *.
  rewrite utf8_valid_unfold.
  assert (Hm : match s with [] => true | _ :: _ => match rune_len s with O => false | S n => utf8_valid (skipn (rune_len s) s) end end
               = match rune_len s with O => false | S n => utf8_valid (skipn (rune_len s) s) end) by (rewrite Es; reflexivity).
  destruct (rune_len s) as [|n] eqn:Hn.
  - rewrite Es in *. rewrite (sanitize_bad b r Hn), app_length.
    assert (Hlen : (length r < k)%nat) by (subst k; simpl; lia).
    destruct (IH _ Hlen r eq_refl) as [H1 _]. simpl length in *. split; intros; lia.
  - rewrite (sanitize_rune s n Hn), app_length.
    destruct (rune_split s n Hn) as (Hl & _).
    assert (Hs : length s = (S n + length (skipn (S n) s))%nat).
    { rewrite <- (firstn_skipn (S n) s) at 1. now rewrite app_length, Hl. }
    assert (Hlen : (length (skipn (S n) s) < k)%nat) by lia.
    destruct (IH _ Hlen (skipn (S n) s) eq_refl) as [H1 H2].
    rewrite Hl. split; [lia|]. rewrite Es at 1. intros Hv. specialize (H2 Hv). lia.
Qed.

Lemma sanitize_length s :
  (length s <= length (sanitize s))%nat
  /\ (utf8_valid s = false -> (length s < length (sanitize s))%nat).
Proof. exact (sanitize_length_aux (length s) s eq_refl). Qed.

Theorem sanitize_fixes_iff s : sanitize s = s <-> utf8_valid s = true.
Proof.
  split; [|apply sanitize_valid]. intros H. destruct (utf8_valid s) eqn:E; [reflexivity|].
  destruct (sanitize_length s) as [_ Hlt]. specialize (Hlt E). rewrite H in Hlt. lia.
Qed.

(** ** the envelope, for every envelope whose payload is bytes: the decoder gives back the envelope
    with every string sanitised; metadata is rebuilt entry by entry, so keys that collide after
    sanitising keep one entry (the later value) *)
Definition san_entries (l : metadata) : metadata := map (fun kv => (sanitize (fst kv), sanitize (snd kv))) l.
Definition san_envelope (e : envelope) : envelope :=
  Env (sanitize (e_dest e)) (sanitize (e_uuid e)) (e_payload e)
      (option_map (fun l => md_build (san_entries l)) (e_meta e)).

Lemma dec_meta_entries_any : forall l acc,
  fold_left dec_meta_entry (meta_members l) (Some acc)
  = Some (fold_left (fun a kv => md_set a (fst kv) (snd kv)) (san_entries l) acc).
Proof.
  induction l as [|[k v] l IH]; intros acc; [reflexivity|].
  cbn [meta_members san_entries map fold_left fst snd]. unfold dec_meta_entry at 2. cbn [fst snd].
  rewrite (dec_str_enc_str_any k), is_null_enc_str, (dec_str_enc_str_any v). apply IH.
Qed.

Theorem jdec_jenc_env_any unframe e : bytes_ok (pl_bytes (e_payload e)) ->
  unframe (frame_obj (env_members e)) = Some (env_members e) ->
  (forall l, e_meta e = Some l -> unframe (frame_obj (meta_members l)) = Some (meta_members l)) ->
  jdec_env unframe (frame_obj (env_members e)) = Some (san_envelope e).
Proof.
  intros Hb H1 H2. unfold jdec_env. rewrite H1.
  destruct e as [dest uu p md]. cbn [e_dest e_uuid e_payload e_meta] in *.
  destruct dec_keys as (K1 & K2 & K3 & K4).
  unfold env_members, san_envelope. cbn [e_dest e_uuid e_payload e_meta fold_left].
  unfold dec_member at 4. cbn [fst snd]. rewrite K1.
  assert (fold_eqb n_dest n_dest = true) as -> by reflexivity.
  rewrite is_null_enc_str, (dec_str_enc_str_any dest). cbn [e_dest e_uuid e_payload e_meta].
  unfold dec_member at 3. cbn [fst snd]. rewrite K2.
  assert (fold_eqb n_uuid n_dest = false) as -> by reflexivity.
  assert (fold_eqb n_uuid n_uuid = true) as -> by reflexivity.
  rewrite is_null_enc_str, (dec_str_enc_str_any uu). cbn [e_dest e_uuid e_payload e_meta].
  unfold dec_member at 2. cbn [fst snd]. rewrite K3.
  assert (fold_eqb n_payload n_dest = false) as -> by reflexivity.
  assert (fold_eqb n_payload n_uuid = false) as -> by reflexivity.
  assert (fold_eqb n_payload n_payload = true) as -> by reflexivity.
  pose proof (dec_bytes_enc_bytes p Hb) as Hp. unfold dec_bytes in Hp.
  assert (Hpay : (if is_null (enc_bytes p) then Some (Env (sanitize dest) (sanitize uu) None None)
                  else match dec_str (enc_bytes p) with
                       | Some t => match b64dec t with Some bs => Some (Env (sanitize dest) (sanitize uu) (Some bs) None) | None => None end
                       | None => None
                       end) = Some (Env (sanitize dest) (sanitize uu) p None)).
  { destruct (is_null (enc_bytes p)); [now inversion Hp|].
    destruct (dec_str (enc_bytes p)) as [t|]; [|discriminate].
    destruct (b64dec t) as [bs|]; [|discriminate]. simpl in Hp. now inversion Hp. }
  cbn [e_dest e_uuid e_payload e_meta]. rewrite Hpay.
  unfold dec_member. cbn [fst snd]. rewrite K4.
  assert (fold_eqb n_metadata n_dest = false) as -> by reflexivity.
  assert (fold_eqb n_metadata n_uuid = false) as -> by reflexivity.
  assert (fold_eqb n_metadata n_payload = false) as -> by reflexivity.
  assert (fold_eqb n_metadata n_metadata = true) as -> by reflexivity.
  cbn [e_dest e_uuid e_payload e_meta].
  destruct md as [l|]; [|reflexivity].
  cbn [enc_meta option_map]. rewrite is_null_frame, (H2 l eq_refl). cbn [md_entries].
  rewrite (dec_meta_entries_any l []). reflexivity.
Qed.

(** the documented alteration is the ONLY one: an envelope of valid UTF-8 strings with unique keys is
    a fixed point, and any envelope whose destination or UUID is not valid UTF-8 is not *)
Theorem san_envelope_changes e :
  (utf8_valid (e_dest e) = false \/ utf8_valid (e_uuid e) = false) -> san_envelope e <> e.
Proof.
  intros H Heq. destruct e as [d u p m]. unfold san_envelope in Heq. simpl in *. inversion Heq as [[Hd Hu Hm]].
  destruct H as [H|H]; [apply sanitize_fixes_iff in Hd | apply sanitize_fixes_iff in Hu]; congruence.
Qed.
