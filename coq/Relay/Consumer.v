(** The relay component as THE consumer of a GoChannel subscription: the composed system.
    Executable; no proofs here.

    Layer A of the GoChannel model (GoChannel/Sub.v) leaves the consumer to the environment:
    [LAck c] / [LNack c] may be fired on any received copy.  Here the consumer is the Router
    running the relay's handler: for every received copy it runs handleMessage ONCE (C02's
    [handle], through [run] of Relay/Model.v, on a fresh message.Copy() of the publication's
    message) and settles the copy with the verdict — [CHandle k] is the only way a copy gets
    settled; every other Layer A label ([CSub]) is as before.  The log keeps what the relay did
    for each handled copy (its calls on the destination). *)
From WM Require Import Base.Prelude Message.Model Handler.RouterHandle
     Relay.Model Relay.Redelivery GoChannel.Sub.

Section Consumer.
  Variable dec : N -> option envelope.
  Variable atoi : N -> option Z.
  Variable itoa : Z -> N.
  Variable rk : N.
  Variable c : comp.
  Variable src : N.
  Variable msg_of : pubid -> msg.        (* the message of publication p on the source topic *)
  Variable beh : cid -> attempt.         (* context / destination behaviour while copy k is handled *)

  Inductive clabel := CSub (l : label) | CHandle (k : cid).

  Record cstate := CS { c_sub : sstate; c_log : list (cid * (settle * list ev)) }.

  Definition cinit (cap0 : nat) (fx : bool) : cstate := CS (sinit cap0 fx) [].

  Definition is_settle (l : label) : bool :=
    match l with LAck _ | LNack _ => true | _ => false end.

  Definition handled (cs : cstate) (k : cid) : bool :=
    existsb (fun x => Nat.eqb (fst x) k) (c_log cs).

  (** what the relay does with delivered copy k *)
  Definition relay_of (s : sstate) (k : cid) : settle * list ev :=
    run dec atoi itoa rk c
        (Inp src (gochan_copy (msg_of (c_pub (copies s k)))) (fst (beh k)) (snd (beh k))).

  Definition verdict_label (r : settle * list ev) (k : cid) : label :=
    if settle_eqb (fst r) Acked then LAck k else LNack k.

  Definition cstep (cs : cstate) (l : clabel) : option cstate :=
    match l with
    | CSub l =>
        if is_settle l then None
        else match sstep (c_sub cs) l with
             | Some s' => Some (CS s' (c_log cs))
             | None => None
             end
    | CHandle k =>
        if c_recv (copies (c_sub cs) k) && negb (handled cs k) then
          let r := relay_of (c_sub cs) k in
          match sstep (c_sub cs) (verdict_label r k) with
          | Some s' => Some (CS s' (c_log cs ++ [(k, r)]))
          | None => None
          end
        else None
    end.

  Fixpoint crun (cs : cstate) (ls : list clabel) : cstate :=
    match ls with
    | [] => cs
    | l :: ls' => match cstep cs l with Some cs' => crun cs' ls' | None => crun cs ls' end
    end.

  (** the Layer A labels a composed run performs *)
  Fixpoint cproj (cs : cstate) (ls : list clabel) : list label :=
    match ls with
    | [] => []
    | l :: ls' =>
        match cstep cs l with
        | Some cs' =>
            match l with
            | CSub l0 => l0
            | CHandle k => verdict_label (relay_of (c_sub cs) k) k
            end :: cproj cs' ls'
        | None => cproj cs ls'
        end
    end.

  (** the relay's results for the copies of one Sender (= one publication on this subscription),
      in the order they were handled: the redelivery history of that publication *)
  Definition history (cs : cstate) (t : tid) : list (settle * list ev) :=
    map snd (filter (fun x => Nat.eqb (c_thr (copies (c_sub cs) (fst x))) t) (c_log cs)).
End Consumer.
