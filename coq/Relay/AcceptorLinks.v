(** Every acceptor of Corr/C17.v that judges implementation behaviour is linked to the model: what
    the model does passes it.  ([relay_monitor], [redelivery_monitor], [fanout_monitor] are linked in
    Relay/Proofs.v / RedeliveryProofs.v; here the remaining ones: the end-to-end acceptor
    [e2e_violates] and the chain acceptor [chain_violates], and [fanout_violates] on a case built
    from the model.) *)
From WM Require Import Base.Prelude Message.Model Handler.RouterHandle Relay.Model Relay.Proofs Corr.C17.
Open Scope N_scope.

Lemma msg_content_eqb_refl m : wf_msg m -> msg_content_eqb m m = true.
Proof. intros H. unfold msg_content_eqb. rewrite !N.eqb_refl. simpl. now apply meta_eqb_refl. Qed.

(** the Forwarder model on the envelope of (t, m): the end-to-end acceptor is satisfied, whatever the
    destination does (the call is made with the intact message either way) *)
Lemma e2e_model_accepted ab src em cd pb t m dcd at_ it rk orig_dec :
  wf_msg m -> unwrap (fun _ => orig_dec) em = Some (t, m) ->
  let r := run (fun _ => orig_dec) (lookupN at_) (lookupZ it) rk (CForwarder ab) (Inp src em cd pb) in
  e2e_violates (RC (KForwarder ab) src em dcd pb orig_dec at_ it rk (Some (t, m)) (snd r) (fst r)) = false.
Proof.
  intros Hwf Hu r. unfold e2e_violates. simpl r_orig. simpl r_tr. unfold r.
  rewrite (forward_valid (fun _ => orig_dec) (lookupN at_) (lookupZ it) rk ab (Inp src em cd pb) t m Hu).
  rewrite N.eqb_refl, (msg_content_eqb_refl m Hwf). reflexivity.
Qed.

(** the fan-out model: the case built from it is accepted *)
Lemma fanout_case_model_accepted src m n closed :
  wf_msg m ->
  fanout_violates (FO src m n closed (map (pair src) (fanout_deliver n closed m))
                      (if closed then [] else [Unsettled])
                      (fst (run (fun _ => None) (fun _ => None) (fun _ => 0) 0 CFanOut (Inp src m false (fanout_pb closed))))) = false.
Proof.
  intros Hwf. unfold fanout_violates. simpl. rewrite (fanout_model_accepted src m n closed false Hwf). reflexivity.
Qed.

(** the chain Publisher -> GoChannel -> Forwarder -> GoChannel -> a subscriber nacking k copies: the
    subscriber's view in the model is k+1 copies of the published message on its topic *)
Lemma chain_model_accepted t m k :
  wf_msg m ->
  chain_violates (CH t m k (map (pair t) (repeat (gochan_copy m) (S k))) Acked) = false.
Proof.
  intros Hwf. unfold chain_violates. cbn [h_topic h_msg h_nacks h_got h_final]. unfold fanout_monitor.
  rewrite map_length, repeat_length, Nat.eqb_refl.
  assert (Hall : forallb (fun tm : N * msg => (fst tm =? t) && (uuid (snd tm) =? uuid m) && (payload (snd tm) =? payload m)
                            && meta_eqb (content (mmeta m)) (content (mmeta (snd tm))))
                         (map (pair t) (repeat (gochan_copy m) (S k))) = true).
  { apply forallb_forall. intros [t' m'] Hin. apply in_map_iff in Hin as (x & Hx & Hin).
    apply repeat_spec in Hin. subst x. inversion Hx; subst. simpl. rewrite !N.eqb_refl. simpl. now apply meta_eqb_refl. }
  rewrite Hall. reflexivity.
Qed.
