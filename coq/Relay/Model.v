(** Model of the four relay components as Router handlers (property C17).  Executable; no
    proofs here.

    - components/forwarder/envelope.go   wrapMessageInEnvelope / unwrapMessageFromEnvelope / validate
    - components/forwarder/publisher.go  Publisher.Publish (the decorator) + setDefaults
    - components/forwarder/forwarder.go  forwardMessage (an AddNoPublisherHandler handler) + setDefaults
    - components/fanin/fanin.go          Config.Validate, the pass-through handler per source topic
    - pubsub/gochannel/fanout.go         AddSubscription (message.PassthroughHandler into the internal GoChannel)
    - components/requeuer/requeuer.go    handler (delay, GeneratePublishTopic, retries counter, Publish)

    Each handler is a function from the consumed message to (what it did at the destination
    publisher itself, what it returned to the Router); the Router part is NOT re-modelled: the
    result goes through [handle] of Handler/RouterHandle.v (property C02).

    Strings (topics, UUIDs, metadata keys and values, payloads) are numbers interned injectively
    by the harness, 0 = "".  encoding/json and strconv are oracles (Section variables). *)
From WM Require Import Base.Prelude Message.Model Handler.RouterHandle.
Open Scope N_scope.

(** ** messages as values *)

(** message.Metadata, in the order the harness lists it (sorted by key, keys unique) *)
Definition meta := list (N * N).

Fixpoint meta_get (k : N) (l : meta) : option N :=
  match l with
  | [] => None
  | (k', v) :: l' => if k' =? k then Some v else meta_get k l'
  end.

(** Metadata.Set: overwrite or add *)
Fixpoint meta_set (k v : N) (l : meta) : meta :=
  match l with
  | [] => [(k, v)]
  | (k', v') :: l' => if k' =? k then (k, v) :: l' else (k', v') :: meta_set k v l'
  end.

(** [mmeta = None] is a nil map (reads like an empty one, panics on assignment) *)
Record msg := Msg { uuid : N; payload : N; mmeta : option meta }.

Definition content (m : option meta) : meta := match m with Some l => l | None => [] end.

(** Metadata.Get: "" for a missing key, also on a nil map *)
Definition get_str (k : N) (m : option meta) : N :=
  match meta_get k (content m) with Some v => v | None => 0 end.

(** ** observable events of handling ONE consumed message *)
Inductive ev :=
| ECall                                              (* the relay's handler function was invoked *)
| EDelay (d : Z)                                     (* the requeuer waited its Delay before going on *)
| EPub (topic : N) (ms : list msg) (seen : settle)   (* destination.Publish(topic, ms...) entered; [seen] =
                                                        settlement of the consumed message sampled inside *)
| EPubRet (ok : bool)                                (* it returned nil / an error *)
| EPubPanic                                          (* it panicked *)
| ESettle (ack : bool).                              (* the Router's Ack() / Nack() on the consumed message *)

(** what a handler did itself + what it handed back to the Router *)
Record hres := HR { h_inner : list ev; h_cr : chain_result msg }.

(** a handler that publishes one message itself (Forwarder, Requeuer): nil -> return nil,
    error -> return the error, panic -> propagates to the Router's recover *)
Definition inner_publish (pre : list ev) (t : N) (m : msg) (pb : pubbeh) : hres :=
  let s := st (init CtorNew) in
  match pb with
  | PubAccept => HR (pre ++ [EPub t [m] s; EPubRet true]) (CR PreNone (Ret []))
  | PubError => HR (pre ++ [EPub t [m] s; EPubRet false]) (CR PreNone (Fail []))
  | PubPanic => HR (pre ++ [EPub t [m] s; EPubPanic]) (CR PreNone Panic)
  end.

(** ** forwarder envelope *)
Record envelope := Env { e_topic : N; e_uuid : N; e_payload : N; e_meta : option meta }.
Definition mk_env (t : N) (m : msg) : envelope := Env t (uuid m) (payload m) (mmeta m).
Definition env_msg (e : envelope) : msg := Msg (e_uuid e) (e_payload e) (e_meta e).
(** messageEnvelope.validate *)
Definition env_valid (e : envelope) : bool := negb (e_topic e =? 0).

(** setDefaults of Config / PublisherConfig: "" means the default forwarder topic *)
Definition eff_topic (dflt cfg : N) : N := if cfg =? 0 then dflt else cfg.

Section Codec.
  (** json.Marshal / json.Unmarshal on messageEnvelope, and what Marshal does to a Go string
      (invalid UTF-8 is replaced by U+FFFD; a []byte payload is base64 and survives) *)
  Context {P : Type}.                    (* encoded envelopes: N in the theorems; the comparators
                                            identify an encoding with what it decodes to *)
  Variable enc : envelope -> P.
  Variable dec : N -> option envelope.
  Variable san : N -> N.

  (** a map is marshalled in key order; on duplicate keys Unmarshal keeps the last one *)
  Definition san_meta (l : meta) : meta :=
    fold_left (fun acc kv => meta_set (san (fst kv)) (san (snd kv)) acc) l [].
  Definition san_env (e : envelope) : envelope :=
    Env (san (e_topic e)) (san (e_uuid e)) (e_payload e) (option_map san_meta (e_meta e)).
  Definition san_msg (m : msg) : msg := Msg (san (uuid m)) (payload m) (option_map san_meta (mmeta m)).

  (** wrapMessageInEnvelope: the payload of the enveloping message (its UUID is library-made) *)
  Definition wrap (t : N) (m : msg) : option P :=
    if env_valid (mk_env t m) then Some (enc (mk_env t m)) else None.

  (** unwrapMessageFromEnvelope: Unmarshal error or empty destination topic => error *)
  Definition unwrap (m : msg) : option (N * msg) :=
    match dec (payload m) with
    | None => None
    | Some e => if env_valid e then Some (e_topic e, env_msg e) else None
    end.

  (** forwarder.Publisher.Publish(topic, ms...): every message is wrapped first, any failure
      aborts before the wrapped publisher is called; then ONE call on the forwarder topic.
      None = error without a call *)
  Fixpoint wrap_all (t : N) (ms : list msg) : option (list P) :=
    match ms with
    | [] => Some []
    | m :: ms' =>
        match wrap t m with
        | None => None
        | Some p => match wrap_all t ms' with None => None | Some ps => Some (p :: ps) end
        end
    end.
  Definition fpub_publish (dflt cfg_topic : N) (t : N) (ms : list msg) : option (N * list P) :=
    match wrap_all t ms with
    | None => None
    | Some ps => Some (eff_topic dflt cfg_topic, ps)
    end.
  (** its return value: nil iff wrapping succeeded and the wrapped publisher accepted *)
  Definition fpub_ok (dflt cfg_topic : N) (t : N) (ms : list msg) (pb : pubbeh) : bool :=
    match fpub_publish dflt cfg_topic t ms, pb with
    | Some _, PubAccept => true
    | _, _ => false
    end.

  (** Forwarder.forwardMessage *)
  Definition forward_handler (ack_bad : bool) (pb : pubbeh) (m : msg) : hres :=
    match unwrap m with
    | None => HR [] (CR PreNone (if ack_bad then Ret [] else Fail []))
    | Some (t, u) => inner_publish [] t u pb
    end.
End Codec.

(** ** requeuer *)
Definition max64 : Z := 9223372036854775807.
Definition min64 : Z := (-9223372036854775808)%Z.
Definition in64 (z : Z) : Prop := (min64 <= z <= max64)%Z.
(** [retries++] on a Go int (64 bit) *)
Definition incr64 (z : Z) : Z := if (z =? max64)%Z then min64 else (z + 1)%Z.

Section Requeuer.
  Variable atoi : N -> option Z.          (* strconv.Atoi: None = error *)
  Variable itoa : Z -> N.                 (* strconv.Itoa *)
  Variable rk : N.                        (* RetriesKey *)

  (** retries, err := strconv.Atoi(msg.Metadata.Get(RetriesKey)); if err != nil { retries = 0 } *)
  Definition counter (m : option meta) : Z :=
    match atoi (get_str rk m) with Some z => z | None => 0%Z end.

  Definition requeued (m : msg) (l : meta) : msg :=
    Msg (uuid m) (payload m) (Some (meta_set rk (itoa (incr64 (counter (mmeta m)))) l)).

  (** Requeuer.handler; [ctx_done]: the message context is done while the delay runs *)
  Definition requeue_handler (gen : msg -> option N) (delay : Z) (ctx_done : bool)
             (pb : pubbeh) (m : msg) : hres :=
    if (0 <? delay)%Z && ctx_done then HR [] (CR PreNone (Fail []))
    else
      match gen m with
      | None => HR [] (CR PreNone (Fail []))
      | Some t =>
          match mmeta m with
          | None => HR [] (CR PreNone Panic)            (* Metadata.Set on a nil map *)
          | Some l => inner_publish (if (0 <? delay)%Z then [EDelay delay] else []) t (requeued m l) pb
          end
      end.
End Requeuer.

(** ** fan-in / fan-out: the handler returns the consumed message object itself *)
Definition passthrough_handler (m : msg) : hres := HR [] (CR PreNone (Ret [m])).

(** fanin.Config.Validate *)
Definition fanin_validate (sources : list N) (target : N) : bool :=
  negb (match sources with [] => true | _ => false end)
  && forallb (fun s => negb (s =? 0)) sources
  && negb (target =? 0)
  && forallb (fun s => negb (s =? target)) sources.

(** NewFanIn: config error, or a panic from Router.AddHandler when two source topics give the
    same handler name (Validate does not look for duplicates) *)
Inductive ctor_res := NewOk | NewErr | NewPanic.
Fixpoint nodupb (l : list N) : bool :=
  match l with [] => true | x :: l' => negb (existsb (N.eqb x) l') && nodupb l' end.
Definition fanin_new (has_sub has_pub : bool) (sources : list N) (target : N) : ctor_res :=
  if negb (has_sub && has_pub) then NewErr
  else if negb (fanin_validate sources target) then NewErr
  else if nodupb sources then NewOk else NewPanic.

(** requeuer Config.validate *)
Definition requeuer_new (has_sub has_topic has_pub has_gen : bool) : ctor_res :=
  if has_sub && has_topic && has_pub && has_gen then NewOk else NewErr.

(** what a subscriber of the fan-out's internal GoChannel receives: message.Copy() *)
Definition gochan_copy (m : msg) : msg := Msg (uuid m) (payload m) (Some (content (mmeta m))).
(** the internal GoChannel as a destination: refuses only when closed; one copy per subscriber *)
Definition fanout_pb (closed : bool) : pubbeh := if closed then PubError else PubAccept.
Definition fanout_deliver (nsubs : nat) (closed : bool) (m : msg) : list msg :=
  if closed then [] else repeat (gochan_copy m) nsubs.

(** ** the four components on a Router *)
Inductive comp :=
| CForwarder (ack_bad : bool)
| CFanIn (target : N)
| CFanOut
| CRequeuer (gen : msg -> option N) (delay : Z).

Record input := Inp {
  i_src : N;                (* topic the message was consumed from *)
  i_msg : msg;
  i_ctxdone : bool;         (* requeuer: message context done during the delay *)
  i_pb : pubbeh             (* what the destination publisher does with this message's call *)
}.

Section Run.
  Variable dec : N -> option envelope.
  Variable atoi : N -> option Z.
  Variable itoa : Z -> N.
  Variable rk : N.

  Definition handler_of (c : comp) (i : input) : hres :=
    match c with
    | CForwarder ack_bad => forward_handler dec ack_bad (i_pb i) (i_msg i)
    | CFanIn _ | CFanOut => passthrough_handler (i_msg i)
    | CRequeuer gen delay => requeue_handler atoi itoa rk gen delay (i_ctxdone i) (i_pb i) (i_msg i)
    end.

  (** Forwarder and Requeuer use AddNoPublisherHandler; FanIn and FanOut AddHandler with the destination *)
  Definition pubkind_of (c : comp) : pubkind :=
    match c with CFanIn _ | CFanOut => PubReal | _ => PubDisabled end.

  (** the handler's publish topic on the Router (FanIn: TargetTopic, FanOut: the same topic) *)
  Definition rtopic_of (c : comp) (i : input) : N :=
    match c with CFanIn t => t | _ => i_src i end.

  Definition proj (t : N) (e : hevent msg) : list ev :=
    match e with
    | HCall => [ECall]
    | HPreSettle _ _ => []
    | HPublish outs s => [EPub t outs s]
    | HPublishRet ok => [EPubRet ok]
    | HPublishPanic => [EPubPanic]
    | HSettle a _ => [ESettle a]
    end.

  (** the handler's own actions happen between its invocation and whatever the Router does next *)
  Definition splice (inner tr : list ev) : list ev :=
    match tr with
    | ECall :: rest => ECall :: inner ++ rest
    | _ => inner ++ tr
    end.

  (** one consumed message through the component: composition with C02's [handle] *)
  Definition run (c : comp) (i : input) : settle * list ev :=
    let h := handler_of c i in
    let '(ms, tr) := handle (pubkind_of c) (i_pb i) (h_cr h) in
    (st ms, splice (h_inner h) (flat_map (proj (rtopic_of c i)) tr)).

  (** ** the property as an acceptor of an observed trace + final settlement *)

  (** order-insensitive equality of two metadata lists with unique keys *)
  Definition meta_sub (a b : meta) : bool :=
    forallb (fun kv => option_eqb N.eqb (meta_get (fst kv) b) (Some (snd kv))) a.
  Definition meta_eqb (a b : meta) : bool :=
    Nat.eqb (length a) (length b) && meta_sub a b && meta_sub b a.
  (** same entries apart from key [k] *)
  Definition meta_sub_except (k : N) (a b : meta) : bool :=
    forallb (fun kv => (fst kv =? k) || option_eqb N.eqb (meta_get (fst kv) b) (Some (snd kv))) a.
  (** the relayed counter reads as the consumed one plus one (Go int arithmetic) *)
  Definition counter_ok (a b : option meta) : bool :=
    match meta_get rk (content b) with
    | Some v => option_eqb Z.eqb (atoi v) (Some (incr64 (counter atoi rk a)))
    | None => false
    end.

  (** the message the relayed copy is measured against, and the destination it must go to;
      None = the component must not relay this message *)
  Definition source_of (c : comp) (i : input) : option (N * msg) :=
    match c with
    | CForwarder _ => unwrap dec (i_msg i)
    | CFanIn t => Some (t, i_msg i)
    | CFanOut => Some (i_src i, i_msg i)
    | CRequeuer gen delay =>
        if (0 <? delay)%Z && i_ctxdone i then None
        else match gen (i_msg i), mmeta (i_msg i) with
             | Some t, Some _ => Some (t, i_msg i)
             | _, _ => None
             end
    end.

  (** UUID, payload and metadata intact (requeuer: plus exactly the counter change) *)
  Definition msg_ok (c : comp) (m m' : msg) : bool :=
    (uuid m =? uuid m') && (payload m =? payload m')
    && match c with
       | CRequeuer _ _ =>
           meta_sub_except rk (content (mmeta m)) (content (mmeta m'))
           && meta_sub_except rk (content (mmeta m')) (content (mmeta m))
           && counter_ok (mmeta m) (mmeta m')
       | _ => meta_eqb (content (mmeta m)) (content (mmeta m'))
       end.

  Definition pubs (tr : list ev) : list (N * list msg * settle) :=
    flat_map (fun e => match e with EPub t ms s => [(t, ms, s)] | _ => [] end) tr.
  Definition n_calls (tr : list ev) : nat :=
    length (filter (fun e => match e with ECall => true | _ => false end) tr).
  Definition n_settles (tr : list ev) : nat :=
    length (filter (fun e => match e with ESettle _ => true | _ => false end) tr).
  Definition accepted (tr : list ev) : bool :=
    existsb (fun e => match e with EPubRet true => true | _ => false end) tr.

  (** the Router's Ack comes after a successful return of the publish call whenever there was a
      publish call, and the Router's settle call is the last event *)
  Fixpoint ack_after_accept (tr : list ev) (pending : bool) : bool :=
    match tr with
    | [] => false
    | EPub _ _ _ :: tr' => ack_after_accept tr' true
    | EPubRet true :: tr' => ack_after_accept tr' false
    | EPubRet false :: tr' => ack_after_accept tr' true
    | EPubPanic :: tr' => ack_after_accept tr' true
    | ESettle true :: tr' => negb pending && match tr' with [] => true | _ => false end
    | ESettle false :: tr' => match tr' with [] => true | _ => false end
    | _ :: tr' => ack_after_accept tr' pending
    end.

  Definition settle_is (a b : settle) : bool := settle_eqb a b.

  (** the delay was waited out before the destination was called *)
  Definition delay_ok (c : comp) (tr : list ev) : bool :=
    match c with
    | CRequeuer _ delay =>
        if (0 <? delay)%Z then
          forallb (fun e => match e with EDelay d => (d =? delay)%Z | _ => true end) tr
          && match pubs tr with [] => true | _ => existsb (fun e => match e with EDelay _ => true | _ => false end) tr end
        else forallb (fun e => match e with EDelay _ => false | _ => true end) tr
    | _ => forallb (fun e => match e with EDelay _ => false | _ => true end) tr
    end.

  Definition relay_monitor (c : comp) (i : input) (tr : list ev) (final : settle) : bool :=
    Nat.eqb (n_calls tr) 1 && Nat.eqb (n_settles tr) 1
    && ack_after_accept tr false
    && delay_ok c tr
    && match source_of c i, pubs tr with
       | None, [] =>
           (* nothing may be relayed: forwarder acks iff AckWhenCannotUnwrap, requeuer nacks *)
           settle_is final (match c with CForwarder true => Acked | _ => Nacked end)
       | Some (t, m), [(t', [m'], seen)] =>
           (t =? t') && msg_ok c m m' && settle_is seen Unsettled
           && settle_is final (if accepted tr then Acked else Nacked)
       | _, _ => false
       end.
End Run.

(** ** fan-out: what the subscribers of the internal GoChannel got, as an acceptor.
    [got] = every copy any subscriber received for this message, with the topic it was
    subscribed to; [seen] = settlement of the consumed message sampled inside GoChannel.Publish *)
Definition fanout_monitor (src : N) (m : msg) (nsubs : nat) (closed : bool)
           (got : list (N * msg)) (seen : list settle) (final : settle) : bool :=
  Nat.eqb (length got) (if closed then 0%nat else nsubs)
  && forallb (fun tm => (fst tm =? src) && (uuid (snd tm) =? uuid m) && (payload (snd tm) =? payload m)
                        && meta_eqb (content (mmeta m)) (content (mmeta (snd tm)))) got
  && forallb (fun s => settle_eqb s Unsettled) seen
  && settle_eqb final (if closed then Nacked else Acked).
