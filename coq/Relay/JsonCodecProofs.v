(** The C17 envelope theorems for the real wire format: the codec premise [codec_ok_on] is PROVED
    for [json_enc] / [json_dec] from C16's [jdec_jenc_env] (Value/JsonProofs.v), under C16's
    single named assumption [framing_ok] and for envelopes made of valid UTF-8. *)
From WM Require Import Base.Prelude Message.Model Handler.RouterHandle Relay.Model Relay.Proofs Relay.JsonCodec.
From WM Require Value.Model Value.Codec Value.Json Value.JsonProofs.
Open Scope N_scope.

Section JsonCodec.
  Variable str_of : N -> list N.
  Variable id_of : list N -> N.
  Variable unframe : list N -> option (list (list N * list N)).
  (** the interning table is a bijection, "" = 0 *)
  Hypothesis id_str : forall n, id_of (str_of n) = n.
  Hypothesis str_id : forall s, str_of (id_of s) = s.

  Notation json_enc := (json_enc str_of id_of).
  Notation json_dec := (json_dec str_of id_of unframe).
  Notation json_ok := (json_ok str_of unframe).
  Notation conc_env := (conc_env str_of).

  Definition san_id (s : N) : N := s.

  Lemma str_of_inj a b : str_of a = str_of b -> a = b.
  Proof. intros H. rewrite <- (id_str a), <- (id_str b). now rewrite H. Qed.
  Lemma id_of_inj a b : id_of a = id_of b -> a = b.
  Proof. intros H. rewrite <- (str_id a), <- (str_id b). now rewrite H. Qed.

  Lemma abs_conc_meta l : abs_meta id_of (conc_meta str_of l) = l.
  Proof.
    unfold abs_meta, conc_meta. rewrite map_map. rewrite <- (map_id l) at 2. apply map_ext.
    intros [k v]. simpl. now rewrite !id_str.
  Qed.

  Lemma abs_conc_env e : abs_env id_of (conc_env e) = e.
  Proof.
    destruct e as [t u p m]. unfold abs_env, JsonCodec.conc_env. simpl. rewrite !id_str.
    assert (Hp : abs_payload id_of (conc_payload str_of p) = p).
    { unfold conc_payload. destruct (p =? 0) eqn:E; simpl; [apply N.eqb_eq in E; now subst | apply id_str]. }
    rewrite Hp. destruct m as [l|]; simpl; [now rewrite abs_conc_meta | reflexivity].
  Qed.

  (** C16's law, transported to interned strings: Unmarshal (Marshal e) = e *)
  Lemma json_dec_enc e : json_ok e -> json_dec (json_enc e) = Some e.
  Proof.
    intros [Hok [Hf1 Hf2]]. unfold JsonCodec.json_dec, JsonCodec.json_enc. rewrite str_id.
    rewrite (Value.JsonProofs.jdec_jenc_env unframe (conc_env e) Hok Hf1 Hf2 _ eq_refl). simpl.
    now rewrite abs_conc_env.
  Qed.

  Lemma json_ok_wf e : json_ok e -> wf_meta (content (e_meta e)).
  Proof.
    intros [(_ & _ & Hwf) _]. unfold Value.Model.md_wf in Hwf. unfold wf_meta, keys.
    destruct e as [t u p [l|]]; simpl in *; [|constructor].
    unfold conc_meta in Hwf. rewrite map_map in Hwf. simpl in Hwf.
    rewrite <- (map_map fst str_of) in Hwf. eapply NoDup_map_inv. exact Hwf.
  Qed.

  Lemma san_id_env e : wf_meta (content (e_meta e)) -> san_env san_id e = e.
  Proof.
    intros Hwf. destruct e as [t u p [l|]]; unfold san_env, san_id; simpl; [|reflexivity].
    f_equal. f_equal. apply san_meta_id; [exact Hwf|]. intros k v _. split; reflexivity.
  Qed.

  (** the codec premise of the C17 theorems holds for the JSON codec *)
  Lemma json_codec_ok e : json_ok e -> codec_ok_on json_enc json_dec san_id e.
  Proof.
    intros H. unfold codec_ok_on. rewrite (json_dec_enc e H). f_equal. symmetry.
    apply san_id_env. now apply json_ok_wf.
  Qed.

  Lemma san_id_zero s : san_id s = 0 <-> s = 0.
  Proof. unfold san_id. tauto. Qed.

  (** wrap -> unwrap on the real wire format restores topic and message exactly *)
  Lemma json_envelope_roundtrip t m p em :
    json_ok (mk_env t m) -> wrap json_enc t m = Some p -> payload em = p ->
    unwrap json_dec em = Some (t, m).
  Proof.
    intros Hok Hw Hp.
    apply (unwrap_wrap_exact json_enc json_dec san_id san_id_zero t m p em); auto.
    - now apply json_codec_ok.
    - apply (json_ok_wf (mk_env t m) Hok).
    - split; [reflexivity|]. intros k v _. split; reflexivity.
  Qed.

  (** published through the Publisher, consumed by the Forwarder, on the real wire format *)
  Lemma json_forward_end_to_end atoi itoa rk dflt cfg t ms ft ps ab :
    (forall m, In m ms -> json_ok (mk_env t m)) ->
    fpub_publish json_enc dflt cfg t ms = Some (ft, ps) ->
    ft = eff_topic dflt cfg
    /\ Forall2 (fun m p => forall src em cd pb, payload em = p ->
         let r := run json_dec atoi itoa rk (CForwarder ab) (Inp src em cd pb) in
         pubs (snd r) = [(t, [m], Unsettled)] /\ (fst r = Acked <-> pb = PubAccept)) ms ps.
  Proof.
    intros Hok H.
    destruct (forward_end_to_end json_enc json_dec san_id atoi itoa rk san_id_zero dflt cfg t ms ft ps ab
                (fun m Hin => json_codec_ok _ (Hok m Hin)) H) as [Hft HF].
    split; [exact Hft|]. clear H Hft.
    assert (Hok' : Forall (fun m => json_ok (mk_env t m)) ms) by (apply Forall_forall; exact Hok).
    clear Hok. induction HF as [|m p ms ps Hmp HF IH]; [constructor|].
    inversion Hok' as [|? ? Hm Hrest]; subst. constructor; [|now apply IH].
    intros src em cd pb Hp. destruct (Hmp src em cd pb Hp) as (_ & Hack & Hex). cbv zeta. split; [|exact Hack].
    apply Hex; [reflexivity | apply (json_ok_wf (mk_env t m) Hm) |].
    split; [reflexivity|]. intros k v _. split; reflexivity.
  Qed.

  (** outside valid UTF-8 the JSON text does not determine the message (C16: escaping is not
      injective): two different messages get the same envelope, so no decoder restores both *)
  Hypothesis str_zero : str_of 0 = [].

  Lemma conc_mk t u : conc_env (mk_env t (Msg u 0 None)) = Value.Codec.Env (str_of t) (str_of u) None None.
  Proof. reflexivity. Qed.

  Lemma json_not_injective :
    exists t m1 m2 p, m1 <> m2 /\ wrap json_enc t m1 = Some p /\ wrap json_enc t m2 = Some p
      /\ forall (dec : N -> option envelope) em, payload em = p ->
           ~ (unwrap dec em = Some (t, m1) /\ unwrap dec em = Some (t, m2)).
  Proof.
    destruct Value.JsonProofs.escape_not_injective as (s1 & s2 & Hne & Henc).
    set (t := id_of [116]).
    assert (Ht : t <> 0).
    { intros H. assert (H0 : str_of t = str_of 0) by now rewrite H.
      unfold t in H0. rewrite str_id, str_zero in H0. discriminate. }
    exists t, (Msg (id_of s1) 0 None), (Msg (id_of s2) 0 None), (json_enc (mk_env t (Msg (id_of s1) 0 None))).
    split. { intros H. inversion H as [H1]. apply id_of_inj in H1. contradiction. }
    unfold wrap, env_valid. simpl e_topic. destruct (t =? 0) eqn:E; [apply N.eqb_eq in E; contradiction|].
    simpl negb. cbv iota. split; [reflexivity|]. split.
    - f_equal. unfold JsonCodec.json_enc. rewrite !conc_mk, !str_id. f_equal. f_equal.
      unfold Value.Json.env_members.
      cbn [Value.Codec.e_dest Value.Codec.e_uuid Value.Codec.e_payload Value.Codec.e_meta].
      rewrite Henc. reflexivity.
    - intros dec em _ [H1 H2]. rewrite H1 in H2. inversion H2 as [H0]. apply id_of_inj in H0. contradiction.
  Qed.
End JsonCodec.
